#!/bin/bash
# builds /verif/bin/qedlint offline from the module cache
cd "$(dirname "$0")/qedlint" || exit 2
export GOFLAGS=-mod=mod GOPROXY=off GOSUMDB=off GOTOOLCHAIN=local GOWORK=off
mkdir -p ../bin ../evidence
go build -o ../bin/qedlint . && echo "built /verif/bin/qedlint"
