#!/usr/bin/env python3
"""Prints the 'rules as implemented' table (markdown) from the evidence files written by the last run."""
import json, glob
for f in sorted(glob.glob('/verif/evidence/C*.json')):
    d = json.load(open(f)); cov = d['coverage']
    print("\n**%s** — %d obligations on the current tree, %d discharged%s\n" % (d['property_id'], cov['obligations'], cov['discharged'],
          (", %d known finding(s)" % len(cov['known_findings_matched'])) if cov['known_findings_matched'] else ""))
    print("| rule | instances (floor) | decides |")
    print("|------|-------------------|---------|")
    counts = {}
    for s in cov['samples']: counts[s['rule']] = counts.get(s['rule'], 0) + 1
    def key(r):
        return int(r.split('.R')[1])
    for r in sorted(cov['rules'], key=key):
        print("| %s | %d (%d) | %s |" % (r, counts.get(r, 0), cov['instance_floors'].get(r, 0), cov['rules'][r].replace('|', '\\|')))
