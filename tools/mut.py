#!/usr/bin/env python3
"""ad-hoc overlay mutation:  mut.py PROP FILE OLD NEW [--add NAME KIND EXPECT[,EXPECT]]
Runs qedlint on /repo with FILE's single occurrence of OLD replaced by NEW (in memory, through an overlay).
With --add, also appends the variant to /verif/variants/PROP.jsonl."""
import sys, os, subprocess, tempfile, json
prop, rel, old, new = sys.argv[1:5]
src = open('/repo/'+rel).read()
n = src.count(old)
if n != 1:
    print("pattern occurs %d times" % n); sys.exit(3)
with tempfile.NamedTemporaryFile('w', suffix='.go', delete=False) as f:
    f.write(src.replace(old, new)); tf = f.name
try:
    r = subprocess.run(['/verif/bin/qedlint','-prop',prop,'-noevidence','-overlay','/repo/'+rel+'='+tf], capture_output=True, text=True)
    out = [l for l in r.stdout.splitlines() if l.startswith('FAIL') or 'CHECKER-ERROR' in l]
    print("exit", r.returncode)
    for l in out: print(l[:600])
finally:
    os.unlink(tf)
if '--add' in sys.argv:
    i = sys.argv.index('--add')
    name, kind = sys.argv[i+1], sys.argv[i+2]
    expect = sys.argv[i+3].split(',') if len(sys.argv) > i+3 and sys.argv[i+3] else []
    rec = {"name": name, "kind": kind, "file": rel, "old": old, "new": new, "expect": expect}
    with open('/verif/variants/%s.jsonl' % prop, 'a') as f:
        f.write(json.dumps(rec) + "\n")
    print("added variant", name)
