#!/usr/bin/env python3
"""Runs seeded mutants against checks without touching /repo (patched copies are handed to qedlint as overlays).
usage: matrix.py [PROP ...]         mutants of these properties (default: all), each against its own property's check
       matrix.py --src DIR ...      take mutants from DIR/<PROP>/_out/m<k>.diff instead of /verif/seeded
       matrix.py --props C01,C10 ID run mutant ID (e.g. C01-m3) against several checks"""
import sys, os, subprocess, tempfile, shutil, json, re, glob
from concurrent.futures import ThreadPoolExecutor

def mutants(src):
    out = []
    if src and src.startswith('/tmp/rf'):
        for d in sorted(glob.glob(src + '/G*/_out/C*_r*.diff')):
            b = os.path.basename(d)[:-5]
            out.append((b, ('all' if b.startswith('ALL_') else b.split('_')[0]), d))
        return out
    if src == 'refactors':
        for d in sorted(glob.glob('/verif/refactors/*/patch.diff')):
            b = d.split('/')[-2]
            out.append((b, ('all' if b.startswith('ALL_') else b.split('_')[0]), d))
        return out
    if src == 'regressions':
        for d in sorted(glob.glob('/verif/regressions/*/patch.diff')):
            mid = d.split('/')[-2]
            meta = json.load(open(os.path.dirname(d) + '/meta.json'))
            for p in meta['must_be_reported_by']:
                out.append((mid, p, d))
        return out
    if src:
        for d in sorted(glob.glob(src + '/C*/_out/m*.diff')):
            prop = d.split('/')[-3]; k = re.search(r'm(\d+)\.diff', d).group(1)
            out.append((prop + '-m' + k, prop, d))
    else:
        for d in sorted(glob.glob('/verif/seeded/*/patch.diff') + glob.glob('/verif/seeded-unexecuted/*/patch.diff')):
            mid = d.split('/')[-2]
            out.append((mid, mid.split('-')[0], d))
    return out

def run(mid, prop, diff, props):
    tmp = tempfile.mkdtemp(prefix='mx-')
    try:
        text = open(diff).read()
        files = re.findall(r'^\+\+\+ b/(\S+)', text, re.M)
        deleted = re.findall(r'^--- a/(\S+)\n\+\+\+ /dev/null', text, re.M)
        for f in files + deleted:
            os.makedirs(os.path.dirname(os.path.join(tmp, f)), exist_ok=True)
            if os.path.exists('/repo/' + f):
                shutil.copy('/repo/' + f, os.path.join(tmp, f))
        r = subprocess.run(['patch', '-p1', '-s', '-d', tmp, '-i', diff], capture_output=True, text=True)
        if r.returncode != 0:
            return mid, {p: 'PATCH-FAILS' for p in props}
        for f in deleted:
            # a deleted file: the overlay cannot remove it, an empty file of the same package is equivalent
            pk = re.search(r'^package\s+(\w+)', open('/repo/' + f).read(), re.M).group(1)
            open(os.path.join(tmp, f), 'w').write('package %s\n' % pk)
        ov = ','.join('/repo/%s=%s' % (f, os.path.join(tmp, f)) for f in files + deleted)
        res = {}
        for p in props:
            r = subprocess.run([os.environ.get('QEDLINT','/verif/bin/qedlint'), '-prop', p, '-noevidence', '-overlay', ov], capture_output=True, text=True)
            fired = sorted(set(l.split()[1] for l in r.stdout.splitlines() if l.startswith('FAIL')))
            if r.returncode == 2:
                res[p] = 'CHECKER-ERROR ' + ' '.join(l for l in r.stdout.splitlines() if 'CHECKER-ERROR' in l)[:200]
            elif fired:
                res[p] = 'DETECTED ' + ','.join(fired)
            else:
                res[p] = 'missed'
        return mid, res
    finally:
        shutil.rmtree(tmp, ignore_errors=True)

args = sys.argv[1:]
src = None; props_override = None
if '--src' in args:
    i = args.index('--src'); src = args[i+1]; del args[i:i+2]
if '--props' in args:
    i = args.index('--props'); props_override = args[i+1].split(','); del args[i:i+2]
ms = mutants(src)
if args:
    ms = [m for m in ms if m[1] in args or m[0] in args]
with ThreadPoolExecutor(5) as ex:
    futs = [ex.submit(run, mid, prop, diff, props_override or [prop]) for mid, prop, diff in ms]
    for f in futs:
        mid, res = f.result()
        for p, v in res.items():
            print("%-8s vs %-4s %s" % (mid, p, v))
