#!/usr/bin/env python3
"""Runs every kept seeded mutant against its own property's check (overlay, /repo untouched),
writes /verif/seeded/MATRIX.txt and records the firing rules in each meta.json (detected_by)."""
import subprocess, json, os, re
out = subprocess.run(['python3', '/verif/tools/matrix.py'], capture_output=True, text=True).stdout
lines = []
for l in out.splitlines():
    m = re.match(r'(\S+)\s+vs (\S+)\s+(.*)', l)
    if not m:
        continue
    mid, prop, res = m.groups()
    lines.append(l.rstrip())
    for base in ('/verif/seeded/', '/verif/seeded-unexecuted/'):
        mf = base + mid + '/meta.json'
        if os.path.exists(mf):
            meta = json.load(open(mf))
            meta['detected_by'] = res.split()[1].split(',') if res.startswith('DETECTED') else []
            meta['expected_by_static_check'] = 'detected' if res.startswith('DETECTED') else 'missed'
            json.dump(meta, open(mf, 'w'), indent=1)
open('/verif/seeded/MATRIX.txt', 'w').write('\n'.join(lines) + '\n')
print('\n'.join(lines))
