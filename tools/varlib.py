"""helpers to try overlay variants and record them in /verif/variants/<prop>.jsonl"""
import os, subprocess, tempfile, json
from concurrent.futures import ThreadPoolExecutor

def run(prop, edits):
    """edits: list of (relfile, old, new). returns (exitcode, [FAIL lines])"""
    contents = {}
    for rel, old, new in edits:
        src = contents.get(rel) or open('/repo/'+rel).read()
        if src.count(old) != 1:
            return (3, ["pattern occurs %d times in %s: %r" % (src.count(old), rel, old[:60])])
        contents[rel] = src.replace(old, new)
    tfs = []
    try:
        pairs = []
        for rel, src in contents.items():
            f = tempfile.NamedTemporaryFile('w', suffix='.go', delete=False)
            f.write(src); f.close(); tfs.append(f.name)
            pairs.append('/repo/'+rel+'='+f.name)
        r = subprocess.run(['/verif/bin/qedlint','-prop',prop,'-noevidence','-overlay',','.join(pairs)], capture_output=True, text=True)
        out = [l for l in r.stdout.splitlines() if l.startswith('FAIL') or 'CHECKER-ERROR' in l]
        return (r.returncode, out)
    finally:
        for t in tfs: os.unlink(t)

def try_all(prop, variants, record=True, width=300):
    """variants: list of dicts(name, kind, file, old, new, expect=[...], edits=[(file,old,new),...])"""
    def one(v):
        edits = [(v['file'], v['old'], v['new'])] + [tuple(e) for e in v.get('edits', [])]
        return v, run(prop, edits)
    with ThreadPoolExecutor(5) as ex:
        results = list(ex.map(one, variants))
    existing = set()
    path = '/verif/variants/%s.jsonl' % prop
    if os.path.exists(path):
        for l in open(path):
            if l.strip(): existing.add(json.loads(l)['name'])
    for v, (rc, out) in results:
        fired = sorted(set(l.split()[1] for l in out if l.startswith('FAIL')))
        if v['kind'] == 'breaking':
            exp = v.get('expect', [])
            ok = rc == 1 and (not exp or any(f == prop+'.'+e for f in fired for e in exp))
        else:
            ok = rc == 0
        print("%s %-9s %-40s rc=%d fired=%s" % ("ok  " if ok else "BAD ", v['kind'], v['name'], rc, ",".join(fired)))
        if not ok or os.environ.get('V'):
            for l in out[:6]: print("      ", l[:width])
        if ok and record and v['name'] not in existing:
            rec = {"name": v['name'], "kind": v['kind'], "file": v['file'], "old": v['old'], "new": v['new'], "expect": v.get('expect', [])}
            if v.get('edits'): rec['edits'] = [{"file": e[0], "old": e[1], "new": e[2]} for e in v['edits']]
            if v.get('note'): rec['note'] = v['note']
            with open(path, 'a') as f: f.write(json.dumps(rec) + "\n")
