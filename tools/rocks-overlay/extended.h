/*
   Copyright 2018-2019 Banco Bilbao Vizcaya Argentaria, S.A.

   Licensed under the Apache License, Version 2.0 (the "License");
   you may not use this file except in compliance with the License.
   You may obtain a copy of the License at

       http://www.apache.org/licenses/LICENSE-2.0

   Unless required by applicable law or agreed to in writing, software
   distributed under the License is distributed on an "AS IS" BASIS,
   WITHOUT WARRANTIES OR CONDITIONS OF ANY KIND, either express or implied.
   See the License for the specific language governing permissions and
   limitations under the License.
*/

/*

    C bindings for missing rocksdb features

*/

#pragma once

#ifndef ROCKSDB_EXTENDED_H
#define ROCKSDB_EXTENDED_H

#ifdef __cplusplus
extern "C" {
#endif

#include "rocksdb/c.h"
#include <stdint.h>

/* compat shims for newer librocksdb */
static inline void rocksdb_block_based_options_set_hash_index_allow_collision(
    rocksdb_block_based_table_options_t* o, unsigned char v) { (void)o; (void)v; }

/* Exported types */

typedef struct rocksdb_writebatch_handler_t rocksdb_writebatch_handler_t;
typedef struct rocksdb_statistics_t rocksdb_statistics_t;
typedef struct rocksdb_histogram_data_t rocksdb_histogram_data_t;


/* DB operations */ 

extern rocksdb_statistics_t* rocksdb_create_statistics();

extern void rocksdb_options_set_atomic_flush(
    rocksdb_options_t*, unsigned char);

extern void rocksdb_options_set_statistics(
    rocksdb_options_t* opts, 
    rocksdb_statistics_t* stats);

/* Cache */

extern rocksdb_cache_t* rocksdb_cache_create_lru_with_ratio(
    size_t capacity, double hi_pri_pool_ratio);

/* Slice Transform */

extern void rocksdb_destruct_handler(void* state);

extern rocksdb_slicetransform_t* rocksdb_slicetransform_create_ext(uintptr_t idx);

/* Backup */
extern void rocksdb_backup_engine_create_new_backup_with_metadata(
    rocksdb_backup_engine_t* be, rocksdb_t* db, char* app_metadata, char** errptr);

extern char* rocksdb_backup_engine_info_metadata(
    const rocksdb_backup_engine_info_t* info, int index);

extern void qed_backup_engine_restore_db_from_backup(
    rocksdb_backup_engine_t* be, uint32_t backupID, const char* db_dir, const char* wal_dir,
    const rocksdb_restore_options_t* restore_options, char** errptr);

extern void rocksdb_backup_engine_delete_backup(
    rocksdb_backup_engine_t* be, uint32_t backupID, char** errptr);

/* WriteBatch handler */ 
extern rocksdb_writebatch_handler_t* rocksdb_writebatch_handler_create(
    void* state,
    void (*destructor)(void*),
    void (*log_data)(void*, const char* blob, size_t length));

extern rocksdb_writebatch_handler_t* rocksdb_writebatch_handler_create_ext(const char* idx);

extern void rocksdb_writebatch_handler_destroy(rocksdb_writebatch_handler_t*);

extern void rocksdb_writebatch_iterate_ext(
    rocksdb_writebatch_t* b, 
    rocksdb_writebatch_handler_t* h);


/* Statistics */

typedef enum {
    // total block cache misses
    // REQUIRES: BLOCK_CACHE_MISS == BLOCK_CACHE_INDEX_MISS +
    //                               BLOCK_CACHE_FILTER_MISS +
    //                               BLOCK_CACHE_DATA_MISS;
    BLOCK_CACHE_MISS = 0,
    // total block cache hit
    // REQUIRES: BLOCK_CACHE_HIT == BLOCK_CACHE_INDEX_HIT +
    //                              BLOCK_CACHE_FILTER_HIT +
    //                              BLOCK_CACHE_DATA_HIT;
    BLOCK_CACHE_HIT,
    // # of blocks added to block cache.
    BLOCK_CACHE_ADD,
    // # of failures when adding blocks to block cache.
    BLOCK_CACHE_ADD_FAILURES,
    // # of times cache miss when accessing index block from block cache.
    BLOCK_CACHE_INDEX_MISS,
    // # of times cache hit when accessing index block from block cache.
    BLOCK_CACHE_INDEX_HIT,
    // # of index blocks added to block cache.
    BLOCK_CACHE_INDEX_ADD,
    // # of bytes of index blocks inserted into cache
    BLOCK_CACHE_INDEX_BYTES_INSERT,
    // # of bytes of index block erased from cache
    BLOCK_CACHE_INDEX_BYTES_EVICT,
    // # of times cache miss when accessing filter block from block cache.
    BLOCK_CACHE_FILTER_MISS,
    // # of times cache hit when accessing filter block from block cache.
    BLOCK_CACHE_FILTER_HIT,
    // # of filter blocks added to block cache.
    BLOCK_CACHE_FILTER_ADD,
    // # of bytes of bloom filter blocks inserted into cache
    BLOCK_CACHE_FILTER_BYTES_INSERT,
    // # of bytes of bloom filter block erased from cache
    BLOCK_CACHE_FILTER_BYTES_EVICT,
    // # of times cache miss when accessing data block from block cache.
    BLOCK_CACHE_DATA_MISS,
    // # of times cache hit when accessing data block from block cache.
    BLOCK_CACHE_DATA_HIT,
    // # of data blocks added to block cache.
    BLOCK_CACHE_DATA_ADD,
    // # of bytes of data blocks inserted into cache
    BLOCK_CACHE_DATA_BYTES_INSERT,
    // # of bytes read from cache.
    BLOCK_CACHE_BYTES_READ,
    // # of bytes written into cache.
    BLOCK_CACHE_BYTES_WRITE,

    // # of times bloom filter has avoided file reads, i.e., negatives.
    BLOOM_FILTER_USEFUL,
    // # of times bloom FullFilter has not avoided the reads.
    BLOOM_FILTER_FULL_POSITIVE,
    // # of times bloom FullFilter has not avoided the reads and data actually
    // exist.
    BLOOM_FILTER_FULL_TRUE_POSITIVE,

    // # persistent cache hit
    PERSISTENT_CACHE_HIT,
    // # persistent cache miss
    PERSISTENT_CACHE_MISS,

    // # total simulation block cache hits
    SIM_BLOCK_CACHE_HIT,
    // # total simulation block cache misses
    SIM_BLOCK_CACHE_MISS,

    // # of memtable hits.
    MEMTABLE_HIT,
    // # of memtable misses.
    MEMTABLE_MISS,

    // # of Get() queries served by L0
    GET_HIT_L0,
    // # of Get() queries served by L1
    GET_HIT_L1,
    // # of Get() queries served by L2 and up
    GET_HIT_L2_AND_UP,

    /**
     * COMPACTION_KEY_DROP_* count the reasons for key drop during compaction
     * There are 4 reasons currently.
     */
    COMPACTION_KEY_DROP_NEWER_ENTRY,  // key was written with a newer value.
                                        // Also includes keys dropped for range del.
    COMPACTION_KEY_DROP_OBSOLETE,     // The key is obsolete.
    COMPACTION_KEY_DROP_RANGE_DEL,    // key was covered by a range tombstone.
    COMPACTION_KEY_DROP_USER,  // user compaction function has dropped the key.
    COMPACTION_RANGE_DEL_DROP_OBSOLETE,  // all keys in range were deleted.
    // Deletions obsoleted before bottom level due to file gap optimization.
    COMPACTION_OPTIMIZED_DEL_DROP_OBSOLETE,
    // If a compaction was cancelled in sfm to prevent ENOSPC
    COMPACTION_CANCELLED,

    // Number of keys written to the database via the Put and Write call's
    NUMBER_KEYS_WRITTEN,
    // Number of Keys read,
    NUMBER_KEYS_READ,
    // Number keys updated, if inplace update is enabled
    NUMBER_KEYS_UPDATED,
    // The number of uncompressed bytes issued by DB::Put(), DB::Delete(),
    // DB::Merge(), and DB::Write().
    BYTES_WRITTEN,
    // The number of uncompressed bytes read from DB::Get().  It could be
    // either from memtables, cache, or table files.
    // For the number of logical bytes read from DB::MultiGet(),
    // please use NUMBER_MULTIGET_BYTES_READ.
    BYTES_READ,
    // The number of calls to seek/next/prev
    NUMBER_DB_SEEK,
    NUMBER_DB_NEXT,
    NUMBER_DB_PREV,
    // The number of calls to seek/next/prev that returned data
    NUMBER_DB_SEEK_FOUND,
    NUMBER_DB_NEXT_FOUND,
    NUMBER_DB_PREV_FOUND,
    // The number of uncompressed bytes read from an iterator.
    // Includes size of key and value.
    ITER_BYTES_READ,
    NO_FILE_CLOSES,
    NO_FILE_OPENS,
    NO_FILE_ERRORS,
    // DEPRECATED Time system had to wait to do LO-L1 compactions
    STALL_L0_SLOWDOWN_MICROS,
    // DEPRECATED Time system had to wait to move memtable to L1.
    STALL_MEMTABLE_COMPACTION_MICROS,
    // DEPRECATED write throttle because of too many files in L0
    STALL_L0_NUM_FILES_MICROS,
    // Writer has to wait for compaction or flush to finish.
    STALL_MICROS,
    // The wait time for db mutex.
    // Disabled by default. To enable it set stats level to kAll
    DB_MUTEX_WAIT_MICROS,
    RATE_LIMIT_DELAY_MILLIS,
    // DEPRECATED number of iterators currently open
    NO_ITERATORS,

    // Number of MultiGet calls, keys read, and bytes read
    NUMBER_MULTIGET_CALLS,
    NUMBER_MULTIGET_KEYS_READ,
    NUMBER_MULTIGET_BYTES_READ,

    // Number of deletes records that were not required to be
    // written to storage because key does not exist
    NUMBER_FILTERED_DELETES,
    NUMBER_MERGE_FAILURES,

    // number of times bloom was checked before creating iterator on a
    // file, and the number of times the check was useful in avoiding
    // iterator creation (and thus likely IOPs).
    BLOOM_FILTER_PREFIX_CHECKED,
    BLOOM_FILTER_PREFIX_USEFUL,

    // Number of times we had to reseek inside an iteration to skip
    // over large number of keys with same userkey.
    NUMBER_OF_RESEEKS_IN_ITERATION,

    // Record the number of calls to GetUpadtesSince. Useful to keep track of
    // transaction log iterator refreshes
    GET_UPDATES_SINCE_CALLS,
    BLOCK_CACHE_COMPRESSED_MISS,  // miss in the compressed block cache
    BLOCK_CACHE_COMPRESSED_HIT,   // hit in the compressed block cache
    // Number of blocks added to compressed block cache
    BLOCK_CACHE_COMPRESSED_ADD,
    // Number of failures when adding blocks to compressed block cache
    BLOCK_CACHE_COMPRESSED_ADD_FAILURES,
    WAL_FILE_SYNCED,  // Number of times WAL sync is done
    WAL_FILE_BYTES,   // Number of bytes written to WAL

    // Writes can be processed by requesting thread or by the thread at the
    // head of the writers queue.
    WRITE_DONE_BY_SELF,
    WRITE_DONE_BY_OTHER,  // Equivalent to writes done for others
    WRITE_TIMEDOUT,       // Number of writes ending up with timed-out.
    WRITE_WITH_WAL,       // Number of Write calls that request WAL
    COMPACT_READ_BYTES,   // Bytes read during compaction
    COMPACT_WRITE_BYTES,  // Bytes written during compaction
    FLUSH_WRITE_BYTES,    // Bytes written during flush

    // Number of table's properties loaded directly from file, without creating
    // table reader object.
    NUMBER_DIRECT_LOAD_TABLE_PROPERTIES,
    NUMBER_SUPERVERSION_ACQUIRES,
    NUMBER_SUPERVERSION_RELEASES,
    NUMBER_SUPERVERSION_CLEANUPS,

    // # of compressions/decompressions executed
    NUMBER_BLOCK_COMPRESSED,
    NUMBER_BLOCK_DECOMPRESSED,

    NUMBER_BLOCK_NOT_COMPRESSED,
    MERGE_OPERATION_TOTAL_TIME,
    FILTER_OPERATION_TOTAL_TIME,

    // Row cache.
    ROW_CACHE_HIT,
    ROW_CACHE_MISS,

    // Read amplification statistics.
    // Read amplification can be calculated using this formula
    // (READ_AMP_TOTAL_READ_BYTES / READ_AMP_ESTIMATE_USEFUL_BYTES)
    //
    // REQUIRES: ReadOptions::read_amp_bytes_per_bit to be enabled
    READ_AMP_ESTIMATE_USEFUL_BYTES,  // Estimate of total bytes actually used.
    READ_AMP_TOTAL_READ_BYTES,       // Total size of loaded data blocks.

    // Number of refill intervals where rate limiter's bytes are fully consumed.
    NUMBER_RATE_LIMITER_DRAINS,

    // Number of internal keys skipped by Iterator
    NUMBER_ITER_SKIP,

    // BlobDB specific stats
    // # of Put/PutTTL/PutUntil to BlobDB.
    BLOB_DB_NUM_PUT,
    // # of Write to BlobDB.
    BLOB_DB_NUM_WRITE,
    // # of Get to BlobDB.
    BLOB_DB_NUM_GET,
    // # of MultiGet to BlobDB.
    BLOB_DB_NUM_MULTIGET,
    // # of Seek/SeekToFirst/SeekToLast/SeekForPrev to BlobDB iterator.
    BLOB_DB_NUM_SEEK,
    // # of Next to BlobDB iterator.
    BLOB_DB_NUM_NEXT,
    // # of Prev to BlobDB iterator.
    BLOB_DB_NUM_PREV,
    // # of keys written to BlobDB.
    BLOB_DB_NUM_KEYS_WRITTEN,
    // # of keys read from BlobDB.
    BLOB_DB_NUM_KEYS_READ,
    // # of bytes (key + value) written to BlobDB.
    BLOB_DB_BYTES_WRITTEN,
    // # of bytes (keys + value) read from BlobDB.
    BLOB_DB_BYTES_READ,
    // # of keys written by BlobDB as non-TTL inlined value.
    BLOB_DB_WRITE_INLINED,
    // # of keys written by BlobDB as TTL inlined value.
    BLOB_DB_WRITE_INLINED_TTL,
    // # of keys written by BlobDB as non-TTL blob value.
    BLOB_DB_WRITE_BLOB,
    // # of keys written by BlobDB as TTL blob value.
    BLOB_DB_WRITE_BLOB_TTL,
    // # of bytes written to blob file.
    BLOB_DB_BLOB_FILE_BYTES_WRITTEN,
    // # of bytes read from blob file.
    BLOB_DB_BLOB_FILE_BYTES_READ,
    // # of times a blob files being synced.
    BLOB_DB_BLOB_FILE_SYNCED,
    // # of blob index evicted from base DB by BlobDB compaction filter because
    // of expiration.
    BLOB_DB_BLOB_INDEX_EXPIRED_COUNT,
    // size of blob index evicted from base DB by BlobDB compaction filter
    // because of expiration.
    BLOB_DB_BLOB_INDEX_EXPIRED_SIZE,
    // # of blob index evicted from base DB by BlobDB compaction filter because
    // of corresponding file deleted.
    BLOB_DB_BLOB_INDEX_EVICTED_COUNT,
    // size of blob index evicted from base DB by BlobDB compaction filter
    // because of corresponding file deleted.
    BLOB_DB_BLOB_INDEX_EVICTED_SIZE,
    // # of blob files being garbage collected.
    BLOB_DB_GC_NUM_FILES,
    // # of blob files generated by garbage collection.
    BLOB_DB_GC_NUM_NEW_FILES,
    // # of BlobDB garbage collection failures.
    BLOB_DB_GC_FAILURES,
    // # of keys drop by BlobDB garbage collection because they had been
    // overwritten.
    BLOB_DB_GC_NUM_KEYS_OVERWRITTEN,
    // # of keys drop by BlobDB garbage collection because of expiration.
    BLOB_DB_GC_NUM_KEYS_EXPIRED,
    // # of keys relocated to new blob file by garbage collection.
    BLOB_DB_GC_NUM_KEYS_RELOCATED,
    // # of bytes drop by BlobDB garbage collection because they had been
    // overwritten.
    BLOB_DB_GC_BYTES_OVERWRITTEN,
    // # of bytes drop by BlobDB garbage collection because of expiration.
    BLOB_DB_GC_BYTES_EXPIRED,
    // # of bytes relocated to new blob file by garbage collection.
    BLOB_DB_GC_BYTES_RELOCATED,
    // # of blob files evicted because of BlobDB is full.
    BLOB_DB_FIFO_NUM_FILES_EVICTED,
    // # of keys in the blob files evicted because of BlobDB is full.
    BLOB_DB_FIFO_NUM_KEYS_EVICTED,
    // # of bytes in the blob files evicted because of BlobDB is full.
    BLOB_DB_FIFO_BYTES_EVICTED,

    // These counters indicate a performance issue in WritePrepared transactions.
    // We should not seem them ticking them much.
    // # of times prepare_mutex_ is acquired in the fast path.
    TXN_PREPARE_MUTEX_OVERHEAD,
    // # of times old_commit_map_mutex_ is acquired in the fast path.
    TXN_OLD_COMMIT_MAP_MUTEX_OVERHEAD,
    // # of times we checked a batch for duplicate keys.
    TXN_DUPLICATE_KEY_OVERHEAD,
    // # of times snapshot_mutex_ is acquired in the fast path.
    TXN_SNAPSHOT_MUTEX_OVERHEAD,

    // Number of keys actually found in MultiGet calls (vs number requested by
    // caller)
    // NUMBER_MULTIGET_KEYS_READ gives the number requested by caller
    NUMBER_MULTIGET_KEYS_FOUND,

    NO_ITERATOR_CREATED,  // number of iterators created
    NO_ITERATOR_DELETED,  // number of iterators deleted

    BLOCK_CACHE_COMPRESSION_DICT_MISS,
    BLOCK_CACHE_COMPRESSION_DICT_HIT,
    BLOCK_CACHE_COMPRESSION_DICT_ADD,
    BLOCK_CACHE_COMPRESSION_DICT_BYTES_INSERT,
    BLOCK_CACHE_COMPRESSION_DICT_BYTES_EVICT,
    TICKER_ENUM_MAX
} rocksdb_tickers_t;

typedef enum {
    /**
     * Keep adding histogram's here.
     * Any histogram should have value less than HISTOGRAM_ENUM_MAX
     * Add a new Histogram by assigning it the current value of HISTOGRAM_ENUM_MAX
     * Add a string representation in HistogramsNameMap below
     * And increment HISTOGRAM_ENUM_MAX
     * Add a corresponding enum value to HistogramType.java in the java API
     */
    DB_GET = 0,
    DB_WRITE,
    COMPACTION_TIME,
    COMPACTION_CPU_TIME,
    SUBCOMPACTION_SETUP_TIME,
    TABLE_SYNC_MICROS,
    COMPACTION_OUTFILE_SYNC_MICROS,
    WAL_FILE_SYNC_MICROS,
    MANIFEST_FILE_SYNC_MICROS,
    // TIME SPENT IN IO DURING TABLE OPEN
    TABLE_OPEN_IO_MICROS,
    DB_MULTIGET,
    READ_BLOCK_COMPACTION_MICROS,
    READ_BLOCK_GET_MICROS,
    WRITE_RAW_BLOCK_MICROS,
    STALL_L0_SLOWDOWN_COUNT,
    STALL_MEMTABLE_COMPACTION_COUNT,
    STALL_L0_NUM_FILES_COUNT,
    HARD_RATE_LIMIT_DELAY_COUNT,
    SOFT_RATE_LIMIT_DELAY_COUNT,
    NUM_FILES_IN_SINGLE_COMPACTION,
    DB_SEEK,
    WRITE_STALL,
    SST_READ_MICROS,
    // The number of subcompactions actually scheduled during a compaction
    NUM_SUBCOMPACTIONS_SCHEDULED,
    // Value size distribution in each operation
    BYTES_PER_READ,
    BYTES_PER_WRITE,
    BYTES_PER_MULTIGET,

    // number of bytes compressed/decompressed
    // number of bytes is when uncompressed; i.e. before/after respectively
    BYTES_COMPRESSED,
    BYTES_DECOMPRESSED,
    COMPRESSION_TIMES_NANOS,
    DECOMPRESSION_TIMES_NANOS,
    // Number of merge operands passed to the merge operator in user read
    // requests.
    READ_NUM_MERGE_OPERANDS,

    // BlobDB specific stats
    // Size of keys written to BlobDB.
    BLOB_DB_KEY_SIZE,
    // Size of values written to BlobDB.
    BLOB_DB_VALUE_SIZE,
    // BlobDB Put/PutWithTTL/PutUntil/Write latency.
    BLOB_DB_WRITE_MICROS,
    // BlobDB Get lagency.
    BLOB_DB_GET_MICROS,
    // BlobDB MultiGet latency.
    BLOB_DB_MULTIGET_MICROS,
    // BlobDB Seek/SeekToFirst/SeekToLast/SeekForPrev latency.
    BLOB_DB_SEEK_MICROS,
    // BlobDB Next latency.
    BLOB_DB_NEXT_MICROS,
    // BlobDB Prev latency.
    BLOB_DB_PREV_MICROS,
    // Blob file write latency.
    BLOB_DB_BLOB_FILE_WRITE_MICROS,
    // Blob file read latency.
    BLOB_DB_BLOB_FILE_READ_MICROS,
    // Blob file sync latency.
    BLOB_DB_BLOB_FILE_SYNC_MICROS,
    // BlobDB garbage collection time.
    BLOB_DB_GC_MICROS,
    // BlobDB compression time.
    BLOB_DB_COMPRESSION_MICROS,
    // BlobDB decompression time.
    BLOB_DB_DECOMPRESSION_MICROS,
    // Time spent flushing memtable to disk
    FLUSH_TIME,

    HISTOGRAM_ENUM_MAX,
} rocksdb_histograms_t;

typedef enum {
    // Disable timer stats, and skip histogram stats
    EXCEPT_HISTOGRAM_OR_TIMERS = 0,
    // Skip timer stats
    EXCEPT_TIMERS,
    // Collect all stats except time inside mutex lock AND time spent on
    // compression.
    EXCEPT_DETAILED_TIMERS,
    // Collect all stats except the counters requiring to get time inside the
    // mutex lock.
    EXCEPT_TIME_FOR_MUTEX,
    // Collect all stats, including measuring duration of mutex operations.
    // If getting time is expensive on the platform to run, it can
    // reduce scalability to more threads, especially for writes.
    ALL
} rocksdb_stats_level_t;

extern rocksdb_stats_level_t rocksdb_statistics_stats_level(
    rocksdb_statistics_t* stats);

extern void rocksdb_statistics_set_stats_level(
    rocksdb_statistics_t* stats,
    rocksdb_stats_level_t level);

extern void rocksdb_statistics_reset(rocksdb_statistics_t* stats);

extern uint64_t rocksdb_statistics_get_ticker_count(
    rocksdb_statistics_t* stats, 
    rocksdb_tickers_t ticker_type);

extern uint64_t rocksdb_statistics_get_and_reset_ticker_count(
    rocksdb_statistics_t* stats, 
    rocksdb_tickers_t ticker_type);

extern void rocksdb_statistics_destroy(rocksdb_statistics_t* stats);

extern void rocksdb_statistics_histogram_data(
    const rocksdb_statistics_t* stats, 
    rocksdb_histograms_t type, 
    const rocksdb_histogram_data_t* data);

extern rocksdb_histogram_data_t* rocksdb_histogram_create_data();

extern double rocksdb_histogram_get_average(rocksdb_histogram_data_t* data);

extern double rocksdb_histogram_get_median(rocksdb_histogram_data_t* data);

extern double rocksdb_histogram_get_percentile95(rocksdb_histogram_data_t* data);

extern double rocksdb_histogram_get_percentile99(rocksdb_histogram_data_t* data);

extern double rocksdb_histogram_get_stdev(rocksdb_histogram_data_t* data);

extern double rocksdb_histogram_get_max(rocksdb_histogram_data_t* data);

extern uint64_t rocksdb_histogram_get_count(rocksdb_histogram_data_t* data);

extern uint64_t rocksdb_histogram_get_sum(rocksdb_histogram_data_t* data);

extern void rocksdb_histogram_data_destroy(rocksdb_histogram_data_t* data);

#ifdef __cplusplus
}
#endif

#endif // ROCKSDB_EXTENDED_H