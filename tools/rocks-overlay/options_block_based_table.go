/*
   Copyright 2018-2019 Banco Bilbao Vizcaya Argentaria, S.A.

   Licensed under the Apache License, Version 2.0 (the "License");
   you may not use this file except in compliance with the License.
   You may obtain a copy of the License at

       http://www.apache.org/licenses/LICENSE-2.0

   Unless required by applicable law or agreed to in writing, software
   distributed under the License is distributed on an "AS IS" BASIS,
   WITHOUT WARRANTIES OR CONDITIONS OF ANY KIND, either express or implied.
   See the License for the specific language governing permissions and
   limitations under the License.
*/

package rocksdb

// #include <rocksdb/c.h>
import "C"

// IndexType specifies the index type that will be used for this table.
type IndexType uint

const (
	// KBinarySearchIndexType is a space efficient index block that is optimized for
	// binary-search-based index.
	KBinarySearchIndexType IndexType = iota
	// KHashSearchIndexType is the hash index, if enabled, will do the hash lookup when
	// `Options.prefix_extractor` is provided.
	KHashSearchIndexType
	// KTwoLevelIndexSearchIndexType is a two-level index implementation. Both
	// levels are binary search indexes.
	KTwoLevelIndexSearchIndexType
)

// BlockBasedTableOptions represents block-based table options.
type BlockBasedTableOptions struct {
	c *C.rocksdb_block_based_table_options_t

	// Hold references for GC.
	cache     *Cache
	cacheComp *Cache

	// We keep these so we can free their memory in Destroy.
	fp *C.rocksdb_filterpolicy_t
}

// NewDefaultBlockBasedTableOptions creates a default BlockBasedTableOptions object.
func NewDefaultBlockBasedTableOptions() *BlockBasedTableOptions {
	return &BlockBasedTableOptions{c: C.rocksdb_block_based_options_create()}
}

// Destroy deallocates the BlockBasedTableOptions object.
func (o *BlockBasedTableOptions) Destroy() {
	//C.rocksdb_filterpolicy_destroy(o.fp)
	C.rocksdb_block_based_options_destroy(o.c)
	o.c = nil
	o.cache = nil
	o.cacheComp = nil
	o.fp = nil
}

// SetCacheIndexAndFilterBlocks is indicating if we'd put index/filter blocks to the block cache.
// If not specified, each "table reader" object will pre-load index/filter
// block during table initialization.
// Default: false
func (o *BlockBasedTableOptions) SetCacheIndexAndFilterBlocks(value bool) {
	C.rocksdb_block_based_options_set_cache_index_and_filter_blocks(o.c, boolToUchar(value))
}

// SetPinL0FilterAndIndexBlocksInCache sets cache_index_and_filter_blocks.
// If is true and the below is true (hash_index_allow_collision), then
// filter and index blocks are stored in the cache, but a reference is
// held in the "table reader" object so the blocks are pinned and only
// evicted from cache when the table reader is freed.
// Default: false
func (o *BlockBasedTableOptions) SetPinL0FilterAndIndexBlocksInCache(value bool) {
	C.rocksdb_block_based_options_set_pin_l0_filter_and_index_blocks_in_cache(o.c, boolToUchar(value))
}

// SetPinTopLevelIndexAndFilterInCache pins top-level indexes.
// Default: false
func (o *BlockBasedTableOptions) SetPinTopLevelIndexAndFilterInCache(value bool) {
	C.rocksdb_block_based_options_set_pin_top_level_index_and_filter(o.c, boolToUchar(value))
}

// SetCacheIndexAndFilterBlocksWithHighPriority priority to high for index and filter blocks
// in block cache. It only affect LRUCache so far, and need to use together with
// high_pri_pool_ratio when calling NewLRUCache(). If the feature is enabled, LRU-list in LRU
// cache will be split into two parts, one for high-pri blocks and one for low-pri blocks.
// Data blocks will be inserted to the head of low-pri pool. Index and filter blocks will be
// inserted to the head of high-pri pool. If the total usage in the high-pri pool exceed
// capacity * high_pri_pool_ratio, the block at the tail of high-pri pool will overflow to the
// head of low-pri pool, after which it will compete against data blocks to stay in cache.
// Eviction will start from the tail of low-pri pool.
func (o *BlockBasedTableOptions) SetCacheIndexAndFilterBlocksWithHighPriority(value bool) {
	C.rocksdb_block_based_options_set_cache_index_and_filter_blocks_with_high_priority(o.c, boolToUchar(value))
}

// SetHashIndexAllowCollision when enabled, prefix hash index for block-based table
// will not store prefix and allow hash collision, reducing memory consumption.
// Default false
func (o *BlockBasedTableOptions) SetHashIndexAllowCollision(value bool) {
	_ = value // not available in newer librocksdb
}

// SetBlockSize sets the approximate size of user data packed per block.
// Note that the block size specified here corresponds to uncompressed data.
// The actual size of the unit read from disk may be smaller if
// compression is enabled. This parameter can be changed dynamically.
// Default: 4K
func (o *BlockBasedTableOptions) SetBlockSize(blockSize int) {
	C.rocksdb_block_based_options_set_block_size(o.c, C.size_t(blockSize))
}

// SetPartitionFilters enables partition index filters.
// With partitioning, the index/filter of a SST file is partitioned into smaller
// blocks with an additional top-level index on them. When reading an index/filter,
// only top-level index is loaded into memory. The partitioned index/filter then uses
// the top-level index to load on demand into the block cache the partitions that are
// required to perform the index/filter query. The top-level index, which has much smaller
// memory footprint, can be stored in heap or block cache depending on the
// SetCacheIndexAndFilterBlocks setting.
// Default: false
func (o *BlockBasedTableOptions) SetPartitionFilters(value bool) {
	C.rocksdb_block_based_options_set_partition_filters(o.c, boolToUchar(value))
}

// SetMetadataBlockSize sets the approximate size of the blocks for index partitions.
// Default: 4K
func (o *BlockBasedTableOptions) SetMetadataBlockSize(blockSize uint64) {
	C.rocksdb_block_based_options_set_metadata_block_size(o.c, C.uint64_t(blockSize))
}

// SetBlockSizeDeviation sets the block size deviation.
// This is used to close a block before it reaches the configured
// 'block_size'. If the percentage of free space in the current block is less
// than this specified number and adding a new record to the block will
// exceed the configured block size, then this block will be closed and the
// new record will be written to the next block.
// Default: 10
func (o *BlockBasedTableOptions) SetBlockSizeDeviation(blockSizeDeviation int) {
	C.rocksdb_block_based_options_set_block_size_deviation(o.c, C.int(blockSizeDeviation))
}

// SetFilterPolicy sets the filter policy to reduce disk reads.
// Many applications will benefit from passing the result of
// NewBloomFilterPolicy() here.
// Default: nil
func (o *BlockBasedTableOptions) SetFilterPolicy(fp *FilterPolicy) {
	C.rocksdb_block_based_options_set_filter_policy(o.c, fp.policy)
	o.fp = fp.policy
}

// SetNoBlockCache specify whether block cache should be used or not.
// Default: false
func (o *BlockBasedTableOptions) SetNoBlockCache(value bool) {
	C.rocksdb_block_based_options_set_no_block_cache(o.c, boolToUchar(value))
}

// SetBlockCache sets the control over blocks (user data is stored in a set of blocks, and
// a block is the unit of reading from disk).
//
// If set, use the specified cache for blocks.
// If nil, rocksdb will automatically create and use an 8MB internal cache.
// Default: nil
func (o *BlockBasedTableOptions) SetBlockCache(cache *Cache) {
	o.cache = cache
	C.rocksdb_block_based_options_set_block_cache(o.c, cache.c)
}

// SetBlockCacheCompressed sets the cache for compressed blocks.
// If nil, rocksdb will not use a compressed block cache.
// Default: nil
func (o *BlockBasedTableOptions) SetBlockCacheCompressed(cache *Cache) {
	o.cacheComp = cache
	C.rocksdb_block_based_options_set_block_cache_compressed(o.c, cache.c)
}

// SetWholeKeyFiltering specify if whole keys in the filter (not just prefixes)
// should be placed.
// This must generally be true for gets opts be efficient.
// Default: true
func (o *BlockBasedTableOptions) SetWholeKeyFiltering(value bool) {
	C.rocksdb_block_based_options_set_whole_key_filtering(o.c, boolToUchar(value))
}

// SetIndexType sets the index type used for this table.
// kBinarySearch:
// A space efficient index block that is optimized for
// binary-search-based index.
//
// kHashSearch:
// The hash index, if enabled, will do the hash lookup when
// `Options.prefix_extractor` is provided.
//
// kTwoLevelIndexSearch:
// A two-level index implementation. Both levels are binary search indexes.
// Default: kBinarySearch
func (o *BlockBasedTableOptions) SetIndexType(value IndexType) {
	C.rocksdb_block_based_options_set_index_type(o.c, C.int(value))
}
