/*
   Copyright 2018-2019 Banco Bilbao Vizcaya Argentaria, S.A.

   Licensed under the Apache License, Version 2.0 (the "License");
   you may not use this file except in compliance with the License.
   You may obtain a copy of the License at

       http://www.apache.org/licenses/LICENSE-2.0

   Unless required by applicable law or agreed to in writing, software
   distributed under the License is distributed on an "AS IS" BASIS,
   WITHOUT WARRANTIES OR CONDITIONS OF ANY KIND, either express or implied.
   See the License for the specific language governing permissions and
   limitations under the License.
*/

package rocksdb

// #include "/tmp/wt2/C16/_out/overlay/extended.h"
import (
	"C"
)

// TickerType is the logical mapping of tickers defined in rocksdb::Tickers.
type TickerType uint32

const (
	// TickerBlockCacheMiss is the total number of block bache misses.
	TickerBlockCacheMiss = TickerType(C.BLOCK_CACHE_MISS)
	// TickerBlockCacheHit is the total number of block bache hits.
	TickerBlockCacheHit = TickerType(C.BLOCK_CACHE_HIT)
	// TickerBlockCacheAdd is the number of blocks added to block cache.
	TickerBlockCacheAdd = TickerType(C.BLOCK_CACHE_ADD)
	// TickerBlockCacheAddFailures is the number of failures when adding blocks to block cache.
	TickerBlockCacheAddFailures = TickerType(C.BLOCK_CACHE_ADD_FAILURES)
	// TickerBlockCacheIndexMiss is the number of cache misses when accessing index block from block cache.
	TickerBlockCacheIndexMiss = TickerType(C.BLOCK_CACHE_INDEX_MISS)
	// TickerBlockCacheIndexHit is the number cache hits when accessing index block from block cache.
	TickerBlockCacheIndexHit = TickerType(C.BLOCK_CACHE_INDEX_HIT)
	// TickerBlockCacheIndexAdd is the number of index blocks added to block cache.
	TickerBlockCacheIndexAdd = TickerType(C.BLOCK_CACHE_INDEX_ADD)
	// TickerBlockCacheIndexBytesInsert is the number of bytes of index blocks inserted into cache.
	TickerBlockCacheIndexBytesInsert = TickerType(C.BLOCK_CACHE_INDEX_BYTES_INSERT)
	// TickerBlockCacheIndexBytesEvict is the number of bytes of index block erased from cache.
	TickerBlockCacheIndexBytesEvict = TickerType(C.BLOCK_CACHE_INDEX_BYTES_EVICT)
	// TickerBlockCacheFilterMiss is the number of times cache misses when accessing filter block from block cache.
	TickerBlockCacheFilterMiss = TickerType(C.BLOCK_CACHE_FILTER_MISS)
	// TickerBlockCacheFilterHit is the number of times cache hits when accessing filter block from block cache.
	TickerBlockCacheFilterHit = TickerType(C.BLOCK_CACHE_FILTER_HIT)
	// TickerBlockCacheFilterAdd is the number of filter blocks added to block cache.
	TickerBlockCacheFilterAdd = TickerType(C.BLOCK_CACHE_FILTER_ADD)
	// TickerBlockCacheFilterBytesInsert is the number of bytes of bloom filter blocks inserted into cache.
	TickerBlockCacheFilterBytesInsert = TickerType(C.BLOCK_CACHE_FILTER_BYTES_INSERT)
	// TickerBlockCacheFilterBytesEvict is the number of bytes of bloom filter block erased from cache.
	TickerBlockCacheFilterBytesEvict = TickerType(C.BLOCK_CACHE_FILTER_BYTES_EVICT)
	// TickerBlockCacheDataMiss is the number of times cache misses when accessing data block from block cache.
	TickerBlockCacheDataMiss = TickerType(C.BLOCK_CACHE_DATA_MISS)
	// TickerBlockCacheDataHit is the number of times cache hits when accessing data block from block cache.
	TickerBlockCacheDataHit = TickerType(C.BLOCK_CACHE_DATA_HIT)
	// TickerBlockCacheDataAdd is the number of data blocks added to block cache.
	TickerBlockCacheDataAdd = TickerType(C.BLOCK_CACHE_DATA_ADD)
	// TickerBlockCacheDataBytesInsert is the number of bytes of data blocks inserted into cache.
	TickerBlockCacheDataBytesInsert = TickerType(C.BLOCK_CACHE_DATA_BYTES_INSERT)
	// TickerBlockCacheBytesRead is the number of bytes read from cache.
	TickerBlockCacheBytesRead = TickerType(C.BLOCK_CACHE_BYTES_READ)
	// TickerBlockCacheBytesWrite is the number of bytes written into cache.
	TickerBlockCacheBytesWrite = TickerType(C.BLOCK_CACHE_BYTES_WRITE)

	// TickerBloomFilterUseful is the number of times bloom filter has avoided file reads, i.e., negatives.
	TickerBloomFilterUseful = TickerType(C.BLOOM_FILTER_USEFUL)
	// TickerBloomFilterFullPositive is the number of times bloom FullFilter has not avoided the reads.
	TickerBloomFilterFullPositive = TickerType(C.BLOOM_FILTER_FULL_POSITIVE)
	// TickerBloomFilterFullTruePositive is the number of times bloom FullFilter has not avoided the reads and
	// data actually exist.
	TickerBloomFilterFullTruePositive = TickerType(C.BLOOM_FILTER_FULL_TRUE_POSITIVE)

	// TickerMemtableHit is the number of memtable hits.
	TickerMemtableHit = TickerType(C.MEMTABLE_HIT)
	// TickerMemtableMiss is the number of memtable misses.
	TickerMemtableMiss = TickerType(C.MEMTABLE_MISS)

	// TickerGetHitL0 is the number of Get() queries served by L0.
	TickerGetHitL0 = TickerType(C.GET_HIT_L0)
	// TickerGetHitL1 is the number of Get() queries served by L1.
	TickerGetHitL1 = TickerType(C.GET_HIT_L1)
	// TickerGetHitL2AndUp is the number of Get() queries served by L2 and up.
	TickerGetHitL2AndUp = TickerType(C.GET_HIT_L2_AND_UP)

	// TickerNumberKeysWritten is the number of keys written to the database via the Put and Write call's.
	TickerNumberKeysWritten = TickerType(C.NUMBER_KEYS_WRITTEN)
	// TickerNumberKeysRead is the number of Keys read.
	TickerNumberKeysRead = TickerType(C.NUMBER_KEYS_READ)
	// TickerNumberKeysUpdated is the number keys updated, if inplace update is enabled.
	TickerNumberKeysUpdated = TickerType(C.NUMBER_KEYS_UPDATED)
	// TickerBytesWritten is the number of uncompressed bytes issued by db.Put(),
	// db.Delete(), db.Merge(), and db.Write().
	TickerBytesWritten = TickerType(C.BYTES_WRITTEN)
	// TickerBytesRead is the number of uncompressed bytes read from db.Get().
	// It could be either from memtables, cache, or table files.
	// For the number of logical bytes read from db.MultiGet(),
	// please use NumberMultiGetBytesRead.
	TickerBytesRead = TickerType(C.BYTES_READ)
	// TickerStallMicros is the number of microseconds the writer has to wait for
	// compaction or flush to finish.
	TickerStallMicros = TickerType(C.STALL_MICROS)

	// TickerBlockCacheCompressedMiss is the number of misses in the compressed block cache.
	TickerBlockCacheCompressedMiss = TickerType(C.BLOCK_CACHE_COMPRESSED_MISS)
	// TickerBlockCacheCompressedHit is the number of hits in the compressed block cache.
	TickerBlockCacheCompressedHit = TickerType(C.BLOCK_CACHE_COMPRESSED_HIT)
	// TickerBlockCacheCompressedAdd is the number of blocks added to compressed block cache.
	TickerBlockCacheCompressedAdd = TickerType(C.BLOCK_CACHE_COMPRESSED_ADD)
	// TickerBlockCacheCompressedAddFailures is the number of failures when adding blocks to compressed block cache.
	TickerBlockCacheCompressedAddFailures = TickerType(C.BLOCK_CACHE_COMPRESSED_ADD_FAILURES)

	// TickerWALFileSynced is the number of times WAL sync is done.
	TickerWALFileSynced = TickerType(C.WAL_FILE_SYNCED)
	// TickerWALFileBytes is the number of bytes written to WAL.
	TickerWALFileBytes = TickerType(C.WAL_FILE_BYTES)

	// TickerCompactReadBytes is the number of bytes read during compaction.
	TickerCompactReadBytes = TickerType(C.COMPACT_READ_BYTES)
	// TickerCompactWriteBytes is the number of bytes written during compaction.
	TickerCompactWriteBytes = TickerType(C.COMPACT_WRITE_BYTES)
	// TickerFlushWriteBytes is the number of bytes written during flush.
	TickerFlushWriteBytes = TickerType(C.FLUSH_WRITE_BYTES)

	// TickerNumberBlockCompressed is the number of compressions executed.
	TickerNumberBlockCompressed = TickerType(C.NUMBER_BLOCK_COMPRESSED)
	// TickerNumberBlockDecompressed is the number of decompressions executed.
	TickerNumberBlockDecompressed = TickerType(C.NUMBER_BLOCK_DECOMPRESSED)
	// TickerNumberBlockNotCompressed is the number of blocks not compressed.
	TickerNumberBlockNotCompressed = TickerType(C.NUMBER_BLOCK_NOT_COMPRESSED)

	// TickerMergeOperationTotalTime is the number in # of all merge operations.
	TickerMergeOperationTotalTime = TickerType(C.MERGE_OPERATION_TOTAL_TIME)
	// TickerFilterOperationTotalTime is the number in # of all filter operations.
	TickerFilterOperationTotalTime = TickerType(C.FILTER_OPERATION_TOTAL_TIME)

	// Read amplification statistics.
	// Read amplification can be calculated using this formula
	// (READ_AMP_TOTAL_READ_BYTES / READ_AMP_ESTIMATE_USEFUL_BYTES)
	//
	// REQUIRES: ReadOptions::read_amp_bytes_per_bit to be enabled
	
	// TickerReadAmpEstimateUsefulBytes is the estimate of total bytes actually used.
	TickerReadAmpEstimateUsefulBytes = TickerType(C.READ_AMP_ESTIMATE_USEFUL_BYTES)
	// TickerReadAmpTotalReadBytes is the total size of loaded data blocks.
	TickerReadAmpTotalReadBytes = TickerType(C.READ_AMP_TOTAL_READ_BYTES)
)
