package rocksdb

// #cgo CXXFLAGS: -std=c++17 -O1
// #cgo LDFLAGS: -lrocksdb
// #cgo LDFLAGS: -lstdc++
// #cgo LDFLAGS: -ldl
// #cgo LDFLAGS: -lpthread
// #cgo LDFLAGS: -lm
import "C"
