/*
   Copyright 2018-2019 Banco Bilbao Vizcaya Argentaria, S.A.

   Licensed under the Apache License, Version 2.0 (the "License");
   you may not use this file except in compliance with the License.
   You may obtain a copy of the License at

       http://www.apache.org/licenses/LICENSE-2.0

   Unless required by applicable law or agreed to in writing, software
   distributed under the License is distributed on an "AS IS" BASIS,
   WITHOUT WARRANTIES OR CONDITIONS OF ANY KIND, either express or implied.
   See the License for the specific language governing permissions and
   limitations under the License.
*/

package rocksdb

// #include <stdlib.h>
// #include "rocksdb/c.h"
// #include "/tmp/wt2/C16/_out/overlay/extended.h"
import "C"
import (
	"errors"
	"unsafe"
)

// BackupEngineInfo represents the information about the backups
// in a backup engine instance. Use this to get the state of the
// backup like number of backups and their ids and timestamps etc.
type BackupEngineInfo struct {
	c *C.rocksdb_backup_engine_info_t
}

// GetCount gets the number backsup available.
func (b *BackupEngineInfo) GetCount() int {
	return int(C.rocksdb_backup_engine_info_count(b.c))
}

// GetTimestamp gets the timestamp at which the backup index was taken.
func (b *BackupEngineInfo) GetTimestamp(index int) int64 {
	return int64(C.rocksdb_backup_engine_info_timestamp(b.c, C.int(index)))
}

// GetBackupID gets an id that uniquely identifies a backup
// regardless of its position.
func (b *BackupEngineInfo) GetBackupID(index int) int64 {
	return int64(C.rocksdb_backup_engine_info_backup_id(b.c, C.int(index)))
}

// GetSize get the size of the backup in bytes.
func (b *BackupEngineInfo) GetSize(index int) int64 {
	return int64(C.rocksdb_backup_engine_info_size(b.c, C.int(index)))
}

// GetNumFiles gets the number of files in the backup index.
func (b *BackupEngineInfo) GetNumFiles(index int) int32 {
	return int32(C.rocksdb_backup_engine_info_number_files(b.c, C.int(index)))
}

// GetAppMetadata gets the backup associated metadata.
func (b *BackupEngineInfo) GetAppMetadata(index int) string {
	metadata := C.rocksdb_backup_engine_info_metadata(b.c, C.int(index))
	return C.GoString(metadata)
}

// Destroy destroys the backup engine info instance.
func (b *BackupEngineInfo) Destroy() {
	C.rocksdb_backup_engine_info_destroy(b.c)
	b.c = nil
}

// RestoreOptions captures the options to be used during
// restoration of a backup.
type RestoreOptions struct {
	c *C.rocksdb_restore_options_t
}

// NewRestoreOptions creates a RestoreOptions instance.
func NewRestoreOptions() *RestoreOptions {
	return &RestoreOptions{
		c: C.rocksdb_restore_options_create(),
	}
}

// SetKeepLogFiles is used to set or unset the keep_log_files option
// If true, restore won't overwrite the existing log files in wal_dir. It will
// also move all log files from archive directory to wal_dir.
// By default, this is false.
func (ro *RestoreOptions) SetKeepLogFiles(v int) {
	C.rocksdb_restore_options_set_keep_log_files(ro.c, C.int(v))
}

// Destroy destroys this RestoreOptions instance.
func (ro *RestoreOptions) Destroy() {
	C.rocksdb_restore_options_destroy(ro.c)
}

// BackupEngine is a reusable handle to a RocksDB Backup, created by
// OpenBackupEngine.
type BackupEngine struct {
	c    *C.rocksdb_backup_engine_t
	path string
	opts *Options
}

// OpenBackupEngine opens a backup engine with specified options.
func OpenBackupEngine(opts *Options, path string) (*BackupEngine, error) {
	var cErr *C.char
	cpath := C.CString(path)
	defer C.free(unsafe.Pointer(cpath))

	be := C.rocksdb_backup_engine_open(opts.c, cpath, &cErr)
	if cErr != nil {
		defer C.free(unsafe.Pointer(cErr))
		return nil, errors.New(C.GoString(cErr))
	}
	return &BackupEngine{
		c:    be,
		path: path,
		opts: opts,
	}, nil
}

// UnsafeGetBackupEngine returns the underlying c backup engine.
func (b *BackupEngine) UnsafeGetBackupEngine() unsafe.Pointer {
	return unsafe.Pointer(b.c)
}

// CreateNewBackup takes a new backup from db.
func (b *BackupEngine) CreateNewBackup(db *DB) error {
	var cErr *C.char

	C.rocksdb_backup_engine_create_new_backup(b.c, db.c, &cErr)
	if cErr != nil {
		defer C.free(unsafe.Pointer(cErr))
		return errors.New(C.GoString(cErr))
	}

	return nil
}

// CreateNewBackupWithMetadata is same as CreateNewBackup,
// but stores extra application metadata.
// Flush will always trigger if 2PC is enabled.
// If write-ahead logs are disabled, set flush_before_backup=true to
// avoid losing unflushed key/value pairs from the memtable.
func (b *BackupEngine) CreateNewBackupWithMetadata(db *DB, metadata string) error {
	var cErr *C.char
	cMetadata := C.CString(metadata)
	defer C.free(unsafe.Pointer(cMetadata))

	C.rocksdb_backup_engine_create_new_backup_with_metadata(b.c, db.c, cMetadata, &cErr)
	if cErr != nil {
		defer C.free(unsafe.Pointer(cErr))
		return errors.New(C.GoString(cErr))
	}

	return nil
}

// DeleteBackup deletes a single backup from a backup engine. 
func (b *BackupEngine) DeleteBackup(backupID uint32) error {
	var cErr *C.char

	C.rocksdb_backup_engine_delete_backup(b.c, C.uint(backupID), &cErr)
	if cErr != nil {
		defer C.free(unsafe.Pointer(cErr))
		return errors.New(C.GoString(cErr))
	}
	return nil
}

// GetInfo gets an object that gives information about
// the backups that have already been taken
func (b *BackupEngine) GetInfo() *BackupEngineInfo {
	return &BackupEngineInfo{
		c: C.rocksdb_backup_engine_get_backup_info(b.c),
	}
}

// RestoreDBFromLatestBackup restores the latest backup to dbDir. walDir
// is where the write ahead logs are restored to and usually the same as dbDir.
func (b *BackupEngine) RestoreDBFromLatestBackup(dbDir, walDir string, ro *RestoreOptions) error {
	var cErr *C.char
	cDbDir := C.CString(dbDir)
	cWalDir := C.CString(walDir)
	defer func() {
		C.free(unsafe.Pointer(cDbDir))
		C.free(unsafe.Pointer(cWalDir))
	}()

	C.rocksdb_backup_engine_restore_db_from_latest_backup(b.c, cDbDir, cWalDir, ro.c, &cErr)
	if cErr != nil {
		defer C.free(unsafe.Pointer(cErr))
		return errors.New(C.GoString(cErr))
	}
	return nil
}

// RestoreDBFromBackup restores a singular backup to dbDir. walDir
// is where the write ahead logs are restored to and usually the same as dbDir.
func (b *BackupEngine) RestoreDBFromBackup(backupID uint32, dbDir, walDir string, ro *RestoreOptions) error {
	var cErr *C.char
	cDbDir := C.CString(dbDir)
	cWalDir := C.CString(walDir)
	defer func() {
		C.free(unsafe.Pointer(cDbDir))
		C.free(unsafe.Pointer(cWalDir))
	}()

	C.qed_backup_engine_restore_db_from_backup(b.c, C.uint(backupID), cDbDir, cWalDir, ro.c, &cErr)
	if cErr != nil {
		defer C.free(unsafe.Pointer(cErr))
		return errors.New(C.GoString(cErr))
	}
	return nil
}

// VerifyBackup checks that each file exists and that the size of the file matches our
// expectations. It does not check file checksum.
// Returns Status::OK() if all checks are good
func (b *BackupEngine) VerifyBackup(index uint32) error{
	var cErr *C.char
	C.rocksdb_backup_engine_verify_backup(b.c, C.uint(index), &cErr)
	if cErr != nil{
		defer C.free(unsafe.Pointer(cErr))
		return errors.New(C.GoString(cErr))
	}
	return nil
}

// Close close the backup engine and cleans up state
// The backups already taken remain on storage.
func (b *BackupEngine) Close() {
	C.rocksdb_backup_engine_close(b.c)
	b.c = nil
}
