/*
   Copyright 2018-2019 Banco Bilbao Vizcaya Argentaria, S.A.

   Licensed under the Apache License, Version 2.0 (the "License");
   you may not use this file except in compliance with the License.
   You may obtain a copy of the License at

       http://www.apache.org/licenses/LICENSE-2.0

   Unless required by applicable law or agreed to in writing, software
   distributed under the License is distributed on an "AS IS" BASIS,
   WITHOUT WARRANTIES OR CONDITIONS OF ANY KIND, either express or implied.
   See the License for the specific language governing permissions and
   limitations under the License.
*/

package rocksdb

// #include "/tmp/wt2/C16/_out/overlay/extended.h"
// #include <stdlib.h>
import (
	"C"
)

// StatsLevel is the level of Statistics to report.
type StatsLevel uint32

const (
	// LevelExceptHistogramOrTimers disables timer stats, and skip histogram stats.
	LevelExceptHistogramOrTimers = StatsLevel(C.EXCEPT_HISTOGRAM_OR_TIMERS)
	// LevelExceptTimers skips timer stats.
	LevelExceptTimers = StatsLevel(C.EXCEPT_TIMERS)
	// LevelExceptDetailedTimers collects all stats except time inside mutex lock
	// AND time spent on compression.
	LevelExceptDetailedTimers = StatsLevel(C.EXCEPT_DETAILED_TIMERS)
	// LevelExceptTimeForMutex collect all stats except the counters requiring to get time
	// inside the mutex lock.
	LevelExceptTimeForMutex = StatsLevel(C.EXCEPT_TIME_FOR_MUTEX)
	// LevelAll collects all stats, including measuring duration of mutex operations.
	// If getting time is expensive on the platform to run, it can
	// reduce scalability to more threads, especially for writes.
	LevelAll = StatsLevel(C.ALL)
)

// Statistics is used to analyze the performance of a db. Pointer for
// statistics object is managed by Option class.
type Statistics struct {
	c *C.rocksdb_statistics_t
}

// NewStatistics is the constructor for a Statistics struct.
func NewStatistics() *Statistics {
	return &Statistics{c: C.rocksdb_create_statistics()}
}

// GetTickerCount gets the count for a ticker.
func (s *Statistics) GetTickerCount(tickerType TickerType) uint64 {
	return uint64(C.rocksdb_statistics_get_ticker_count(
		s.c,
		C.rocksdb_tickers_t(tickerType),
	))
}

// GetAndResetTickerCount get the count for a ticker and reset the tickers count.
func (s *Statistics) GetAndResetTickerCount(tickerType TickerType) uint64 {
	return uint64(C.rocksdb_statistics_get_and_reset_ticker_count(
		s.c,
		C.rocksdb_tickers_t(tickerType),
	))
}

// GetHistogramData gets the histogram data for a particular histogram.
func (s *Statistics) GetHistogramData(histogramType HistogramType) *HistogramData {
	data := NewHistogramData()
	C.rocksdb_statistics_histogram_data(
		s.c,
		C.rocksdb_histograms_t(histogramType),
		data.c,
	)
	return data
}

// Reset resets all ticker and histogram stats.
func (s *Statistics) Reset() {
	C.rocksdb_statistics_reset(s.c)
}

// StatsLevel gets the current stats level.
func (s *Statistics) StatsLevel() StatsLevel {
	return StatsLevel(C.rocksdb_statistics_stats_level(s.c))
}

// SetStatsLevel sets the stats level.
func (s *Statistics) SetStatsLevel(statsLevel StatsLevel) {
	C.rocksdb_statistics_set_stats_level(
		s.c, C.rocksdb_stats_level_t(statsLevel))
}

// Destroy deallocates the Statistics object.
func (s *Statistics) Destroy() {
	C.rocksdb_statistics_destroy(s.c)
	s.c = nil
}
