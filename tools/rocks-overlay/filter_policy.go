/*
   Copyright 2018-2019 Banco Bilbao Vizcaya Argentaria, S.A.

   Licensed under the Apache License, Version 2.0 (the "License");
   you may not use this file except in compliance with the License.
   You may obtain a copy of the License at

       http://www.apache.org/licenses/LICENSE-2.0

   Unless required by applicable law or agreed to in writing, software
   distributed under the License is distributed on an "AS IS" BASIS,
   WITHOUT WARRANTIES OR CONDITIONS OF ANY KIND, either express or implied.
   See the License for the specific language governing permissions and
   limitations under the License.
*/

package rocksdb

// #include <rocksdb/c.h>
import "C"

type FilterPolicy struct {
	policy *C.rocksdb_filterpolicy_t
}

// NewBloomFilterPolicy returns a new filter policy that uses a block-based
// bloom filter with approximately the specified number of bits per key.
// A good value for bits_per_key is 10, which yields a filter with ~1% false
// positive rate.
//
// Note: if you are using a custom comparator that ignores some parts
// of the keys being compared, you must not use NewBloomFilterPolicy()
// and must provide your own FilterPolicy that also ignores the
// corresponding parts of the keys.  For example, if the comparator
// ignores trailing spaces, it would be incorrect to use a
// FilterPolicy (like NewBloomFilterPolicy) that does not ignore
// trailing spaces in keys.
func NewBloomFilterPolicy(bitsPerKey int) *FilterPolicy {
	return &FilterPolicy{C.rocksdb_filterpolicy_create_bloom(C.double(bitsPerKey))}
}

// NewFullBloomFilterPolicy returns a new filter policy that uses a full bloom filter
// for the entire SST file, with approximately the specified number of bits per key.
// A good value for bits_per_key is 10, which yields a filter with ~1% false positive rate.
//
// Note: if you are using a custom comparator that ignores some parts
// of the keys being compared, you must not use NewBloomFilterPolicy()
// and must provide your own FilterPolicy that also ignores the
// corresponding parts of the keys.  For example, if the comparator
// ignores trailing spaces, it would be incorrect to use a
// FilterPolicy (like NewBloomFilterPolicy) that does not ignore
// trailing spaces in keys.
func NewFullBloomFilterPolicy(bitsPerKey int) *FilterPolicy {
	return &FilterPolicy{C.rocksdb_filterpolicy_create_bloom_full(C.double(bitsPerKey))}
}
