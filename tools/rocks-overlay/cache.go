/*
   Copyright 2018-2019 Banco Bilbao Vizcaya Argentaria, S.A.

   Licensed under the Apache License, Version 2.0 (the "License");
   you may not use this file except in compliance with the License.
   You may obtain a copy of the License at

       http://www.apache.org/licenses/LICENSE-2.0

   Unless required by applicable law or agreed to in writing, software
   distributed under the License is distributed on an "AS IS" BASIS,
   WITHOUT WARRANTIES OR CONDITIONS OF ANY KIND, either express or implied.
   See the License for the specific language governing permissions and
   limitations under the License.
*/

package rocksdb

// #include "rocksdb/c.h"
// #include "/tmp/wt2/C16/_out/overlay/extended.h"
import "C"

// Cache is a cache used to store data read from data in memory.
type Cache struct {
	c *C.rocksdb_cache_t
}

// NewDefaultLRUCache create a new LRU cache with a fixed size capacity.
// num_shard_bits = -1 means it is automatically determined: every shard
// will be at least 512KB and number of shard bits will not exceed 6.
// strict_capacity_limit = false
// high_pri_pool_ration = 0.0
func NewDefaultLRUCache(capacity int) *Cache {
	return &Cache{
		c: C.rocksdb_cache_create_lru(C.size_t(capacity)),
	}
}

// NewLRUCache creates a new LRU cache with a fixed size capacity
// and high priority pool ration. The cache is sharded
// to 2^num_shard_bits shards, by hash of the key. The total capacity
// is divided and evenly assigned to each shard. If strict_capacity_limit
// is set, insert to the cache will fail when cache is full. User can also
// set percentage of the cache reserves for high priority entries via
// high_pri_pool_pct.
// num_shard_bits = -1 means it is automatically determined: every shard
// will be at least 512KB and number of shard bits will not exceed 6.
func NewLRUCache(capacity int, highPriorityPoolRatio float64) *Cache {
	return &Cache{
		c: C.rocksdb_cache_create_lru_with_ratio(
			C.size_t(capacity),
			C.double(highPriorityPoolRatio),
		),
	}
}

// GetUsage returns the Cache memory usage.
func (c *Cache) GetUsage() int {
	return int(C.rocksdb_cache_get_usage(c.c))
}

// GetPinnedUsage returns the Cache pinned memory usage.
func (c *Cache) GetPinnedUsage() int {
	return int(C.rocksdb_cache_get_pinned_usage(c.c))
}

// Destroy deallocates the Cache object.
func (c *Cache) Destroy() {
	C.rocksdb_cache_destroy(c.c)
	c.c = nil
}
