/*
   Copyright 2018-2019 Banco Bilbao Vizcaya Argentaria, S.A.

   Licensed under the Apache License, Version 2.0 (the "License");
   you may not use this file except in compliance with the License.
   You may obtain a copy of the License at

       http://www.apache.org/licenses/LICENSE-2.0

   Unless required by applicable law or agreed to in writing, software
   distributed under the License is distributed on an "AS IS" BASIS,
   WITHOUT WARRANTIES OR CONDITIONS OF ANY KIND, either express or implied.
   See the License for the specific language governing permissions and
   limitations under the License.
*/

package rocksdb

// #include "/tmp/wt2/C16/_out/overlay/extended.h"
// #include <stdlib.h>
// #include "rocksdb/c.h"
import "C"
import "unsafe"

// WriteBatch holds a collection of updates to apply atomically to a DB.
//
// The updates are applied in the order in which they are added
// to the WriteBatch.  For example, the value of "key" will be "v3"
// after the following batch is written:
//
//    batch.Put("key", "v1");
//    batch.Delete("key");
//    batch.Put("key", "v2");
//    batch.Put("key", "v3");
//
type WriteBatch struct {
	c *C.rocksdb_writebatch_t
}

// NewWriteBatch create a WriteBatch object.
func NewWriteBatch() *WriteBatch {
	return NewNativeWriteBatch(C.rocksdb_writebatch_create())
}

// NewNativeWriteBatch create a WriteBatch object.
func NewNativeWriteBatch(c *C.rocksdb_writebatch_t) *WriteBatch {
	return &WriteBatch{c: c}
}

// WriteBatchFrom creates a write batch from a serialized WriteBatch.
func WriteBatchFrom(data []byte) *WriteBatch {
	return NewNativeWriteBatch(C.rocksdb_writebatch_create_from(bytesToChar(data), C.size_t(len(data))))
}

// Put stores the mapping "key->value" in the database.
func (wb *WriteBatch) Put(key, value []byte) {
	cKey := bytesToChar(key)
	cValue := bytesToChar(value)
	C.rocksdb_writebatch_put(wb.c, cKey, C.size_t(len(key)), cValue, C.size_t(len(value)))
}

// PutCF stores a mapping "key->value" in a column family.
func (wb *WriteBatch) PutCF(cf *ColumnFamilyHandle, key, value []byte) {
	cKey := bytesToChar(key)
	cValue := bytesToChar(value)
	C.rocksdb_writebatch_put_cf(wb.c, cf.c, cKey, C.size_t(len(key)), cValue, C.size_t(len(value)))
}

// Delete erases the mapping for "key" if it exists. Else, do nothing.
func (wb *WriteBatch) Delete(key []byte) {
	cKey := bytesToChar(key)
	C.rocksdb_writebatch_delete(wb.c, cKey, C.size_t(len(key)))
}

// DeleteCF erases the mapping for "key", in a column family, if it exists.
// Else, do nothing.
func (wb *WriteBatch) DeleteCF(cf *ColumnFamilyHandle, key []byte) {
	cKey := bytesToChar(key)
	C.rocksdb_writebatch_delete_cf(wb.c, cf.c, cKey, C.size_t(len(key)))
}

// DeleteRange erases all mappings in the range ["beginKey", "endKey")
// if the database contains them. Else do nothing.
func (wb *WriteBatch) DeleteRange(beginKey, endKey []byte) {
	cBeginKey := bytesToChar(beginKey)
	cEndKey := bytesToChar(endKey)
	C.rocksdb_writebatch_delete_range(wb.c, cBeginKey, C.size_t(len(beginKey)), cEndKey, C.size_t(len(endKey)))
}

// DeleteRangeCF erases all mappings in the range ["beginKey", "endKey")
// on the given column family if the database contains them. Else do nothing.
func (wb *WriteBatch) DeleteRangeCF(cf *ColumnFamilyHandle, beginKey, endKey []byte) {
	cBeginKey := bytesToChar(beginKey)
	cEndKey := bytesToChar(endKey)
	C.rocksdb_writebatch_delete_range_cf(wb.c, cf.c, cBeginKey, C.size_t(len(beginKey)), cEndKey, C.size_t(len(endKey)))
}

// Merge "value" with the existing value of "key" in the database.
// "key->merge(existing, value)"
func (wb *WriteBatch) Merge(key, value []byte) {
	cKey := bytesToChar(key)
	cValue := bytesToChar(value)
	C.rocksdb_writebatch_merge(wb.c, cKey, C.size_t(len(key)), cValue, C.size_t(len(value)))
}

// MergeCF "value" with the existing value of "key" in a column family.
// "key->merge(existing, value)"
func (wb *WriteBatch) MergeCF(cf *ColumnFamilyHandle, key, value []byte) {
	cKey := bytesToChar(key)
	cValue := bytesToChar(value)
	C.rocksdb_writebatch_merge_cf(wb.c, cf.c, cKey, C.size_t(len(key)), cValue, C.size_t(len(value)))
}

// Clear all updates buffered in this batch.
func (wb *WriteBatch) Clear() {
	C.rocksdb_writebatch_clear(wb.c)
}

// Count returns the number of updates in the batch.
func (wb *WriteBatch) Count() int {
	return int(C.rocksdb_writebatch_count(wb.c))
}

// Data returns the serialized version of this batch.
func (wb *WriteBatch) Data() []byte {
	var cSize C.size_t
	cValue := C.rocksdb_writebatch_data(wb.c, &cSize)
	return charToBytes(cValue, cSize)
}

// PutLogData appends a blob of arbitrary size to the records in this batch.
// The blob will be stored in the transaction log but not in any other files.
// In particular, it will not be persisted to the SST files. When iterating
// over this WriteBatch, WriteBatch::Handler::LogData will be called with the contents
// of the blob as it is encountered. Blobs, puts, deletes, and merges will be
// encountered in the same order in which they were inserted. The blob will
// NOT consume sequence number(s) and will NOT increase the count of the batch
//
// Example application: add timestamps to the transaction log for use in
// replication.
func (wb *WriteBatch) PutLogData(blob []byte, size int) {
	C.rocksdb_writebatch_put_log_data(wb.c, bytesToChar(blob), C.size_t(size))
}

// GetLogData retrieves the blob appended to this batch.
func (wb *WriteBatch) GetLogData(extractor *LogDataExtractor) []byte {
	if extractor != nil {
		C.rocksdb_writebatch_iterate_ext(wb.c, extractor.c)
		return extractor.Blob
	}
	return nil
}

// Destroy deallocates the WriteBatch object.
func (wb *WriteBatch) Destroy() {
	C.rocksdb_writebatch_destroy(wb.c)
	wb.c = nil
}

// WriteBatchHandler is used to iterate over the contents of a batch.
type WriteBatchHandler interface {
	ID() string
	LogData(blob []byte)
}

var writeBatchHandlers = NewRegistry()

//export rocksdb_writebatch_handler_log_data
func rocksdb_writebatch_handler_log_data(cIdx *C.char, cBlob *C.char, cBlobSize C.size_t) {
	blob := charToBytes(cBlob, cBlobSize)
	idx := C.GoString(cIdx)
	writeBatchHandlers.Lookup(idx).(WriteBatchHandler).LogData(blob)
}

// LogDataExtractor extracts metadata from a WriteBatch.
type LogDataExtractor struct {
	id    string
	ptrId *C.char
	Blob  []byte
	c     *C.rocksdb_writebatch_handler_t
}

// NewLogDataExtractor creates a new LogDataExtractor.
func NewLogDataExtractor(id string) *LogDataExtractor {
	extractor := &LogDataExtractor{
		id:    id,
		ptrId: C.CString(id),
		Blob:  make([]byte, 0),
	}
	extractor.c = C.rocksdb_writebatch_handler_create_ext(extractor.ptrId)
	writeBatchHandlers.Register(extractor.id, extractor)
	return extractor
}

// ID returns the unique identifier of this WriteBatchHandler.
func (e *LogDataExtractor) ID() string {
	return e.id
}

// LogData is a callback for the LogData.
func (e *LogDataExtractor) LogData(blob []byte) {
	e.Blob = append(blob[:0:0], blob...)
}

// Destroy destroys de LogDataExtractor.
func (e *LogDataExtractor) Destroy() {
	writeBatchHandlers.Unregister(e.ID())
	C.free(unsafe.Pointer(e.ptrId))
	C.rocksdb_writebatch_handler_destroy(e.c)
	e.Blob = nil
}
