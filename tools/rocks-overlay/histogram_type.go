/*
   Copyright 2018-2019 Banco Bilbao Vizcaya Argentaria, S.A.

   Licensed under the Apache License, Version 2.0 (the "License");
   you may not use this file except in compliance with the License.
   You may obtain a copy of the License at

       http://www.apache.org/licenses/LICENSE-2.0

   Unless required by applicable law or agreed to in writing, software
   distributed under the License is distributed on an "AS IS" BASIS,
   WITHOUT WARRANTIES OR CONDITIONS OF ANY KIND, either express or implied.
   See the License for the specific language governing permissions and
   limitations under the License.
*/

package rocksdb

// #include "/tmp/wt2/C16/_out/overlay/extended.h"
import (
	"C"
)

// HistogramType is the logical mapping of histograms defined in rocksdb:Histogram.
type HistogramType uint32

const (
	// HistogramBytesPerRead is value size distribution in read operations.
	HistogramBytesPerRead = HistogramType(C.BYTES_PER_READ)
)
