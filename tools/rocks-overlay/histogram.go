/*
   Copyright 2018-2019 Banco Bilbao Vizcaya Argentaria, S.A.

   Licensed under the Apache License, Version 2.0 (the "License");
   you may not use this file except in compliance with the License.
   You may obtain a copy of the License at

       http://www.apache.org/licenses/LICENSE-2.0

   Unless required by applicable law or agreed to in writing, software
   distributed under the License is distributed on an "AS IS" BASIS,
   WITHOUT WARRANTIES OR CONDITIONS OF ANY KIND, either express or implied.
   See the License for the specific language governing permissions and
   limitations under the License.
*/

package rocksdb

// #include "/tmp/wt2/C16/_out/overlay/extended.h"
import (
	"C"
)

type HistogramData struct {
	c *C.rocksdb_histogram_data_t
}

// NewHistogramData constructs a HistogramData object.
func NewHistogramData() *HistogramData {
	return &HistogramData{c: C.rocksdb_histogram_create_data()}
}

// GetAverage returns the average value.
func (d *HistogramData) GetAverage() float64 {
	return float64(C.rocksdb_histogram_get_average(d.c))
}

// GetMedian returns the median value.
func (d *HistogramData) GetMedian() float64 {
	return float64(C.rocksdb_histogram_get_median(d.c))
}

// GetPercentile95 returns the value of the percentile 95.
func (d *HistogramData) GetPercentile95() float64 {
	return float64(C.rocksdb_histogram_get_percentile95(d.c))
}

// GetPercentile99 returns the value of the percentile 99.
func (d *HistogramData) GetPercentile99() float64 {
	return float64(C.rocksdb_histogram_get_percentile99(d.c))
}

// GetStandardDeviation returns the value of the standard deviation.
func (d *HistogramData) GetStandardDeviation() float64 {
	return float64(C.rocksdb_histogram_get_stdev(d.c))
}

// GetMax returns the max value.
func (d *HistogramData) GetMax() float64 {
	return float64(C.rocksdb_histogram_get_max(d.c))
}

// GetCount returns the total number of measure.
func (d *HistogramData) GetCount() uint64 {
	return uint64(C.rocksdb_histogram_get_count(d.c))
}

// GetSum returns the sum of all measures.
func (d *HistogramData) GetSum() uint64 {
	return uint64(C.rocksdb_histogram_get_sum(d.c))
}

// Destroy deallocates the HistogramData object.
func (d *HistogramData) Destroy() {
	C.rocksdb_histogram_data_destroy(d.c)
	d.c = nil
}
