/*
   Copyright 2018-2019 Banco Bilbao Vizcaya Argentaria, S.A.

   Licensed under the Apache License, Version 2.0 (the "License");
   you may not use this file except in compliance with the License.
   You may obtain a copy of the License at

       http://www.apache.org/licenses/LICENSE-2.0

   Unless required by applicable law or agreed to in writing, software
   distributed under the License is distributed on an "AS IS" BASIS,
   WITHOUT WARRANTIES OR CONDITIONS OF ANY KIND, either express or implied.
   See the License for the specific language governing permissions and
   limitations under the License.
*/

#include "/tmp/wt2/C16/_out/overlay/extended.h"

#include "rocksdb/c.h"
#include "_cgo_export.h"
#include "rocksdb/db.h"
#include "rocksdb/statistics.h"
#include "rocksdb/options.h"
#include "rocksdb/utilities/backup_engine.h"
#include "rocksdb/status.h"
#include "rocksdb/write_batch.h"

using rocksdb::DB;
using rocksdb::ColumnFamilyHandle;
using rocksdb::Statistics;
using rocksdb::HistogramData;
using rocksdb::StatsLevel;
using rocksdb::Options;
using rocksdb::Cache;
using rocksdb::NewLRUCache;
using rocksdb::Slice;
using rocksdb::WriteBatch;
using std::shared_ptr;
using rocksdb::BackupEngine;
using rocksdb::BackupInfo;
using rocksdb::Status;
using rocksdb::RestoreOptions;

extern "C" {

struct rocksdb_t { DB* rep; };
struct rocksdb_statistics_t { std::shared_ptr<Statistics> rep; };
struct rocksdb_histogram_data_t { rocksdb::HistogramData* rep; };
struct rocksdb_options_t { Options rep; };
struct rocksdb_cache_t { std::shared_ptr<Cache> rep; };
struct rocksdb_column_family_handle_t  { ColumnFamilyHandle* rep; };
struct rocksdb_backup_engine_t   { BackupEngine*     rep; };
struct rocksdb_backup_engine_info_t { std::vector<BackupInfo> rep; };
struct rocksdb_restore_options_t { RestoreOptions rep; };
struct rocksdb_writebatch_t { WriteBatch rep; };

struct rocksdb_writebatch_handler_t : public WriteBatch::Handler {
    void* state_;
    void (*destructor_)(void*);
    void (*log_data_)(void*, const char* blob, size_t length);

    ~rocksdb_writebatch_handler_t() override { (*destructor_)(state_); }

    void LogData(const Slice& blob) override {
        (*log_data_)(state_, blob.data(), blob.size());
    }

};

void rocksdb_options_set_atomic_flush(
    rocksdb_options_t* opts, unsigned char value) {
    opts->rep.atomic_flush = value;
}

rocksdb_cache_t* rocksdb_cache_create_lru_with_ratio(
    size_t capacity, double hi_pri_pool_ratio) {
    rocksdb_cache_t* c = new rocksdb_cache_t;
    c->rep = NewLRUCache(capacity, -1, false, hi_pri_pool_ratio);
    return c;
}

void rocksdb_destruct_handler(void* state) { }

rocksdb_slicetransform_t* rocksdb_slicetransform_create_ext(uintptr_t idx) {
    return rocksdb_slicetransform_create(
    	(void*)idx,
    	rocksdb_destruct_handler,
    	(char* (*)(void*, const char*, size_t, size_t*))(rocksdb_slicetransform_transform),
    	(unsigned char (*)(void*, const char*, size_t))(rocksdb_slicetransform_in_domain),
    	(unsigned char (*)(void*, const char*, size_t))(rocksdb_slicetransform_in_range),
    	(const char* (*)(void*))(rocksdb_slicetransform_name));
}

rocksdb_writebatch_handler_t* rocksdb_writebatch_handler_create(
    void* state,
    void (*destructor)(void*),
    void (*log_data)(void*, const char* blob, size_t length)) {

    rocksdb_writebatch_handler_t* result = new rocksdb_writebatch_handler_t;
    result->state_ = state;
    result->destructor_ = destructor;
    result->log_data_ = log_data;
    return result;
}

rocksdb_writebatch_handler_t* rocksdb_writebatch_handler_create_ext(const char* idx) {
    return rocksdb_writebatch_handler_create(
        (void*)idx,
        rocksdb_destruct_handler,
        (void (*)(void*, const char*, size_t))(rocksdb_writebatch_handler_log_data));
}

void rocksdb_writebatch_handler_destroy(rocksdb_writebatch_handler_t* handler) {
    delete handler;
}

void rocksdb_writebatch_iterate_ext(
    rocksdb_writebatch_t* b, 
    rocksdb_writebatch_handler_t* h) {
    b->rep.Iterate(h);
}

/* Backup */

static bool SaveError(char** errptr, const Status& s) {
  assert(errptr != nullptr);
  if (s.ok()) {
    return false;
  } else if (*errptr == nullptr) {
    *errptr = strdup(s.ToString().c_str());
  } else {
    free(*errptr);
    *errptr = strdup(s.ToString().c_str());
  }
  return true;
}

void rocksdb_backup_engine_create_new_backup_with_metadata(rocksdb_backup_engine_t* be,
                                             rocksdb_t* db,
                                             char* app_metadata,
                                             char** errptr) {
    SaveError(errptr, be->rep->CreateNewBackupWithMetadata(db->rep, std::string(app_metadata)));
}

char* rocksdb_backup_engine_info_metadata(const rocksdb_backup_engine_info_t* info, 
        int index){
    return strdup(info->rep[index].app_metadata.c_str());
}

void qed_backup_engine_restore_db_from_backup(
    rocksdb_backup_engine_t* be, uint32_t backupID, const char* db_dir, const char* wal_dir,
    const rocksdb_restore_options_t* restore_options, char** errptr) {
  SaveError(errptr, be->rep->RestoreDBFromBackup(backupID,
                                                 std::string(db_dir),
                                                 std::string(wal_dir),
                                                 restore_options->rep));
}

extern void rocksdb_backup_engine_delete_backup(
    rocksdb_backup_engine_t* be, uint32_t backupID, char** errptr){
  SaveError(errptr, be->rep->DeleteBackup(backupID));
}

/* Statistics */

rocksdb_statistics_t* rocksdb_create_statistics() {
    rocksdb_statistics_t* result = new rocksdb_statistics_t;
    result->rep = rocksdb::CreateDBStatistics();
    return result;
}

void rocksdb_options_set_statistics(
    rocksdb_options_t* opts, 
    rocksdb_statistics_t* stats) {
    if (stats) {
        opts->rep.statistics = stats->rep;
    }
}

rocksdb_stats_level_t rocksdb_statistics_stats_level(
    rocksdb_statistics_t* stats) {
        return static_cast<rocksdb_stats_level_t>(stats->rep->get_stats_level());
}

void rocksdb_statistics_set_stats_level(
    rocksdb_statistics_t* stats,
    rocksdb_stats_level_t level) {
        stats->rep->set_stats_level(static_cast<StatsLevel>(level));
}

void rocksdb_statistics_reset(
    rocksdb_statistics_t* stats) {
        stats->rep->Reset();
}

uint64_t rocksdb_statistics_get_ticker_count(
    rocksdb_statistics_t* stats, 
    rocksdb_tickers_t ticker_type) {
        return stats->rep->getTickerCount(ticker_type);
}

uint64_t rocksdb_statistics_get_and_reset_ticker_count(
    rocksdb_statistics_t* stats, 
    rocksdb_tickers_t ticker_type) {
        return stats->rep->getAndResetTickerCount(ticker_type);
}

void rocksdb_statistics_destroy(rocksdb_statistics_t* stats) {
    delete stats;
}

void rocksdb_statistics_histogram_data(
    const rocksdb_statistics_t* stats, 
    rocksdb_histograms_t type, 
    const rocksdb_histogram_data_t* data) {
        stats->rep->histogramData(type, data->rep);
}

// Histogram

rocksdb_histogram_data_t* rocksdb_histogram_create_data() {
    rocksdb_histogram_data_t* result = new rocksdb_histogram_data_t;
    rocksdb::HistogramData hData;
    result->rep = &hData;
    return result;
}

double rocksdb_histogram_get_average(rocksdb_histogram_data_t* data) {
    return data->rep->average;
}

double rocksdb_histogram_get_median(rocksdb_histogram_data_t* data) {
    return data->rep->median;
}

double rocksdb_histogram_get_percentile95(rocksdb_histogram_data_t* data) {
    return data->rep->percentile95;
}

double rocksdb_histogram_get_percentile99(rocksdb_histogram_data_t* data) {
    return data->rep->percentile99;
}

double rocksdb_histogram_get_stdev(rocksdb_histogram_data_t* data) {
    return data->rep->standard_deviation;
}

double rocksdb_histogram_get_max(rocksdb_histogram_data_t* data) {
    return data->rep->max;
}

uint64_t rocksdb_histogram_get_count(rocksdb_histogram_data_t* data) {
    return data->rep->count;
}

uint64_t rocksdb_histogram_get_sum(rocksdb_histogram_data_t* data) {
    return data->rep->sum;
}

void rocksdb_histogram_data_destroy(rocksdb_histogram_data_t* data);

void rocksdb_histogram_data_destroy(rocksdb_histogram_data_t* data) {
    delete data;
}

} // end extern "C"
