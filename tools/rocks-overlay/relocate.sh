#!/bin/sh
# The overlay uses absolute paths for the worktree /tmp/wt2/C16.
# To use it from another checkout:  sh relocate.sh /path/to/checkout
# (run from the directory that contains this script, after copying _out/ into the checkout)
NEW="$1"
[ -n "$NEW" ] || { echo "usage: relocate.sh <worktree root>"; exit 1; }
sed -i "s|/tmp/wt2/C16|$NEW|g" overlay.json *.go *.cpp
