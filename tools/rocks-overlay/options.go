/*
   Copyright 2018-2019 Banco Bilbao Vizcaya Argentaria, S.A.

   Licensed under the Apache License, Version 2.0 (the "License");
   you may not use this file except in compliance with the License.
   You may obtain a copy of the License at

       http://www.apache.org/licenses/LICENSE-2.0

   Unless required by applicable law or agreed to in writing, software
   distributed under the License is distributed on an "AS IS" BASIS,
   WITHOUT WARRANTIES OR CONDITIONS OF ANY KIND, either express or implied.
   See the License for the specific language governing permissions and
   limitations under the License.
*/

package rocksdb

// #include <stdlib.h>
// #include <rocksdb/c.h>
// #include "/tmp/wt2/C16/_out/overlay/extended.h"
import "C"
import "unsafe"

// CompressionType specifies the block compression.
// DB contents are stored in a set of blocks, each of which holds a
// sequence of key,value pairs. Each block may be compressed before
// being stored in a file. The following enum describes which
// compression method (if any) is used to compress a block.
type CompressionType uint

// Compression types
const (
	NoCompression     = CompressionType(C.rocksdb_no_compression)
	SnappyCompression = CompressionType(C.rocksdb_snappy_compression)
)

// Options represent all of the available options when opening a database with Open.
type Options struct {
	c *C.rocksdb_options_t

	// Hold references for GC.
	env  *Env
	bbto *BlockBasedTableOptions
	cst  *C.rocksdb_slicetransform_t
}

// NewDefaultOptions creates the default Options.
func NewDefaultOptions() *Options {
	return &Options{c: C.rocksdb_options_create()}
}

// SetCreateIfMissing specifies whether the database
// should be created if it is missing.
// Default: false
func (o *Options) SetCreateIfMissing(value bool) {
	C.rocksdb_options_set_create_if_missing(o.c, boolToUchar(value))
}

// SetEnv sets the specified object to interact with the environment,
// e.g. to read/write files, schedule background work, etc.
// Default: DefaultEnv
func (o *Options) SetEnv(value *Env) {
	o.env = value
	C.rocksdb_options_set_env(o.c, value.c)
}

// IncreaseParallelism sets the level of parallelism.
//
// By default, RocksDB uses only one background thread for flush and
// compaction. Calling this function will set it up such that total of
// `totalThreads` is used. Good value for `totalThreads` is the number of
// cores. You almost definitely want to call this function if your system is
// bottlenecked by RocksDB.
func (o *Options) IncreaseParallelism(totalThreads int) {
	C.rocksdb_options_increase_parallelism(o.c, C.int(totalThreads))
}

// SetMaxWriteBufferNumber sets the maximum number of write buffers (memtables)
// that are built up in memory.
//
// The default is 2, so that when 1 write buffer is being flushed to
// storage, new writes can continue to the other write buffer.
// Default: 2
func (o *Options) SetMaxWriteBufferNumber(value int) {
	C.rocksdb_options_set_max_write_buffer_number(o.c, C.int(value))
}

// SetMinWriteBufferNumberToMerge sets the minimum number of write buffers
// that will be merged together before writing to storage.
//
// If set to 1, then all write buffers are flushed to L0 as individual files
// and this increases read amplification because a get request has to check
// in all of these files. Also, an in-memory merge may result in writing lesser
// data to storage if there are duplicate records in each of these
// individual write buffers.
// Default: 1
func (o *Options) SetMinWriteBufferNumberToMerge(value int) {
	C.rocksdb_options_set_min_write_buffer_number_to_merge(o.c, C.int(value))
}

// SetMaxOpenFiles sets the number of open files that can be used by the DB.
//
// You may need to increase this if your database has a large working set
// (budget one open file per 2MB of working set).
// Default: 1000
func (o *Options) SetMaxOpenFiles(value int) {
	C.rocksdb_options_set_max_open_files(o.c, C.int(value))
}

// SetMaxFileOpeningThreads sets the maximum number of file opening threads.
// If max_open_files is -1, DB will open all files on db.Open(). You can
// use this option to increase the number of threads used to open the files.
// Default: 16
func (o *Options) SetMaxFileOpeningThreads(value int) {
	C.rocksdb_options_set_max_file_opening_threads(o.c, C.int(value))
}

// OptimizeForPointLookup optimize the DB for point lookups.
//
// Use this if you don't need to keep the data sorted, i.e. you'll never use
// an iterator, only Put() and Get() API calls
//
// If you use this with rocksdb >= 5.0.2, you must call `SetAllowConcurrentMemtableWrites(false)`
// to avoid an assertion error immediately on opening the db.
func (o *Options) OptimizeForPointLookup(blockCacheSizeMb uint64) {
	C.rocksdb_options_optimize_for_point_lookup(o.c, C.uint64_t(blockCacheSizeMb))
}

// SetAllowConcurrentMemtableWrites sets whether to allow concurrent memtable writes. Conccurent writes are
// not supported by all memtable factories (currently only SkipList memtables).
// As of rocksdb 5.0.2 you must call `SetAllowConcurrentMemtableWrites(false)`
// if you use `OptimizeForPointLookup`.
func (o *Options) SetAllowConcurrentMemtableWrites(allow bool) {
	C.rocksdb_options_set_allow_concurrent_memtable_write(o.c, boolToUchar(allow))
}

// SetMemtableVectorRep sets a MemTableRep which is backed by a vector.
//
// On iteration, the vector is sorted. This is useful for workloads where
// iteration is very rare and writes are generally not issued after reads begin.
func (o *Options) SetMemtableVectorRep() {
	C.rocksdb_options_set_memtable_vector_rep(o.c)
}

// SetHashSkipListRep sets a hash skip list as MemTableRep.
//
// It contains a fixed array of buckets, each
// pointing to a skiplist (null if the bucket is empty).
//
// bucketCount:             number of fixed array buckets
// skiplistHeight:          the max height of the skiplist
// skiplistBranchingFactor: probabilistic size ratio between adjacent
//                          link lists in the skiplist
func (o *Options) SetHashSkipListRep(bucketCount int, skiplistHeight, skiplistBranchingFactor int32) {
	C.rocksdb_options_set_hash_skip_list_rep(o.c, C.size_t(bucketCount), C.int32_t(skiplistHeight), C.int32_t(skiplistBranchingFactor))
}

// SetHashLinkListRep sets a hashed linked list as MemTableRep.
//
// It contains a fixed array of buckets, each pointing to a sorted single
// linked list (null if the bucket is empty).
//
// bucketCount: number of fixed array buckets
func (o *Options) SetHashLinkListRep(bucketCount int) {
	C.rocksdb_options_set_hash_link_list_rep(o.c, C.size_t(bucketCount))
}

// SetBlockBasedTableFactory sets the block based table factory.
//
// This is the default table type that we inherited from LevelDB, which was
// designed for storing data in hard disk or flash device.
//
// In block-based table, data is chucked into (almost) fix-sized blocks
// (default block size is 4k). Each block, in turn, keeps a bunch of entries.
//
// When storing data, we can compress and/or encode data efficiently within a
// block, which often resulted in a much smaller data size compared with the raw
// data size.
//
// As for the record retrieval, we'll first locate the block where target record
// may reside, then read the block to memory, and finally search that record within
// the block. Of course, to avoid frequent reads of the same block, we introduced
// the block cache to keep the loaded blocks in the memory.
func (o *Options) SetBlockBasedTableFactory(value *BlockBasedTableOptions) {
	o.bbto = value
	C.rocksdb_options_set_block_based_table_factory(o.c, value.c)
}

// SetPlainTableFactory sets a plain table factory with prefix-only seek.
//
// Plain table stores data in a sequence of key/value pairs. Compared with
// block-based table, which employs mostly binary search for entry lookup,
// the well designed hash-based index in plain table enables us to locate
// data magnitudes faster. No memory copy is needed. Plain table bypasses
// the concept of "block" and therefore avoids the overhead inherent in block-based
// table, like extra block lookup, block cache, etc.
//
// For this factory, you need to set prefix_extractor properly to make it
// work. Look-up will starts with prefix hash lookup for key prefix. Inside the
// hash bucket found, a binary search is executed for hash conflicts. Finally,
// a linear search is used.
//
// Limitations:
//
// - File size may not be greater than 2^31 - 1 (i.e., `2147483647`) bytes.
// - Data compression/Delta encoding is not supported, which may resulted in
//	 bigger file size compared with block-based table.
// - Backward (Iterator.Prev()) scan is not supported.
// - Non-prefix-based Seek() is not supported.
// - Table loading is slower since indexes are built on the fly by 2-pass table scanning.
// - Only support mmap mode.
//
// keyLen: 			plain table has optimization for fix-sized keys,
// 					which can be specified via keyLen. Alternatively, you can
// 					pass 0 if your keys have variable lengths.
// bloomBitsPerKey: the number of bits used for bloom filer per prefix. You
//                  may disable it by passing a zero.
// hashTableRatio:  the desired utilization of the hash table used for prefix
//                  hashing. hashTableRatio = number of prefixes / #buckets
//                  in the hash table
// indexSparseness: inside each prefix, need to build one index record for how
//                  many keys for binary search inside each hash bucket.
func (o *Options) SetPlainTableFactory(keyLen uint32, bloomBitsPerKey int, hashTableRatio float64, indexSparseness int) {
	C.rocksdb_options_set_plain_table_factory(o.c, C.uint32_t(keyLen), C.int(bloomBitsPerKey), C.double(hashTableRatio), C.size_t(indexSparseness))
}

// SetCreateIfMissingColumnFamilies specifies whether the column families
// should be created if they are missing.
func (o *Options) SetCreateIfMissingColumnFamilies(value bool) {
	C.rocksdb_options_set_create_missing_column_families(o.c, boolToUchar(value))
}

// SetPrefixExtractor sets the prefic extractor.
//
// If set, use the specified function to determine the
// prefixes for keys. These prefixes will be placed in the filter.
// Depending on the workload, this can reduce the number of read-IOP
// cost for scans when a prefix is passed via ReadOptions to
// db.NewIterator().
// Default: nil
func (o *Options) SetPrefixExtractor(st SliceTransform) {
	if nst, ok := st.(nativeSliceTransform); ok {
		o.cst = nst.c
	} else {
		idx := registerSliceTransform(st)
		o.cst = C.rocksdb_slicetransform_create_ext(C.uintptr_t(idx))
	}
	C.rocksdb_options_set_prefix_extractor(o.c, o.cst)
}

// SetCompression sets the compression algorithm.
// Default: SnappyCompression, which gives lightweight but fast
// compression.
func (o *Options) SetCompression(value CompressionType) {
	C.rocksdb_options_set_compression(o.c, C.int(value))
}

// SetNumLevels sets the number of levels for this database.
// Default: 7
func (o *Options) SetNumLevels(value int) {
	C.rocksdb_options_set_num_levels(o.c, C.int(value))
}

// SetLevel0FileNumCompactionTrigger sets the number of files
// to trigger level-0 compaction.
//
// A value <0 means that level-0 compaction will not be
// triggered by number of files at all.
// Default: 4
func (o *Options) SetLevel0FileNumCompactionTrigger(value int) {
	C.rocksdb_options_set_level0_file_num_compaction_trigger(o.c, C.int(value))
}

// SetLevel0SlowdownWritesTrigger sets the soft limit on number of level-0 files.
//
// We start slowing down writes at this point.
// A value <0 means that no writing slow down will be triggered by
// number of files in level-0.
// Default: 8
func (o *Options) SetLevel0SlowdownWritesTrigger(value int) {
	C.rocksdb_options_set_level0_slowdown_writes_trigger(o.c, C.int(value))
}

// SetLevel0StopWritesTrigger sets the maximum number of level-0 files.
// We stop writes at this point.
// Default: 12
func (o *Options) SetLevel0StopWritesTrigger(value int) {
	C.rocksdb_options_set_level0_stop_writes_trigger(o.c, C.int(value))
}

// SetMaxBytesForLevelBase sets the maximum total data size for a level.
//
// It is the max total for level-1.
// Maximum number of bytes for level L can be calculated as
// (max_bytes_for_level_base) * (max_bytes_for_level_multiplier ^ (L-1))
//
// For example, if max_bytes_for_level_base is 20MB, and if
// max_bytes_for_level_multiplier is 10, total data size for level-1
// will be 20MB, total file size for level-2 will be 200MB,
// and total file size for level-3 will be 2GB.
// Default: 10MB
func (o *Options) SetMaxBytesForLevelBase(value uint64) {
	C.rocksdb_options_set_max_bytes_for_level_base(o.c, C.uint64_t(value))
}

// SetMaxBytesForLevelMultiplier sets the max Bytes for level multiplier.
// Default: 10
func (o *Options) SetMaxBytesForLevelMultiplier(value float64) {
	C.rocksdb_options_set_max_bytes_for_level_multiplier(o.c, C.double(value))
}

// SetTargetFileSizeBase sets the target file size for compaction.
//
// Target file size is per-file size for level-1.
// Target file size for level L can be calculated by
// target_file_size_base * (target_file_size_multiplier ^ (L-1))
//
// For example, if target_file_size_base is 2MB and
// target_file_size_multiplier is 10, then each file on level-1 will
// be 2MB, and each file on level 2 will be 20MB,
// and each file on level-3 will be 200MB.
// Default: 2MB
func (o *Options) SetTargetFileSizeBase(value uint64) {
	C.rocksdb_options_set_target_file_size_base(o.c, C.uint64_t(value))
}

// SetTargetFileSizeMultiplier sets the target file size multiplier for compaction.
// Default: 1
func (o *Options) SetTargetFileSizeMultiplier(value int) {
	C.rocksdb_options_set_target_file_size_multiplier(o.c, C.int(value))
}

// SetWriteBufferSize sets the amount of data to build up in memory
// (backed by an unsorted log on disk) before converting to a sorted on-disk file.
//
// Larger values increase performance, especially during bulk loads.
// Up to max_write_buffer_number write buffers may be held in memory
// at the same time, so you may wish to adjust this parameter to control
// memory usage.
// Also, a larger write buffer will result in a longer recovery time
// the next time the database is opened.
// Default: 4MB
func (o *Options) SetWriteBufferSize(value int) {
	C.rocksdb_options_set_write_buffer_size(o.c, C.size_t(value))
}

// SetDbWriteBufferSize sets the amount of data to build up
// in memtables across all column families before writing to disk.
//
// This is distinct from write_buffer_size, which enforces a limit
// for a single memtable.
//
// This feature is disabled by default. Specify a non-zero value
// to enable it.
//
// Default: 0 (disabled)
func (o *Options) SetDbWriteBufferSize(value int) {
	C.rocksdb_options_set_db_write_buffer_size(o.c, C.size_t(value))
}

// SetMaxSubCompactions sets the maximum number of threads that will
// concurrently perform a compaction job by breaking it into multiple,
// smaller ones that are run simultaneously.
// Default: 1 (i.e. no subcompactions)
func (o *Options) SetMaxSubCompactions(value int) {
	C.rocksdb_options_set_max_subcompactions(o.c, C.uint(value))
}

// SetEnablePipelinedWrite improves concurrent write throughput in
// case WAL is enabled. By default, a single write thread queue is
// maintained for concurrent writers. The thread gets to the head
// of the queue becomes write batch group leader and responsible
// for writing to WAL and memtable for the batch group.
// One observation is that WAL writes and memtable writes are sequential
// and by making them run in parallel we can increase throughput.
// For one single writer WAL writes and memtable writes has to run
// sequentially. With concurrent writers, once the previous writer
// finish WAL write, the next writer waiting in the write queue can
// start to write WAL while the previous writer still have memtable
// write ongoing.
func (o *Options) SetEnablePipelinedWrite(value bool) {
	C.rocksdb_options_set_enable_pipelined_write(o.c, boolToUchar(value))
}

// SetUseFsync enable/disable fsync.
//
// If true, then every store to stable storage will issue a fsync.
// If false, then every store to stable storage will issue a fdatasync.
// This parameter should be set to true while storing data to
// filesystem like ext3 that can lose files after a reboot.
// Default: false
func (o *Options) SetUseFsync(value bool) {
	C.rocksdb_options_set_use_fsync(o.c, C.int(btoi(value)))
}

// SetUseDirectReads enable/disable direct I/O mode (O_DIRECT) for reads.
// Default: false
func (o *Options) SetUseDirectReads(value bool) {
	C.rocksdb_options_set_use_direct_reads(o.c, boolToUchar(value))
}

// SetUseDirectIOForFlushAndCompaction enable/disable direct I/O mode (O_DIRECT)
// for both reads and writes in background flush and compactions.
// When true, new_table_reader_for_compaction_inputs is forced to true.
// Default: false
func (o *Options) SetUseDirectIOForFlushAndCompaction(value bool) {
	C.rocksdb_options_set_use_direct_io_for_flush_and_compaction(o.c, boolToUchar(value))
}

// SetMaxTotalWalSize sets the maximum total wal size in bytes.
// Once write-ahead logs exceed this size, we will start forcing the flush of
// column families whose memtables are backed by the oldest live WAL file
// (i.e. the ones that are causing all the space amplification). If set to 0
// (default), we will dynamically choose the WAL size limit to be
// [sum of all write_buffer_size * max_write_buffer_number] * 4
// Default: 0
func (o *Options) SetMaxTotalWalSize(value uint64) {
	C.rocksdb_options_set_max_total_wal_size(o.c, C.uint64_t(value))
}

// SetDBLogDir specifies the absolute info LOG dir.
//
// If it is empty, the log files will be in the same dir as data.
// If it is non empty, the log files will be in the specified dir,
// and the db data dir's absolute path will be used as the log file
// name's prefix.
// Default: empty
func (o *Options) SetDBLogDir(value string) {
	cValue := C.CString(value)
	defer C.free(unsafe.Pointer(cValue))
	C.rocksdb_options_set_db_log_dir(o.c, cValue)
}

// SetWalDir specifies the absolute dir path for write-ahead logs (WAL).
//
// If it is empty, the log files will be in the same dir as data.
// If it is non empty, the log files will be in the specified dir,
// When destroying the db, all log files and the dir are deleted.
// Default: empty
func (o *Options) SetWalDir(value string) {
	cValue := C.CString(value)
	defer C.free(unsafe.Pointer(cValue))
	C.rocksdb_options_set_wal_dir(o.c, cValue)
}

// SetMaxBackgroundCompactions sets the maximum number of
// concurrent background jobs, submitted to
// the default LOW priority thread pool
// Default: 1
func (o *Options) SetMaxBackgroundCompactions(value int) {
	C.rocksdb_options_set_max_background_compactions(o.c, C.int(value))
}

// SetMaxBackgroundFlushes sets the maximum number of
// concurrent background memtable flush jobs, submitted to
// the HIGH priority thread pool.
//
// By default, all background jobs (major compaction and memtable flush) go
// to the LOW priority pool. If this option is set to a positive number,
// memtable flush jobs will be submitted to the HIGH priority pool.
// It is important when the same Env is shared by multiple db instances.
// Without a separate pool, long running major compaction jobs could
// potentially block memtable flush jobs of other db instances, leading to
// unnecessary Put stalls.
// Default: 0
func (o *Options) SetMaxBackgroundFlushes(value int) {
	C.rocksdb_options_set_max_background_flushes(o.c, C.int(value))
}

// SetMaxLogFileSize sets the maximal size of the info log file.
//
// If the log file is larger than `max_log_file_size`, a new info log
// file will be created.
// If max_log_file_size == 0, all logs will be written to one log file.
// Default: 0
func (o *Options) SetMaxLogFileSize(value int) {
	C.rocksdb_options_set_max_log_file_size(o.c, C.size_t(value))
}

// SetLogFileTimeToRoll sets the time for the info log file to roll (in seconds).
//
// If specified with non-zero value, log file will be rolled
// if it has been active longer than `log_file_time_to_roll`.
// Default: 0 (disabled)
func (o *Options) SetLogFileTimeToRoll(value int) {
	C.rocksdb_options_set_log_file_time_to_roll(o.c, C.size_t(value))
}

// SetKeepLogFileNum sets the maximal info log files to be kept.
// Default: 1000
func (o *Options) SetKeepLogFileNum(value int) {
	C.rocksdb_options_set_keep_log_file_num(o.c, C.size_t(value))
}

// SetWALTtlSeconds sets the WAL ttl in seconds.
//
// The following two options affect how archived logs will be deleted.
// 1. If both set to 0, logs will be deleted asap and will not get into
//    the archive.
// 2. If wal_ttl_seconds is 0 and wal_size_limit_mb is not 0,
//    WAL files will be checked every 10 min and if total size is greater
//    then wal_size_limit_mb, they will be deleted starting with the
//    earliest until size_limit is met. All empty files will be deleted.
// 3. If wal_ttl_seconds is not 0 and wall_size_limit_mb is 0, then
//    WAL files will be checked every wal_ttl_seconds / 2 and those that
//    are older than wal_ttl_seconds will be deleted.
// 4. If both are not 0, WAL files will be checked every 10 min and both
//    checks will be performed with ttl being first.
// Default: 0
func (o *Options) SetWALTtlSeconds(value uint64) {
	C.rocksdb_options_set_WAL_ttl_seconds(o.c, C.uint64_t(value))
}

// SetWalSizeLimitMb sets the WAL size limit in MB.
//
// If total size of WAL files is greater then wal_size_limit_mb,
// they will be deleted starting with the earliest until size_limit is met
// Default: 0
func (o *Options) SetWalSizeLimitMb(value uint64) {
	C.rocksdb_options_set_WAL_size_limit_MB(o.c, C.uint64_t(value))
}

// SetAllowMmapReads enables/disables mmap reads for reading sst tables.
// Default: false
func (o *Options) SetAllowMmapReads(value bool) {
	C.rocksdb_options_set_allow_mmap_reads(o.c, boolToUchar(value))
}

// SetAllowMmapWrites enables/disables mmap writes for writing sst tables.
// Default: false
func (o *Options) SetAllowMmapWrites(value bool) {
	C.rocksdb_options_set_allow_mmap_writes(o.c, boolToUchar(value))
}

// SetAtomicFlush enables/disables atomic flushes.
// If true, RocksDB supports flushing multiple column families and committing
// their results atomically to MANIFEST. Note that it is not
// necessary to set atomic_flush to true if WAL is always enabled since WAL
// allows the database to be restored to the last persistent state in WAL.
// This option is useful when there are column families with writes NOT
// protected by WAL.
// For manual flush, application has to specify which column families to
// flush atomically in db.Flush.
// For auto-triggered flush, RocksDB atomically flushes ALL column families.
//
// Currently, any WAL-enabled writes after atomic flush may be replayed
// independently if the process crashes later and tries to recover.
func (o *Options) SetAtomicFlush(value bool) {
	C.rocksdb_options_set_atomic_flush(o.c, boolToUchar(value))
}

// SetStatistics sets a statistics object to pass to the DB.
func (o *Options) SetStatistics(s *Statistics) {
	C.rocksdb_options_set_statistics(o.c, s.c)
}

// Destroy deallocates the Options object.
func (o *Options) Destroy() {
	C.rocksdb_options_destroy(o.c)
	if o.env != nil {
		o.env.Destroy()
	}
	if o.bbto != nil {
		o.bbto.Destroy()
	}
	if o.cst != nil {
		C.rocksdb_slicetransform_destroy(o.cst)
	}
	o.c = nil
	o.env = nil
	o.bbto = nil
}
