#!/bin/sh
# usage: mk.sh <checkout root>   — instantiates the build overlay for that checkout under
# <checkout>/_rocksovl/ and prints the path of its overlay.json. Use it as
#   CGO_LDFLAGS_ALLOW='.*' CGO_CFLAGS_ALLOW='.*' go test -overlay <that file> ./storage/rocks/ ./consensus/ ...
# (demonstrations only; no registered check uses it)
set -e
HERE=$(cd "$(dirname "$0")" && pwd)
ROOT=$(cd "$1" && pwd)
OUT="$ROOT/_rocksovl"
rm -rf "$OUT"; mkdir -p "$OUT"
cp "$HERE"/*.go "$HERE"/*.cpp "$HERE"/*.h "$HERE"/overlay.json "$OUT"/
cd "$OUT"
sed -i "s|/tmp/wt2/C16/_out/overlay|$OUT|g; s|/tmp/wt2/C16|$ROOT|g" overlay.json *.go *.cpp *.h
echo "$OUT/overlay.json"
