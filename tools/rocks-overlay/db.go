/*
   Copyright 2018-2019 Banco Bilbao Vizcaya Argentaria, S.A.

   Licensed under the Apache License, Version 2.0 (the "License");
   you may not use this file except in compliance with the License.
   You may obtain a copy of the License at

       http://www.apache.org/licenses/LICENSE-2.0

   Unless required by applicable law or agreed to in writing, software
   distributed under the License is distributed on an "AS IS" BASIS,
   WITHOUT WARRANTIES OR CONDITIONS OF ANY KIND, either express or implied.
   See the License for the specific language governing permissions and
   limitations under the License.
*/

package rocksdb

// #include "rocksdb/c.h"
// #include	"extended.h"
// #include <stdlib.h>
import "C"
import (
	"errors"
	"unsafe"
)

// DB is a reusable handler to a RocksDB database on disk, created by OpenDB.
type DB struct {
	c    *C.rocksdb_t
	opts *Options
}

// OpenDB opens a database with the specified options.
func OpenDB(path string, opts *Options) (*DB, error) {
	var cErr *C.char
	cPath := C.CString(path)
	defer C.free(unsafe.Pointer(cPath))

	db := C.rocksdb_open(opts.c, cPath, &cErr)
	if cErr != nil {
		defer C.free(unsafe.Pointer(cErr))
		return nil, errors.New(C.GoString(cErr))
	}

	return &DB{
		c:    db,
		opts: opts,
	}, nil
}

// OpenDBForReadOnly opens a database with the specified options for read-only usage.
func OpenDBForReadOnly(path string, opts *Options, errorIfLogFileExist bool) (*DB, error) {
	var cErr *C.char
	cPath := C.CString(path)
	defer C.free(unsafe.Pointer(cPath))

	db := C.rocksdb_open_for_read_only(opts.c, cPath, boolToUchar(errorIfLogFileExist), &cErr)
	if cErr != nil {
		defer C.free(unsafe.Pointer(cErr))
		return nil, errors.New(C.GoString(cErr))
	}

	return &DB{
		c:    db,
		opts: opts,
	}, nil
}

// OpenDBColumnFamilies opens a database with the specified column families.
func OpenDBColumnFamilies(
	path string,
	opts *Options,
	cfNames []string,
	cfOpts []*Options,
) (*DB, ColumnFamilyHandles, error) {

	numColumnFamilies := len(cfNames)
	if numColumnFamilies != len(cfOpts) {
		return nil, nil, errors.New("must provide the same number of column family names and options")
	}

	cPath := C.CString(path)
	defer C.free(unsafe.Pointer(cPath))

	cNames := make([]*C.char, numColumnFamilies)
	for i, s := range cfNames {
		cNames[i] = C.CString(s)
	}
	defer func() {
		for _, s := range cNames {
			C.free(unsafe.Pointer(s))
		}
	}()

	cOpts := make([]*C.rocksdb_options_t, numColumnFamilies)
	for i, o := range cfOpts {
		cOpts[i] = o.c
	}

	cHandles := make([]*C.rocksdb_column_family_handle_t, numColumnFamilies)

	var cErr *C.char
	db := C.rocksdb_open_column_families(
		opts.c,
		cPath,
		C.int(numColumnFamilies),
		&cNames[0],
		&cOpts[0],
		&cHandles[0],
		&cErr,
	)
	if cErr != nil {
		defer C.free(unsafe.Pointer(cErr))
		return nil, nil, errors.New(C.GoString(cErr))
	}

	cfHandles := make([]*ColumnFamilyHandle, numColumnFamilies)
	for i, c := range cHandles {
		cfHandles[i] = NewColumnFamilyHandle(c)
	}

	return &DB{
		c:    db,
		opts: opts,
	}, cfHandles, nil
}

// OpenDBForReadOnlyColumnFamilies opens a database with the specified column
// families in read-only mode.
func OpenDBForReadOnlyColumnFamilies(
	path string,
	opts *Options,
	cfNames []string,
	cfOpts []*Options,
	errorIfLogFileExist bool,
) (*DB, ColumnFamilyHandles, error) {

	numColumnFamilies := len(cfNames)
	if numColumnFamilies != len(cfOpts) {
		return nil, nil, errors.New("must provide the same number of column family names and options")
	}

	cPath := C.CString(path)
	defer C.free(unsafe.Pointer(cPath))

	cNames := make([]*C.char, numColumnFamilies)
	for i, s := range cfNames {
		cNames[i] = C.CString(s)
	}
	defer func() {
		for _, s := range cNames {
			C.free(unsafe.Pointer(s))
		}
	}()

	cOpts := make([]*C.rocksdb_options_t, numColumnFamilies)
	for i, o := range cfOpts {
		cOpts[i] = o.c
	}

	cHandles := make([]*C.rocksdb_column_family_handle_t, numColumnFamilies)

	var cErr *C.char
	db := C.rocksdb_open_for_read_only_column_families(
		opts.c,
		cPath,
		C.int(numColumnFamilies),
		&cNames[0],
		&cOpts[0],
		&cHandles[0],
		boolToUchar(errorIfLogFileExist),
		&cErr,
	)
	if cErr != nil {
		defer C.free(unsafe.Pointer(cErr))
		return nil, nil, errors.New(C.GoString(cErr))
	}

	cfHandles := make([]*ColumnFamilyHandle, numColumnFamilies)
	for i, c := range cHandles {
		cfHandles[i] = NewColumnFamilyHandle(c)
	}

	return &DB{
		c:    db,
		opts: opts,
	}, cfHandles, nil
}

// ListColumnFamilies lists the names of the column families in the DB.
func ListColumnFamilies(path string, opts *Options) ([]string, error) {
	var cErr *C.char
	var cLen C.size_t
	var cPath = C.CString(path)
	defer C.free(unsafe.Pointer(cPath))

	cNames := C.rocksdb_list_column_families(opts.c, cPath, &cLen, &cErr)
	if cErr != nil {
		defer C.free(unsafe.Pointer(cErr))
		return nil, errors.New(C.GoString(cErr))
	}

	namesLen := int(cLen)
	names := make([]string, namesLen)
	cNamesArr := (*[1 << 30]*C.char)(unsafe.Pointer(cNames))[:namesLen:namesLen]
	for i, n := range cNamesArr {
		names[i] = C.GoString(n)
	}

	C.rocksdb_list_column_families_destroy(cNames, cLen)
	return names, nil
}

// Close closes the database.
func (db *DB) Close() error {
	if db.c != nil {
		C.rocksdb_close(db.c)
		db.c = nil
	}
	return nil
}

// NewCheckpoint creates a new Checkpoint for this db.
func (db *DB) NewCheckpoint() (*Checkpoint, error) {
	var cErr *C.char
	cCheckpoint := C.rocksdb_checkpoint_object_create(db.c, &cErr)
	if cErr != nil {
		defer C.free(unsafe.Pointer(cErr))
		return nil, errors.New(C.GoString(cErr))
	}
	return NewNativeCheckpoint(cCheckpoint), nil
}

// Put writes data associated with a key to the database.
func (db *DB) Put(wo *WriteOptions, key, value []byte) error {
	cKey := bytesToChar(key)
	cValue := bytesToChar(value)
	var cErr *C.char
	C.rocksdb_put(db.c, wo.c, cKey, C.size_t(len(key)), cValue, C.size_t(len(value)), &cErr)
	if cErr != nil {
		defer C.free(unsafe.Pointer(cErr))
		return errors.New(C.GoString(cErr))
	}
	return nil
}

// PutCF writes data associated with a key to the database and a column family.
func (db *DB) PutCF(wo *WriteOptions, cf *ColumnFamilyHandle, key, value []byte) error {
	cKey := bytesToChar(key)
	cValue := bytesToChar(value)
	var cErr *C.char
	C.rocksdb_put_cf(db.c, wo.c, cf.c, cKey, C.size_t(len(key)), cValue, C.size_t(len(value)), &cErr)
	if cErr != nil {
		defer C.free(unsafe.Pointer(cErr))
		return errors.New(C.GoString(cErr))
	}
	return nil
}

// Get returns the data associated with the key from the database.
func (db *DB) Get(ro *ReadOptions, key []byte) (*Slice, error) {
	var cErr *C.char
	var cValueLen C.size_t
	cKey := bytesToChar(key)
	cValue := C.rocksdb_get(db.c, ro.c, cKey, C.size_t(len(key)), &cValueLen, &cErr)
	if cErr != nil {
		defer C.free(unsafe.Pointer(cErr))
		return nil, errors.New(C.GoString(cErr))
	}
	return NewSlice(cValue, cValueLen), nil
}

// GetBytes is like Get but returns a copy of the data instead of a Slice.
func (db *DB) GetBytes(ro *ReadOptions, key []byte) ([]byte, error) {
	var cErr *C.char
	var cValueLen C.size_t
	cKey := bytesToChar(key)
	cValue := C.rocksdb_get(db.c, ro.c, cKey, C.size_t(len(key)), &cValueLen, &cErr)
	if cErr != nil {
		defer C.free(unsafe.Pointer(cErr))
		return nil, errors.New(C.GoString(cErr))
	}
	if cValue == nil {
		return nil, nil
	}
	defer C.free(unsafe.Pointer(cValue))
	return C.GoBytes(unsafe.Pointer(cValue), C.int(cValueLen)), nil
}

// GetCF returns the data associated with the key from the database
// and column family.
func (db *DB) GetCF(ro *ReadOptions, cf *ColumnFamilyHandle, key []byte) (*Slice, error) {
	var cErr *C.char
	var cValueLen C.size_t
	cKey := bytesToChar(key)
	cValue := C.rocksdb_get_cf(db.c, ro.c, cf.c, cKey, C.size_t(len(key)), &cValueLen, &cErr)
	if cErr != nil {
		defer C.free(unsafe.Pointer(cErr))
		return nil, errors.New(C.GoString(cErr))
	}
	return NewSlice(cValue, cValueLen), nil
}

// GetBytesCF is like GetCF but returns a copy of the data instead of a Slice.
func (db *DB) GetBytesCF(ro *ReadOptions, cf *ColumnFamilyHandle, key []byte) ([]byte, error) {
	var cErr *C.char
	var cValueLen C.size_t
	cKey := bytesToChar(key)
	cValue := C.rocksdb_get_cf(db.c, ro.c, cf.c, cKey, C.size_t(len(key)), &cValueLen, &cErr)
	if cErr != nil {
		defer C.free(unsafe.Pointer(cErr))
		return nil, errors.New(C.GoString(cErr))
	}
	if cValue == nil {
		return nil, nil
	}
	defer C.free(unsafe.Pointer(cValue))
	return C.GoBytes(unsafe.Pointer(cValue), C.int(cValueLen)), nil
}

// Delete removes the data associated with the key from the database.
func (db *DB) Delete(wo *WriteOptions, key []byte) error {
	var cErr *C.char
	cKey := bytesToChar(key)
	C.rocksdb_delete(db.c, wo.c, cKey, C.size_t(len(key)), &cErr)
	if cErr != nil {
		defer C.free(unsafe.Pointer(cErr))
		return errors.New(C.GoString(cErr))
	}
	return nil
}

// DeleteCF removes the data associated with the key from the database and column family.
func (db *DB) DeleteCF(wo *WriteOptions, cf *ColumnFamilyHandle, key []byte) error {
	var cErr *C.char
	cKey := bytesToChar(key)
	C.rocksdb_delete_cf(db.c, wo.c, cf.c, cKey, C.size_t(len(key)), &cErr)
	if cErr != nil {
		defer C.free(unsafe.Pointer(cErr))
		return errors.New(C.GoString(cErr))
	}
	return nil
}

// Write writes a WriteBatch to the database
func (db *DB) Write(wo *WriteOptions, batch *WriteBatch) error {
	var cErr *C.char
	C.rocksdb_write(db.c, wo.c, batch.c, &cErr)
	if cErr != nil {
		defer C.free(unsafe.Pointer(cErr))
		return errors.New(C.GoString(cErr))
	}
	return nil
}

// NewIterator returns an Iterator over the the database that uses the
// ReadOptions given.
func (db *DB) NewIterator(ro *ReadOptions) *Iterator {
	cIter := C.rocksdb_create_iterator(db.c, ro.c)
	return NewNativeIterator(unsafe.Pointer(cIter))
}

// NewIteratorCF returns an Iterator over the the database and column family
// that uses the ReadOptions given.
func (db *DB) NewIteratorCF(ro *ReadOptions, cf *ColumnFamilyHandle) *Iterator {
	cIter := C.rocksdb_create_iterator_cf(db.c, ro.c, cf.c)
	return NewNativeIterator(unsafe.Pointer(cIter))
}

// Flush triggers a manual flush for the database.
func (db *DB) Flush(fo *FlushOptions) error {
	var cErr *C.char
	C.rocksdb_flush(db.c, fo.c, &cErr)
	if cErr != nil {
		defer C.free(unsafe.Pointer(cErr))
		return errors.New(C.GoString(cErr))
	}
	return nil
}

// GetProperty returns the value of a database property.
func (db *DB) GetProperty(propName string) string {
	cProp := C.CString(propName)
	defer C.free(unsafe.Pointer(cProp))
	cValue := C.rocksdb_property_value(db.c, cProp)
	defer C.free(unsafe.Pointer(cValue))
	return C.GoString(cValue)
}

// GetPropertyCF returns the value of a database property.
func (db *DB) GetPropertyCF(propName string, cf *ColumnFamilyHandle) string {
	cProp := C.CString(propName)
	defer C.free(unsafe.Pointer(cProp))
	cValue := C.rocksdb_property_value_cf(db.c, cf.c, cProp)
	defer C.free(unsafe.Pointer(cValue))
	return C.GoString(cValue)
}

// GetUint64Property returns the value of a database property.
func (db *DB) GetUint64Property(propName string) uint64 {
	cProp := C.CString(propName)
	defer C.free(unsafe.Pointer(cProp))
	var cValue C.uint64_t
	C.rocksdb_property_int(db.c, cProp, &cValue)
	return uint64(cValue)
}

// GetUint64PropertyCF returns the value of a database property.
func (db *DB) GetUint64PropertyCF(propName string, cf *ColumnFamilyHandle) uint64 {
	cProp := C.CString(propName)
	defer C.free(unsafe.Pointer(cProp))
	var cValue C.uint64_t
	C.rocksdb_property_int_cf(db.c, cf.c, cProp, &cValue)
	return uint64(cValue)
}

// GetLatestSequenceNumber returns the sequence number of the most
// recent transaction.
func (db *DB) GetLatestSequenceNumber() uint64 {
	var cValue C.uint64_t
	cValue = C.rocksdb_get_latest_sequence_number(db.c)
	return uint64(cValue)
}

// GetUpdatesSince sets iter to an iterator that is positioned at a
// write-batch containing seq_number. If the sequence number is non existent,
// it returns an iterator at the first available seq_no after the requested seq_no.
// Returns an error if iterator is not valid.
// Must set WAL_ttl_seconds or WAL_size_limit_MB to large values to
// use this api, else the WAL files will get cleared aggressively and the
// iterator might keep getting invalid before an update is read.
func (db *DB) GetUpdatesSince(seqNum uint64) (*WALIterator, error) {
	var cErr *C.char
	var cOpts *C.rocksdb_wal_readoptions_t
	cIter := C.rocksdb_get_updates_since(db.c, C.uint64_t(seqNum), cOpts, &cErr)
	if cErr != nil {
		defer C.free(unsafe.Pointer(cErr))
		return nil, errors.New(C.GoString(cErr))
	}
	return NewNativeWALIterator(unsafe.Pointer(cIter)), nil
}
