#!/usr/bin/env python3
"""Regenerates the generated blocks of DESIGN.md: rules table (from evidence) and detection matrix (from tools/matrix.py output file)."""
import subprocess, re, os
p='/verif/DESIGN.md'; s=open(p).read()
rules=subprocess.run(['python3','/verif/tools/gen_rules_md.py'],capture_output=True,text=True).stdout
s=re.sub(r'<!-- RULES-BEGIN -->.*?<!-- RULES-END -->','<!-- RULES-BEGIN -->\n'+rules.replace('\\','\\\\')+'\n<!-- RULES-END -->',s,flags=re.S)
mx='/verif/seeded/MATRIX.txt'
if os.path.exists(mx):
    rows=sorted([l.split(None,4) for l in open(mx) if l.strip()])
    t="| mutant | what it changes | result |\n|---|---|---|\n"
    import json
    for r in rows:
        mid=r[0]; res=' '.join(r[3:]).strip()
        meta='/verif/seeded/%s/meta.json'%mid
        if not os.path.exists(meta): meta='/verif/seeded-unexecuted/%s/meta.json'%mid
        what=''
        if os.path.exists(meta):
            m=json.load(open(meta)); what=(m.get('breaks') or '')[:160].replace('|','/').replace('\n',' ')
        t+="| %s | %s… | %s |\n"%(mid,what,res)
    s=re.sub(r'<!-- MATRIX-BEGIN -->.*?<!-- MATRIX-END -->','<!-- MATRIX-BEGIN -->\n'+t.replace('\\','\\\\')+'\n<!-- MATRIX-END -->',s,flags=re.S)
open(p,'w').write(s)
print("DESIGN.md regenerated")
