#!/usr/bin/env python3
"""Generates /verif/MANIFEST.json from the table below (kept in one place so that the
claimed list, not_applicable list and per-check notes never drift apart)."""
import json, os, sys
HERE = os.path.dirname(os.path.dirname(os.path.abspath(__file__)))

# id -> (design_ref, technique, level text, level_note)
CLAIMED = {}
# structural conditions added after the third mutant round (kept short; the evidence files carry the full rule list)
ROUND3 = {
 "C01": " Third round: shortcut leaves are built from the key/value they stand for, push-down resets land in the written batch, one ordering convention for leaf lists.",
 "C02": " Third round: the client verifies the proof it received unmodified; a missing audit-path entry aborts the recomputation.",
 "C03": " Third round: a missing audit-path entry aborts; ProveConsistency prunes with its own traversal only; the client verifies the proof unmodified.",
 "C04": " Third round: shortcut arguments, push-down resets, one ordering convention, one recovery level.",
 "C05": " Third round: no recover on the apply path; a restore always requests the transfer and ends on the first refused batch; hasher factories are fresh.",
 "C06": " Third round: no recover on the apply path; hasher factories are fresh; a restore always transfers.",
 "C07": " Third round: loadState installs what it decoded; no recover on the apply path; a reader errs only with an empty chunk.",
 "C08": " Third round: readers hand out fresh pairs; a node joins at start-up only without state; loadState installs what it decoded.",
 "C09": " Third round: the transfer is always requested and streamed from the store; the per-batch callback's refusal ends it.",
 "C10": " Third round: after an error answer a query handler returns.",
 "C11": " Third round: after an error answer every handler returns; the proposed command is well-formed on every path; request-path goroutines signal their WaitGroup on every exit.",
 "C12": " Third round: token character indexes are length-guarded; padding length comes from the hasher in use.",
 "C13": " Third round: hasher factories return a new hasher per call.",
 "C14": " Third round: readers hand out newly allocated pairs and report an error only with an empty chunk.",
 "C15": " Third round: StoreLog(s) writes every log on every path; no write bypasses the write-ahead log.",
 "C16": " Third round: a backup can only capture whole applied bulks (one atomic write per bulk, no write bypassing the WAL); db/wal directories handed over in position.",
 "C17": " Third round: Verify's result depends on the message.",
 "C18": " Third round: peer lists read under the topology lock and changed by notifications only; loop goroutines own their variables.",
 "C19": " Third round: the dedup key covers the batch; the publisher posts once per batch.",
 "C20": " Third round: Update builds a fresh list; MarkAsDead always marks; the retrier is bounded.",
}

# structural conditions added after the fifth mutant round
ROUND5 = {
 "C01": " Fifth round: the cache rebuild consumes a reused read buffer up to the count read; the client's automatic verification pairs an answer with the stored snapshots of its own versions (finite order model).",
 "C02": " Fifth round: which stored snapshot supplies which digest is decided per path on every ordering Actual<=Query<=Current.",
 "C03": " Fifth round: recycled (sync.Pool) objects never leak into a proof handed out; the incremental handler admits every pair Start<=End (finite order model).",
 "C04": " Fifth round: the applied-index marker persisted with an entry is the entry's own new state.",
 "C05": " Fifth round: RefreshVersion sets the counter unconditionally on the found edge; an encoded command never aliases a recycled buffer.",
 "C06": " Fifth round: RebuildCache reads the persisted tiles on every path.",
 "C07": " Fifth round: the leader-side transfer filter is decided by the order model for this property too.",
 "C08": " Fifth round: Close returns early only with the error of a release step; a restarted node accepts its own snapshot (order model over state/snapshot versions).",
 "C09": " Fifth round: every error edge of the store's transfer returns the error it tested.",
 "C10": " Fifth round: RaftNode.state is confined to the FSM goroutine; response bodies never alias a recycled buffer.",
 "C11": " Fifth round: no re-entrant read lock through a method of the same receiver; the digest-length guard compares an untruncated length.",
 "C12": " Fifth round: the nil test of a decoded answer is required also when decoding goes through a helper.",
 "C13": " Fifth round: decoded proofs are paired with the stored snapshots of their own versions; answers are read to their end; the gossip receive buffer is not retained; no recycled buffer escapes in any codec package.",
 "C14": " Fifth round: B+tree walks bound the key by the table prefix on both sides; a batch is never reordered unstably.",
 "C15": " Fifth round: a decoded log entry never shares memory with a recycled decoding target.",
 "C16": " Fifth round: a successful CreateBackup always passes through the store's Backup.",
 "C17": " Fifth round: encoded batches never alias a recycled buffer; delivery goroutines get copies of lock-protected subscriber lists.",
 "C20": " Fifth round: callPrimary's rediscovery does not depend on the state of the other endpoints.",
}

# techniques added by the fifth round (appended to the technique string)
TECH5 = {
 "C01": "; finite order model of the client's snapshot pairing",
 "C02": "; finite order model of the client's snapshot pairing",
 "C03": "; finite order model of the handler's admission tests; pool-escape alias rule",
 "C05": "; order model of the counter refresh; pool-escape alias rule",
 "C08": "; finite order model of Restore's refusals; release-error-only early returns",
 "C10": "; call-graph confinement of FSM state; pool-escape alias rule",
 "C13": "; finite order model of snapshot pairing; pool-escape alias rule; borrowed-buffer escape",
 "C15": "; pool-escape alias rule",
 "C17": "; pool-escape alias rule; goroutine-copy rule",
}

def claim(id, ref, technique, text, note):
    CLAIMED[id] = (ref, technique, text, note)

TRUST = ("Trusted base: go/types + go/ssa (x/tools v0.29.0) semantics, VTA call-graph over-approximation, the Go-level API of the "
         "rocksdb cgo wrapper (bodies not analysable here), third-party libraries. ")

claim("C02", "DESIGN.md §3 C02",
      "acceptance-condition path enumeration over SSA CFG + access-path provenance (static)",
      "Static analysis decides, on every control-flow path, the acceptance condition of the three verifier entry points and the provenance of what they compare; it does not decide the cryptographic argument. A skipped conjunct on any path (the defect class the property names) is reported with the path.",
      TRUST + "Declined: collision resistance, soundness of the two-tree construction as a cryptographic statement.")

claim("C01", "DESIGN.md §3 C01",
      "sibling-agreement decision tables + provenance + dominating conditions + locksets over go/ssa (static)",
      "Static analysis decides the structural agreement between inserter, prover and verifier (hash formulas, audit-path keys, traversal decision tables, balloon glue, hyper batch coordinates, list ownership, hasher locking) on every path of the anchored functions; it does not decide the pruning arithmetic or tree-shape quantification. Added after the second mutant round: the provers' collect discipline, no leaf of a bulk dropped, the persisted batch holds the new shortcut.",
      TRUST + "Declined: two-target prover traversal vs verifier arithmetic, hyper push-down/collision depths, 'after any number of insertions'.")
claim("C03", "DESIGN.md §3 C03",
      "acceptance-condition path enumeration + decision tables + dominating range guards (static)",
      "Static analysis decides the acceptance condition of the incremental verifier on every path, the wiring of versions/digests, the range guard of QueryConsistency, the prover/verifier traversal agreement as decision tables and the audit-path wire codec; it does not decide rejection for every alternative digest.",
      TRUST + "Declined: rejection over all forks/histories, the (i,j) arithmetic common to both traversals.")
claim("C04", "DESIGN.md §3 C04",
      "provenance conformance of hash construction sites, codec/encoding checks, decision tables, table wiring, buffer-bound and error-path rules (static)",
      "Static analysis decides that every hash construction site, position encoding, default-hash table, leaf-value preparation, bulk/single agreement (history), freeze rule, cache/table wiring, hyper batch coordinates, list ownership and cache-rebuild read loop conform to the published construction; it does not compare against a reference implementation on values. Also: no leaf of a bulk dropped, persisted batch = written batch, a repeated key keeps its first value, and the state-transfer filter skips exactly what the follower has.",
      TRUST + "Declined: equality with a reference on all sequences, batching-independence of the hyper push-down as a whole, eviction/restart independence as value statements.")
claim("C10", "DESIGN.md §3 C10",
      "type-level lockset analysis (guarded-by table, entry locksets over the VTA call graph), unlock-on-all-exits, escape of guarded buffers (static)",
      "Static analysis decides lock discipline: every access to a guarded field happens under its mutex on every production call path, stateful hashers only under exclusive locks, every lock released on every exit, goroutines joined, cache reads return copies. It does not decide linearizability. The apply-then-persist window (K1) is reported as a known finding. Also: no method re-acquires its receiver's lock through another method of the same receiver; HTTP handlers write only to their own locals (no request state shared through the factory's variables).",
      TRUST + "Locks identified at type level (one instance per node). Declined: 'never mixes state' over all interleavings, race-detector exploration.")

claim("C05", "DESIGN.md §3 C05",
      "provenance + lockset + finite order-model evaluation of the replay filter's decision table + must-abort error paths (static)",
      "Static analysis decides the version-assignment mechanism: counter written under the exclusive lock, advanced by exactly the number of events, per-index agreement in bulk paths, replay filter exact on every ordering of (persisted, entry) index, apply protocol (guard, new state, publish after write, failures abort), RefreshVersion derivation. It does not decide gaps across crash/leader-change schedules. Also: the proposer tests the FSM's verdict before using its value, the store's batch write is one write, version fields are bound field-for-field across the wire conversion, a state transfer is loaded until io.EOF or fails.",
      TRUST + "Declined: absence of gaps over restarts/leader changes (raft, RocksDB).")
claim("C07", "DESIGN.md §3 C07",
      "must-pass-through / exactly-one-write structural rules, provenance of the batch, finite order-model of the replay filter, error-discipline rules (static)",
      "Static analysis decides the atomic-apply mechanism (one Mutate per entry containing tree mutations and applied index, metadata, publish-after-write, abort on failure), the single-writer rule, the back-end batch shape, the replay filter, start-up ordering and the recovery path's error discipline and cache rebuild. It does not decide behaviour at arbitrary crash instants. Also: one recovery level for writers and rebuild, cache tiles persisted whenever cached, no store write bypasses the write-ahead log, the transfer load succeeds only on io.EOF.",
      TRUST + "Declined: SIGKILL instants, torn writes, durability of acknowledged snapshots.")
claim("C09", "DESIGN.md §3 C09",
      "must-call-after (interprocedural), error discipline, finite order-model of the transfer validator's decision table, provenance of request parameters (static)",
      "Static analysis decides that Restore refreshes every in-memory structure derived from the store after a transfer, that transfer errors propagate, that the leader's validator refuses gaps / skips applied batches / accepts the rest on every ordering of (previous,new,last), and the wiring of metadata and request parameters. It does not decide convergence over schedules. Also: the transfer request reports n.state.BalloonVersion (in Restore's region), transferred batches go through the write-ahead log, the load succeeds only on io.EOF.",
      TRUST + "Declined: convergence for all down/up/compaction schedules, WAL iterator semantics.")

claim("C06", "DESIGN.md §3 C06",
      "interprocedural determinism taint over provenance terms from FSM.Apply (VTA reachability), provenance of the proposer/apply payload, join discipline, order-model replay filter (static)",
      "Static analysis decides that the replicated apply path is deterministic and local: no clock/random/environment/map-order value reaches a hash, a mutation, a cache entry, a snapshot or the FSM state; digests are computed once by the proposer; queries are local; helper goroutines are joined before their results are read; cache rebuild is a function of the store. It does not decide equality of replicas over fault sequences. Also: a replica rejoining by state transfer asks for (n.state.BalloonVersion), is sent (validator order model) and loads (stream error forwarded, success only on io.EOF) exactly what it lacks; every command is decoded into a fresh destination.",
      TRUST + "Declined: replica equality across stop/restart/transfer sequences (raft).")
claim("C08", "DESIGN.md §3 C08",
      "handle pairing (create→release on all paths or escape to owner), owner-Close completeness, must-pass shutdown order, abort reachability, rebuild-on-open must-calls (static)",
      "Static analysis decides the release discipline (every DB-bound handle released on all paths, owners' Close complete, node shutdown releases everything with the database last, no explicit abort on the shutdown path) and the rebuild-on-open obligations and cache/table wiring. It does not decide identity of later snapshots. Also: one recovery level for writers and rebuild, tiles persisted whenever cached, the persisted FSM state is the applied one, Close waits for raft's shutdown.",
      TRUST + "Declined: snapshot/proof identity after reopen at every prefix; RocksDB's own reference counting.")

claim("C11", "DESIGN.md §3 C11",
      "must-respond on all handler paths (with sanitizer summaries), guard-on-call-chain dominance, unlock-on-all-exits, who-may-call, list-discipline and LRU rules (static)",
      "Static analysis decides that every registered handler answers on every path, that undecodable bodies are answered 4xx, that the degenerate inputs named by the property (wrong digest length, empty bulk, missing parameter, absent version, out-of-range versions) meet a guard on every call chain before code that aborts, that raft.Apply has one producer, that request-path locks are always released, and two structural conditions whose violation makes replicated commands un-applicable (de-duplicating list insertion, true-LRU write cache). It does not decide panic-freedom for arbitrary bodies. Also: the FSM's verdict is tested before its value is asserted (D10), the version clamp is decided against version-1, every event of the guarded bulk is encoded, handlers keep request state local.",
      TRUST + "Declined: totality over all bodies, oversized bodies, liveness after errors.")
claim("C12", "DESIGN.md §3 C12",
      "recover-boundary check, guard dominance on parsed tokens and decoded pointers, error discipline, finite order-model of the verifier's base case + structural descent (static)",
      "Static analysis decides that the three proof verifiers turn every panic below them into a rejection, that audit-path keys and decoded answers are guarded before use, that decode failures end the call, and that verifier traversals terminate (order-test base case exact on every ordering of node height vs. forged path height; structural descent). It does not bound memory. Also: each pointer-typed part of a proof has its own dominating nil test, the recover handler does not panic again, the client's request loops make progress on every way round (shared with C20).",
      TRUST + "recover() semantics of Go. Declined: memory bounds; malformed gossip to the agents.")

claim("C13", "DESIGN.md §3 C13",
      "field-binding tables over provenance terms, codec agreement (separator/order/width, type byte, shared handles), struct-completeness and buffer-alias rules (static)",
      "Static analysis decides writer/reader agreement of every codec pair: each constructor/conversion binds every field to the source of the corresponding meaning, the audit-path key codec agrees on separator/order/width, commands carry one type byte and codecs share handles, encoded bytes never alias recycled buffers, wire structs are complete and Snapshot types identical. It does not decide value-level round trips. Also: every command is decoded into a fresh destination (msgpack neither truncates nor reallocates a reused one).",
      TRUST + "encoding/json and msgpack round-trip the field types. Declined: verdict equality for all genuine proofs and magnitudes.")
claim("C14", "DESIGN.md §3 C14",
      "registry agreement by decision-table evaluation on every constant, prefix-discipline dominance in tree-iteration callbacks, handle-selection provenance, batch-shape and absence rules (static)",
      "Static analysis decides the isolation mechanics of both back-ends: distinct names/prefixes per table constant and column families in constant order, B+tree keys prefixed in / stripped out and every iteration callback bounded by the table prefix, RocksDB methods using the handle of their own table, one batch per Mutate, absence signalled by ErrKeyNotFound decided by nil-ness. It does not decide equivalence with a map model. Also: keys/values copied out of native slices into buffers sized by the same slice; every batch handed to db.Write is created in the same call.",
      TRUST + "btree iteration order; column-family isolation. Declined: map-model equivalence over sequences; durability.")
claim("C15", "DESIGN.md §3 C15",
      "provenance of keys/handles/values per LogStore/StableStore method, must-write and no-memo rules (static)",
      "Static analysis decides table isolation, big-endian index keys, iterator-derived First/LastIndex, half-open translation and unconditional write of DeleteRange, batch completeness of StoreLogs and codec handle sharing of the raft log store. The cgo wrapper's bodies are outside the analysis. Also: the bytes stored are the encoding of the raft.Log itself (not of a projection), batches are per call, read options see range deletions, native slices copied in full.",
      TRUST + "the rocksdb wrapper returns nil exactly for absent keys. Declined: map-model behaviour, reopen survival.")
claim("C16", "DESIGN.md §3 C16",
      "provenance of recorded metadata and identifiers, lockset at the backup call, parse-width rule, listing-loop and routing rules (static)",
      "Static analysis decides QED's plumbing around RocksDB's backup engine: recorded version = Version()-1 under the node lock, identifiers passed through unchanged and untruncated, complete per-index listing, routing, cache rebuild on open. It does not decide the content of a backup. Also: recovery-level tiles are persisted whenever cached and at the level the rebuild reads; a restore does not keep the directory's old write-ahead logs.",
      TRUST + "RocksDB backup engine semantics. Declined: restored content and continuation at v+1.")
claim("C17", "DESIGN.md §3 C17",
      "who-may-send, per-iteration-allocation, ordering (flush test before append), must-replace-after-publish, provenance of signed bytes, escape of the batch (static)",
      "Static analysis decides the hand-off and batching mechanics: single producer sending one distinct copy per snapshot, flush-if-full test preceding the append with a fresh batch on the full edge and after every publish, conservation of received snapshots, non-empty timer flush, signature over the whole snapshot with no shared scratch state, goroutine-local batch, key use. It does not decide timing-dependent loss/duplication. Also: the message bus hands every published message over with a blocking send, the snapshot type has no formatter method that would change what is signed, the signer constructor succeeds only after its test verification.",
      TRUST + "ed25519; channel semantics. Declined: all arrival timings; cryptographic unforgeability.")
claim("C18", "DESIGN.md §3 C18",
      "dominating TTL guard + ordering, guarded effects and must-record in the processor, provenance of the exclusion list, lockset guard table, nil-guard rule (static)",
      "Static analysis decides the structural conditions of bounded, once-only, never-self-addressed gossip: strict TTL>0 guard with one unconditional decrement before encoding, effects only on the not-processed edge with the digest recorded at lookup time, self and source excluded by name before selection, topology map under its mutex, nil-tested peer lists. It does not decide network-level termination. Also: the cache option installs a cache on every path, each message is decoded into its own batch, every gossip lock is released on every exit.",
      TRUST + "memberlist callbacks run on its own goroutines. Declined: dissemination termination, all interleavings.")
claim("C19", "DESIGN.md §3 C19",
      "provenance of request/verification arguments, must-verify on all successful paths, alert-edge rule, cooperating-site type agreement, guarded-forward rule (static)",
      "Static analysis decides the wiring of auditor, monitor and publisher: proof requested and verified for the right snapshots with the right digests on every successful path, alert exactly on the failing edge and on refused requests (error type named by the auditor = type built by the client), publisher forwards on cache miss keyed by signature with the key recorded first. It does not decide the iff over all tamperings. Also: each task works on the batch of its own message, alerts are handed over with a blocking send, the auditor's query carries the version whenever one is given (decided by presence).",
      TRUST + "verdicts as decided by C02/C03. Declined: iff over every tampering; redelivery schedules.")
claim("C20", "DESIGN.md §3 C20",
      "dominating liveness/kind guards at every return, loop-progress classification of every back edge (one-shot flag, bounded counter, shrinking set), who-may-call for writes, locksets (static)",
      "Static analysis decides the client's selection guards (no dead or non-permitted endpoint handed out), bounded round-robin scans, writes only via callPrimary to topology.Primary(), a progress argument on every way round every loop of callPrimary/callAny/discover/retrier, leader-as-primary on topology updates, and lock discipline. It does not decide convergence or fairness. Also: discovery selects its node with preference Any, a primary confirmed by a server answer is installed as a fresh endpoint on every path.",
      TRUST + "Declined: convergence after leader change, fairness of rotation.")

NOT_YET = "check not built yet (static rules for this property are planned in DESIGN.md §3)"
ALL = ["C%02d" % i for i in range(1, 21)]
NA = {}

def main():
    checks = []
    for id in ALL:
        if id not in CLAIMED:
            continue
        ref, tech, text, note = CLAIMED[id]
        text = text + ROUND3.get(id, '') + ROUND5.get(id, '')
        checks.append({
            "property_id": id,
            "quick_cmd": "./check.sh %s quick" % id,
            "thorough_cmd": "./check.sh %s thorough" % id,
            "evidence_file": "/verif/evidence/%s.json" % id,
            "replay_cmd_template": "./check.sh %s --explain {path}" % id,
            "engine": "qedlint",
            "level_claimed": {"category": "other", "text": text, "design_ref": ref},
            "level_note": note,
            "technique": tech + TECH5.get(id, ''),
        })
    na = [{"property_id": id, "reason": NA.get(id, NOT_YET)} for id in ALL if id not in CLAIMED]
    m = {
        "version": 1,
        "setup_cmd": "./setup.sh",
        "hooks": {
            "guard": "verif",
            "enable": "no hooks are needed: the checks read /repo's source (go/packages + go/ssa) and never build or run it",
            "baseline_off_cmd": "cd /repo && GOFLAGS=-mod=mod GOPROXY=off GOSUMDB=off go test -vet=off -count=1 -timeout 25m ./...",
            "source_commits": [],
            "add_only": True,
        },
        "engines": [{
            "name": "qedlint",
            "path": "/verif/qedlint",
            "serves_properties": sorted(CLAIMED),
            "kind_free_text": "repository-specific static analysis over go/types + go/ssa + VTA call graph (provenance terms, dominating conditions, path enumeration, must-pass-through, locksets, handle pairing, taint), helper-transparent (regions, term expansion) and rename-robust (roles baseline)",
        }],
        "checks": checks,
        "not_applicable": na,
        "notes": "All checks are static: they analyse /repo's current working tree and never execute QED. Exit 2 + CHECKER-ERROR means the machinery failed (never a verdict). Known findings: /verif/known_findings.jsonl.",
    }
    json.dump(m, open(os.path.join(HERE, "MANIFEST.json"), "w"), indent=1)
    print("MANIFEST.json: %d claimed, %d not applicable" % (len(checks), len(na)))

main()
