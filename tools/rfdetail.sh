#!/bin/bash
# usage: rfdetail.sh <patch.diff> <PROP>   — run PROP on /repo with the patch applied as overlay; print FAIL lines
d=$1; [ -f "$d" ] || d=/verif/refactors/$1/patch.diff; P=$2; tmp=$(mktemp -d)
files=$(grep -E '^\+\+\+ b/' $d | sed 's#+++ b/##')
ov=""
for f in $files; do mkdir -p $tmp/$(dirname $f); [ -f /repo/$f ] && cp /repo/$f $tmp/$f; ov="$ov,/repo/$f=$tmp/$f"; done
dels=$(grep -B1 -E '^\+\+\+ /dev/null' $d | grep -E '^--- a/' | sed 's#--- a/##')
for f in $dels; do mkdir -p $tmp/$(dirname $f); cp /repo/$f $tmp/$f; ov="$ov,/repo/$f=$tmp/$f"; done
patch -p1 -s -d $tmp -i $d || echo PATCHFAIL
for f in $dels; do echo "package $(grep -m1 -E '^package ' /repo/$f | awk '{print $2}')" > $tmp/$f; done
/verif/bin/qedlint -prop $P -noevidence -overlay "${ov#,}" | grep -E "^FAIL|CHECKER" | cut -c1-${3:-700}
rm -rf $tmp
