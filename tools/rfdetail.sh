#!/bin/bash
# usage: rfdetail.sh <patch.diff> <PROP>   — run PROP on /repo with the patch applied as overlay; print FAIL lines
d=$1; [ -f "$d" ] || d=/verif/refactors/$1/patch.diff; P=$2; tmp=$(mktemp -d)
files=$(grep -E '^\+\+\+ b/' $d | sed 's#+++ b/##')
ov=""
for f in $files; do mkdir -p $tmp/$(dirname $f); [ -f /repo/$f ] && cp /repo/$f $tmp/$f; ov="$ov,/repo/$f=$tmp/$f"; done
patch -p1 -s -d $tmp -i $d || echo PATCHFAIL
/verif/bin/qedlint -prop $P -noevidence -overlay "${ov#,}" | grep -E "^FAIL|CHECKER" | cut -c1-${3:-700}
rm -rf $tmp
