#!/bin/bash
# Runs the pinned baseline suite of /repo (guard off) and compares with BASELINE.json's stable_pass list.
export GOFLAGS=-mod=mod GOPROXY=off GOSUMDB=off GOTOOLCHAIN=local; unset GOWORK
cd /repo || exit 2
out=$(mktemp)
go test -mod=mod -json -vet=off -count=1 -timeout 25m ./... > "$out" 2>/dev/null
python3 - "$out" <<'PY'
import json,sys
passed=set()
for l in open(sys.argv[1]):
    try: d=json.loads(l)
    except: continue
    if d.get('Action')=='pass' and d.get('Test'): passed.add(d['Package']+'::'+d['Test'])
base=set(json.load(open('/root/.vp/BASELINE.json'))['stable_pass'])
missing=sorted(base-passed)
print(f"baseline: {len(base&passed)}/{len(base)} stable tests pass")
for m in missing: print("  MISSING", m)
sys.exit(1 if missing else 0)
PY
rc=$?
rm -f "$out"
exit $rc
