#!/bin/bash
# usage: confirm_seed.sh <PROP> <k>
# Confirms a sub-agent's mutant in its scratch worktree /tmp/wt/<PROP> (clean HEAD of /repo):
#   demo passes on the original, patch applies, demo fails with the patch, pinned suite passes with the patch.
# On success copies patch, demo and a meta.json to /verif/seeded/<PROP>-m<k>/.
P=$1; K=$2; WT=${WTROOT:-/tmp/wt}/$P; OUT=$WT/_out; DK=$((K+${KOFF:-0}))
export GOFLAGS=-mod=mod GOPROXY=off GOSUMDB=off GOTOOLCHAIN=local; unset GOWORK
cd $WT || exit 2
git checkout -q -- . 
DEMO=$(python3 -c "import json,re;d=re.sub(r'git apply [^&;]*(&&|;)','',json.load(open('$OUT/m$K.json'))['demo_cmd']);d=re.sub(r'\s*#.*$','',d);d=re.sub(r';\s*rm (-[rf]+ )?[^;&]*$','',d);print(d)")
[ -n "$DEMO_OVERRIDE" ] && DEMO="$DEMO_OVERRIDE"
export CGO_LDFLAGS_ALLOW='.*' CGO_CFLAGS_ALLOW='.*'
RUNS=$(python3 -c "import json;print(json.load(open('$OUT/m$K.json')).get('demo_runs_in_sandbox'))")
[ -n "$DEMO_OVERRIDE" ] && RUNS=True
echo "== $P m$K demo_cmd: $DEMO"
orig=skip; mut=skip; suite=skip
if [ "$RUNS" = "True" ]; then
  if bash -c "$DEMO" >/tmp/seed_$P_$K.orig 2>&1; then orig=pass; else orig=fail; fi
fi
git clean -fdq -e _out -e _rocksovl
git apply $OUT/m$K.diff || { echo "patch does not apply"; exit 1; }
if [ "$RUNS" = "True" ]; then
  if bash -c "$DEMO" >/tmp/seed_$P_$K.mut 2>&1; then mut=pass; else mut=fail; fi
fi
git clean -fdq -e _out -e _rocksovl   # the demonstration's own files are not part of the suite
if go test -vet=off -count=1 ./client/ ./crypto/... ./gossip/ ./log/ ./storage/bplus/ ./testutils/spec/ >/tmp/seed_$P_$K.suite 2>&1; then suite=pass; else
  # gossip TestMessageQueue is flaky under load: retry once
  if go test -vet=off -count=1 ./client/ ./crypto/... ./gossip/ ./log/ ./storage/bplus/ ./testutils/spec/ >/tmp/seed_$P_$K.suite 2>&1; then suite=pass; else suite=fail; fi
fi
gofmt -l $(git diff --name-only) 2>&1 | sed 's/^/gofmt: /'
git checkout -q -- .
git clean -fdq -e _out -e _rocksovl
echo "   original: demo=$orig | mutant: demo=$mut suite=$suite"
rm -f /tmp/seed_$P_$K.*
ok=0
if [ "$RUNS" = "True" ]; then [ $orig = pass ] && [ $mut = fail ] && [ $suite = pass ] && ok=1; else [ $suite = pass ] && ok=2; fi
if [ $ok != 0 ]; then
  D=/verif/seeded/$P-m$DK; mkdir -p $D/demo
  cp $OUT/m$K.diff $D/patch.diff; cp -r $OUT/m${K}_demo/. $D/demo/
  python3 - "$OUT/m$K.json" "$D/meta.json" "$orig" "$mut" "$suite" "$ok" <<'PY'
import json,sys
src=json.load(open(sys.argv[1]))
meta={"property":src["property"],"breaks":src["summary"],"needs":src["needs"],"files":src.get("files"),
 "demo_cmd":(__import__("os").environ.get("DEMO_OVERRIDE") or src.get("demo_cmd")),"demo_runs_in_sandbox":src.get("demo_runs_in_sandbox"),
 "confirmed":{"demo_on_original":sys.argv[3],"demo_with_patch":sys.argv[4],"pinned_suite_with_patch":sys.argv[5],
   "how":"tools/confirm_seed.sh in a scratch worktree of /repo HEAD (removed afterwards)" if sys.argv[6]=="1" else "patched package cannot be built in this sandbox (rocksdb cgo): patch applied, pinned suite run, type-checked through the checker's loader; demonstration read, not executed"},
 "detected_by":[]}
json.dump(meta,open(sys.argv[2],"w"),indent=1)
PY
  echo "   kept as $D"
else
  echo "   NOT confirmed"
fi
