#!/bin/bash
# usage: ./check.sh <ID> quick|thorough     run the static checks of one property against /repo's working tree
#        ./check.sh <ID> --explain <path>   pretty-print a replay file and re-run that property
# exit 0: all obligations discharged (KNOWN-FINDING lines for listed findings)
# exit 1: VIOLATION property=<id> replay=<path>
# exit 2: CHECKER-ERROR (the machinery, not the repository, is at fault)
cd "$(dirname "$0")" || exit 2
export GOFLAGS=-mod=mod GOPROXY=off GOSUMDB=off GOTOOLCHAIN=local GOWORK=off
id="$1"; tier="${2:-${VERIF_TIER:-quick}}"
if [ ! -x bin/qedlint ] || [ -n "$(find qedlint -newer bin/qedlint -name '*.go' -print -quit 2>/dev/null)" ]; then
  ./setup.sh >/dev/null || { echo "CHECKER-ERROR cannot build qedlint"; exit 2; }
fi
if [ "$tier" = "--explain" ]; then
  python3 -c 'import json,sys; d=json.load(open(sys.argv[1])); [print(v["pos"],v["rule"],"[%s]"%v["construct"],v["detail"]) for v in d["violations"]]' "$3"
  tier=quick
fi
exec bin/qedlint -prop "$id" -tier "$tier" -repo /repo -verif "$(pwd)"
