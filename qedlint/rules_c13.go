package main

import (
	"fmt"
	"go/types"
	"reflect"
	"strings"

	"golang.org/x/tools/go/ssa"
)

func init() {
	register("C13", propMeta{
		Explanation: "Decides writer/reader agreement of every codec pair on the wire path: (R1) every constructor and conversion between balloon proofs and their wire form binds each field to the source field of the corresponding meaning (explicit table; the type checker sees only a row of uint64s), including the hyper value and history (index, version) rebuilt from ActualVersion/QueryVersion; " +
			"(R2) audit-path key codec: writer and reader agree on separator, order and widths (index parsed at 64 bits); (R3) binary codecs: the command carries exactly one type byte before the msgpack body and the decoder skips exactly one, encoder and decoder share their msgpack handle (commands, gossip messages, raft log entries), encoded bytes never alias a recycled buffer; " +
			"(R4) wire structs are complete: no unexported or json-skipped fields; (R5) the three Snapshot types are converted by type conversion (identical field sets); (R6) the client pairs a decoded membership answer with the stored snapshots of the answer's own versions: per path to DigestVerify, on every ordering Actual<=Query<=Current of small integers the path is feasible for, the history digest comes from the stored snapshot of QueryVersion and the hyper digest from that of CurrentVersion (finite order model; versions are touched only through comparisons).",
		Added:       "Also (R3) every command is decoded into a fresh destination. Third round: (R3) hasher factories return a new hasher on every call (no shared state between encoders of concurrent requests). Fifth round: decoded proofs are paired with the stored snapshots of their own versions; answers are read to their end; the gossip receive buffer is not retained; no recycled buffer escapes in any codec package.",
		Assumptions: []string{"encoding/json and go-msgpack round-trip the field types used"},
		Declined:    "equality of verdicts for all genuine proofs and magnitudes as a value-level statement (e.g. indexes ≥ 2^63 go through a signed parse — outside the property's stated bound).",
	}, runC13)
}

type fieldSrc struct {
	field string
	ok    func(t *Term) bool
	want  string
}

func checkAllocFields(c *Ctx, rule, label string, p *Program, al *ssa.Alloc, at ssa.Instruction, specs []fieldSrc) {
	_, bf := p.storesTo(al)
	var why []string
	for _, s := range specs {
		vals := bf[s.field]
		if len(vals) == 0 {
			why = append(why, s.field+" is never set")
			continue
		}
		for _, v := range vals {
			t := p.XLocal(p.TermOf(v), al.Parent())
			if !s.ok(t) {
				why = append(why, fmt.Sprintf("%s ← %s (expected %s)", s.field, t, s.want))
			}
		}
	}
	pos := al.Pos()
	if at != nil {
		pos = at.Pos()
	}
	c.Check(len(why) == 0, rule, label, pos, fmt.Sprintf("%d fields bound to their sources", len(specs)), strings.Join(why, "; "))
}

// liftSite: set while a rule walks a Region, so that checkCallArgs lifts arguments through the helper chain.
type liftCtx struct {
	rg   *Region
	site regionSite
}

var liftSite *liftCtx

func checkCallArgs(c *Ctx, rule, label string, p *Program, call ssa.Instruction, specs []fieldSrc) {
	cc := callCommon(call)
	var why []string
	for i, s := range specs {
		if i >= len(cc.Args) {
			why = append(why, "missing argument "+s.field)
			continue
		}
		t := p.XLocal(p.TermOf(cc.Args[i]), call.Parent())
		if liftSite != nil {
			// the call sits in a helper of the subject: describe the argument in the subject's vocabulary
			t = p.XLocal(liftSite.rg.Term(liftSite.site, cc.Args[i]), liftSite.rg.root)
		}
		if s.ok != nil && !s.ok(t) {
			why = append(why, fmt.Sprintf("argument %s ← %s (expected %s)", s.field, t, s.want))
		}
	}
	c.Check(len(why) == 0, rule, label, call.Pos(), fmt.Sprintf("%d arguments bound to their sources", len(specs)), strings.Join(why, "; "))
}

func retAlloc(p *Program, fn *ssa.Function) *ssa.Alloc {
	var out *ssa.Alloc
	for _, b := range fn.Blocks {
		if ret, ok := b.Instrs[len(b.Instrs)-1].(*ssa.Return); ok && len(ret.Results) > 0 {
			if al, ok := RetVal(ret, 0).(*ssa.Alloc); ok {
				out = al
			}
		}
	}
	return out
}

func paramIs(fn *ssa.Function, i int) func(*Term) bool {
	return func(t *Term) bool { return t.IsParam(fn, i) }
}

func runC13(c *Ctx) {
	p := c.P
	c.Rule("R8", "a received gossip message is decoded before the transport's buffer is given back (NotifyMsg does not retain its argument)", 1)
	borrowedBufferNotRetained(c, "R8")
	c.Rule("R7", "the client reads every answer to its end before decoding it (no length-limiting reader between the response body and ReadAll)", 1)
	answersReadInFull(c, "R7", []*ssa.Function{p.MustMethod("client", "HTTPClient", "doReq")})
	c.Rule("R1", "constructors and conversions bind every field to the source of the corresponding meaning", 11)
	c.Rule("R2", "audit-path key codec agreement", 3)
	c.Rule("R3", "binary codecs: type byte, shared msgpack handles, no aliasing of recycled buffers", 7)
	c.Rule("R4", "wire structs are complete", 5)
	c.Rule("R5", "Snapshot types have identical field sets", 2)
	c.Rule("R6", "a decoded proof is verified against the stored snapshots of its own versions (history digest: QueryVersion, hyper digest: CurrentVersion), decided per path on every ordering of the three versions", 1)
	snapshotPairing(c, "R6", p.MustMethod(pkgBalloon, "MembershipProof", "DigestVerify"))
	// --- R1: constructors (field ← parameter index)
	for _, k := range []struct {
		pkg, fn string
		m       []string
	}{
		{pkgBalloon, "NewMembershipProof", []string{"Exists", "HyperProof", "HistoryProof", "CurrentVersion", "QueryVersion", "ActualVersion", "KeyDigest", "Hasher"}},
		{pkgBalloon, "NewIncrementalProof", []string{"Start", "End", "AuditPath", "Hasher"}},
		{pkgHistory, "NewMembershipProof", []string{"Index", "Version", "AuditPath", "hasher"}},
		{pkgHistory, "NewIncrementalProof", []string{"StartVersion", "EndVersion", "AuditPath", "hasher"}},
		{pkgHyper, "NewQueryProof", []string{"Key", "Value", "AuditPath", "hasher"}},
	} {
		fn := p.MustFunc(k.pkg, k.fn)
		al := retAlloc(p, fn)
		if al == nil {
			c.Fail("R1", funcName(fn), fn.Pos(), "constructor does not return a freshly built struct")
			continue
		}
		var specs []fieldSrc
		for i, f := range k.m {
			specs = append(specs, fieldSrc{f, paramIs(fn, i), fmt.Sprintf("parameter #%d", i)})
		}
		checkAllocFields(c, "R1", funcName(fn), p, al, nil, specs)
	}
	// --- R1: conversions
	tmr := p.MustFunc("protocol", "ToMembershipResult")
	if al := retAlloc(p, tmr); al != nil {
		mpf := func(f string) func(*Term) bool { return isParamField(tmr, 1, f) }
		checkAllocFields(c, "R1", funcName(tmr), p, al, nil, []fieldSrc{
			{"Exists", mpf("Exists"), "mp.Exists"},
			{"Hyper", func(t *Term) bool { return t.IsField("AuditPath", mpf("HyperProof")) }, "mp.HyperProof.AuditPath"},
			{"History", func(t *Term) bool {
				for _, a := range t.Alts() {
					if a.Op == "const" && a.Name == "nil" {
						continue
					}
					if !(a.Op == "call" && a.Fn != nil && a.Fn.Name() == "Serialize" && a.Args[0].IsField("AuditPath", mpf("HistoryProof"))) {
						return false
					}
				}
				return true
			}, "mp.HistoryProof.AuditPath.Serialize()"},
			{"CurrentVersion", mpf("CurrentVersion"), "mp.CurrentVersion"},
			{"QueryVersion", mpf("QueryVersion"), "mp.QueryVersion"},
			{"ActualVersion", mpf("ActualVersion"), "mp.ActualVersion"},
			{"KeyDigest", mpf("KeyDigest"), "mp.KeyDigest"},
			{"Key", paramIs(tmr, 0), "key"},
		})
	} else {
		c.Fail("R1", funcName(tmr), tmr.Pos(), "does not build a MembershipResult")
	}
	tbp := p.MustFunc("protocol", "ToBalloonProof")
	mrf := func(f string) func(*Term) bool { return isParamField(tbp, 0, f) }
	isCallNamed := func(name string) func(*Term) bool {
		return func(t *Term) bool { return t.Op == "call" && t.Fn != nil && t.Fn.Name() == name }
	}
	nb := 0
	rgT := p.RegionOf(tbp, 2) // a part may be rebuilt by a helper of the package (`toHyperProof(result, hasher)`)
	rgT.Instrs(func(site regionSite, in ssa.Instruction) {
		cc := callCommon(in)
		if cc == nil || cc.StaticCallee() == nil {
			return
		}
		liftSite = &liftCtx{rgT, site}
		defer func() { liftSite = nil }()
		f := cc.StaticCallee()
		switch {
		case f == p.Func(pkgBalloon, "NewMembershipProof"):
			nb++
			checkCallArgs(c, "R1", funcName(tbp)+":balloon-proof", p, in, []fieldSrc{
				{"exists", mrf("Exists"), "mr.Exists"},
				{"hyperProof", isCallNamed("NewQueryProof"), "the rebuilt hyper proof"},
				{"historyProof", isCallNamed("NewMembershipProof"), "the rebuilt history proof"},
				{"currentVersion", mrf("CurrentVersion"), "mr.CurrentVersion"},
				{"queryVersion", mrf("QueryVersion"), "mr.QueryVersion"},
				{"actualVersion", mrf("ActualVersion"), "mr.ActualVersion"},
				{"keyDigest", mrf("KeyDigest"), "mr.KeyDigest"},
			})
		case f == p.Func(pkgHyper, "NewQueryProof"):
			nb++
			checkCallArgs(c, "R1", funcName(tbp)+":hyper-proof", p, in, []fieldSrc{
				{"key", mrf("KeyDigest"), "mr.KeyDigest"},
				{"value", func(t *Term) bool {
					return utilCallTerm(t, "Uint64AsPaddedBytes") && mrf("ActualVersion")(t.Args[0])
				}, "padded big-endian mr.ActualVersion"},
				{"auditPath", mrf("Hyper"), "mr.Hyper"},
			})
		case f == p.Func(pkgHistory, "NewMembershipProof"):
			nb++
			checkCallArgs(c, "R1", funcName(tbp)+":history-proof", p, in, []fieldSrc{
				{"index", mrf("ActualVersion"), "mr.ActualVersion"},
				{"version", mrf("QueryVersion"), "mr.QueryVersion"},
				{"auditPath", func(t *Term) bool { return isCallNamed("ParseAuditPath")(t) && mrf("History")(t.Args[0]) }, "ParseAuditPath(mr.History)"},
			})
		}
	})
	if nb != 3 {
		c.Fail("R1", funcName(tbp), tbp.Pos(), fmt.Sprintf("ToBalloonProof makes %d of the 3 expected constructor calls", nb))
	}
	tir := p.MustFunc("protocol", "ToIncrementalResponse")
	if al := retAlloc(p, tir); al != nil {
		checkAllocFields(c, "R1", funcName(tir), p, al, nil, []fieldSrc{
			{"Start", isParamField(tir, 0, "Start"), "proof.Start"},
			{"End", isParamField(tir, 0, "End"), "proof.End"},
			{"AuditPath", func(t *Term) bool {
				return t.Op == "call" && t.Fn != nil && t.Fn.Name() == "Serialize" && isParamField(tir, 0, "AuditPath")(t.Args[0])
			}, "proof.AuditPath.Serialize()"},
		})
	} else {
		c.Fail("R1", funcName(tir), tir.Pos(), "does not build an IncrementalResponse")
	}
	tip := p.MustFunc("protocol", "ToIncrementalProof")
	found := false
	eachInstr(tip, func(in ssa.Instruction) {
		cc := callCommon(in)
		if cc != nil && cc.StaticCallee() == p.Func(pkgBalloon, "NewIncrementalProof") {
			found = true
			checkCallArgs(c, "R1", funcName(tip), p, in, []fieldSrc{
				{"start", isParamField(tip, 0, "Start"), "ir.Start"},
				{"end", isParamField(tip, 0, "End"), "ir.End"},
				{"auditPath", func(t *Term) bool {
					return isCallNamed("ParseAuditPath")(t) && isParamField(tip, 0, "AuditPath")(t.Args[0])
				}, "ParseAuditPath(ir.AuditPath)"},
			})
		}
	})
	if !found {
		c.Fail("R1", funcName(tip), tip.Pos(), "ToIncrementalProof does not call balloon.NewIncrementalProof")
	}
	// --- R2
	histAuditCodec(c, "R2")
	// --- R3
	commandCodec(c, "R3")
	sharedHandle(c, "R3", p.MustMethod("gossip", "Message", "Encode"), p.MustMethod("gossip", "Message", "Decode"))
	raftLogCodecHandle(c, "R3")
	hasherFactoriesAreFresh(c, "R3", []string{"client", "consensus", "server", "cmd", "protocol"})
	poolEscapes(c, "R3", []string{"gossip", pkgConsensus, "protocol", "server", "api/apihttp", "client", "balloon", "balloon/history", "balloon/hyper"})
	// --- R4
	for _, k := range []struct{ pkg, typ string }{{"protocol", "MembershipResult"}, {"protocol", "IncrementalResponse"}, {"protocol", "Snapshot"}, {"protocol", "SignedSnapshot"}, {"protocol", "BatchSnapshots"}, {"gossip", "Message"}} {
		n := p.NamedType(k.pkg, k.typ)
		if n == nil {
			c.Fail("R4", k.typ, 0, "wire struct not found")
			continue
		}
		st := n.Underlying().(*types.Struct)
		var why []string
		for i := 0; i < st.NumFields(); i++ {
			f := st.Field(i)
			if !f.Exported() {
				why = append(why, "field "+f.Name()+" is unexported and never travels")
			}
			tag := reflect.StructTag(st.Tag(i))
			if v := tag.Get("json"); v == "-" || strings.HasPrefix(v, "-,") {
				why = append(why, "field "+f.Name()+" is excluded from JSON")
			}
			if v := tag.Get("codec"); v == "-" {
				why = append(why, "field "+f.Name()+" is excluded from msgpack")
			}
		}
		c.Check(len(why) == 0, "R4", k.pkg+"."+k.typ, n.Obj().Pos(), fmt.Sprintf("%d fields, all travel", st.NumFields()), strings.Join(why, "; "))
	}
	// every field the verifier reads from a balloon proof has a wire counterpart
	mr := p.NamedType("protocol", "MembershipResult").Underlying().(*types.Struct)
	have := map[string]bool{}
	for i := 0; i < mr.NumFields(); i++ {
		have[mr.Field(i).Name()] = true
	}
	var missingF []string
	for _, f := range []string{"Exists", "CurrentVersion", "QueryVersion", "ActualVersion", "KeyDigest", "Hyper", "History"} {
		if !have[f] {
			missingF = append(missingF, f)
		}
	}
	c.Check(len(missingF) == 0, "R4", "protocol.MembershipResult:complete", 0, "carries every field the verifier reads", "MembershipResult lacks "+strings.Join(missingF, ", "))
	// --- R5
	a, b, d := p.NamedType("protocol", "Snapshot"), p.NamedType(pkgBalloon, "Snapshot"), p.NamedType("protocol", "Snapshot")
	_ = d
	c.Check(a != nil && b != nil && types.ConvertibleTo(a, b) && types.IdenticalIgnoreTags(a.Underlying(), b.Underlying()), "R5", "Snapshot", 0, "protocol.Snapshot and balloon.Snapshot have identical fields", "protocol.Snapshot and balloon.Snapshot no longer have identical field sets: conversions between them drop or misplace data")
	// conversions are type conversions, not field copies
	nConv := 0
	for _, fn := range p.ModFuncs {
		if !p.Production(fn) {
			continue
		}
		eachInstr(fn, func(in ssa.Instruction) {
			if ct, ok := in.(*ssa.ChangeType); ok {
				if namedIs(ct.Type(), "protocol", "Snapshot") && namedIs(ct.X.Type(), pkgBalloon, "Snapshot") || namedIs(ct.Type(), pkgBalloon, "Snapshot") && namedIs(ct.X.Type(), "protocol", "Snapshot") {
					nConv++
				}
			}
		})
	}
	c.Check(nConv >= 2, "R5", "Snapshot:conversions", 0, fmt.Sprintf("%d whole-struct conversions between the Snapshot types", nConv), "snapshots are no longer converted between their wire and internal forms by whole-struct conversion")
}

func sharedHandle(c *Ctx, rule string, enc, dec *ssa.Function) {
	p := c.P
	h := func(fn *ssa.Function, prefix string) string {
		var s string
		eachInstr(fn, func(in ssa.Instruction) {
			if cc := callCommon(in); cc != nil && cc.StaticCallee() != nil && strings.HasPrefix(cc.StaticCallee().Name(), prefix) && strings.Contains(cc.StaticCallee().Pkg.Pkg.Path(), "codec") {
				t := p.TermOf(cc.Args[1])
				s = t.Render(func(x *Term, rec func(*Term) string) (string, bool) {
					if x.Op == "param" && x.Idx == 0 {
						return "recv", true
					}
					return "", false
				})
			}
		})
		return s
	}
	he, hd := h(enc, "NewEncoder"), h(dec, "NewDecoder")
	c.Check(he != "" && he == hd, rule, funcName(enc)+"/"+dec.Name(), enc.Pos(), "encoder and decoder share the handle "+he, "encoder uses handle "+he+", decoder uses "+hd+": what is written is not what is read")
}

// noPooledAlias: a function must not return bytes that belong to a buffer it recycles (sync.Pool.Put).
func noPooledAlias(c *Ctx, rule string, pkgs []string) {
	p := c.P
	want := map[string]bool{}
	for _, k := range pkgs {
		want[modPkg(k)] = true
	}
	bad := 0
	n := 0
	for _, fn := range p.ModFuncs {
		if fn.Pkg == nil || !want[fn.Pkg.Pkg.Path()] || !p.Production(fn) {
			continue
		}
		var pooled []*Term
		eachInstr(fn, func(in ssa.Instruction) {
			cc := callCommon(in)
			if cc == nil || cc.StaticCallee() == nil {
				return
			}
			f := cc.StaticCallee()
			if f.Name() == "Put" && f.Signature.Recv() != nil && namedIs(f.Signature.Recv().Type(), "sync", "Pool") {
				pooled = append(pooled, p.TermOf(cc.Args[1]))
			}
		})
		if fn.Signature.Results().Len() > 0 && isByteSlice(fn.Signature.Results().At(0).Type()) {
			n++
		}
		if len(pooled) == 0 {
			continue
		}
		for _, rt := range p.ReturnTerms(fn) {
			for _, t := range rt {
				for _, pt := range pooled {
					if t.Has(func(x *Term) bool { return x.String() == pt.String() }) {
						bad++
						c.Fail(rule, funcName(fn)+":pooled-bytes", fn.Pos(), "returns "+t.String()+", memory of a buffer the function hands back to a sync.Pool: the next user of the pool overwrites bytes the caller still holds")
					}
				}
			}
		}
	}
	if bad == 0 {
		c.Ok(rule, "no-recycled-buffer-escapes", 0, fmt.Sprintf("%d byte-producing functions in the codec packages, none returns memory of a recycled buffer", n))
	}
}

// raftLogCodecHandle: the raft log store writes and reads its entries with the same msgpack handle.
// The encoder is looked for in the region of StoreLog, the decoder in the region of GetLog (the
// codec calls may sit in methods of the store, in plain helper functions or inline), and both
// handles are described relative to the store (`recv.codec`).
func raftLogCodecHandle(c *Ctx, rule string) {
	p := c.P
	find := func(root *ssa.Function, prefix string) (string, ssa.Instruction) {
		rg := p.RegionOf(root, 2)
		var s string
		var at ssa.Instruction
		rg.Instrs(func(site regionSite, in ssa.Instruction) {
			cc := callCommon(in)
			if cc == nil || cc.StaticCallee() == nil || cc.StaticCallee().Pkg == nil || !strings.HasPrefix(cc.StaticCallee().Name(), prefix) || !strings.Contains(cc.StaticCallee().Pkg.Pkg.Path(), "codec") || len(cc.Args) < 2 {
				return
			}
			t := rg.Term(site, cc.Args[1])
			s = t.Render(func(x *Term, rec func(*Term) string) (string, bool) {
				if x.Op == "param" && x.Idx == 0 && x.Fn == root {
					return "recv", true
				}
				return "", false
			})
			at = in
		})
		return s, at
	}
	sl := p.MustMethod(pkgConsensus, "raftLog", "StoreLog")
	gl := p.MustMethod(pkgConsensus, "raftLog", "GetLog")
	he, at := find(sl, "NewEncoder")
	hd, _ := find(gl, "NewDecoder")
	if he == "" || hd == "" {
		c.Fail(rule, "raftLog:codec", sl.Pos(), "the raft log store no longer encodes/decodes its entries with msgpack (encoder handle: "+he+", decoder handle: "+hd+")")
		return
	}
	c.Check(he == hd, rule, "raftLog:codec", at.Pos(), "encoder and decoder share the handle "+he, "the raft log store encodes with handle "+he+" and decodes with "+hd+": what is written is not what is read")
}
