package main

import (
	"go/types"
	"strings"

	"golang.org/x/tools/go/ssa"
)

// Engine E-PAIR: handle pairing. A handle created in a function must, on every
// path from its creation to a return, be released, or escape: returned,
// stored into a field (the owner's Close is then responsible), or handed to a
// callee that stores / releases it.

type handleSpec struct {
	pkg, typ string
	release  []string
}

var dbHandles = []handleSpec{
	{"rocksdb", "Iterator", []string{"Close"}},
	{"rocksdb", "WALIterator", []string{"Close"}},
	{"rocksdb", "BackupEngineInfo", []string{"Destroy"}},
	{"rocksdb", "Checkpoint", []string{"Destroy"}},
	{"rocksdb", "LogDataExtractor", []string{"Destroy"}},
	{"storage", "KVPairReader", []string{"Close"}},
}

func handleOf(t types.Type, specs []handleSpec) *handleSpec {
	for i := range specs {
		if namedIs(t, specs[i].pkg, specs[i].typ) {
			return &specs[i]
		}
	}
	return nil
}

type handleSite struct {
	fn     *ssa.Function
	in     ssa.Instruction
	val    ssa.Value
	spec   *handleSpec
	status string // released | escapes:<how> | LEAK
	leakAt ssa.Instruction
}

func (p *Program) isReleaseOf(in ssa.Instruction, h ssa.Value, spec *handleSpec) bool {
	cc := callCommon(in)
	if cc == nil {
		return false
	}
	name := ""
	var recv ssa.Value
	if cc.IsInvoke() {
		name, recv = cc.Method.Name(), cc.Value
	} else if f := cc.StaticCallee(); f != nil && f.Signature.Recv() != nil && len(cc.Args) > 0 {
		name, recv = f.Name(), cc.Args[0]
	} else if f := cc.StaticCallee(); f != nil && f.Parent() != nil {
		// deferred / called closure releasing the captured handle
		found := false
		if mc, ok := cc.Value.(*ssa.MakeClosure); ok {
			for i, b := range mc.Bindings {
				if !p.sameHandle(b, h) || i >= len(f.FreeVars) {
					continue
				}
				fv := f.FreeVars[i]
				eachInstr(f, func(i2 ssa.Instruction) {
					c2 := callCommon(i2)
					if c2 == nil {
						return
					}
					var r2 ssa.Value
					n2 := ""
					if c2.IsInvoke() {
						n2, r2 = c2.Method.Name(), c2.Value
					} else if g := c2.StaticCallee(); g != nil && g.Signature.Recv() != nil && len(c2.Args) > 0 {
						n2, r2 = g.Name(), c2.Args[0]
					}
					for _, rel := range spec.release {
						if n2 == rel && r2 != nil && derefLoad(r2) == ssa.Value(fv) {
							found = true
						}
					}
				})
			}
		}
		return found
	}
	for _, rel := range spec.release {
		if name == rel && recv != nil && p.sameHandle(recv, h) {
			return true
		}
	}
	return false
}

func derefLoad(v ssa.Value) ssa.Value {
	if u, ok := v.(*ssa.UnOp); ok {
		return u.X
	}
	return v
}

// sameHandle: v designates the handle h (directly, through the local cell it was stored in, or through phi).
func (p *Program) sameHandle(v, h ssa.Value) bool {
	return p.sameHandle1(v, h, map[ssa.Value]bool{})
}

func (p *Program) sameHandle1(v, h ssa.Value, seen map[ssa.Value]bool) bool {
	if v == h {
		return true
	}
	if v == nil || seen[v] {
		return false
	}
	seen[v] = true
	switch x := v.(type) {
	case *ssa.UnOp:
		// load of a local cell that holds h
		if al, ok := x.X.(*ssa.Alloc); ok {
			whole, _ := p.storesTo(al)
			for _, s := range whole {
				if p.sameHandle1(s, h, seen) {
					return true
				}
			}
		}
	case *ssa.Alloc:
		whole, _ := p.storesTo(x)
		for _, s := range whole {
			if p.sameHandle1(s, h, seen) {
				return true
			}
		}
	case *ssa.Phi:
		for _, e := range x.Edges {
			if p.sameHandle1(e, h, seen) {
				return true
			}
		}
	case *ssa.MakeInterface:
		return p.sameHandle1(x.X, h, seen)
	case *ssa.ChangeInterface:
		return p.sameHandle1(x.X, h, seen)
	case *ssa.Extract:
		if he, ok := h.(*ssa.Extract); ok && he.Tuple == x.Tuple && he.Index == x.Index {
			return true
		}
	}
	return false
}

// HandleSites analyses every creation of a tracked handle in production code.
func (p *Program) HandleSites(specs []handleSpec) []handleSite {
	var out []handleSite
	for _, fn := range p.ModFuncs {
		if !p.Production(fn) || fn.Pkg == nil || strings.HasSuffix(fn.Pkg.Pkg.Path(), "/rocksdb") {
			continue
		}
		fn := fn
		eachInstr(fn, func(in ssa.Instruction) {
			call, ok := in.(*ssa.Call)
			if !ok {
				return
			}
			res := call.Call.Signature().Results()
			for i := 0; i < res.Len(); i++ {
				spec := handleOf(res.At(i).Type(), specs)
				if spec == nil {
					continue
				}
				// constructors of the handle's own wrapper types are creation sites in their callers
				var hv ssa.Value = call
				if res.Len() > 1 {
					hv = nil
					for _, r := range *call.Referrers() {
						if ex, ok := r.(*ssa.Extract); ok && ex.Index == i {
							hv = ex
						}
					}
					if hv == nil {
						out = append(out, handleSite{fn: fn, in: in, spec: spec, status: "LEAK", leakAt: in})
						continue
					}
				}
				out = append(out, p.analyseHandle(fn, in, hv, spec))
			}
		})
	}
	return out
}

func (p *Program) analyseHandle(fn *ssa.Function, create ssa.Instruction, h ssa.Value, spec *handleSpec) handleSite {
	site := handleSite{fn: fn, in: create, val: h, spec: spec}
	escape := ""
	hit := func(in ssa.Instruction) bool {
		if p.isReleaseOf(in, h, spec) {
			return true
		}
		switch x := in.(type) {
		case *ssa.Return:
			for _, r := range x.Results {
				if p.sameHandle(r, h) {
					escape = "returned"
					return true
				}
				// returned inside a fresh struct
				if al, ok := r.(*ssa.Alloc); ok {
					_, bf := p.storesTo(al)
					for _, vs := range bf {
						for _, v := range vs {
							if p.sameHandle(v, h) {
								escape = "returned in " + typeStr(al.Type())
								return true
							}
						}
					}
				}
			}
		case *ssa.Store:
			if p.sameHandle(x.Val, h) {
				if fa, ok := x.Addr.(*ssa.FieldAddr); ok {
					if _, isLocal := fa.X.(*ssa.Alloc); !isLocal || fa.X.(*ssa.Alloc).Heap {
						escape = "stored in field " + structFieldName(deref(fa.X.Type()), fa.Field) + " of " + typeStr(deref(fa.X.Type()))
						return true
					}
				}
			}
		}
		if cc := callCommon(in); cc != nil && in != create {
			// handed to a module callee (not a method of the handle itself): obligation moves
			for i, a := range cc.Args {
				if p.sameHandle(a, h) {
					if f := cc.StaticCallee(); f != nil && f.Signature.Recv() != nil && i == 0 {
						continue
					}
					if f := cc.StaticCallee(); f != nil && f.Pkg != nil && p.inModule(f.Pkg.Pkg.Path()) {
						escape = "passed to " + funcName(f)
						return true
					}
				}
			}
		}
		return false
	}
	// the error edge right after a creation that also returns an error carries no handle
	esc := p.EscapesWithout(fn, hit, mustOpts{start: create, skipErrEdges: true, errReturnsCount: true})
	switch {
	case esc != nil:
		site.status, site.leakAt = "LEAK", esc
	case escape != "":
		site.status = "escapes:" + escape
	default:
		site.status = "released"
	}
	return site
}
