package main

import (
	"bufio"
	"encoding/json"
	"fmt"
	"go/token"
	"os"
	"path/filepath"
	"sort"
	"strings"
	"time"
)

// Instance is one analysed rule instance (an obligation).
type Instance struct {
	Rule      string `json:"rule"`
	Construct string `json:"construct"`
	Pos       string `json:"pos"`
	Detail    string `json:"detail,omitempty"`
	OK        bool   `json:"ok"`
	Known     bool   `json:"known_finding,omitempty"`
}

type knownRec struct {
	Property  string `json:"property"`
	Rule      string `json:"rule"`
	Construct string `json:"construct"`
	Status    string `json:"status"` // known | fixed
	Commit    string `json:"commit,omitempty"`
	What      string `json:"what"`
}

// Ctx collects what the rules of one property analysed and found.
type Ctx struct {
	P         *Program
	Prop      string
	Tier      string
	Instances []Instance
	floors    map[string]int
	ruleDoc   map[string]string
	ruleOrder []string
	controls  []string
	info      map[string]interface{}
	alias     string // sub-context: report under this rule id of parent
	parent    *Ctx
}

func newCtx(p *Program, prop, tier string) *Ctx {
	return &Ctx{P: p, Prop: prop, Tier: tier, floors: map[string]int{}, ruleDoc: map[string]string{}, info: map[string]interface{}{}}
}

// Rule declares a rule: id (without property prefix), words, and the minimum
// number of instances confirmed by hand on the pinned tree.
func (c *Ctx) Rule(id, doc string, floor int) {
	if c.parent != nil {
		return
	}
	id = c.Prop + "." + id
	if _, ok := c.ruleDoc[id]; !ok {
		c.ruleOrder = append(c.ruleOrder, id)
	}
	c.ruleDoc[id] = doc
	c.floors[id] = floor
}

func (c *Ctx) add(rule, construct string, pos token.Pos, detail string, ok bool) {
	if c.parent != nil {
		c.parent.add(c.alias, construct, pos, detail, ok)
		return
	}
	c.Instances = append(c.Instances, Instance{Rule: c.Prop + "." + rule, Construct: construct, Pos: c.P.pos(pos), Detail: detail, OK: ok})
}

func (c *Ctx) Ok(rule, construct string, pos token.Pos, detail string) {
	c.add(rule, construct, pos, detail, true)
}
func (c *Ctx) Fail(rule, construct string, pos token.Pos, detail string) {
	c.add(rule, construct, pos, detail, false)
}

// Check records an instance whose verdict is cond.
func (c *Ctx) Check(cond bool, rule, construct string, pos token.Pos, okDetail, failDetail string) bool {
	if cond {
		c.Ok(rule, construct, pos, okDetail)
	} else {
		c.Fail(rule, construct, pos, failDetail)
	}
	return cond
}

// Control records that a positive control matched (checker error otherwise).
func (c *Ctx) Control(name string, matched bool) {
	if !matched {
		fatalf("positive control %s did not match: the rule no longer recognises what it must", name)
	}
	c.controls = append(c.controls, name)
}

func loadKnown(path string) []knownRec {
	f, err := os.Open(path)
	if err != nil {
		return nil
	}
	defer f.Close()
	var out []knownRec
	sc := bufio.NewScanner(f)
	sc.Buffer(make([]byte, 1<<20), 1<<20)
	for sc.Scan() {
		line := strings.TrimSpace(sc.Text())
		if line == "" || strings.HasPrefix(line, "#") {
			continue
		}
		var r knownRec
		if err := json.Unmarshal([]byte(line), &r); err != nil {
			fatalf("known findings file %s: %v", path, err)
		}
		out = append(out, r)
	}
	return out
}

type propMeta struct {
	Explanation string
	Added       string // rules added after the first version (second mutant round), part of the explanation
	Assumptions []string
	Declined    string
}

// finish applies floors and known findings, writes evidence and returns the exit code.
func (c *Ctx) finish(meta propMeta, verifDir string, start time.Time, seed int, variants []variantResult) int {
	// floors: a rule with fewer instances than confirmed by hand no longer
	// establishes its obligation anywhere -> violation of that rule
	count := map[string]int{}
	for _, in := range c.Instances {
		count[in.Rule]++
	}
	for _, r := range c.ruleOrder {
		if count[r] < c.floors[r] {
			c.Instances = append(c.Instances, Instance{Rule: r, Construct: "instance-floor", Pos: "-",
				Detail: fmt.Sprintf("only %d instance(s) of this rule were found, %d were confirmed on the pinned tree: the mechanism the rule checks is no longer present where it was", count[r], c.floors[r]), OK: false})
		}
	}
	known := loadKnown(filepath.Join(verifDir, "known_findings.jsonl"))
	var violations []Instance
	var knownHits []Instance
	for i := range c.Instances {
		in := &c.Instances[i]
		if in.OK {
			continue
		}
		matched := false
		for _, k := range known {
			if k.Status == "known" && k.Property == c.Prop && k.Rule == in.Rule && k.Construct == in.Construct {
				matched = true
				break
			}
		}
		if matched {
			in.Known = true
			knownHits = append(knownHits, *in)
		} else {
			violations = append(violations, *in)
		}
	}
	sort.SliceStable(c.Instances, func(i, j int) bool {
		a, b := c.Instances[i], c.Instances[j]
		if a.Rule != b.Rule {
			return a.Rule < b.Rule
		}
		return a.Construct < b.Construct
	})

	fmt.Printf("qedlint %s tier=%s: %d packages (%d in module), %d module functions, %d allow-listed type errors\n",
		c.Prop, c.Tier, len(c.P.Pkgs), len(c.P.ModPkgs), len(c.P.ModFuncs), len(c.P.AllowedErr))
	for _, r := range c.ruleOrder {
		n, bad := 0, 0
		for _, in := range c.Instances {
			if in.Rule == r {
				n++
				if !in.OK {
					bad++
				}
			}
		}
		fmt.Printf("  rule %-10s %3d instance(s), %d failing  — %s\n", r, n, bad, c.ruleDoc[r])
	}
	for _, k := range knownHits {
		fmt.Printf("KNOWN-FINDING: property=%s %s %s at %s: %s\n", c.Prop, k.Rule, k.Construct, k.Pos, k.Detail)
	}
	replay := ""
	if len(violations) > 0 {
		dir := filepath.Join(verifDir, "evidence", "replay")
		os.MkdirAll(dir, 0o755)
		replay = filepath.Join(dir, c.Prop+".json")
		b, _ := json.MarshalIndent(map[string]interface{}{"property": c.Prop, "tier": c.Tier, "violations": violations}, "", " ")
		os.WriteFile(replay, b, 0o644)
		for _, v := range violations {
			fmt.Printf("%s: %s [%s] %s\n", v.Pos, v.Rule, v.Construct, v.Detail)
		}
		fmt.Printf("VIOLATION property=%s replay=%s\n", c.Prop, replay)
	}

	distinct := map[string]bool{}
	for _, in := range c.Instances {
		distinct[in.Rule+"|"+in.Construct] = true
	}
	discharged := 0
	for _, in := range c.Instances {
		if in.OK {
			discharged++
		}
	}
	samples := c.Instances
	if len(samples) > 400 {
		samples = samples[:400]
	}
	rules := map[string]string{}
	for k, v := range c.ruleDoc {
		rules[k] = v
	}
	cov := map[string]interface{}{
		"explanation":             strings.TrimSpace(meta.Explanation+" "+meta.Added) + " DECLINED (not decided by this check): " + meta.Declined,
		"obligations":             len(c.Instances),
		"discharged":              discharged,
		"evaluations":             len(c.Instances),
		"distinct_nontrivial":     len(distinct),
		"rule":                    "one evaluation = one rule instance (rule, construct) found in /repo's current source by resolving the rule's anchors through go/types + go/ssa; distinct = distinct (rule, construct) pairs; every instance carries an obligation, so all are non-trivial",
		"samples":                 samples,
		"rules":                   rules,
		"instance_floors":         c.floors,
		"controls_matched":        c.controls,
		"packages_loaded":         len(c.P.Pkgs),
		"module_packages":         len(c.P.ModPkgs),
		"module_functions":        len(c.P.ModFuncs),
		"allowlisted_type_errors": c.P.AllowedErr,
		"known_findings_matched":  knownHits,
		"exhaustive":              true,
		"checker_cmd":             "/verif/bin/qedlint -prop " + c.Prop + " -tier " + c.Tier,
		"trusted_base":            []string{"go/types and go/ssa (x/tools v0.29.0) semantics", "VTA call graph over-approximates interface dispatch", "the rocksdb cgo wrapper's Go-level API (bodies not analysable in this sandbox)", "third-party libraries (raft, memberlist, msgpack, ed25519)"},
	}
	for k, v := range c.info {
		cov[k] = v
	}
	if variants != nil {
		cov["selfcheck_variants"] = variants
	}
	ev := map[string]interface{}{
		"property_id": c.Prop,
		"tier":        c.Tier,
		"seed":        seed,
		"level":       "other",
		"coverage":    cov,
		"assumptions": meta.Assumptions,
		"wall_s":      time.Since(start).Seconds(),
		"violations":  len(violations),
	}
	os.MkdirAll(filepath.Join(verifDir, "evidence"), 0o755)
	b, _ := json.MarshalIndent(ev, "", " ")
	if err := os.WriteFile(filepath.Join(verifDir, "evidence", c.Prop+".json"), b, 0o644); err != nil {
		fatalf("cannot write evidence: %v", err)
	}
	if len(violations) > 0 {
		return 1
	}
	fmt.Printf("OK property=%s obligations=%d discharged=%d known_findings=%d\n", c.Prop, len(c.Instances), discharged, len(knownHits))
	return 0
}

type variantResult struct {
	Name     string `json:"name"`
	Kind     string `json:"kind"` // breaking | refactor
	Expected string `json:"expected"`
	Got      string `json:"got"`
	OK       bool   `json:"ok"`
}
