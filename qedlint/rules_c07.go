package main

import (
	"fmt"
	"strings"

	"golang.org/x/tools/go/ssa"
)

func init() {
	register("C07", propMeta{
		Explanation: "Decides the 'one atomic write per applied entry, including the applied index' mechanism and the recovery path: (R1) applyAdd issues exactly one Store.Mutate whose batch holds the tree mutations and the FSM-state marker, with {previous,new} version metadata, publishes the in-memory state after it and aborts on any failure; " +
			"(R2) that is the only store write of the node (single writer); (R3) RocksDBStore.Mutate puts every mutation into one write batch (log data first) and writes once; (R4) the replay filter (finite order model) guards applyAdd; (R5) start-up recovers balloon and FSM state before raft starts and returns their errors; " +
			"(R6) error discipline on the recovery path; (R7) caches are rebuilt from the store on open (constructors must-call RefreshVersion / RebuildCache; rebuild consumes exactly what was read).",
		Added:       "Also (R7) one recovery level for writers and rebuild, tiles persisted whenever cached; (R8) no store write bypasses the write-ahead log; the transfer load succeeds only on io.EOF (R6). Third round: (R5) loadState installs the state it decoded; (R1) nothing on the apply path recovers; (R7) a reader reports an error only together with an empty chunk. Fifth round: the leader-side transfer filter is decided by the order model for this property too.",
		Assumptions: []string{"RocksDB write batches are atomic and durable as configured", "raft replays committed entries after restart"},
		Declined:    "behaviour at arbitrary SIGKILL instants, torn writes, that acknowledged snapshots remain verifiable (raft/RocksDB durability).",
	}, runC07)
}

func runC07(c *Ctx) {
	c.Rule("R9", "a node recovering by state transfer is sent every batch it lacks: the leader-side filter refuses gaps and skips exactly what the follower has (finite order model)", 2)
	fsmValidate(c, "R9")
	c.Rule("R1", "applyAdd: one atomic batch (tree mutations + applied index), metadata, publish-after-write, failures abort", 6)
	c.Rule("R2", "single writer: the FSM's Mutate is the only store write of the node", 1)
	c.Rule("R3", "RocksDBStore.Mutate: one batch, log data first, every mutation put into its own table, one Write", 1)
	c.Rule("R4", "replay filter guards the apply", 3)
	c.Rule("R5", "start-up: balloon and FSM state recovered before raft starts; errors returned", 2)
	c.Rule("R6", "recovery-path error discipline (no discarded / stale / swallowed errors)", 6)
	c.Rule("R7", "in-memory structures rebuilt from the store on open", 3)
	_, applyAdd := fsmApplyGuard(c, "R4")
	fsmShouldApply(c, "R4")
	fsmApplyAdd(c, "R1", applyAdd)
	singleWriter(c, "R2", applyAdd)
	rocksMutate(c, "R3")
	c07Startup(c)
	recoveryErrors(c, "R6")
	rebuildOnOpen(c, "R7")
	recoveryHeightAgreement(c, "R7")
	cacheTilesPersistedAlways(c, "R7")
	loadStateInstallsWhatItDecodes(c, "R5")
	applyPathNoRecover(c, "R1")
	readerErrOnlyWithEmptyChunk(c, "R7")
	c.Rule("R8", "no store write bypasses the write-ahead log", 1)
	walNeverDisabled(c, "R8")
}

func singleWriter(c *Ctx, rule string, applyAdd *ssa.Function) {
	p := c.P
	n := 0
	for _, fn := range p.ModFuncs {
		if !p.Production(fn) || fn.Pkg == nil {
			continue
		}
		pp := fn.Pkg.Pkg.Path()
		if strings.HasPrefix(pp, modPkg("storage")) || strings.HasPrefix(pp, modPkg("rocksdb")) || strings.HasPrefix(pp, modPkg("cmd")) && strings.Contains(fn.Name(), "estore") {
			continue
		}
		fn := fn
		eachInstr(fn, func(in ssa.Instruction) {
			cc := callCommon(in)
			if cc == nil || !cc.IsInvoke() || cc.Method.Name() != "Mutate" || !(namedIs(cc.Value.Type(), "storage", "Store") || namedIs(cc.Value.Type(), "storage", "ManagedStore")) {
				return
			}
			n++
			c.Check(fn == applyAdd, rule, funcName(fn)+":Mutate", in.Pos(), "the FSM's apply is the writer", "a second writer of the node's store: "+funcName(fn)+" calls Store.Mutate outside the FSM's atomic apply batch")
		})
	}
	if n == 0 {
		c.Fail(rule, "writers", 0, "no Store.Mutate call found in production code")
	}
}

func rocksMutate(c *Ctx, rule string) {
	p := c.P
	fn := p.MustMethod("storage/rocks", "RocksDBStore", "Mutate")
	name := funcName(fn)
	rg := p.RegionOf(fn, 3)
	var newBatch, logData, write, puts []regionInstr
	rg.Instrs(func(site regionSite, in ssa.Instruction) {
		cc := callCommon(in)
		if cc == nil {
			return
		}
		if _, isDefer := in.(*ssa.Defer); isDefer {
			return
		}
		f := cc.StaticCallee()
		if f == nil {
			return
		}
		ri := regionInstr{site, in}
		switch {
		case f.Name() == "NewWriteBatch":
			newBatch = append(newBatch, ri)
		case f.Name() == "PutLogData":
			logData = append(logData, ri)
		case f.Name() == "PutCF" || f.Name() == "Put":
			puts = append(puts, ri)
		case (f.Name() == "Write" || f.Name() == "WriteWithoutWAL") && f.Signature.Recv() != nil && namedIs(f.Signature.Recv().Type(), "rocksdb", "DB"):
			write = append(write, ri)
		case f.Name() == "Clear" && f.Signature.Recv() != nil && namedIs(f.Signature.Recv().Type(), "rocksdb", "WriteBatch"):
			c.Fail(rule, name+":batch-cleared", in.Pos(), "the write batch is cleared inside Mutate: one Mutate must be one transaction")
		}
	})
	var why []string
	if len(newBatch) != 1 || rg.InCycle(newBatch[0]) {
		why = append(why, fmt.Sprintf("%d write batches created", len(newBatch)))
	}
	if len(write) != 1 || (len(write) == 1 && rg.InCycle(write[0])) {
		why = append(why, fmt.Sprintf("%d db.Write calls (in a loop: %v) — a Mutate must be exactly one transaction", len(write), len(write) > 0 && rg.InCycle(write[0])))
	}
	if len(logData) != 1 {
		why = append(why, fmt.Sprintf("%d PutLogData calls", len(logData)))
	}
	if len(puts) != 1 || !rg.InCycle(puts[0]) {
		why = append(why, fmt.Sprintf("%d put sites, expected one inside the loop over the mutations", len(puts)))
	}
	if len(why) == 0 {
		// log data first, with the metadata parameter
		ld := callCommon(logData[0].in)
		if !rg.Before(logData[0], puts[0]) {
			why = append(why, "PutLogData does not precede the puts (the reader expects the metadata first in the batch)")
		}
		if lt := rg.Term(logData[0].site, ld.Args[1]); !lt.IsParam(fn, 2) {
			why = append(why, "log data is "+lt.String()+", not the metadata parameter")
		}
		// the put: handle of the mutation's own table, its key, its value; loop over the whole slice
		pc := callCommon(puts[0].in)
		h, k, v := rg.Term(puts[0].site, pc.Args[1]), rg.Term(puts[0].site, pc.Args[2]), rg.Term(puts[0].site, pc.Args[3])
		isElem := func(t *Term) bool { return t.Op == "index" && t.Args[0].IsParam(fn, 1) }
		okH := h.Op == "index" && h.Args[0].IsField("cfHandles", isParam(fn, 0)) && h.Args[1].IsField("Table", isElem)
		okKV := k.IsField("Key", isElem) && v.IsField("Value", isElem)
		same := okH && okKV && h.Args[1].Strip().Args[0].String() == k.Strip().Args[0].String() && k.Strip().Args[0].String() == v.Strip().Args[0].String()
		if !same {
			why = append(why, fmt.Sprintf("put(handle=%s, key=%s, value=%s): expected the handle of m.Table with m.Key, m.Value of the same mutation m", h, k, v))
		}
		// loop bound: i < len(mutations) and no other exit from the loop than the bound
		cs := rg.Conds(puts[0])
		if !hasCond(cs, func(k Cond) bool {
			return k.Pol && k.Atom.Op == "LT" && k.Atom.Args[1].Op == "builtin" && k.Atom.Args[1].Name == "len" && k.Atom.Args[1].Args[0].IsParam(fn, 1)
		}) {
			why = append(why, "the put loop is not bounded by len(mutations)")
		}
		if len(cs) > 1 {
			var extra []string
			for _, k := range cs {
				if !(k.Atom.Op == "LT" && k.Atom.Args[1].Op == "builtin") {
					extra = append(extra, k.String())
				}
			}
			if len(extra) > 0 {
				why = append(why, "mutations are put only under "+strings.Join(extra, " ∧ ")+": some mutations of the batch can be dropped")
			}
		}
		// write: after the loop, with the batch; result returned
		wc := callCommon(write[0].in)
		if !(rg.Term(write[0].site, wc.Args[2]).String() == rg.Term(newBatch[0].site, newBatch[0].in.(ssa.Value)).String()) {
			why = append(why, "db.Write is not given the batch that was filled")
		}
		ret := false
		for _, rc := range rg.ReturnCases(0) {
			if rc.T.V == write[0].in.(ssa.Value) || rc.T.Has(func(x *Term) bool { return x.V == write[0].in.(ssa.Value) }) {
				ret = true
			}
		}
		if !ret {
			why = append(why, "the result of db.Write is not what Mutate returns")
		}
	}
	// the mutations are applied in the order given: a batch may write the same key more than once and the
	// last write must win; an unstable reordering (sort.Slice, sort.Sort) makes equal keys change places
	rg.Instrs(func(site regionSite, in ssa.Instruction) {
		cc := callCommon(in)
		if cc == nil || cc.StaticCallee() == nil || cc.StaticCallee().Pkg == nil {
			return
		}
		f := cc.StaticCallee()
		pk := f.Pkg.Pkg.Path()
		unstable := pk == "sort" && (f.Name() == "Slice" || f.Name() == "Sort") || pk == "slices" && (f.Name() == "SortFunc" || f.Name() == "Sort")
		if !unstable || len(cc.Args) == 0 {
			return
		}
		if rg.Term(site, cc.Args[0]).Has(func(x *Term) bool { return x.IsParam(fn, 1) }) {
			why = append(why, "the mutations are reordered with the unstable "+pk+"."+f.Name()+" before they are written: two writes of one key in one batch may change places and the older value wins")
		}
	})
	c.Check(len(why) == 0, rule, name, fn.Pos(), "one batch: PutLogData(metadata) then PutCF(cf[m.Table], m.Key, m.Value) for every m in the order given, one Write, its error returned", strings.Join(why, "; "))
}

func c07Startup(c *Ctx) {
	p := c.P
	fn := p.MustFunc(pkgConsensus, "NewRaftNodeWithLogger")
	name := funcName(fn)
	var newRaft ssa.Instruction
	eachInstr(fn, func(in ssa.Instruction) {
		if cc := callCommon(in); cc != nil && isCallToFunc(cc, "github.com/hashicorp/raft", "NewRaft") {
			newRaft = in
		}
	})
	if newRaft == nil {
		c.Fail("R5", name, fn.Pos(), "raft is not started in the node constructor")
		return
	}
	newBalloon := p.MustFunc(pkgBalloon, "NewBalloonWithLogger")
	loadState := p.MustMethod(pkgConsensus, "RaftNode", "loadState")
	for _, need := range []*ssa.Function{newBalloon, loadState} {
		calls := callsIn(fn, func(k *ssa.CallCommon) bool { return k.StaticCallee() == need })
		ok := len(calls) == 1 && instrBefore(calls[0], newRaft)
		// its error is returned: the err != nil edge returns a non-nil error
		if ok {
			var errV ssa.Value
			call := calls[0].(*ssa.Call)
			if call.Call.Signature().Results().Len() == 1 {
				errV = call
			} else {
				for _, r := range *call.Referrers() {
					if ex, ok := r.(*ssa.Extract); ok && ex.Index == call.Call.Signature().Results().Len()-1 {
						errV = ex
					}
				}
			}
			ok = false
			for _, b := range fn.Blocks {
				ifi := blockIf(b)
				if ifi == nil || p.errEdge(ifi) < 0 {
					continue
				}
				cond := ifi.Cond.(*ssa.BinOp)
				if cond.X != errV && cond.Y != errV {
					continue
				}
				eb := b.Succs[p.errEdge(ifi)]
				for _, rb := range fn.Blocks {
					if !eb.Dominates(rb) {
						continue
					}
					if ret, isR := rb.Instrs[len(rb.Instrs)-1].(*ssa.Return); isR {
						rv := RetVal(ret, len(ret.Results)-1)
						if cst, isC := rv.(*ssa.Const); !isC || cst.Value != nil {
							ok = true
						}
					}
				}
			}
		}
		c.Check(ok, "R5", name+":"+need.Name(), fn.Pos(), need.Name()+" before raft.NewRaft, its error returned", need.Name()+" is not called exactly once before raft starts replaying the log with its error returned: raft would apply entries onto unrecovered state")
	}
}

func recoveryErrors(c *Ctx, rule string) {
	p := c.P
	fns := []*ssa.Function{
		p.MustMethod(pkgConsensus, "RaftNode", "loadState"),
		p.MustMethod(pkgConsensus, "RaftNode", "Restore"),
		p.MustMethod(pkgConsensus, "RaftNode", "FetchSnapshot"),
		p.MustMethod(pkgConsensus, "RaftNode", "attemptToFetchSnapshot"),
		p.MustMethod(pkgConsensus, "chunkReader", "Read"),
		p.MustMethod("storage/rocks", "RocksDBStore", "LoadSnapshot"),
		p.MustMethod("storage/rocks", "RocksDBStore", "FetchSnapshot"),
		p.MustMethod(pkgBalloon, "Balloon", "RefreshVersion"),
		p.Func("storage/rocks", "readChunk"),
	}
	errorDiscipline(c, rule, fns)
	streamEndOnlyOnEOF(c, rule, p.MustMethod("storage/rocks", "RocksDBStore", "LoadSnapshot"))
	streamReaderForwardsError(c, rule)
}

// streamReaderForwardsError: the stream reader hands the stream's own error on (a broken transfer must not look like a clean end).
func streamReaderForwardsError(c *Ctx, rule string) {
	p := c.P
	rd := p.MustMethod(pkgConsensus, "chunkReader", "Read")
	okAll := true
	n := 0
	for _, b := range rd.Blocks {
		ifi := blockIf(b)
		if ifi == nil || p.errEdge(ifi) < 0 {
			continue
		}
		cond := ifi.Cond.(*ssa.BinOp)
		et := p.TermOf(cond.X)
		if !et.Has(func(t *Term) bool { return t.Op == "invoke" && t.Name == "Recv" }) {
			continue
		}
		n++
		eb := b.Succs[p.errEdge(ifi)]
		for _, rb := range rd.Blocks {
			if !eb.Dominates(rb) {
				continue
			}
			if ret, isR := rb.Instrs[len(rb.Instrs)-1].(*ssa.Return); isR {
				rv := p.TermOf(RetVal(ret, len(ret.Results)-1))
				if rv.String() != et.String() {
					okAll = false
					c.Fail(rule, funcName(rd)+":recv-error", ret.Pos(), "a failure of stream.Recv is reported as "+rv.String()+" instead of the stream's own error: a refused or broken transfer would look like a completed one")
				}
			}
		}
	}
	if n == 0 {
		c.Fail(rule, funcName(rd)+":recv-error", rd.Pos(), "the error of stream.Recv is not tested")
	} else if okAll {
		c.Ok(rule, funcName(rd)+":recv-error", rd.Pos(), "Recv's error is returned unchanged")
	}
}

// streamEndOnlyOnEOF: a loop that loads chunks until the stream ends may report success only
// after the reader said io.EOF. Any other way out of the loop to a nil-error return (a nil chunk,
// a short read, a swallowed error) lets a transfer that broke half-way pass for a complete one.
func streamEndOnlyOnEOF(c *Ctx, rule string, fn *ssa.Function) {
	p := c.P
	name := funcName(fn) + ":success-only-on-EOF"
	rg := p.RegionOf(fn, 2)
	var reads []regionInstr
	for _, ri := range rg.Calls(func(k *ssa.CallCommon) bool {
		f := k.StaticCallee()
		if f == nil || f.Pkg != fn.Pkg || f.Signature.Results().Len() != 2 || !isErrorType(f.Signature.Results().At(1).Type()) || !isByteSlice(f.Signature.Results().At(0).Type()) {
			return false
		}
		// a chunk reader: takes an io.Reader
		for i := 0; i < f.Signature.Params().Len(); i++ {
			if strings.HasPrefix(typeStr(f.Signature.Params().At(i).Type()), "io.Read") {
				return true
			}
		}
		return false
	}) {
		if ri.site.owner == fn && inCycle(ri.in.Block()) {
			reads = append(reads, ri)
		}
	}
	if len(reads) != 1 {
		c.Fail(rule, name, fn.Pos(), fmt.Sprintf("%d chunk-reading call sites in the loading loop (one expected)", len(reads)))
		return
	}
	read := reads[0].in
	isEOFEdge := func(b *ssa.BasicBlock, succ int) bool {
		ifi := blockIf(b)
		if ifi == nil {
			return false
		}
		cd := p.condOf(ifi.Cond, succ == 0)
		if cd.Atom.Op != "EQ" || !cd.Pol {
			return false
		}
		for i := 0; i < 2; i++ {
			x, y := cd.Atom.Args[i], cd.Atom.Args[1-i]
			if x.Op == "global" && strings.HasSuffix(x.Name, "io.EOF") && y.HasLocal(func(t *Term) bool { return t.V == read.(ssa.Value) }) {
				return true
			}
		}
		return false
	}
	notSuccess := func(in ssa.Instruction) bool {
		ret, ok := in.(*ssa.Return)
		if !ok {
			return false
		}
		k, isC := RetVal(ret, len(ret.Results)-1).(*ssa.Const)
		return !(isC && k.Value == nil)
	}
	esc := p.EscapesWithout(fn, func(ssa.Instruction) bool { return false }, mustOpts{start: read, skipEdge: isEOFEdge, stopAt: notSuccess})
	pos := fn.Pos()
	if esc != nil {
		pos = esc.Pos()
	}
	c.Check(esc == nil, rule, name, pos, "the load reports success only after the chunk reader returned io.EOF", "the loading loop can end with a nil error without the reader having reported io.EOF (for example on a nil chunk): a transfer interrupted by any other error is accepted as complete and the follower is left with a prefix of the state")
}

func rebuildOnOpen(c *Ctx, rule string) {
	p := c.P
	nb := p.MustFunc(pkgBalloon, "NewBalloonWithLogger")
	refresh := p.MustMethod(pkgBalloon, "Balloon", "RefreshVersion")
	nh := p.MustFunc(pkgHyper, "NewHyperTreeWithLogger")
	rebuild := p.MustMethod(pkgHyper, "HyperTree", "RebuildCache")
	must := func(fn, callee *ssa.Function, what string) {
		hit := func(in ssa.Instruction) bool {
			cc := callCommon(in)
			if _, isDefer := in.(*ssa.Defer); isDefer {
				return false
			}
			return cc != nil && cc.StaticCallee() == callee
		}
		esc := p.EscapesWithout(fn, hit, mustOpts{skipErrEdges: true})
		c.Check(esc == nil, rule, funcName(fn)+":"+callee.Name(), fn.Pos(), what, "the constructor can return a usable object without "+callee.Name()+": after a restart "+what+" would not hold")
	}
	must(nb, refresh, "the version counter is recovered from the store")
	must(nb, nh, "the hyper tree (and its cache) is built")
	must(nh, rebuild, "the in-memory batch cache is rebuilt from the persisted tiles")
	readerBufferDiscipline(c, rule, []string{"balloon/hyper"})
	// RebuildCache: every tile read is put into the cache and its index collected; the loop ends only on n==0 or error
	var put, app bool
	p.RegionOf(rebuild, 2).Instrs(func(_ regionSite, in ssa.Instruction) {
		cc := callCommon(in)
		if cc == nil {
			return
		}
		if cc.IsInvoke() && cc.Method.Name() == "Put" && inCycle(in.Block()) {
			k, v := p.TermOf(cc.Args[0]), p.TermOf(cc.Args[1])
			if k.IsField("Key", nil) && v.IsField("Value", nil) && k.Strip().Args[0].String() == v.Strip().Args[0].String() {
				put = true
			}
		}
		if b, ok := cc.Value.(*ssa.Builtin); ok && b.Name() == "append" && inCycle(in.Block()) {
			app = true
		}
	})
	// ... on every path: the rebuild is also run on a warm tree (after a state transfer or a restored
	// backup replaced the store under it); a way out of RebuildCache that does not read the tile table
	// leaves the upper levels describing the old store
	rr := p.RegionOf(rebuild, 2)
	readsTiles := func(in ssa.Instruction) bool {
		cc := callCommon(in)
		return cc != nil && cc.IsInvoke() && cc.Method.Name() == "GetAll"
	}
	escR := rr.EscapesWithoutDeep(readsTiles, mustOpts{})
	posR := rebuild.Pos()
	if escR != nil {
		posR = escR.Pos()
	}
	c.Check(escR == nil, rule, funcName(rebuild)+":always-reads", posR, "every path through RebuildCache reads the persisted tiles", "RebuildCache can return without reading the persisted tiles (an early way out): when it is run on a tree that already holds data — after a state transfer or a restore replaced the store — the in-memory levels keep describing the old store")
	c.Check(put && app, rule, funcName(rebuild)+":replay", rebuild.Pos(), "every tile read is put into the cache (key ↦ value of the same tile) and its index collected", fmt.Sprintf("cache warm-up: tiles put into the cache=%v, indexes collected=%v", put, app))
}
