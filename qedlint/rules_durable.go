package main

import (
	"fmt"
	"strings"

	"golang.org/x/tools/go/ssa"
)

// ---- recovery-height agreement ---------------------------------------------------
//
// The hyper tree persists the tiles of one level (the "recovery height") so that
// RebuildCache can refill the in-memory cache after a restart. Every writer (Add,
// AddBulk), the query path and the rebuild itself build their interpreter context
// with a RecoveryHeight; the rebuild also tells its traversal at which height the
// persisted tiles sit. If one of these sites names another level, tiles are
// written where the rebuild never looks (or not written at all) and a restarted
// node recomputes different digests. All sites must name the same level.
func recoveryHeightAgreement(c *Ctx, rule string) {
	p := c.P
	sp := p.SSAPkg[modPkg(pkgHyper)]
	type site struct {
		fn   *ssa.Function
		in   ssa.Instruction
		what string
		t    *Term
	}
	var sites []site
	norm := func(fn *ssa.Function, t *Term) string {
		// receiver-relative rendering: P0@fn.x -> recv.x
		return strings.ReplaceAll(t.String(), "P0@"+fn.Name(), "recv")
	}
	for _, fn := range p.ModFuncs {
		if fn.Pkg != sp || !p.Production(fn) || fn.Signature.Recv() == nil || !namedIs(fn.Signature.Recv().Type(), pkgHyper, "HyperTree") {
			continue
		}
		fn := fn
		eachInstr(fn, func(in ssa.Instruction) {
			if al, ok := in.(*ssa.Alloc); ok && namedIs(deref(al.Type()), pkgHyper, "pruningContext") {
				_, bf := p.storesTo(al)
				for _, v := range bf["RecoveryHeight"] {
					sites = append(sites, site{fn, in, "context", p.TermOf(v)})
				}
			}
			if cc := callCommon(in); cc != nil {
				if f := cc.StaticCallee(); f != nil && f.Pkg == sp && f.Signature.Recv() == nil && f.Signature.Results().Len() == 1 && namedIs(f.Signature.Results().At(0).Type(), pkgHyper, "operationsStack") {
					// the rebuild traversal is the one that takes the indexes of the persisted tiles and a height
					if f.Signature.Params().Len() == 3 && isBasicKindU16(f.Signature.Params().At(1).Type()) && len(callsIn(fn, func(k *ssa.CallCommon) bool { return k.IsInvoke() && k.Method.Name() == "GetAll" })) > 0 {
						sites = append(sites, site{fn, in, "rebuild traversal", p.TermOf(cc.Args[1])})
					}
				}
			}
		})
	}
	if len(sites) < 4 {
		c.Fail(rule, "hyper:recovery-height", 0, fmt.Sprintf("only %d sites naming the recovery height found (inserters, query, rebuild expected)", len(sites)))
		return
	}
	ref := norm(sites[0].fn, sites[0].t)
	for _, s := range sites {
		label := fmt.Sprintf("%s:recovery-height:%s", funcName(s.fn), s.what)
		got := norm(s.fn, s.t)
		c.Check(got == ref, rule, label, s.in.Pos(), "same persisted level as the other sites ("+ref+")", "this site works with recovery height "+got+" while "+funcName(sites[0].fn)+" uses "+ref+": tiles are persisted at one level and looked for at another after a restart")
	}
}

func isBasicKindU16(t interface{ String() string }) bool { return t.String() == "uint16" }

// ---- the write-ahead log is never bypassed ----------------------------------------
//
// Everything the node writes to RocksDB must survive a crash in commit order and be
// available to a later state transfer; both rest on the WAL. A write made with the
// WAL disabled is lost by a crash although later writes survive, and is invisible to
// followers fetching the WAL.
func walNeverDisabled(c *Ctx, rule string) {
	p := c.P
	n := 0
	wrapperHasSetter := false
	// control: the setter exists in the wrapper's API as the type checker sees it
	if nt := p.NamedType("rocksdb", "WriteOptions"); nt != nil {
		for i := 0; i < nt.NumMethods(); i++ {
			if nt.Method(i).Name() == "SetDisableWAL" {
				wrapperHasSetter = true
			}
		}
	}
	c.Control("rocksdb.WriteOptions.SetDisableWAL is part of the wrapper's API", wrapperHasSetter)
	bad := 0
	for _, fn := range p.ModFuncs {
		if !p.Production(fn) || fn.Pkg == nil || strings.HasSuffix(fn.Pkg.Pkg.Path(), "/rocksdb") {
			continue
		}
		fn := fn
		eachInstr(fn, func(in ssa.Instruction) {
			cc := callCommon(in)
			if cc == nil || cc.StaticCallee() == nil {
				return
			}
			f := cc.StaticCallee()
			if f.Pkg == nil || !strings.HasSuffix(f.Pkg.Pkg.Path(), "/rocksdb") {
				return
			}
			switch f.Name() {
			case "SetDisableWAL":
				n++
				arg := p.TermOf(cc.Args[len(cc.Args)-1])
				if !(arg.Op == "const" && arg.Name == "false") {
					bad++
					c.Fail(rule, funcName(fn)+":wal", in.Pos(), "writes made with these options bypass the write-ahead log (SetDisableWAL("+arg.String()+")): a crash loses them while later writes survive, and followers fetching the WAL never receive them")
				}
			case "WriteWithoutWAL":
				n++
				bad++
				c.Fail(rule, funcName(fn)+":wal", in.Pos(), "a batch is written without the write-ahead log")
			}
		})
	}
	if bad == 0 {
		c.Ok(rule, "wal-never-disabled", 0, fmt.Sprintf("%d WAL-related option call(s) in production code, none disables the WAL", n))
	}
}

// ---- stopping the server waits for raft ----------------------------------------------
//
// RaftNode.Close(wait) with wait=false closes the raft log, the balloon and the
// store while raft's FSM goroutine may still be applying committed entries.
func nodeCloseWaits(c *Ctx, rule string) {
	p := c.P
	cl := p.MustMethod(pkgConsensus, "RaftNode", "Close")
	n := 0
	// check the wait argument at every production call site; a caller that merely passes its own
	// parameter on (a forwarder, a wrapper taking the flag) is judged at its own call sites
	var visit func(target *ssa.Function, argIdx int, depth int)
	seen := map[*ssa.Function]bool{}
	visit = func(target *ssa.Function, argIdx int, depth int) {
		if seen[target] || depth > 3 {
			return
		}
		seen[target] = true
		for _, fn := range p.ModFuncs {
			if !p.Production(fn) {
				continue
			}
			fn := fn
			for _, call := range callsIn(fn, func(k *ssa.CallCommon) bool { return k.StaticCallee() == target }) {
				args := callCommon(call).Args
				if argIdx >= len(args) {
					continue
				}
				arg := p.TermOf(args[argIdx])
				if par, isPar := args[argIdx].(*ssa.Parameter); isPar && par.Parent() == fn {
					visit(fn, paramIndex(par), depth+1)
					continue
				}
				n++
				ok := arg.Op == "const" && arg.Name == "true"
				c.Check(ok, rule, funcName(fn)+":close-waits", call.Pos(), "RaftNode.Close(true): waits for raft's shutdown before closing what the FSM uses", "the node is closed with wait="+arg.String()+": the raft log, the balloon and the store are closed while the FSM goroutine may still apply committed entries (nil balloon / closed database under a running Apply)")
			}
		}
	}
	visit(cl, 1, 0)
	if n == 0 {
		c.Fail(rule, "close-waits", cl.Pos(), "no production caller of RaftNode.Close found")
	}
}

// ---- native slices are copied out in full --------------------------------------------
//
// Keys and values come out of RocksDB as native slices that must be copied before they are
// freed: `buf := make([]byte, s.Size()); copy(buf, s.Data())`. The buffer has to be sized by
// the same native slice whose data it receives; sizing it by another one (the key's size for
// the value) truncates or pads what the caller gets.
func nativeSliceCopies(c *Ctx, rule string, pkgs []string) {
	p := c.P
	inPkgs := map[*ssa.Package]bool{}
	for _, pk := range pkgs {
		if sp := p.SSAPkg[modPkg(pk)]; sp != nil {
			inPkgs[sp] = true
		}
	}
	n, bad := 0, 0
	for _, fn := range p.ModFuncs {
		if !inPkgs[fn.Pkg] || !p.Production(fn) {
			continue
		}
		fn := fn
		eachInstr(fn, func(in ssa.Instruction) {
			cc := callCommon(in)
			if cc == nil {
				return
			}
			if b, ok := cc.Value.(*ssa.Builtin); !ok || b.Name() != "copy" {
				return
			}
			src := p.TermOf(cc.Args[1])
			if !(src.Op == "call" && src.Fn != nil && src.Fn.Name() == "Data" && src.Fn.Pkg != nil && strings.HasSuffix(src.Fn.Pkg.Pkg.Path(), "/rocksdb") && len(src.Args) == 1) {
				return
			}
			n++
			dst := p.TermOf(cc.Args[0])
			ok := dst.Op == "alloc" && len(dst.Args) > 0 && dst.Args[0].Op == "call" && dst.Args[0].Fn != nil && dst.Args[0].Fn.Name() == "Size" && len(dst.Args[0].Args) == 1 &&
				dst.Args[0].Args[0].V == src.Args[0].V
			if !ok {
				bad++
				got := dst.String()
				if dst.Op == "alloc" && len(dst.Args) > 0 {
					got = "a buffer of length " + dst.Args[0].String()
				}
				c.Fail(rule, funcName(fn)+":native-copy", in.Pos(), "the data of "+src.Args[0].String()+" is copied into "+got+": the buffer is not sized by the same native slice, so the caller receives a truncated or padded key/value")
			}
		})
	}
	if n == 0 {
		c.Fail(rule, "native-copy", 0, "no copy out of a native RocksDB slice found")
	} else if bad == 0 {
		c.Ok(rule, "native-copy", 0, fmt.Sprintf("%d copy-out site(s), each into a buffer sized by the slice it copies", n))
	}
}

// ---- a write batch lives for one call ---------------------------------------------------
//
// db.Write(opts, batch) must be given a batch created in the same call (NewWriteBatch /
// WriteBatchFrom). A batch kept in a field survives a failed Write with its content: the next
// call writes the failed call's operations again on top of its own.
func freshWriteBatches(c *Ctx, rule string, pkgs []string) {
	p := c.P
	inPkgs := map[*ssa.Package]bool{}
	for _, pk := range pkgs {
		if sp := p.SSAPkg[modPkg(pk)]; sp != nil {
			inPkgs[sp] = true
		}
	}
	n := 0
	for _, fn := range p.ModFuncs {
		if !inPkgs[fn.Pkg] || !p.Production(fn) {
			continue
		}
		fn := fn
		rg := p.RegionOf(outermost(fn), 2)
		eachInstr(fn, func(in ssa.Instruction) {
			cc := callCommon(in)
			if cc == nil || cc.StaticCallee() == nil || cc.StaticCallee().Name() != "Write" || cc.StaticCallee().Pkg == nil || !strings.HasSuffix(cc.StaticCallee().Pkg.Pkg.Path(), "/rocksdb") || len(cc.Args) != 3 {
				return
			}
			n++
			bt := rg.TermIn(in, cc.Args[2])
			isFresh := func(bt *Term, rg *Region) bool {
				fresh := false
				for _, alt := range bt.Alts() {
					a := alt.Strip()
					if a.Op == "call" && a.Fn != nil && (a.Fn.Name() == "NewWriteBatch" || a.Fn.Name() == "WriteBatchFrom") {
						if v, ok := a.V.(ssa.Instruction); ok && len(rg.sites[v.Parent()]) > 0 {
							fresh = true
							continue
						}
					}
					return false
				}
				return fresh
			}
			fresh := isFresh(bt, rg)
			// a helper that writes the batch it is handed (`commit(opts, batch)`): judged at its call sites
			if par, isPar := cc.Args[2].(*ssa.Parameter); !fresh && isPar && par.Parent() == fn {
				idx := paramIndex(par)
				sites, okAll := 0, true
				for _, g := range p.ModFuncs {
					if !p.Production(g) {
						continue
					}
					for _, call := range callsIn(g, func(k *ssa.CallCommon) bool { return k.StaticCallee() == fn }) {
						sites++
						rg2 := p.RegionOf(outermost(g), 2)
						if k := callCommon(call); idx >= len(k.Args) || !isFresh(rg2.TermIn(call, k.Args[idx]), rg2) {
							okAll = false
							bt = rg2.TermIn(call, k.Args[idx])
						}
					}
				}
				fresh = sites > 0 && okAll
			}
			c.Check(fresh, rule, funcName(fn)+":batch", in.Pos(), "the batch written was created in this call", "the batch handed to db.Write is "+bt.String()+", not one created in this call: a batch that outlives the call keeps the operations of a failed write and replays them with the next one")
		})
	}
	if n == 0 {
		c.Fail(rule, "write-batches", 0, "no db.Write call found")
	}
}

// ---- iterators see deletions ---------------------------------------------------------------
//
// DeleteRange leaves a range tombstone; read options that ignore range deletions make the
// bounds of the log (and any scan) report entries that were removed.
func readOptionsSeeDeletions(c *Ctx, rule string) {
	p := c.P
	has := false
	if nt := p.NamedType("rocksdb", "ReadOptions"); nt != nil {
		for i := 0; i < nt.NumMethods(); i++ {
			if nt.Method(i).Name() == "SetIgnoreRangeDeletions" {
				has = true
			}
		}
	}
	c.Control("rocksdb.ReadOptions.SetIgnoreRangeDeletions is part of the wrapper's API", has)
	n, bad := 0, 0
	for _, fn := range p.ModFuncs {
		if !p.Production(fn) || fn.Pkg == nil || strings.HasSuffix(fn.Pkg.Pkg.Path(), "/rocksdb") {
			continue
		}
		fn := fn
		eachInstr(fn, func(in ssa.Instruction) {
			cc := callCommon(in)
			if cc == nil || cc.StaticCallee() == nil || cc.StaticCallee().Name() != "SetIgnoreRangeDeletions" {
				return
			}
			n++
			arg := p.TermOf(cc.Args[len(cc.Args)-1])
			if !(arg.Op == "const" && arg.Name == "false") {
				bad++
				c.Fail(rule, funcName(fn)+":ignore-range-deletions", in.Pos(), "read options are told to ignore range deletions: iterators created with them still see entries removed by DeleteRange (stale first/last index, resurrected entries)")
			}
		})
	}
	if bad == 0 {
		c.Ok(rule, "read-options-see-deletions", 0, fmt.Sprintf("%d call(s) of SetIgnoreRangeDeletions in production code, none enabling it", n))
	}
}

// ---- the persisted cache tiles follow the in-memory cache ------------------------------
//
// Every time a tile of the recovery level is put into the in-memory cache its new content is
// also persisted; RebuildCache (after a restart or a restore from a backup) trusts the
// persisted tiles. Persisting a tile only under a further condition (first time only, every
// n-th time) leaves stale tiles behind a node that keeps running correctly.
func cacheTilesPersistedAlways(c *Ctx, rule string) {
	p := c.P
	sp := p.SSAPkg[modPkg(pkgHyper)]
	n := 0
	for _, fn := range p.ModFuncs {
		if fn.Pkg != sp || !p.Production(fn) {
			continue
		}
		fn := fn
		eachInstr(fn, func(in ssa.Instruction) {
			cc := callCommon(in)
			if cc == nil || cc.StaticCallee() == nil || cc.StaticCallee().Name() != "NewMutation" || len(cc.Args) != 3 || tableName(p, p.TermOf(cc.Args[0])) != "HyperCacheTable" {
				return
			}
			n++
			var extra []string
			for _, k := range p.CondsAt(in.Block()) {
				a := k.Atom
				if a.Op == "EQ" && (isErrorTerm(a.Args[0]) || isErrorTerm(a.Args[1])) {
					continue
				}
				if a.Op == "EQ" && k.Pol && (a.Args[0].IsField("Height", nil) && a.Args[1].IsField("RecoveryHeight", nil) || a.Args[1].IsField("Height", nil) && a.Args[0].IsField("RecoveryHeight", nil)) {
					continue
				}
				extra = append(extra, k.String())
			}
			c.Check(len(extra) == 0, rule, funcName(fn)+":tile-persisted", in.Pos(), "a recovery-level tile is persisted whenever it is cached", "the cache tile is persisted only under "+strings.Join(extra, " ∧ ")+": the in-memory cache is updated on every insertion but the persisted tile is not, so a restart, a backup or a restore rebuilds the cache from stale tiles")
		})
	}
	if n == 0 {
		c.Fail(rule, "hyper:tile-persisted", 0, "no step persisting cache tiles (HyperCacheTable) found")
	}
}

// ---- a restore replaces the directory's content ------------------------------------------
//
// Restoring a backup over an existing database directory must not keep the write-ahead logs
// that are there: they would be replayed on open and bring back what the backup did not contain.
func restoreDropsOldLogs(c *Ctx, rule string) {
	p := c.P
	has := false
	if nt := p.NamedType("rocksdb", "RestoreOptions"); nt != nil {
		for i := 0; i < nt.NumMethods(); i++ {
			if nt.Method(i).Name() == "SetKeepLogFiles" {
				has = true
			}
		}
	}
	c.Control("rocksdb.RestoreOptions.SetKeepLogFiles is part of the wrapper's API", has)
	n, bad := 0, 0
	for _, fn := range p.ModFuncs {
		if !p.Production(fn) || fn.Pkg == nil || strings.HasSuffix(fn.Pkg.Pkg.Path(), "/rocksdb") {
			continue
		}
		fn := fn
		eachInstr(fn, func(in ssa.Instruction) {
			cc := callCommon(in)
			if cc == nil || cc.StaticCallee() == nil || cc.StaticCallee().Name() != "SetKeepLogFiles" {
				return
			}
			n++
			arg := p.TermOf(cc.Args[len(cc.Args)-1])
			if !(arg.Op == "const" && arg.Name == "0") {
				bad++
				c.Fail(rule, funcName(fn)+":keep-log-files", in.Pos(), "the restore is told to keep the existing write-ahead logs: restoring over a node's directory replays what was written after the backup, so the restored log is not the log as of the backup's version")
			}
		})
	}
	if bad == 0 {
		c.Ok(rule, "restore-drops-old-logs", 0, fmt.Sprintf("%d call(s) of SetKeepLogFiles in production code, none keeping logs", n))
	}
}
