package main

import (
	"fmt"
	"strings"

	"golang.org/x/tools/go/ssa"
)

// ---- recovery-height agreement ---------------------------------------------------
//
// The hyper tree persists the tiles of one level (the "recovery height") so that
// RebuildCache can refill the in-memory cache after a restart. Every writer (Add,
// AddBulk), the query path and the rebuild itself build their interpreter context
// with a RecoveryHeight; the rebuild also tells its traversal at which height the
// persisted tiles sit. If one of these sites names another level, tiles are
// written where the rebuild never looks (or not written at all) and a restarted
// node recomputes different digests. All sites must name the same level.
func recoveryHeightAgreement(c *Ctx, rule string) {
	p := c.P
	sp := p.SSAPkg[modPkg(pkgHyper)]
	type site struct {
		fn   *ssa.Function
		in   ssa.Instruction
		what string
		t    *Term
	}
	var sites []site
	norm := func(fn *ssa.Function, t *Term) string {
		// receiver-relative rendering: P0@fn.x -> recv.x
		return strings.ReplaceAll(t.String(), "P0@"+fn.Name(), "recv")
	}
	for _, fn := range p.ModFuncs {
		if fn.Pkg != sp || !p.Production(fn) || fn.Signature.Recv() == nil || !namedIs(fn.Signature.Recv().Type(), pkgHyper, "HyperTree") {
			continue
		}
		fn := fn
		eachInstr(fn, func(in ssa.Instruction) {
			if al, ok := in.(*ssa.Alloc); ok && namedIs(deref(al.Type()), pkgHyper, "pruningContext") {
				_, bf := p.storesTo(al)
				for _, v := range bf["RecoveryHeight"] {
					sites = append(sites, site{fn, in, "context", p.TermOf(v)})
				}
			}
			if cc := callCommon(in); cc != nil {
				if f := cc.StaticCallee(); f != nil && f.Pkg == sp && f.Signature.Recv() == nil && f.Signature.Results().Len() == 1 && namedIs(f.Signature.Results().At(0).Type(), pkgHyper, "operationsStack") {
					// the rebuild traversal is the one that takes the indexes of the persisted tiles and a height
					if f.Signature.Params().Len() == 3 && isBasicKindU16(f.Signature.Params().At(1).Type()) && len(callsIn(fn, func(k *ssa.CallCommon) bool { return k.IsInvoke() && k.Method.Name() == "GetAll" })) > 0 {
						sites = append(sites, site{fn, in, "rebuild traversal", p.TermOf(cc.Args[1])})
					}
				}
			}
		})
	}
	if len(sites) < 4 {
		c.Fail(rule, "hyper:recovery-height", 0, fmt.Sprintf("only %d sites naming the recovery height found (inserters, query, rebuild expected)", len(sites)))
		return
	}
	ref := norm(sites[0].fn, sites[0].t)
	for _, s := range sites {
		label := fmt.Sprintf("%s:recovery-height:%s", funcName(s.fn), s.what)
		got := norm(s.fn, s.t)
		c.Check(got == ref, rule, label, s.in.Pos(), "same persisted level as the other sites ("+ref+")", "this site works with recovery height "+got+" while "+funcName(sites[0].fn)+" uses "+ref+": tiles are persisted at one level and looked for at another after a restart")
	}
}

func isBasicKindU16(t interface{ String() string }) bool { return t.String() == "uint16" }

// ---- the write-ahead log is never bypassed ----------------------------------------
//
// Everything the node writes to RocksDB must survive a crash in commit order and be
// available to a later state transfer; both rest on the WAL. A write made with the
// WAL disabled is lost by a crash although later writes survive, and is invisible to
// followers fetching the WAL.
func walNeverDisabled(c *Ctx, rule string) {
	p := c.P
	n := 0
	wrapperHasSetter := false
	// control: the setter exists in the wrapper's API as the type checker sees it
	if nt := p.NamedType("rocksdb", "WriteOptions"); nt != nil {
		for i := 0; i < nt.NumMethods(); i++ {
			if nt.Method(i).Name() == "SetDisableWAL" {
				wrapperHasSetter = true
			}
		}
	}
	c.Control("rocksdb.WriteOptions.SetDisableWAL is part of the wrapper's API", wrapperHasSetter)
	bad := 0
	for _, fn := range p.ModFuncs {
		if !p.Production(fn) || fn.Pkg == nil || strings.HasSuffix(fn.Pkg.Pkg.Path(), "/rocksdb") {
			continue
		}
		fn := fn
		eachInstr(fn, func(in ssa.Instruction) {
			cc := callCommon(in)
			if cc == nil || cc.StaticCallee() == nil {
				return
			}
			f := cc.StaticCallee()
			if f.Pkg == nil || !strings.HasSuffix(f.Pkg.Pkg.Path(), "/rocksdb") {
				return
			}
			switch f.Name() {
			case "SetDisableWAL":
				n++
				arg := p.TermOf(cc.Args[len(cc.Args)-1])
				if !(arg.Op == "const" && arg.Name == "false") {
					bad++
					c.Fail(rule, funcName(fn)+":wal", in.Pos(), "writes made with these options bypass the write-ahead log (SetDisableWAL("+arg.String()+")): a crash loses them while later writes survive, and followers fetching the WAL never receive them")
				}
			case "WriteWithoutWAL":
				n++
				bad++
				c.Fail(rule, funcName(fn)+":wal", in.Pos(), "a batch is written without the write-ahead log")
			}
		})
	}
	if bad == 0 {
		c.Ok(rule, "wal-never-disabled", 0, fmt.Sprintf("%d WAL-related option call(s) in production code, none disables the WAL", n))
	}
}

// ---- stopping the server waits for raft ----------------------------------------------
//
// RaftNode.Close(wait) with wait=false closes the raft log, the balloon and the
// store while raft's FSM goroutine may still be applying committed entries.
func nodeCloseWaits(c *Ctx, rule string) {
	p := c.P
	cl := p.MustMethod(pkgConsensus, "RaftNode", "Close")
	n := 0
	for _, fn := range p.ModFuncs {
		if !p.Production(fn) {
			continue
		}
		fn := fn
		for _, call := range callsIn(fn, func(k *ssa.CallCommon) bool { return k.StaticCallee() == cl }) {
			n++
			arg := p.TermOf(callCommon(call).Args[1])
			ok := arg.Op == "const" && arg.Name == "true"
			c.Check(ok, rule, funcName(fn)+":close-waits", call.Pos(), "RaftNode.Close(true): waits for raft's shutdown before closing what the FSM uses", "the node is closed with wait="+arg.String()+": the raft log, the balloon and the store are closed while the FSM goroutine may still apply committed entries (nil balloon / closed database under a running Apply)")
		}
	}
	if n == 0 {
		c.Fail(rule, "close-waits", cl.Pos(), "no production caller of RaftNode.Close found")
	}
}
