package main

import (
	"fmt"
	"go/types"
	"os"
	"strings"

	"golang.org/x/tools/go/ssa"
)

func init() {
	register("C06", propMeta{
		Explanation: "Decides determinism and locality of the replicated apply path — the necessary condition for two replicas that applied the same entries to be equal: (R1) nothing non-deterministic (clocks, random numbers, environment, map iteration order, pointer formatting) flows into hashes, store mutations, cache contents, snapshots or the persisted FSM state from any function reachable from FSM.Apply (interprocedural taint over provenance terms); " +
			"(R2) events are hashed once by the proposer and replicas apply the decoded digests unmodified; (R3) reads are served by the local balloon, never through raft; (R4) goroutines on the apply path are joined and what they write is read only after the join; (R5) replay filter, single atomic writer and command codec as in C05/C07/C13; (R6) every replica rebuilds its caches from its store identically on restart (rebuild consumes exactly what was read).",
		Added:       "Also (R7) a replica rejoining by state transfer asks for, is sent and loads exactly what it lacks; every command is decoded into a fresh destination (R5). Third round: (R5) no recover on the apply path; (R2) hasher factories are fresh; (R7) a restore always transfers and the per-batch callback's refusal ends it. Fifth round: RebuildCache reads the persisted tiles on every path.",
		Assumptions: []string{"raft delivers the same committed entries in the same order to every replica"},
		Declined:    "equality of replicas across stop/restart/transfer sequences as a statement over fault sequences; that one replica's proofs verify against another's snapshots (follows from determinism + C01, not checked as such).",
	}, runC06)
}

func runC06(c *Ctx) {
	c.Rule("R1", "determinism: no non-deterministic source reaches a replicated sink on the apply path", 4)
	c.Rule("R2", "hashed once by the proposer; replicas apply decoded digests unmodified", 2)
	c.Rule("R3", "queries are answered by the local balloon", 5)
	c.Rule("R4", "apply-path goroutines are joined; their results are read after the join", 2)
	c.Rule("R5", "replay filter / atomic apply / command codec", 8)
	c.Rule("R6", "cache rebuild on restart is a function of the store alone", 3)
	determinism(c, "R1")
	c06Proposer(c)
	c06LocalReads(c)
	joinedGoroutines(c, "R4")
	fsmShouldApply(c, "R5")
	_, applyAdd := fsmApplyGuard(c, "R5")
	fsmApplyAdd(c, "R5", applyAdd)
	commandCodec(c, "R5")
	applyPathNoRecover(c, "R5")
	hasherFactoriesAreFresh(c, "R2", []string{"consensus", "server", "cmd", "balloon"})
	restoreAlwaysTransfers(c, "R7")
	transferCallbackErrorPropagates(c, "R7")
	rebuildOnOpen(c, "R6")
	c.Rule("R7", "a replica that rejoins by state transfer asks for, is sent and loads exactly what it lacks", 5)
	transferRequest(c, "R7")
	fsmValidate(c, "R7")
	streamReaderForwardsError(c, "R7")
	streamEndOnlyOnEOF(c, "R7", c.P.MustMethod("storage/rocks", "RocksDBStore", "LoadSnapshot"))
}

// reachableFrom: module functions reachable from entry over the VTA graph (module callees only; closures of reachable functions included).
func (p *Program) reachableFrom(entries ...*ssa.Function) []*ssa.Function {
	cg := p.CallGraph()
	seen := map[*ssa.Function]bool{}
	var order []*ssa.Function
	var work []*ssa.Function
	push := func(f *ssa.Function) {
		if f == nil || seen[f] || len(f.Blocks) == 0 {
			return
		}
		if f.Pkg == nil {
			// synthetic wrapper (value-receiver method called through a pointer / interface): follow it if it wraps a module method
			if f.Synthetic == "" || f.Object() == nil || f.Object().Pkg() == nil || !p.inModule(f.Object().Pkg().Path()) {
				return
			}
		} else if !p.inModule(f.Pkg.Pkg.Path()) || p.isTestScaffold(f) {
			return
		}
		seen[f] = true
		order = append(order, f)
		work = append(work, f)
	}
	for _, e := range entries {
		push(e)
	}
	for len(work) > 0 {
		f := work[len(work)-1]
		work = work[:len(work)-1]
		if n := cg.Nodes[f]; n != nil {
			for _, e := range n.Out {
				push(e.Callee.Func)
			}
		}
		for _, a := range f.AnonFuncs {
			push(a)
		}
	}
	return order
}

func isNondetSource(t *Term, tainted map[*ssa.Function]bool) bool {
	switch t.Op {
	case "call":
		if t.Fn == nil {
			return false
		}
		if tainted[t.Fn] {
			return true
		}
		if t.Fn.Pkg == nil {
			return false
		}
		pp, n := t.Fn.Pkg.Pkg.Path(), t.Fn.Name()
		switch pp {
		case "time":
			return n == "Now" || n == "Since" || n == "Until" || n == "Unix" || n == "UnixNano"
		case "math/rand", "crypto/rand":
			return true
		case "os":
			return n == "Getenv" || n == "Getpid" || n == "Hostname" || n == "Getwd" || n == "Environ"
		case "runtime":
			return n == "NumGoroutine" || n == "NumCPU" || n == "Stack"
		}
	case "next":
		// iteration over a map
		if len(t.Args) > 0 && t.Args[0].Op == "range" && len(t.Args[0].Args) > 0 {
			if v := t.Args[0].Args[0].V; v != nil {
				if _, ok := v.Type().Underlying().(*types.Map); ok {
					return true
				}
			}
		}
	}
	return false
}

func determinism(c *Ctx, rule string) {
	p := c.P
	apply := p.MustMethod(pkgConsensus, "RaftNode", "Apply")
	fns := p.reachableFrom(apply)
	// functions whose result may carry a non-deterministic value (fixpoint)
	tainted := map[*ssa.Function]bool{}
	for changed := true; changed; {
		changed = false
		for _, f := range fns {
			if tainted[f] {
				continue
			}
			for _, rt := range p.ReturnTerms(f) {
				for _, t := range rt {
					if t.Has(func(x *Term) bool { return isNondetSource(x, tainted) }) {
						tainted[f] = true
						changed = true
					}
				}
			}
		}
	}
	check := func(fn *ssa.Function, in ssa.Instruction, what string, v ssa.Value) bool {
		t := p.TermOf(v)
		var src *Term
		t.Has(func(x *Term) bool {
			if src == nil && isNondetSource(x, tainted) {
				src = x
			}
			return false
		})
		if src != nil {
			c.Fail(rule, funcName(fn)+":"+what, in.Pos(), what+" depends on "+src.String()+": replicas applying the same entry would compute different state")
			return false
		}
		return true
	}
	counts := map[string]int{}
	bad := 0
	for _, fn := range fns {
		fn := fn
		eachInstr(fn, func(in ssa.Instruction) {
			switch x := in.(type) {
			case *ssa.Store:
				if fa, ok := x.Addr.(*ssa.FieldAddr); ok {
					owner := deref(fa.X.Type())
					if namedIs(owner, pkgBalloon, "Snapshot") || namedIs(owner, pkgConsensus, "fsmState") || namedIs(owner, pkgConsensus, "VersionMetadata") || namedIs(owner, "storage", "Mutation") {
						counts["replicated-struct-field"]++
						if !check(fn, in, "field "+structFieldName(owner, fa.Field)+" of "+typeStr(owner), x.Val) {
							bad++
						}
					}
				}
			case *ssa.MapUpdate:
				// not a sink by itself
			}
			cc := callCommon(in)
			if cc == nil {
				return
			}
			var kind string
			var args []ssa.Value
			switch {
			case isHasherInvoke(cc, "Salted", "Do"):
				kind, args = "hash input", cc.Args
			case cc.IsInvoke() && cc.Method.Name() == "Mutate":
				kind, args = "store mutation", cc.Args
			case cc.IsInvoke() && cc.Method.Name() == "Put":
				kind, args = "cache content", cc.Args
			case cc.StaticCallee() != nil && cc.StaticCallee().Name() == "NewMutation":
				kind, args = "store mutation", cc.Args
			}
			if kind == "" {
				return
			}
			counts[kind]++
			for _, a := range args {
				if !check(fn, in, kind, a) {
					bad++
				}
			}
		})
	}
	c.info["apply_reachable_functions"] = len(fns)
	if os.Getenv("QEDLINT_DEBUG") != "" {
		for _, f := range fns {
			fmt.Println("REACH", f.String())
		}
	}
	for _, k := range []string{"hash input", "store mutation", "cache content", "replicated-struct-field"} {
		if counts[k] == 0 {
			c.Fail(rule, "sinks:"+k, apply.Pos(), "no "+k+" sink is reachable from FSM.Apply any more: the apply path is not what the rule was written for")
		} else if bad == 0 {
			c.Ok(rule, "sinks:"+k, apply.Pos(), fmt.Sprintf("%d %s sink(s) in %d functions reachable from Apply, none fed by a clock / random / environment / map-order source", counts[k], k, len(fns)))
		}
	}
	// iteration order: a range over a map on the apply path may not build slices or drive sink calls
	for _, fn := range fns {
		fn := fn
		eachInstr(fn, func(in ssa.Instruction) {
			r, ok := in.(*ssa.Range)
			if !ok {
				return
			}
			if _, isMap := r.X.Type().Underlying().(*types.Map); !isMap {
				return
			}
			// any sink call or append inside the loop body (blocks dominated by the range block and in a cycle)
			for _, b := range fn.Blocks {
				if !r.Block().Dominates(b) || !inCycle(b) {
					continue
				}
				for _, i2 := range b.Instrs {
					cc := callCommon(i2)
					if cc == nil {
						continue
					}
					if bi, ok := cc.Value.(*ssa.Builtin); ok && bi.Name() == "append" {
						c.Fail(rule, funcName(fn)+":map-order", i2.Pos(), "a slice is built while ranging over a map on the apply path: its order differs between replicas")
					}
					if isHasherInvoke(cc, "Salted", "Do") || cc.StaticCallee() != nil && cc.StaticCallee().Name() == "NewMutation" {
						c.Fail(rule, funcName(fn)+":map-order", i2.Pos(), "hashing / mutations are produced in map iteration order on the apply path")
					}
				}
			}
		})
	}
}

func c06Proposer(c *Ctx) {
	p := c.P
	ab := p.MustMethod(pkgConsensus, "RaftNode", "AddBulk")
	// payload: each element = hasherF().Do(event)
	ok := false
	var got string
	eachInstr(ab, func(in ssa.Instruction) {
		cc := callCommon(in)
		if cc == nil || cc.StaticCallee() == nil || canonFuncName(cc.StaticCallee()) != "encode" {
			return
		}
		t := p.TermOf(cc.Args[1])
		got = t.String()
		ok = t.Has(func(x *Term) bool {
			return x.Op == "invoke" && x.Name == "Do" && len(x.Args) == 2 && x.Args[1].Op == "list" && len(x.Args[1].Args) == 1 &&
				x.Args[1].Args[0].Has(func(y *Term) bool { return y.IsParam(ab, 1) })
		})
		// with a hasher made for this call (requests are proposed concurrently; a hasher kept in the node is
		// stateful and shared: overlapping requests replicate a wrong digest to every replica)
		sharedHasher := t.Has(func(x *Term) bool {
			return x.Op == "invoke" && x.Name == "Do" && len(x.Args) == 2 && x.Args[0].Strip().Op == "field" && x.Args[0].Strip().Args[0].IsParam(ab, 0)
		})
		if ok && sharedHasher {
			ok = false
			got += " (hashed with a hasher stored in the node, shared by concurrent requests)"
		}
	})
	c.Check(ok, "R2", funcName(ab)+":payload", ab.Pos(), "command payload = [hasher.Do(event) for event in bulk]", "the replicated command's payload is "+got+", expected the digests of the submitted events")
	apply := p.MustMethod(pkgConsensus, "RaftNode", "Apply")
	addBulk := p.MustMethod(pkgBalloon, "Balloon", "AddBulk")
	okA := false
	var gotA string
	for _, fn := range p.reachableFrom(apply) {
		fn := fn
		for _, call := range callsIn(fn, func(k *ssa.CallCommon) bool { return k.StaticCallee() == addBulk }) {
			t := p.TermOf(callCommon(call).Args[1])
			gotA = t.String()
			if fn != apply {
				// applyAdd(hashes, state): the parameter, which Apply fills with the decoded digests
				okA = t.Op == "param" && t.Fn == fn
				for _, c2 := range callsIn(apply, func(k *ssa.CallCommon) bool { return k.StaticCallee() == fn }) {
					a := p.TermOf(callCommon(c2).Args[t.Idx])
					gotA = a.String()
					// the local that decode() filled
					if a.Op != "alloc" && a.Op != "cell" {
						okA = false
					}
					if a.Has(func(x *Term) bool { return x.Op == "invoke" && (x.Name == "Do" || x.Name == "Salted") }) {
						okA = false
					}
				}
			}
		}
	}
	eachInstr(apply, func(in ssa.Instruction) {
		if st, ok := in.(*ssa.Store); ok {
			if ia, ok := st.Addr.(*ssa.IndexAddr); ok && namedIs(deref(ia.X.Type()).Underlying().(interface{ Elem() types.Type }).Elem(), "crypto/hashing", "Digest") {
				okA = false
				gotA = "elements rewritten in place: " + p.TermOf(st.Val).String()
			}
		}
	})
	c.Check(okA, "R2", funcName(apply)+":digests", apply.Pos(), "decoded digests go to balloon.AddBulk unmodified", "balloon.AddBulk on the apply path is fed "+gotA+", expected the decoded digests as they are (no re-hashing, no reordering)")
}

func c06LocalReads(c *Ctx) {
	p := c.P
	for _, nm := range []string{"QueryDigestMembershipConsistency", "QueryMembershipConsistency", "QueryDigestMembership", "QueryMembership", "QueryConsistency"} {
		fn := p.MustMethod(pkgConsensus, "RaftNode", nm)
		target := p.MustMethod(pkgBalloon, "Balloon", nm)
		ok := false
		for _, rt := range p.ReturnTerms(fn) {
			t := rt[0]
			if t.Op == "extract" && t.Args[0].IsCallTo(target) {
				call := t.Args[0]
				ok = call.Args[0].IsField("balloon", isParam(fn, 0))
				for i := 1; i < len(call.Args); i++ {
					if !call.Args[i].IsParam(fn, i) {
						ok = false
					}
				}
			}
		}
		// no raft call
		usesRaft := false
		eachInstr(fn, func(in ssa.Instruction) {
			if cc := callCommon(in); cc != nil && cc.StaticCallee() != nil && cc.StaticCallee().Pkg != nil && strings.Contains(cc.StaticCallee().Pkg.Pkg.Path(), "hashicorp/raft") {
				usesRaft = true
			}
		})
		c.Check(ok && !usesRaft, "R3", funcName(fn), fn.Pos(), "= balloon."+nm+"(same arguments) on the local replica", "the query is not answered by the local balloon's "+nm+" with the caller's arguments (or goes through raft)")
	}
}

// isRecvFieldLoad: v is a load of field `field` of fn's receiver, decided on the SSA shape (a receiver
// bound or built at a single site is otherwise described by the struct bound there).
func isRecvFieldLoad(v ssa.Value, fn *ssa.Function, field string) bool {
	for {
		if ct, ok := v.(*ssa.ChangeType); ok {
			v = ct.X
		} else if cv, ok := v.(*ssa.Convert); ok {
			v = cv.X
		} else {
			break
		}
	}
	u, ok := v.(*ssa.UnOp)
	if !ok || len(fn.Params) == 0 {
		return false
	}
	fa, ok := u.X.(*ssa.FieldAddr)
	if !ok || fa.X != ssa.Value(fn.Params[0]) {
		return false
	}
	return structFieldName(deref(fa.X.Type()), fa.Field) == field
}

// commandCodec: one type byte written before the msgpack body and one skipped before decoding; same handle both ways.
func commandCodec(c *Ctx, rule string) {
	p := c.P
	enc := p.MustMethod(pkgConsensus, "command", "encode")
	dec := p.MustMethod(pkgConsensus, "command", "decode")
	encMP := p.MustFunc(pkgConsensus, "encodeMsgPack")
	decMP := p.MustFunc(pkgConsensus, "decodeMsgPack")
	// encode: WriteByte(c.id) precedes Write(encodeMsgPack(in)); c.data = buf.Bytes()
	// (the framing may be delegated to a helper of the package: the region describes it in encode's terms)
	rgE := p.RegionOf(enc, 2)
	var wb, w *regionInstr
	nwb := 0
	rgE.Instrs(func(site regionSite, in ssa.Instruction) {
		cc := callCommon(in)
		if cc == nil || cc.StaticCallee() == nil {
			return
		}
		ri := regionInstr{site, in}
		switch cc.StaticCallee().Name() {
		case "WriteByte":
			nwb++
			if rgE.Term(site, cc.Args[1]).IsField("id", isParam(enc, 0)) || site.owner == enc && isRecvFieldLoad(cc.Args[1], enc, "id") {
				wb = &ri
			}
		case "Write":
			if p.XAll(rgE.Term(site, cc.Args[1]), func(g *ssa.Function) bool { return g == encMP || g.Pkg != enc.Pkg }).Has(func(t *Term) bool { return t.IsCallTo(encMP) && t.Args[0].IsParam(enc, 1) }) {
				w = &ri
			}
		}
	})
	okE := wb != nil && w != nil && rgE.Before(*wb, *w) && nwb == 1
	c.Check(okE, rule, funcName(enc), enc.Pos(), "data = [type byte] ‖ msgpack(body)", "command.encode does not write exactly one type byte (c.id) followed by the msgpack body")
	// decode: decodeMsgPack(c.data[1:], out)
	okD := false
	var got string
	for _, rt := range p.ReturnTerms(dec) {
		t := rt[0]
		if t.IsCallTo(decMP) {
			got = t.String()
			a := t.Args[0]
			okD = a.Op == "slice" && a.Args[0].IsField("data", isParam(dec, 0)) && a.Args[1].Name == "1" && a.Args[2].Name == "_" && t.Args[1].IsParam(dec, 1)
		}
	}
	c.Check(okD, rule, funcName(dec), dec.Pos(), "body decoded from data[1:]", "command.decode decodes "+got+", expected decodeMsgPack(c.data[1:], out)")
	// same handle
	h := func(fn *ssa.Function, ctor string) string {
		var s string
		eachInstr(fn, func(in ssa.Instruction) {
			if cc := callCommon(in); cc != nil && cc.StaticCallee() != nil && cc.StaticCallee().Name() == ctor {
				s = p.TermOf(cc.Args[1]).String()
			}
		})
		return s
	}
	he, hd := h(encMP, "NewEncoderBytes"), h(decMP, "NewDecoderBytes")
	c.Check(he != "" && he == hd, rule, "consensus:msgpack-handle", encMP.Pos(), "encoder and decoder share the handle "+he, "encoder uses handle "+he+", decoder "+hd)
	// newCommandFromRaft: id from data[0], data kept whole
	nc := p.MustFunc(pkgConsensus, "newCommandFromRaft")
	okN := false
	for _, rt := range p.ReturnTerms(nc) {
		if al, ok := rt[0].V.(*ssa.Alloc); ok {
			_, bf := p.storesTo(al)
			if len(bf["id"]) == 1 && len(bf["data"]) == 1 {
				id, d := p.TermOf(bf["id"][0]), p.TermOf(bf["data"][0])
				okN = id.Op == "index" && id.Args[0].IsParam(nc, 0) && id.Args[1].Name == "0" && d.IsParam(nc, 0)
			}
		}
	}
	c.Check(okN, rule, funcName(nc), nc.Pos(), "id = data[0], data kept whole", "a received command is not rebuilt as {id: data[0], data: data}")
	// every decode fills a fresh destination: msgpack neither truncates a longer slice it is given nor
	// allocates new element storage, so a reused destination carries over elements of the previous
	// command and aliases what was handed out from it
	nd := 0
	for _, fn := range p.ModFuncs {
		if !p.Production(fn) || fn.Pkg != dec.Pkg {
			continue
		}
		for _, call := range callsIn(fn, func(k *ssa.CallCommon) bool { return k.StaticCallee() == dec }) {
			nd++
			dst := callCommon(call).Args[1]
			fresh := false
			if mi, isMI := dst.(*ssa.MakeInterface); isMI {
				dst = mi.X
			}
			if al, isAl := dst.(*ssa.Alloc); isAl && al.Parent() == fn {
				whole, byField := p.storesTo(al)
				fresh = len(whole) == 0 && len(byField) == 0
			}
			c.Check(fresh, rule, funcName(fn)+":decode-destination", call.Pos(), "decoded into a fresh local", "the command is decoded into "+p.TermOf(dst).String()+", which outlives this call (or already has content): elements of the previous command survive in it and snapshots built from the previous one are overwritten in place")
		}
	}
	if nd == 0 {
		c.Fail(rule, "consensus:decode-destination", dec.Pos(), "no production use of command.decode found")
	}
}
