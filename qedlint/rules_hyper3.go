package main

import (
	"fmt"
	"go/types"
	"strings"

	"golang.org/x/tools/go/ssa"
)

// ---- H5: no leaf of a bulk is dropped ------------------------------------------
//
// In a traversal that carries a list of leaves and whose constructor builds that
// list in a loop (the bulk insertion), a clause that consumes only element 0 of
// the list (a shortcut leaf is created from leaves[0]) silently drops the others
// unless it is taken only when the list has exactly one element. Every use of
// leaves[0] must therefore be dominated by a test that bounds len(leaves) by one
// (len == 1, !(len > 1), len < 2; the `len != 1 → panic` form counts through its
// surviving edge).
func hyperLeafConservation(c *Ctx, rule string) {
	p := c.P
	n := 0
	for _, tv := range hyperTraversals(p) {
		tv := tv
		fn := tv.fn
		if tv.lvI < 0 {
			continue
		}
		root := fn
		for root.Parent() != nil {
			root = root.Parent()
		}
		if !hasLoop(root) {
			continue // single-leaf insertion: the list is built without a loop
		}
		isLen := func(t *Term) bool {
			return t.Op == "builtin" && t.Name == "len" && len(t.Args) == 1 && t.Args[0].IsParam(fn, tv.lvI)
		}
		isK := func(t *Term, k string) bool { return t.Op == "const" && t.Name == k }
		bad := 0
		sites := 0
		eachInstr(fn, func(in ssa.Instruction) {
			ia, ok := in.(*ssa.IndexAddr)
			if !ok || !p.TermOf(ia.X).IsParam(fn, tv.lvI) {
				return
			}
			idx := p.TermOf(ia.Index)
			if !isK(idx, "0") {
				return
			}
			sites++
			cs := p.CondsAt(in.Block())
			single := hasCond(cs, func(k Cond) bool {
				a := k.Atom
				switch a.Op {
				case "EQ":
					return k.Pol && (isLen(a.Args[0]) && isK(a.Args[1], "1") || isLen(a.Args[1]) && isK(a.Args[0], "1"))
				case "LT":
					if !k.Pol && isK(a.Args[0], "1") && isLen(a.Args[1]) { // !(1 < len)
						return true
					}
					if k.Pol && isLen(a.Args[0]) && isK(a.Args[1], "2") { // len < 2
						return true
					}
				}
				return false
			})
			if !single {
				bad++
				c.Fail(rule, funcName(fn)+":leaves[0]", in.Pos(), "only the first leaf of the list is consumed here without a dominating test that the list has a single element: the other leaves of the bulk reaching this node are dropped (conds: "+strings.Join(condStrings(cs), " ∧ ")+")")
			}
		})
		if sites > 0 {
			n++
			if bad == 0 {
				c.Ok(rule, funcName(fn)+":leaves[0]", fn.Pos(), fmt.Sprintf("%d use(s) of leaves[0], each under len(leaves) ≤ 1", sites))
			}
		}
	}
	if n == 0 {
		c.Fail(rule, "hyper:bulk-shortcut", 0, "no bulk traversal creating a shortcut leaf from its single remaining leaf was found")
	}
}

// ---- H6: the batch persisted for a new shortcut is the batch the shortcut was written into ---
//
// updateBatchShortcut(pos, 0, B, …) and mutateBatch(pos, B') pushed together must
// name the same batch (B' == B): persisting another batch under pos stores a
// node that does not contain the leaf just created.
func hyperShortcutPersist(c *Ctx, rule string) {
	p := c.P
	n := 0
	for _, tv := range hyperTraversals(p) {
		fn := tv.fn
		for _, b := range fn.Blocks {
			var shortcuts, mutates []*ssa.CallCommon
			var at ssa.Instruction
			for _, in := range b.Instrs {
				cc := callCommon(in)
				if cc == nil || cc.StaticCallee() == nil {
					continue
				}
				f := cc.StaticCallee()
				if f.Signature.Results().Len() != 1 || !namedIs(f.Signature.Results().At(0).Type(), pkgHyper, "operation") {
					continue
				}
				// role by signature: (pos, int8, *batchNode, key, value) writes a shortcut; (pos, *batchNode) persists
				nb, nslot, nbytes := 0, 0, 0
				for i := 0; i < f.Signature.Params().Len(); i++ {
					t := f.Signature.Params().At(i).Type()
					switch {
					case namedIs(t, pkgHyper, "batchNode"):
						nb++
					case isBasicKind(t, types.Int8):
						nslot++
					case isByteSlice(t):
						nbytes++
					}
				}
				switch {
				case nb == 1 && nslot == 1 && nbytes == 2:
					// only shortcuts written into a batch created on the spot: a shortcut written into the
					// node's own batch is persisted by that batch's root
					fresh := false
					for i := 0; i < f.Signature.Params().Len(); i++ {
						if namedIs(f.Signature.Params().At(i).Type(), pkgHyper, "batchNode") {
							if call, isCall := cc.Args[i].(*ssa.Call); isCall {
								if g := call.Call.StaticCallee(); g != nil && g.Signature.Results().Len() == 1 && namedIs(g.Signature.Results().At(0).Type(), pkgHyper, "batchNode") {
									fresh = true
								}
							}
						}
					}
					if !fresh {
						continue
					}
					shortcuts = append(shortcuts, cc)
					at = in
				case nb == 1 && nslot == 0 && nbytes == 0 && f.Signature.Params().Len() == 2 && hyperStepWrites(p, f):
					mutates = append(mutates, cc)
				}
			}
			if len(shortcuts) == 0 {
				continue
			}
			n++
			batchArg := func(cc *ssa.CallCommon) ssa.Value {
				f := cc.StaticCallee()
				for i := 0; i < f.Signature.Params().Len(); i++ {
					if namedIs(f.Signature.Params().At(i).Type(), pkgHyper, "batchNode") {
						return cc.Args[i]
					}
				}
				return nil
			}
			ok := len(mutates) > 0
			var why string
			if !ok {
				why = "a shortcut leaf is written into a batch that is not persisted in the same step sequence"
			}
			for _, m := range mutates {
				for _, s := range shortcuts {
					if batchArg(m) != batchArg(s) {
						ok = false
						why = fmt.Sprintf("the shortcut leaf is written into %s but %s is persisted at that position", p.TermOf(batchArg(s)), p.TermOf(batchArg(m)))
					}
				}
			}
			c.Check(ok, rule, ordinalLabel(funcName(fn)+":shortcut"), at.Pos(), "the batch persisted is the one holding the new shortcut", why)
		}
	}
	if n == 0 {
		c.Fail(rule, "hyper:shortcut-persist", 0, "no shortcut-leaf creation found in the hyper insert traversals")
	}
}

// hyperStepWrites: the step built by constructor f, when interpreted, records a store mutation.
func hyperStepWrites(p *Program, f *ssa.Function) bool {
	found := false
	for _, a := range Anons(f) {
		eachInstr(a, func(in ssa.Instruction) {
			if cc := callCommon(in); cc != nil && cc.StaticCallee() != nil && cc.StaticCallee().Name() == "NewMutation" {
				found = true
			}
		})
	}
	return found
}

// ---- H7: the sorted inserter leaves the list untouched for a key it already holds -----
//
// "First occurrence wins" is what makes a re-added digest keep … the value the
// caller inserted first; the push-down of a stored leaf relies on it (the stored
// leaf is inserted after the new ones and must lose). A store into the list on
// the duplicate-key edge changes which version a digest maps to.
func hyperInsertSortedDuplicates(c *Ctx, rule string) {
	p := c.P
	sp := p.SSAPkg[modPkg(pkgHyper)]
	n := 0
	for _, f := range p.ModFuncs {
		if f.Pkg != sp || !isInPlaceMutator(p, f) {
			continue
		}
		n++
		bad := 0
		dupTested := false
		for _, b := range f.Blocks {
			if ifi := blockIf(b); ifi != nil {
				cd := p.condOf(ifi.Cond, true)
				if isBoolCallTo("bytes", "Equal")(cd.Atom) || cd.Atom.Op == "EQ" && cd.Atom.Has(isBoolCallTo("bytes", "Compare")) {
					dupTested = true
				}
			}
		}
		eachInstr(f, func(in ssa.Instruction) {
			st, ok := in.(*ssa.Store)
			if !ok {
				return
			}
			ia, ok := st.Addr.(*ssa.IndexAddr)
			if !ok {
				return
			}
			base := p.TermOf(ia.X)
			if !base.HasLocal(func(t *Term) bool { return t.IsParam(f, 0) }) {
				return
			}
			cs := p.CondsAt(in.Block())
			if hasCond(cs, func(k Cond) bool {
				return k.Pol && isBoolCallTo("bytes", "Equal")(k.Atom) ||
					k.Pol && k.Atom.Op == "EQ" && k.Atom.Has(isBoolCallTo("bytes", "Compare"))
			}) {
				bad++
				c.Fail(rule, funcName(f)+":duplicate-key", in.Pos(), "an element of the list is overwritten on the edge where the key is already present: the value kept for a repeated key changes from the first inserted to the last")
			}
		})
		if !dupTested {
			bad++
			c.Fail(rule, funcName(f)+":duplicate-key", f.Pos(), "the sorted inserter no longer tests whether the key is already in the list")
		}
		if bad == 0 {
			c.Ok(rule, funcName(f)+":duplicate-key", f.Pos(), "a key already present leaves the list untouched")
		}
	}
	if n == 0 {
		c.Fail(rule, "hyper:sorted-inserter", 0, "sorted in-place inserter of the hyper leaves list not found")
	}
}

// ---- H8: a shortcut stores (key, value) in that order; the leaf hash takes the same value -----
func hyperShortcutArgs(c *Ctx, rule string) {
	p := c.P
	n := 0
	for _, tv := range hyperTraversals(p) {
		fn := tv.fn
		eachInstr(fn, func(in ssa.Instruction) {
			cc := callCommon(in)
			if cc == nil || cc.StaticCallee() == nil {
				return
			}
			f := cc.StaticCallee()
			if f.Signature.Results().Len() != 1 || !namedIs(f.Signature.Results().At(0).Type(), pkgHyper, "operation") {
				return
			}
			var bytesArgs []int
			nb, nslot := 0, 0
			for i := 0; i < f.Signature.Params().Len(); i++ {
				t := f.Signature.Params().At(i).Type()
				switch {
				case namedIs(t, pkgHyper, "batchNode"):
					nb++
				case isBasicKind(t, types.Int8):
					nslot++
				case isByteSlice(t):
					bytesArgs = append(bytesArgs, i)
				}
			}
			if !(nb == 1 && nslot == 1 && len(bytesArgs) == 2) {
				return
			}
			n++
			k, v := p.TermOf(cc.Args[bytesArgs[0]]), p.TermOf(cc.Args[bytesArgs[1]])
			// (key, value): fields Index/Value of one leaf, or the (key, value) pair read from the batch
			ok := k.IsField("Index", nil) && v.IsField("Value", nil) && k.Strip().Args[0].String() == v.Strip().Args[0].String()
			if !ok {
				// pair read from a batch: extract #0 / #1 of the same call
				ok = k.Op == "extract" && v.Op == "extract" && k.Idx == 0 && v.Idx == 1 && k.Args[0].V == v.Args[0].V
			}
			c.Check(ok, rule, ordinalLabel(funcName(fn)+":shortcut-kv"), in.Pos(), "shortcut written as (key, value) of one leaf", "the shortcut leaf is written with key "+k.String()+" and value "+v.String()+": key and value must be the Index and the Value of the same leaf, in that order (both are byte slices: swapping them persists a leaf that later push-downs read back under the wrong key)")
		})
	}
	if n == 0 {
		c.Fail(rule, "hyper:shortcut-kv", 0, "no shortcut-leaf creation found")
	}
}

// ---- H9: pushing a shortcut leaf down clears its slot and both child slots -----------------------
//
// A shortcut leaf occupies three slots of its batch (hash, key, value). When it is pushed down the
// slot becomes an inner node; the two other slots must be cleared, or the key/value bytes left in
// them are later read as child hashes. Single and bulk insertion must do the same.
func hyperPushDownResets(c *Ctx, rule string) {
	p := c.P
	n := 0
	for _, tv := range hyperTraversals(p) {
		tv := tv
		fn := tv.fn
		isIdx := func(t *Term) bool { return t.IsParam(fn, tv.idxI) }
		for _, b := range fn.Blocks {
			pushDown := false
			reinserts := false
			var resets []*Term
			var at ssa.Instruction
			for _, in := range b.Instrs {
				if c0 := callCommon(in); c0 != nil && isInPlaceMutator(p, c0.StaticCallee()) {
					reinserts = true // the stored leaf is put back into the list of leaves to insert
				}
				cc := callCommon(in)
				if cc == nil || cc.StaticCallee() == nil || cc.StaticCallee().Signature.Recv() == nil || !namedIs(cc.StaticCallee().Signature.Recv().Type(), pkgHyper, "batchNode") {
					continue
				}
				f := cc.StaticCallee()
				// reads the (key, value) of a leaf slot: two byte-slice results
				if f.Signature.Results().Len() == 2 && isByteSlice(f.Signature.Results().At(0).Type()) && isByteSlice(f.Signature.Results().At(1).Type()) {
					pushDown = true
					at = in
				}
				// clears a slot: no result, one int8 parameter
				if f.Signature.Results().Len() == 0 && f.Signature.Params().Len() == 1 && isBasicKind(f.Signature.Params().At(0).Type(), types.Int8) {
					resets = append(resets, p.TermOf(cc.Args[1]))
				}
			}
			if !pushDown || !reinserts {
				continue // reading a leaf for a proof is not a push-down
			}
			n++
			own, c1, c2 := false, false, false
			for _, r := range resets {
				switch {
				case isIdx(r):
					own = true
				case isChildIdx(r, isIdx, "1"):
					c1 = true
				case isChildIdx(r, isIdx, "2"):
					c2 = true
				}
			}
			c.Check(own && c1 && c2, rule, ordinalLabel(funcName(fn)+":push-down"), at.Pos(), "slot i, 2i+1 and 2i+2 cleared when the shortcut is pushed down", fmt.Sprintf("pushing the shortcut leaf down clears slot i=%v, 2i+1=%v, 2i+2=%v: the key/value bytes left in an uncleared slot are read as a child hash by the traversal that follows", own, c1, c2))
		}
	}
	if n == 0 {
		c.Fail(rule, "hyper:push-down-resets", 0, "no push-down of a shortcut leaf found")
	}
}

// ordinalLabel: constructs that occur several times in one function are told apart by their order
// of appearance, not by their line (a construct key must survive edits elsewhere in the file).
var ordinalSeen = map[string]int{}

func ordinalLabel(base string) string {
	ordinalSeen[base]++
	return fmt.Sprintf("%s#%d", base, ordinalSeen[base])
}

func resetOrdinals() { ordinalSeen = map[string]int{} }

// ---- H10: one ordering convention — a key equal to the right child's index belongs to the right ---
//
// Every hyper traversal divides its keys at Right(pos).Index. Insertion, search, verification and
// the rebuild must divide the same way (`key < right.Index` goes left, everything else right), or a
// key that equals a split point is stored on one side and looked for / rebuilt on the other.
// (a) single-key traversals branch on bytes.Compare(key, right.Index) < 0: Left under it, Right under
// its negation; (b) list splits look for the smallest i with Compare(l[i], right.Index) >= 0.
func hyperOrderingConvention(c *Ctx, rule string) {
	p := c.P
	sp := p.SSAPkg[modPkg(pkgHyper)]
	// lessOf: the atom says "x < y" for byte strings — Compare(x, y) < 0 or, with the operands the
	// other way round, Compare(y, x) > 0; returns (x, y)
	lessOf := func(a *Term) (x, y *Term, ok bool) {
		if a.Op != "LT" {
			return nil, nil, false
		}
		isZero := func(t *Term) bool { return t.Op == "const" && t.Name == "0" }
		isCmp := isBoolCallTo("bytes", "Compare")
		switch {
		case isCmp(a.Args[0]) && isZero(a.Args[1]) && len(a.Args[0].Args) == 2: // cmp(x,y) < 0
			return a.Args[0].Args[0], a.Args[0].Args[1], true
		case isZero(a.Args[0]) && isCmp(a.Args[1]) && len(a.Args[1].Args) == 2: // 0 < cmp(y,x)
			return a.Args[1].Args[1], a.Args[1].Args[0], true
		}
		return nil, nil, false
	}
	isRightIndex := func(t *Term) bool {
		return t.IsField("Index", func(b *Term) bool { return b.Op == "call" && b.Fn != nil && b.Fn.Name() == "Right" })
	}
	nA, nB := 0, 0
	type posTrav struct {
		fn   *ssa.Function
		posI int
	}
	var travs []posTrav
	for _, fn := range p.ModFuncs {
		if fn.Pkg != sp || p.isTestScaffold(fn) || fn.Synthetic != "" {
			continue
		}
		// traversal closures, or unexported recursive functions/methods (a closure given a name)
		if fn.Parent() == nil && (fn.Object() == nil || fn.Object().Exported() || len(selfCalls(fn)) == 0) {
			continue
		}
		for i, par := range fn.Params {
			if i == 0 && fn.Signature.Recv() != nil {
				continue
			}
			if namedIs(par.Type(), pkgHyper, "position") {
				travs = append(travs, posTrav{fn, i})
				break
			}
		}
	}
	for _, tv := range travs {
		tv := tv
		fn := tv.fn
		isPos := func(t *Term) bool { return t.IsParam(fn, tv.posI) }
		eachInstr(fn, func(in ssa.Instruction) {
			cc := callCommon(in)
			if cc == nil {
				return
			}
			var callee *ssa.Function
			if f := cc.StaticCallee(); f != nil {
				callee = f
			} else if !cc.IsInvoke() {
				if cl := p.TermOf(cc.Value).Resolve("closure"); cl != nil {
					callee = cl.Fn
				}
			}
			// the descent: a call of this closure, or of a sibling closure that comes back to it
			// (traverse ↔ traverseBatch); a sibling that never comes back (discarding a branch) is not one
			if callee == nil || callee != fn && !(outermost(callee) == outermost(fn) && closureCalls(p, callee, fn)) {
				return
			}
			ci := -1
			for i, par := range callee.Params {
				if namedIs(par.Type(), pkgHyper, "position") {
					ci = i
					break
				}
			}
			if ci < 0 || ci >= len(cc.Args) {
				return
			}
			pos := p.TermOf(cc.Args[ci])
			side := ""
			if pos.Op == "call" && pos.Fn != nil && len(pos.Args) == 1 && isPos(pos.Args[0]) {
				side = pos.Fn.Name()
			}
			if side != "Left" && side != "Right" {
				return
			}
			// only traversals that decide by comparing a single key
			var cmp *Cond
			for _, k := range p.CondsAt(in.Block()) {
				k := k
				if k.Atom.Has(isBoolCallTo("bytes", "Compare")) {
					cmp = &k
				}
			}
			if cmp == nil {
				return
			}
			nA++
			// "key < right.Index" decides Left; its negation Right
			_, y, isLess := lessOf(cmp.Atom)
			ok := isLess && isRightIndex(y) && (side == "Left") == cmp.Pol
			c.Check(ok, rule, ordinalLabel(funcName(fn)+":descent-"+side), in.Pos(), "Left under key < right.Index, Right otherwise", "the descent to "+side+" is taken under "+cmp.String()+": every traversal must send a key that equals Right(pos).Index to the right (go left exactly when Compare(key, right.Index) < 0), or prover, verifier and inserter disagree on keys that sit on a split point")
		})
	}
	for _, fn := range p.ModFuncs {
		if fn.Pkg != sp || !p.Production(fn) {
			continue
		}
		fn := fn
		eachInstr(fn, func(in ssa.Instruction) {
			call, ok := in.(*ssa.Call)
			if !ok || call.Call.StaticCallee() == nil || call.Call.StaticCallee().Name() != "Search" || call.Call.StaticCallee().Pkg == nil || call.Call.StaticCallee().Pkg.Pkg.Path() != "sort" || call.Referrers() == nil {
				return
			}
			lo, hi := false, false
			for _, r := range *call.Referrers() {
				if sl, isS := r.(*ssa.Slice); isS {
					if sl.High == ssa.Value(call) && sl.Low == nil {
						lo = true
					}
					if sl.Low == ssa.Value(call) && sl.High == nil {
						hi = true
					}
				}
			}
			if !lo || !hi {
				return // not a split (e.g. the insertion point of the sorted inserter)
			}
			mc, isMC := call.Call.Args[1].(*ssa.MakeClosure)
			if !isMC {
				return
			}
			nB++
			pred := mc.Fn.(*ssa.Function)
			okB := false
			var got string
			for _, b := range pred.Blocks {
				if len(b.Instrs) == 0 {
					continue
				}
				if ret, isR := b.Instrs[len(b.Instrs)-1].(*ssa.Return); isR && len(ret.Results) == 1 {
					cd := p.condOf(ret.Results[0], true)
					got = cd.String()
					// predicate "l[i] >= key" = not (l[i] < key): x is the list element
					x, _, isLess := lessOf(cd.Atom)
					okB = isLess && !cd.Pol && x.HasLocal(func(e *Term) bool { return e.Op == "index" })
				}
			}
			c.Check(okB, rule, ordinalLabel(funcName(fn)+":split"), in.Pos(), "split at the smallest i with l[i] >= right.Index", "the list is split with the predicate "+got+": the halves must be [l[i] < key) and [l[i] >= key) (predicate Compare(l[i], key) >= 0) like every other traversal, or an element equal to the split point goes to the other side than the one it was inserted on")
		})
	}
	if nA < 4 || nB < 2 {
		c.Fail(rule, "hyper:ordering-convention", 0, fmt.Sprintf("only %d single-key descents and %d list splits found", nA, nB))
	}
}

// closureCalls: closure a contains a call of closure b (through the variable it is bound to).
func closureCalls(p *Program, a, b *ssa.Function) bool {
	found := false
	eachInstr(a, func(in ssa.Instruction) {
		cc := callCommon(in)
		if cc == nil || cc.IsInvoke() || found {
			return
		}
		if cc.StaticCallee() == b {
			found = true
			return
		}
		if cc.StaticCallee() == nil {
			if cl := p.TermOf(cc.Value).Resolve("closure"); cl != nil && cl.Fn == b {
				found = true
			}
		}
	})
	return found
}
