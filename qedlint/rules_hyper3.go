package main

import (
	"fmt"
	"go/types"
	"strings"

	"golang.org/x/tools/go/ssa"
)

// ---- H5: no leaf of a bulk is dropped ------------------------------------------
//
// In a traversal that carries a list of leaves and whose constructor builds that
// list in a loop (the bulk insertion), a clause that consumes only element 0 of
// the list (a shortcut leaf is created from leaves[0]) silently drops the others
// unless it is taken only when the list has exactly one element. Every use of
// leaves[0] must therefore be dominated by a test that bounds len(leaves) by one
// (len == 1, !(len > 1), len < 2; the `len != 1 → panic` form counts through its
// surviving edge).
func hyperLeafConservation(c *Ctx, rule string) {
	p := c.P
	n := 0
	for _, tv := range hyperTraversals(p) {
		tv := tv
		fn := tv.fn
		if tv.lvI < 0 {
			continue
		}
		root := fn
		for root.Parent() != nil {
			root = root.Parent()
		}
		if !hasLoop(root) {
			continue // single-leaf insertion: the list is built without a loop
		}
		isLen := func(t *Term) bool {
			return t.Op == "builtin" && t.Name == "len" && len(t.Args) == 1 && t.Args[0].IsParam(fn, tv.lvI)
		}
		isK := func(t *Term, k string) bool { return t.Op == "const" && t.Name == k }
		bad := 0
		sites := 0
		eachInstr(fn, func(in ssa.Instruction) {
			ia, ok := in.(*ssa.IndexAddr)
			if !ok || !p.TermOf(ia.X).IsParam(fn, tv.lvI) {
				return
			}
			idx := p.TermOf(ia.Index)
			if !isK(idx, "0") {
				return
			}
			sites++
			cs := p.CondsAt(in.Block())
			single := hasCond(cs, func(k Cond) bool {
				a := k.Atom
				switch a.Op {
				case "EQ":
					return k.Pol && (isLen(a.Args[0]) && isK(a.Args[1], "1") || isLen(a.Args[1]) && isK(a.Args[0], "1"))
				case "LT":
					if !k.Pol && isK(a.Args[0], "1") && isLen(a.Args[1]) { // !(1 < len)
						return true
					}
					if k.Pol && isLen(a.Args[0]) && isK(a.Args[1], "2") { // len < 2
						return true
					}
				}
				return false
			})
			if !single {
				bad++
				c.Fail(rule, funcName(fn)+":leaves[0]", in.Pos(), "only the first leaf of the list is consumed here without a dominating test that the list has a single element: the other leaves of the bulk reaching this node are dropped (conds: "+strings.Join(condStrings(cs), " ∧ ")+")")
			}
		})
		if sites > 0 {
			n++
			if bad == 0 {
				c.Ok(rule, funcName(fn)+":leaves[0]", fn.Pos(), fmt.Sprintf("%d use(s) of leaves[0], each under len(leaves) ≤ 1", sites))
			}
		}
	}
	if n == 0 {
		c.Fail(rule, "hyper:bulk-shortcut", 0, "no bulk traversal creating a shortcut leaf from its single remaining leaf was found")
	}
}

// ---- H6: the batch persisted for a new shortcut is the batch the shortcut was written into ---
//
// updateBatchShortcut(pos, 0, B, …) and mutateBatch(pos, B') pushed together must
// name the same batch (B' == B): persisting another batch under pos stores a
// node that does not contain the leaf just created.
func hyperShortcutPersist(c *Ctx, rule string) {
	p := c.P
	n := 0
	for _, tv := range hyperTraversals(p) {
		fn := tv.fn
		for _, b := range fn.Blocks {
			var shortcuts, mutates []*ssa.CallCommon
			var at ssa.Instruction
			for _, in := range b.Instrs {
				cc := callCommon(in)
				if cc == nil || cc.StaticCallee() == nil {
					continue
				}
				f := cc.StaticCallee()
				if f.Signature.Results().Len() != 1 || !namedIs(f.Signature.Results().At(0).Type(), pkgHyper, "operation") {
					continue
				}
				// role by signature: (pos, int8, *batchNode, key, value) writes a shortcut; (pos, *batchNode) persists
				nb, nslot, nbytes := 0, 0, 0
				for i := 0; i < f.Signature.Params().Len(); i++ {
					t := f.Signature.Params().At(i).Type()
					switch {
					case namedIs(t, pkgHyper, "batchNode"):
						nb++
					case isBasicKind(t, types.Int8):
						nslot++
					case isByteSlice(t):
						nbytes++
					}
				}
				switch {
				case nb == 1 && nslot == 1 && nbytes == 2:
					// only shortcuts written into a batch created on the spot: a shortcut written into the
					// node's own batch is persisted by that batch's root
					fresh := false
					for i := 0; i < f.Signature.Params().Len(); i++ {
						if namedIs(f.Signature.Params().At(i).Type(), pkgHyper, "batchNode") {
							if call, isCall := cc.Args[i].(*ssa.Call); isCall {
								if g := call.Call.StaticCallee(); g != nil && g.Signature.Results().Len() == 1 && namedIs(g.Signature.Results().At(0).Type(), pkgHyper, "batchNode") {
									fresh = true
								}
							}
						}
					}
					if !fresh {
						continue
					}
					shortcuts = append(shortcuts, cc)
					at = in
				case nb == 1 && nslot == 0 && nbytes == 0 && f.Signature.Params().Len() == 2 && hyperStepWrites(p, f):
					mutates = append(mutates, cc)
				}
			}
			if len(shortcuts) == 0 {
				continue
			}
			n++
			batchArg := func(cc *ssa.CallCommon) ssa.Value {
				f := cc.StaticCallee()
				for i := 0; i < f.Signature.Params().Len(); i++ {
					if namedIs(f.Signature.Params().At(i).Type(), pkgHyper, "batchNode") {
						return cc.Args[i]
					}
				}
				return nil
			}
			ok := len(mutates) > 0
			var why string
			if !ok {
				why = "a shortcut leaf is written into a batch that is not persisted in the same step sequence"
			}
			for _, m := range mutates {
				for _, s := range shortcuts {
					if batchArg(m) != batchArg(s) {
						ok = false
						why = fmt.Sprintf("the shortcut leaf is written into %s but %s is persisted at that position", p.TermOf(batchArg(s)), p.TermOf(batchArg(m)))
					}
				}
			}
			c.Check(ok, rule, fmt.Sprintf("%s:shortcut@%s", funcName(fn), p.pos(at.Pos())), at.Pos(), "the batch persisted is the one holding the new shortcut", why)
		}
	}
	if n == 0 {
		c.Fail(rule, "hyper:shortcut-persist", 0, "no shortcut-leaf creation found in the hyper insert traversals")
	}
}

// hyperStepWrites: the step built by constructor f, when interpreted, records a store mutation.
func hyperStepWrites(p *Program, f *ssa.Function) bool {
	found := false
	for _, a := range Anons(f) {
		eachInstr(a, func(in ssa.Instruction) {
			if cc := callCommon(in); cc != nil && cc.StaticCallee() != nil && cc.StaticCallee().Name() == "NewMutation" {
				found = true
			}
		})
	}
	return found
}

// ---- H7: the sorted inserter leaves the list untouched for a key it already holds -----
//
// "First occurrence wins" is what makes a re-added digest keep … the value the
// caller inserted first; the push-down of a stored leaf relies on it (the stored
// leaf is inserted after the new ones and must lose). A store into the list on
// the duplicate-key edge changes which version a digest maps to.
func hyperInsertSortedDuplicates(c *Ctx, rule string) {
	p := c.P
	sp := p.SSAPkg[modPkg(pkgHyper)]
	n := 0
	for _, f := range p.ModFuncs {
		if f.Pkg != sp || !isInPlaceMutator(p, f) {
			continue
		}
		n++
		bad := 0
		dupTested := false
		for _, b := range f.Blocks {
			if ifi := blockIf(b); ifi != nil {
				cd := p.condOf(ifi.Cond, true)
				if isBoolCallTo("bytes", "Equal")(cd.Atom) || cd.Atom.Op == "EQ" && cd.Atom.Has(isBoolCallTo("bytes", "Compare")) {
					dupTested = true
				}
			}
		}
		eachInstr(f, func(in ssa.Instruction) {
			st, ok := in.(*ssa.Store)
			if !ok {
				return
			}
			ia, ok := st.Addr.(*ssa.IndexAddr)
			if !ok {
				return
			}
			base := p.TermOf(ia.X)
			if !base.HasLocal(func(t *Term) bool { return t.IsParam(f, 0) }) {
				return
			}
			cs := p.CondsAt(in.Block())
			if hasCond(cs, func(k Cond) bool {
				return k.Pol && isBoolCallTo("bytes", "Equal")(k.Atom) ||
					k.Pol && k.Atom.Op == "EQ" && k.Atom.Has(isBoolCallTo("bytes", "Compare"))
			}) {
				bad++
				c.Fail(rule, funcName(f)+":duplicate-key", in.Pos(), "an element of the list is overwritten on the edge where the key is already present: the value kept for a repeated key changes from the first inserted to the last")
			}
		})
		if !dupTested {
			bad++
			c.Fail(rule, funcName(f)+":duplicate-key", f.Pos(), "the sorted inserter no longer tests whether the key is already in the list")
		}
		if bad == 0 {
			c.Ok(rule, funcName(f)+":duplicate-key", f.Pos(), "a key already present leaves the list untouched")
		}
	}
	if n == 0 {
		c.Fail(rule, "hyper:sorted-inserter", 0, "sorted in-place inserter of the hyper leaves list not found")
	}
}
