package main

import (
	"fmt"
	"go/types"
	"strings"

	"golang.org/x/tools/go/ssa"
)

func init() {
	register("C08", propMeta{
		Explanation: "Decides the release discipline and the rebuild-on-open obligations: (R1) every database-bound handle (iterators, WAL iterators, backup info, readers) created in production code is released on every path from its creation, or escapes to an owner; (R2) the owners' Close releases every releasable field, column-family handles before the database; " +
			"(R3) RaftNode.Close releases raft, transport, log store, balloon and database on every non-error path (or the field is nil), the database last; Balloon.Close closes both trees; (R4) no explicit abort (panic, Fatal, os.Exit, unchecked assertion) is reachable from the shutdown entry points; (R5) constructors rebuild version counter and hyper cache from the store, the rebuild consumes exactly what was read; (R6) caches are read-through and wired to the table their tree writes.",
		Added:       "Also (R7) one recovery level for writers and rebuild, tiles persisted whenever cached, the persisted FSM state is the applied one, every production Close of the node waits for raft's shutdown. Third round: (R5) one ordering convention, readers hand out fresh pairs and report errors only with an empty chunk; (R7) loadState installs what it decodes, a node joins at start-up only when it has no state. Fifth round: Close returns early only with the error of a release step; a restarted node accepts its own snapshot (order model over state/snapshot versions).",
		Assumptions: []string{"the rocksdb wrapper's release methods free the native object"},
		Declined:    "identity of snapshots/proofs after reopen at every prefix (values); RocksDB's own reference counting.",
	}, runC08)
}

func runC08(c *Ctx) {
	c.Rule("R8", "a restarted node accepts its own snapshot: no refusal constructed in Restore is feasible when state >= snap-1 (finite order model)", 1)
	restoreAcceptsOwnSnapshot(c, "R8")
	c.Rule("R1", "database-bound handles are released on all paths or escape to an owner", 8)
	c.Rule("R2", "owner Close releases every releasable field; column families before the database", 2)
	c.Rule("R3", "node shutdown releases every component, database last", 6)
	c.Rule("R4", "no abort reachable from the shutdown path", 1)
	c.Rule("R5", "rebuild on open", 5)
	c.Rule("R6", "read-through caches wired to their table", 5)
	handlePairing(c, "R1")
	ownerClose(c, "R2")
	nodeShutdown(c, "R3")
	shutdownAborts(c, "R4")
	rebuildOnOpen(c, "R5")
	tableWiring(c, "R6")
	c.Rule("R7", "restart invisibility: one recovery level for writers and rebuild; persisted FSM state is the applied one; stop waits for raft", 8)
	recoveryHeightAgreement(c, "R7")
	cacheTilesPersistedAlways(c, "R7")
	hyperOrderingConvention(c, "R5")
	readerErrOnlyWithEmptyChunk(c, "R5")
	readerHandsOutFreshPairs(c, "R5")
	loadStateInstallsWhatItDecodes(c, "R7")
	startupJoinOnlyWithoutState(c, "R7")
	_, applyAdd := fsmApplyGuard(newCtx(c.P, c.Prop, c.Tier), "R7")
	fsmApplyAdd(c, "R7", applyAdd)
	nodeCloseWaits(c, "R7")
}

func handlePairing(c *Ctx, rule string) {
	p := c.P
	sites := p.HandleSites(dbHandles)
	for _, s := range sites {
		label := funcName(s.fn) + ":" + s.spec.typ
		if s.status == "LEAK" {
			c.Fail(rule, label, s.in.Pos(), fmt.Sprintf("%s.%s created at %s is not released on the path to the exit at %s (no %s, not handed to an owner): the storage engine still references it when the database is closed", s.spec.pkg, s.spec.typ, p.pos(s.in.Pos()), p.pos(instrPos(s.leakAt)), strings.Join(s.spec.release, "/")))
		} else {
			c.Ok(rule, label, s.in.Pos(), s.status)
		}
	}
	// the reader wrappers release what they own
	for _, w := range []struct{ pkg, typ, field string }{{"storage/rocks", "RocksDBKVPairReader", "it"}} {
		cl := p.Method(w.pkg, w.typ, "Close")
		ok := false
		if cl != nil {
			eachInstr(cl, func(in ssa.Instruction) {
				if cc := callCommon(in); cc != nil && cc.StaticCallee() != nil && cc.StaticCallee().Name() == "Close" && len(cc.Args) > 0 && p.TermOf(cc.Args[0]).IsField(w.field, isParam(cl, 0)) {
					ok = true
				}
			})
		}
		c.Check(ok, rule, w.typ+".Close", 0, "closes its iterator", w.typ+".Close does not close the iterator it owns")
	}
}

func releaseMethod(t types.Type) string {
	t = deref(t)
	if sl, ok := t.Underlying().(*types.Slice); ok {
		t = deref(sl.Elem())
	}
	n, ok := t.(*types.Named)
	if !ok || n.Obj().Pkg() == nil || !strings.HasSuffix(n.Obj().Pkg().Path(), "/rocksdb") {
		return ""
	}
	for _, name := range []string{"Close", "Destroy"} {
		for _, tt := range []types.Type{n, types.NewPointer(n)} {
			ms := types.NewMethodSet(tt)
			for i := 0; i < ms.Len(); i++ {
				if ms.At(i).Obj().Name() == name {
					return name
				}
			}
		}
	}
	return ""
}

func ownerClose(c *Ctx, rule string) {
	p := c.P
	for _, o := range []struct{ pkg, typ string }{{"storage/rocks", "RocksDBStore"}, {pkgConsensus, "raftLog"}} {
		named := p.NamedType(o.pkg, o.typ)
		cl := p.MustMethod(o.pkg, o.typ, "Close")
		if named == nil {
			fatalf("owner type %s.%s not found", o.pkg, o.typ)
		}
		st := named.Underlying().(*types.Struct)
		// Close and the release helpers it delegates to
		rg := p.RegionOf(cl, 2)
		released := map[string]regionInstr{}
		rg.Instrs(func(site regionSite, in ssa.Instruction) {
			cc := callCommon(in)
			if cc == nil || cc.StaticCallee() == nil || cc.StaticCallee().Signature.Recv() == nil {
				return
			}
			n := cc.StaticCallee().Name()
			if n != "Close" && n != "Destroy" {
				return
			}
			t := rg.Term(site, cc.Args[0])
			t.HasLocal(func(x *Term) bool {
				if x.Op == "field" && x.Args[0].IsParam(cl, 0) {
					released[x.Name] = regionInstr{site, in}
				}
				return false
			})
		})
		bad := 0
		n := 0
		for i := 0; i < st.NumFields(); i++ {
			f := st.Field(i)
			rel := releaseMethod(f.Type())
			if rel == "" {
				continue
			}
			n++
			if _, ok := released[canonFieldName(named, f.Name())]; !ok {
				bad++
				c.Fail(rule, o.typ+"."+f.Name(), cl.Pos(), fmt.Sprintf("%s.Close never calls %s on field %s (%s): the native object outlives the store", o.typ, rel, f.Name(), typeStr(f.Type())))
			}
		}
		// column families before the database
		if dbc, ok := released["db"]; ok {
			if cf, ok2 := released["cfHandles"]; ok2 && rg.Reaches(dbc, cf) {
				bad++
				c.Fail(rule, o.typ+":order", dbc.in.Pos(), "the database is closed before its column-family handles are destroyed")
			}
		}
		if bad == 0 {
			c.Ok(rule, o.typ+".Close", cl.Pos(), fmt.Sprintf("%d releasable fields, all released; column families before the database", n))
		}
	}
}

func nodeShutdown(c *Ctx, rule string) {
	p := c.P
	cl := p.MustMethod(pkgConsensus, "RaftNode", "Close")
	// Close marks the node closed first, so a second call does nothing: the only errors that may cut the
	// shutdown short are those of the release steps themselves. A return of any other error (a step that is
	// not a release, such as handing leadership over) leaves every component open for good.
	{
		var why []string
		for _, rc := range p.RegionOf(cl, 2).ReturnCases(cl.Signature.Results().Len() - 1) {
			for _, alt := range rc.T.Alts() {
				if alt.Op == "const" {
					continue
				}
				fromRelease := alt.Has(func(x *Term) bool {
					if x.Op == "invoke" && (x.Name == "Close" || x.Name == "Shutdown") {
						return true
					}
					return x.Op == "call" && x.Fn != nil && (x.Fn.Name() == "Close" || x.Fn.Name() == "Shutdown")
				})
				if !fromRelease {
					why = append(why, alt.String())
				}
			}
		}
		c.Check(len(why) == 0, rule, funcName(cl)+":only-release-errors", cl.Pos(), "Close returns early only with the error of a release step", "Close can return early with "+strings.Join(why, ", ")+", the error of a step that releases nothing: the node is already marked closed, so a retry does nothing and raft, the transport, the log store, the balloon and the database stay open (the directories stay locked)")
	}
	type comp struct{ field, method string }
	comps := []comp{{"raft", "Shutdown"}, {"transport", "Close"}, {"raftLog", "Close"}, {"balloon", "Close"}, {"db", "Close"}}
	rg := p.RegionOf(cl, 2) // Close and the per-component shutdown helpers it may delegate to
	calls := map[string]ssa.Instruction{}
	for _, k := range comps {
		k := k
		hit := func(in ssa.Instruction) bool {
			cc := callCommon(in)
			if cc == nil {
				return false
			}
			name := ""
			var recv ssa.Value
			if cc.IsInvoke() {
				name, recv = cc.Method.Name(), cc.Value
			} else if f := cc.StaticCallee(); f != nil && len(cc.Args) > 0 {
				name, recv = f.Name(), cc.Args[0]
			}
			if name == k.method && recv != nil && rg.TermIn(in, recv).IsField(k.field, isParam(cl, 0)) {
				calls[k.field] = rg.Anchor(regionInstr{rg.SiteOf(in.Parent()), in})
				return true
			}
			return false
		}
		skip := func(b *ssa.BasicBlock, succ int) bool {
			ifi := blockIf(b)
			if ifi == nil {
				return false
			}
			// the outcome of the branch, and what it implies when it is the outcome of a boolean helper
			// (`if alreadyClosed := n.markClosed(); alreadyClosed`)
			for _, cd := range p.withImplied([]Cond{p.condOf(ifi.Cond, succ == 0)}) {
				cd.Atom = rg.LiftIn(b.Parent(), cd.Atom)
				// field is nil / node already closed: nothing to release on that edge
				if cd.Atom.Op == "EQ" && cd.Pol {
					for i := 0; i < 2; i++ {
						if cd.Atom.Args[i].Name == "nil" && cd.Atom.Args[1-i].IsField(k.field, isParam(cl, 0)) {
							return true
						}
					}
				}
				if cd.Pol && cd.Atom.IsField("closed", isParam(cl, 0)) {
					return true
				}
			}
			return false
		}
		esc := rg.EscapesWithoutDeep(hit, mustOpts{skipErrEdges: true, skipEdge: skip})
		c.Check(esc == nil, rule, funcName(cl)+":"+k.field, cl.Pos(), k.field+"."+k.method+"() on every successful shutdown path (or the field is nil)", "a successful shutdown can return without "+k.field+"."+k.method+"(): the component keeps its storage resources")
	}
	if dbc, ok := calls["db"]; ok {
		bad := false
		for f, in := range calls {
			if f != "db" && instrReaches(dbc, in) {
				bad = true
				c.Fail(rule, funcName(cl)+":db-last", dbc.Pos(), "the database is closed before "+f+" is shut down: components still using it would fail or crash")
			}
		}
		if !bad {
			c.Ok(rule, funcName(cl)+":db-last", dbc.Pos(), "database closed last")
		}
	}
	bc := p.MustMethod(pkgBalloon, "Balloon", "Close")
	for _, tr := range []*ssa.Function{p.MustMethod(pkgHistory, "HistoryTree", "Close"), p.MustMethod(pkgHyper, "HyperTree", "Close")} {
		tr := tr
		esc := p.EscapesWithout(bc, func(in ssa.Instruction) bool { cc := callCommon(in); return cc != nil && cc.StaticCallee() == tr }, mustOpts{})
		c.Check(esc == nil, rule, funcName(bc)+":"+tr.Pkg.Pkg.Name(), bc.Pos(), "closes the "+tr.Pkg.Pkg.Name()+" tree", "Balloon.Close can return without closing the "+tr.Pkg.Pkg.Name()+" tree")
	}
}

func shutdownAborts(c *Ctx, rule string) {
	p := c.P
	var entries []*ssa.Function
	for _, e := range []struct{ pkg, typ, m string }{{"server", "Server", "Stop"}, {pkgConsensus, "RaftNode", "Close"}, {"storage/rocks", "RocksDBStore", "Close"}, {pkgConsensus, "raftLog", "Close"}, {pkgBalloon, "Balloon", "Close"}, {"gossip", "Agent", "Shutdown"}} {
		entries = append(entries, p.MustMethod(e.pkg, e.typ, e.m))
	}
	fns := p.reachableFrom(entries...)
	bad := 0
	for _, fn := range fns {
		if fn.Pkg != nil && strings.HasSuffix(fn.Pkg.Pkg.Path(), "/log") {
			continue // the logger's own Fatal/Panic implementations
		}
		fn := fn
		eachInstr(fn, func(in ssa.Instruction) {
			if isAbortCall(in) {
				bad++
				c.Fail(rule, funcName(fn)+":abort", in.Pos(), "an explicit abort (panic / Fatal / os.Exit) is reachable from the shutdown path: stopping a node can kill the process instead of completing")
			}
			if ta, ok := in.(*ssa.TypeAssert); ok && !ta.CommaOk {
				if types.Identical(ta.X.Type(), ta.AssertedType) || isErrorType(ta.X.Type()) {
					return
				}
				bad++
				c.Fail(rule, funcName(fn)+":assert", in.Pos(), "an unchecked type assertion to "+typeStr(ta.AssertedType)+" is reachable from the shutdown path")
			}
		})
	}
	if bad == 0 {
		c.Ok(rule, "shutdown-path", entries[0].Pos(), fmt.Sprintf("%d functions reachable from Server.Stop / RaftNode.Close / store and log Close / Balloon.Close / Agent.Shutdown, none aborts explicitly", len(fns)))
	}
	// positive control: the rule recognises an abort where there is one (the FSM's apply path panics by design)
	ctl := 0
	for _, fn := range p.reachableFrom(p.MustMethod(pkgConsensus, "RaftNode", "Apply")) {
		eachInstr(fn, func(in ssa.Instruction) {
			if isAbortCall(in) {
				ctl++
			}
		})
	}
	c.Control("abort-sites-recognised-on-the-apply-path", ctl > 0)
}
