package main

import (
	"fmt"
	"strings"

	"golang.org/x/tools/go/ssa"
)

func init() {
	register("C19", propMeta{
		Explanation: "Decides the wiring of the three agents' tasks: (R1) auditor — the membership proof is requested for the batch's first snapshot (its event digest and version), checked against a snapshot whose history digest is the gossiped one and whose hyper digest is the stored one of the proof's current version, with the gossiped event digest; every successful path of the task performs the verification; the failing edge raises an alert and the passing edge does not; a request the log refuses (4xx) raises an alert — the error type the auditor's alert branch names is the one the client constructs; " +
			"(R2) monitor — incremental proof requested and verified between the first and last snapshot of the batch on every successful path (no batch shape is skipped), failure and request errors alert; (R3) publisher — a snapshot is forwarded only on the cache-miss edge keyed by its signature, the same key is recorded on that edge before the snapshot is queued, and the store receives the filtered batch.",
		Added:       "Also (R4) each task works on the batch of its own message, alerts are handed over with a blocking send, the auditor's query carries the version whenever one is given. Third round: (R4) the dedup key covers the whole batch, loop goroutines own their variables; (R3) the publisher posts each batch once.",
		Assumptions: []string{"verification verdicts as decided by C02/C03"},
		Declined:    "the 'iff' over every tampering and every honest log (needs the verifiers' behaviour); redelivery patterns over schedules.",
	}, runC19)
}

func cmdTaskClosure(p *Program, factory string) *ssa.Function {
	newM := p.Method("cmd", factory, "New")
	if newM == nil {
		return nil
	}
	for _, rt := range p.ReturnTerms(newM) {
		if rt[0].Op == "closure" {
			return rt[0].Fn
		}
	}
	return nil
}

func isAlertCall(in ssa.Instruction) bool {
	cc := callCommon(in)
	return cc != nil && cc.IsInvoke() && cc.Method.Name() == "Alert"
}

func firstSnapshotOfBatch(t *Term) bool {
	return t.Has(func(x *Term) bool {
		return x.Op == "index" && x.Args[0].IsField("Snapshots", nil) && x.Args[1].Op == "const" && x.Args[1].Name == "0"
	})
}

func runC19(c *Ctx) {
	p := c.P
	c.Rule("R1", "auditor task wiring and alert edges", 5)
	c.Rule("R2", "monitor task wiring and alert edges", 4)
	c.Rule("R3", "publisher: forward on cache miss keyed by signature, key recorded first, filtered batch stored", 3)
	// ---------------- auditor
	aud := cmdTaskClosure(p, "membershipFactory")
	if aud == nil {
		c.Fail("R1", "auditor", 0, "auditor task not found")
	} else {
		name := "auditor task"
		md := p.MustMethod("client", "HTTPClient", "MembershipDigest")
		mv := p.MustMethod("client", "HTTPClient", "MembershipVerify")
		reqs := callsIn(aud, func(k *ssa.CallCommon) bool { return k.StaticCallee() == md })
		vers := callsIn(aud, func(k *ssa.CallCommon) bool { return k.StaticCallee() == mv })
		if len(reqs) != 1 || len(vers) != 1 {
			c.Fail("R1", name+":calls", aud.Pos(), fmt.Sprintf("%d proof requests, %d verifications", len(reqs), len(vers)))
		} else {
			rc, vc := callCommon(reqs[0]), callCommon(vers[0])
			d, v := p.TermOf(rc.Args[1]), p.TermOf(rc.Args[2])
			okReq := d.IsField("EventDigest", nil) && firstSnapshotOfBatch(d) && v.Strip().IsField("Version", nil) && firstSnapshotOfBatch(v)
			c.Check(okReq, "R1", name+":request", reqs[0].Pos(), "MembershipDigest(first.EventDigest, &first.Version)", fmt.Sprintf("proof requested for (%s, %s), expected the event digest and version of the batch's first snapshot", d, v))
			dig, prf := p.TermOf(vc.Args[1]), p.TermOf(vc.Args[2])
			snap := p.ContentTerm(vc.Args[3])
			fv := func(name string) *Term {
				var out *Term
				snap.Has(func(x *Term) bool {
					if x.Op == "fieldval" && x.Name == name {
						out = x.Args[0]
					}
					return false
				})
				if out == nil {
					return mk("unknown", name, nil)
				}
				return out
			}
			hd, yd := fv("HistoryDigest"), fv("HyperDigest")
			okSnap := hd.IsField("HistoryDigest", nil) && firstSnapshotOfBatch(hd) &&
				yd.IsField("HyperDigest", nil) && yd.Has(func(x *Term) bool {
				return x.Op == "invoke" && x.Name == "GetSnapshot" && x.Args[1].IsField("CurrentVersion", func(b *Term) bool { return b.Has(func(y *Term) bool { return y.IsCallTo(md) }) })
			})
			okArgs := dig.IsField("EventDigest", nil) && firstSnapshotOfBatch(dig) && prf.Has(func(x *Term) bool { return x.IsCallTo(md) })
			c.Check(okSnap && okArgs, "R1", name+":verify", vers[0].Pos(), "verify(first.EventDigest, proof, {HistoryDigest: gossiped, HyperDigest: stored(proof.CurrentVersion)})",
				fmt.Sprintf("verification wired as digest=%s proof=%s HistoryDigest=%s HyperDigest=%s", dig, prf, hd, yd))
			// every successful path verifies
			esc := p.EscapesWithout(aud, func(in ssa.Instruction) bool { return in == vers[0] }, mustOpts{skipErrEdges: true})
			c.Check(esc == nil, "R1", name+":always-verifies", aud.Pos(), "every successful run of the task verifies the proof", "the auditor task can finish successfully without verifying anything")
			alertEdges(c, "R1", name, aud, vers[0])
			// request refused: alert reachable on the error edge, for the error type the client builds
			okT := false
			var typeName string
			eachInstr(aud, func(in ssa.Instruction) {
				bo, ok := in.(*ssa.BinOp)
				if !ok {
					return
				}
				x, y := p.TermOf(bo.X), p.TermOf(bo.Y)
				for _, pr := range [][2]*Term{{x, y}, {y, x}} {
					if pr[0].Op == "const" && strings.HasPrefix(pr[0].Name, `"*`) && pr[1].Op == "call" && pr[1].Fn != nil && pr[1].Fn.Name() == "Sprintf" {
						typeName = strings.Trim(pr[0].Name, `"`)
					}
				}
			})
			doReq := p.MustMethod("client", "HTTPClient", "doReq")
			built := ""
			for _, b := range doReq.Blocks {
				ret, ok := b.Instrs[len(b.Instrs)-1].(*ssa.Return)
				if !ok || b == doReq.Recover {
					continue
				}
				// the return taken for a status the test on StatusCode singles out (the test may sit in a
				// predicate helper): an error return under a positive outcome of such a test
				cs := p.withImplied(p.CondsAt(b))
				if !hasCond(cs, func(k Cond) bool { return k.Atom.Has(func(x *Term) bool { return x.IsField("StatusCode", nil) }) }) {
					continue
				}
				et := p.TermOf(RetVal(ret, 1))
				if et.Op == "const" {
					continue // the success return
				}
				switch {
				case et.Op == "call" && et.Fn != nil && et.Fn.Pkg != nil && et.Fn.Pkg.Pkg.Path() == "errors" && et.Fn.Name() == "New":
					built = "*errors.errorString"
				case et.Op == "call" && et.Fn != nil && et.Fn.Pkg != nil && et.Fn.Pkg.Pkg.Path() == "fmt" && et.Fn.Name() == "Errorf":
					built = "*errors.errorString"
					if strings.Contains(et.Args[0].Name, "%w") {
						built = "*fmt.wrapError"
					}
				default:
					built = "other:" + et.String()
				}
			}
			if typeName == "" {
				// no type switch: then the error edge must always alert
				esc := true
				for _, b := range aud.Blocks {
					if ifi := blockIf(b); ifi != nil && p.errEdge(ifi) >= 0 {
						cond := ifi.Cond.(*ssa.BinOp)
						if t := p.TermOf(cond.X); t.Op == "extract" && t.Args[0].IsCallTo(md) {
							eb := b.Succs[p.errEdge(ifi)]
							esc = !isAlertCall(eb.Instrs[0]) && p.EscapesWithout(aud, isAlertCall, mustOpts{start: eb.Instrs[0]}) != nil
						}
					}
				}
				okT = !esc
			} else {
				okT = typeName == built
			}
			c.Check(okT, "R1", name+":refused-request", reqs[0].Pos(), "a refused proof request alerts (alert branch names "+typeName+", client builds "+built+")",
				"the auditor alerts on a refused proof request only when the error's type prints as "+typeName+", but the client builds its 4xx error as "+built+": a tampered snapshot the log refuses to prove (412) is silently counted as a metric")
		}
	}
	// ---------------- monitor
	mon := cmdTaskClosure(p, "incrementalFactory")
	if mon == nil {
		c.Fail("R2", "monitor", 0, "monitor task not found")
	} else {
		name := "monitor task"
		sub := newCtx(p, c.Prop, c.Tier)
		c03R5(sub)
		for _, in := range sub.Instances {
			if strings.Contains(in.Construct, "incrementalFactory") {
				in.Rule = c.Prop + ".R2"
				c.Instances = append(c.Instances, in)
			}
		}
		incV := p.MustMethod("client", "HTTPClient", "IncrementalVerify")
		inc := p.MustMethod("client", "HTTPClient", "Incremental")
		vers := callsIn(mon, func(k *ssa.CallCommon) bool { return k.StaticCallee() == incV })
		if len(vers) != 1 {
			c.Fail("R2", name+":calls", mon.Pos(), fmt.Sprintf("%d verifications", len(vers)))
		} else {
			esc := p.EscapesWithout(mon, func(in ssa.Instruction) bool { return in == vers[0] }, mustOpts{skipErrEdges: true})
			c.Check(esc == nil, "R2", name+":always-verifies", mon.Pos(), "every successful run of the task verifies the consistency proof", "the monitor task can finish successfully without requesting/verifying a proof (some batch shapes are skipped): a tampered single-snapshot batch, or one whose versions were altered, raises no alert")
			alertEdges(c, "R2", name, mon, vers[0])
			// request error alerts
			okE := false
			for _, b := range mon.Blocks {
				if ifi := blockIf(b); ifi != nil && p.errEdge(ifi) >= 0 {
					cond := ifi.Cond.(*ssa.BinOp)
					if t := p.TermOf(cond.X); t.Op == "extract" && t.Args[0].IsCallTo(inc) {
						eb := b.Succs[p.errEdge(ifi)]
						okE = isAlertCall(eb.Instrs[0]) || p.EscapesWithout(mon, isAlertCall, mustOpts{start: eb.Instrs[0]}) == nil
					}
				}
			}
			c.Check(okE, "R2", name+":refused-request", mon.Pos(), "a failed proof request alerts", "a failed incremental-proof request does not alert on every path")
		}
	}
	// ---------------- what every task depends on: its own batch, alerts that are not dropped, the version it asked for
	c.Rule("R4", "each task works on the batch of its own message; alerts are delivered, not dropped; the auditor's query carries the snapshot's version", 3)
	batchPerMessage(c, "R4")
	blockingDelivery(c, "R4", p.MustMethod("gossip", "SimpleNotifier", "Alert"), "an alert")
	optionalVersionByPresence(c, "R4", p.MustMethod("client", "HTTPClient", "MembershipDigest"), 2)
	dedupKeyCoversTheBatch(c, "R4")
	storePostsOnce(c, "R3")
	loopGoroutinesOwnTheirVariables(c, "R4", []string{"gossip", "cmd"})
	// ---------------- publisher
	pub := cmdTaskClosure(p, "publisherFactory")
	if pub == nil {
		c.Fail("R3", "publisher", 0, "publisher task not found")
		return
	}
	name := "publisher task"
	var get, set, app, put ssa.Instruction
	pubRg := p.RegionOf(pub, 2) // the filtering loop may be a helper of the factory
	pubRg.Instrs(func(_ regionSite, in ssa.Instruction) {
		cc := callCommon(in)
		if cc == nil {
			return
		}
		switch {
		case cc.IsInvoke() && cc.Method.Name() == "Get":
			get = in
		case cc.IsInvoke() && cc.Method.Name() == "Set":
			set = in
		case cc.IsInvoke() && cc.Method.Name() == "PutBatch":
			put = in
		}
		if b, ok := cc.Value.(*ssa.Builtin); ok && b.Name() == "append" && isLoadOfField(cc.Args[0], "Snapshots") {
			app = in
		}
	})
	if get == nil || set == nil || app == nil || put == nil {
		c.Fail("R3", name, pub.Pos(), "publisher task no longer has the lookup / record / queue / store steps")
		return
	}
	if get.Parent() != set.Parent() || set.Parent() != app.Parent() {
		c.Fail("R3", name, pub.Pos(), "the lookup, the recording and the queueing of a snapshot are spread over different functions: their order on the miss edge cannot be established")
		return
	}
	kg, ks := p.TermOf(callCommon(get).Args[0]), p.TermOf(callCommon(set).Args[0])
	okKey := kg.IsField("Signature", nil) && kg.String() == ks.String()
	c.Check(okKey, "R3", name+":key", get.Pos(), "cache keyed by the snapshot's signature, same key looked up and recorded", "cache lookup uses "+kg.String()+", recording uses "+ks.String())
	miss := func(in ssa.Instruction) bool {
		cs := p.CondsAt(in.Block())
		return hasCond(cs, func(k Cond) bool {
			return !k.Pol && k.Atom.Op == "EQ" && k.Atom.Has(func(x *Term) bool { return x.V != nil && x.Op == "extract" && x.Args[0].V == get.(ssa.Value) })
		})
	}
	okEdge := miss(app) && miss(set) && instrReachesOrSame(set, app) && set.Block().Dominates(app.Block())
	el := p.TermOf(callCommon(app).Args[1])
	sameSnap := el.Has(func(x *Term) bool { return kg.Args != nil && x.String() == kg.Args[0].String() })
	c.Check(okEdge && sameSnap, "R3", name+":forward", app.Pos(), "queued only on the miss edge, after recording its signature", "a snapshot is queued for the store without the signature having been recorded first on the cache-miss edge (recording after the store round-trip lets a concurrent or repeated delivery forward it again), or not on the miss edge at all")
	pb := p.X(p.TermOf(callCommon(put).Args[0]))
	// built in the task (an allocation), in no alternative the batch taken out of the context (a type assertion)
	okPut := pb.Op == "alloc" || pb.Op == "struct" || pb.Op == "cell"
	for _, alt := range pb.Alts() {
		if alt.Op == "assert" || alt.Op == "cell" && alt.HasLocal(func(x *Term) bool { return x.Op == "assert" }) {
			okPut = false
		}
	}
	c.Check(okPut, "R3", name+":store", put.Pos(), "the store receives the filtered batch", "PutBatch receives "+pb.String()+", expected the filtered batch built in the task")
}

// alertEdges: on the !ok edge of the verification an alert is raised on every path; on the ok edge none is.
func alertEdges(c *Ctx, rule, name string, fn *ssa.Function, verify ssa.Instruction) {
	p := c.P
	var okV ssa.Value
	call := verify.(*ssa.Call)
	for _, r := range *call.Referrers() {
		if ex, isE := r.(*ssa.Extract); isE && ex.Index == 0 {
			okV = ex
		}
	}
	var failEntry, passEntry *ssa.BasicBlock
	for _, b := range fn.Blocks {
		ifi := blockIf(b)
		if ifi == nil {
			continue
		}
		cd := p.condOf(ifi.Cond, true)
		if cd.Atom.V != okV && !(cd.Atom.Op == "extract" && cd.Atom.V == okV) {
			if !(cd.V == okV) {
				continue
			}
		}
		// edge on which the verdict is true
		if cd.Pol {
			passEntry, failEntry = b.Succs[0], b.Succs[1]
		} else {
			passEntry, failEntry = b.Succs[1], b.Succs[0]
		}
	}
	if failEntry == nil {
		c.Fail(rule, name+":alert-edges", verify.Pos(), "the verdict of the verification is not branched on")
		return
	}
	failAlerts := isAlertCall(failEntry.Instrs[0]) || p.EscapesWithout(fn, isAlertCall, mustOpts{start: failEntry.Instrs[0]}) == nil
	// pass edge: no alert in blocks dominated by the pass entry only (the join point is shared)
	passAlerts := false
	for _, b := range fn.Blocks {
		if passEntry.Dominates(b) && !failEntry.Dominates(b) && len(passEntry.Preds) == 1 {
			for _, in := range b.Instrs {
				if isAlertCall(in) {
					passAlerts = true
				}
			}
		}
	}
	// an alert after the join (reached from both edges) would also fire on success
	for _, b := range fn.Blocks {
		if !failEntry.Dominates(b) && !(passEntry.Dominates(b) && len(passEntry.Preds) == 1) && verify.Block().Dominates(b) && b != verify.Block() {
			for _, in := range b.Instrs {
				if isAlertCall(in) && instrReaches(verify, in) {
					// reachable from the verification on a path not confined to the failing edge
					cs := p.CondsAt(b)
					confined := hasCond(cs, func(k Cond) bool { return k.V == okV && !k.Pol || k.Atom.V == okV && !k.Pol })
					errEdge := hasCond(cs, func(k Cond) bool {
						return k.Atom.Op == "EQ" && !k.Pol && (isErrorTerm(k.Atom.Args[0]) || isErrorTerm(k.Atom.Args[1]))
					})
					if !confined && !errEdge {
						passAlerts = true
					}
				}
			}
		}
	}
	c.Check(failAlerts && !passAlerts, rule, name+":alert-edges", verify.Pos(), "alert on every path of the failing edge, none on the passing edge",
		fmt.Sprintf("failed verification always alerts=%v; alert reachable when verification passes=%v", failAlerts, passAlerts))
}

func isLoadOfField(v ssa.Value, field string) bool {
	u, ok := v.(*ssa.UnOp)
	if !ok {
		return false
	}
	fa, ok := u.X.(*ssa.FieldAddr)
	return ok && structFieldName(deref(fa.X.Type()), fa.Field) == field
}
