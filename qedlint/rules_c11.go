package main

import (
	"fmt"
	"go/types"
	"strings"

	"golang.org/x/tools/go/ssa"
)

func init() {
	register("C11", propMeta{
		Explanation: "Decides that every HTTP handler answers on every path and that the degenerate inputs the property names are stopped by a guard before they reach code that aborts: (R1) on every path of every registered handler a response-writing call is made (sanitizers: error ⇒ responded); (R2) a body that does not decode is answered 4xx and the method check precedes the decode; " +
			"(R3) input guards: digest length compared with the hasher length somewhere on every call chain from the digest-membership handler to the hyper tree, non-empty bulk tested on the chain from the bulk handler to raft.Apply, query parameters length-checked before indexing, optional version nil-tested before dereference, range guard of QueryConsistency; " +
			"(R4) raft.Apply has a single caller chain (AddBulk → propose) whose payload is what Apply decodes; (R5) locks taken on request paths are released on every exit (a leaked read lock wedges the next insertion); (R6) leaves enter the hyper insert lists only through the sorted de-duplicating inserter (a duplicated event in one bulk would make every replica abort on apply and on replay); (R7) the history write cache is a true LRU (a hit refreshes recency), since nodes frozen inside one bulk exist only there until the batch is persisted.",
		Added:       "Also (R3) the FSM's verdict is tested before its value is asserted, the version clamp is decided against version-1, every event of the guarded bulk is encoded; (R8) handlers keep request state local. Third round: (R1) after an error answer every handler returns; (R3) the command proposed to raft is well-formed on every path; (R9) request-path goroutines signal their WaitGroup on every exit. Fifth round: no re-entrant read lock through a method of the same receiver; the digest-length guard compares an untruncated length.",
		Assumptions: []string{"net/http recovers handler panics per connection but the FSM apply goroutine is not recovered"},
		Declined:    "totality over all bodies (every slice index is a potential panic — no sound bound in reach), oversized bodies / memory, 'keeps serving correct answers afterwards' as liveness.",
	}, runC11)
}

type httpHandler struct {
	path string
	fn   *ssa.Function
	reg  ssa.Instruction
}

// registeredHandlers follows mux.HandleFunc registrations in the two mux constructors.
func registeredHandlers(p *Program) []httpHandler {
	var out []httpHandler
	for _, ctor := range []*ssa.Function{p.MustFunc("api/apihttp", "NewApiHttp"), p.MustFunc("api/mgmthttp", "NewMgmtHttp")} {
		eachInstr(ctor, func(in ssa.Instruction) {
			cc := callCommon(in)
			if cc == nil || cc.StaticCallee() == nil || cc.StaticCallee().Name() != "HandleFunc" {
				return
			}
			path := p.TermOf(cc.Args[1]).Name
			h := p.TermOf(cc.Args[2])
			var fn *ssa.Function
			switch {
			case h.Op == "closure":
				fn = h.Fn
			case h.Op == "call" && h.Fn != nil:
				// factory returning the handler closure
				for _, rt := range p.ReturnTerms(h.Fn) {
					if rt[0].Op == "closure" {
						fn = rt[0].Fn
					}
				}
			}
			if fn == nil {
				fatalf("handler registered for %s cannot be resolved (%s)", path, h)
			}
			out = append(out, httpHandler{strings.Trim(path, `"`), fn, in})
		})
	}
	return out
}

func isResponseWriter(t types.Type) bool { return namedIs(t, "net/http", "ResponseWriter") }

// respondsOnAllPaths: summary "every return of fn is preceded by a response write" for functions taking a ResponseWriter.
type respSummary struct {
	p     *Program
	memo  map[*ssa.Function]int // 1 always, 2 never-known
	onErr map[*ssa.Function]int
}

func (rs *respSummary) isWrite(in ssa.Instruction) bool {
	cc := callCommon(in)
	if cc == nil {
		return false
	}
	if _, isDefer := in.(*ssa.Defer); isDefer {
		return false
	}
	if cc.IsInvoke() && isResponseWriter(cc.Value.Type()) && (cc.Method.Name() == "WriteHeader" || cc.Method.Name() == "Write") {
		return true
	}
	if f := cc.StaticCallee(); f != nil {
		if f.Pkg != nil && f.Pkg.Pkg.Path() == "net/http" && (f.Name() == "Error" || f.Name() == "Redirect" || f.Name() == "NotFound") {
			return true
		}
		// statusWriter wrapper methods
		if f.Signature.Recv() != nil && (f.Name() == "WriteHeader" || f.Name() == "Write") && types.Implements(f.Signature.Recv().Type(), respWriterIface(rs.p)) {
			return true
		}
		if rs.always(f) {
			return true
		}
	}
	return false
}

func respWriterIface(p *Program) *types.Interface {
	pk := p.Pkgs["net/http"]
	return pk.Types.Scope().Lookup("ResponseWriter").Type().Underlying().(*types.Interface)
}

func (rs *respSummary) takesWriter(f *ssa.Function) bool {
	for i := 0; i < f.Signature.Params().Len(); i++ {
		if isResponseWriter(f.Signature.Params().At(i).Type()) {
			return true
		}
	}
	return false
}

func (rs *respSummary) always(f *ssa.Function) bool {
	if f == nil || len(f.Blocks) == 0 || f.Pkg == nil || !rs.p.inModule(f.Pkg.Pkg.Path()) || !rs.takesWriter(f) {
		return false
	}
	if v, ok := rs.memo[f]; ok {
		return v == 1
	}
	rs.memo[f] = 2
	if rs.p.EscapesWithout(f, rs.isWrite, mustOpts{skipEdge: rs.sanitizedEdge}) == nil {
		rs.memo[f] = 1
		return true
	}
	return false
}

// errImpliesResponded: every return of f whose error result may be non-nil is preceded by a write.
func (rs *respSummary) errImpliesResponded(f *ssa.Function) bool {
	if f == nil || len(f.Blocks) == 0 || !rs.takesWriter(f) {
		return false
	}
	if v, ok := rs.onErr[f]; ok {
		return v == 1
	}
	rs.onErr[f] = 2
	n := f.Signature.Results().Len()
	if n == 0 || !isErrorType(f.Signature.Results().At(n-1).Type()) {
		return false
	}
	ok := true
	for _, b := range f.Blocks {
		ret, isR := b.Instrs[len(b.Instrs)-1].(*ssa.Return)
		if !isR {
			continue
		}
		if cst, isC := RetVal(ret, n-1).(*ssa.Const); isC && cst.Value == nil {
			continue // success return
		}
		// the error handed back is the error of a callee that has already answered whenever it fails
		if rs.errFromResponder(rs.p.TermOf(RetVal(ret, n-1))) {
			continue
		}
		// this return must be unreachable without a write: search backwards = forward search restricted to paths ending here
		reached := false
		stop := func(in ssa.Instruction) bool { return false }
		_ = stop
		// forward exploration that only counts this return as an exit
		type item struct {
			b *ssa.BasicBlock
			i int
		}
		seen := map[*ssa.BasicBlock]bool{f.Blocks[0]: true}
		work := []item{{f.Blocks[0], 0}}
		for len(work) > 0 && !reached {
			it := work[len(work)-1]
			work = work[:len(work)-1]
			written := false
			for _, in := range it.b.Instrs[it.i:] {
				if rs.isWrite(in) {
					written = true
					break
				}
				if in == ssa.Instruction(ret) {
					reached = true
				}
			}
			if written {
				continue
			}
			for k, s := range it.b.Succs {
				if rs.sanitizedEdge(it.b, k) {
					continue // error edge of a callee that answers on failure
				}
				if !seen[s] {
					seen[s] = true
					work = append(work, item{s, 0})
				}
			}
		}
		if reached {
			ok = false
		}
	}
	if ok {
		rs.onErr[f] = 1
	}
	return ok
}

// sanitizedEdge: the `err != nil` edge of a call to a function with errImpliesResponded carries a response already.
func (rs *respSummary) sanitizedEdge(b *ssa.BasicBlock, succ int) bool {
	ifi := blockIf(b)
	if ifi == nil {
		return false
	}
	k := rs.p.errEdge(ifi)
	if k != succ {
		return false
	}
	cond := ifi.Cond.(*ssa.BinOp)
	et := rs.p.TermOf(cond.X)
	if et.Op == "const" {
		et = rs.p.TermOf(cond.Y)
	}
	return rs.errFromResponder(et)
}

// errFromResponder: the error value is nil or the error result of a function that has written a
// response whenever it returns a non-nil error.
func (rs *respSummary) errFromResponder(et *Term) bool {
	n := 0
	for _, a := range et.Alts() {
		if a.Op == "const" && a.Name == "nil" {
			continue
		}
		switch {
		case a.Op == "extract" && a.Args[0].Op == "call" && rs.errImpliesResponded(a.Args[0].Fn):
			n++
		case a.Op == "call" && rs.errImpliesResponded(a.Fn):
			n++
		default:
			return false
		}
	}
	return n > 0
}

func runC11(c *Ctx) {
	c.Rule("R10", "no method re-acquires its receiver's lock through another method of the same receiver (a queued writer between the two read locks wedges every request)", 1)
	reentrantLocks(c, "R10", []string{"balloon", "balloon/hyper", "balloon/history", "balloon/cache", "consensus", "gossip", "client", "server"})
	p := c.P
	c.Rule("R1", "every path of every registered handler writes a response", 10)
	c.Rule("R2", "undecodable body ⇒ 4xx; method check precedes the decode", 5)
	c.Rule("R3", "input guards on the call chains to aborting code", 6)
	c.Rule("R4", "raft.Apply is reached only through AddBulk → propose", 1)
	c.Rule("R5", "request-path locks released on every exit", 10)
	c.Rule("R6", "hyper insert lists are built by the sorted de-duplicating inserter only", 2)
	c.Rule("R7", "the history write cache refreshes recency on a hit (true LRU)", 1)
	hs := registeredHandlers(p)
	rs := &respSummary{p: p, memo: map[*ssa.Function]int{}, onErr: map[*ssa.Function]int{}}
	byPath := map[string]*ssa.Function{}
	for _, h := range hs {
		byPath[h.path] = h.fn
		esc := p.EscapesWithout(h.fn, rs.isWrite, mustOpts{skipEdge: rs.sanitizedEdge})
		pos := h.fn.Pos()
		if esc != nil {
			pos = instrPos(esc)
		}
		c.Check(esc == nil, "R1", "handler "+h.path, pos, "answers on every path", "the handler for "+h.path+" can return without writing any response (exit at "+p.pos(pos)+"): the client sees an empty 200 or a dropped request")
		// R2
		eachInstr(h.fn, func(in ssa.Instruction) {
			cc := callCommon(in)
			if cc == nil || cc.StaticCallee() == nil || cc.StaticCallee().Name() != "Decode" || cc.StaticCallee().Pkg == nil || cc.StaticCallee().Pkg.Pkg.Path() != "encoding/json" {
				return
			}
			// error edge
			ok4xx := false
			for _, b := range h.fn.Blocks {
				ifi := blockIf(b)
				if ifi == nil || p.errEdge(ifi) < 0 {
					continue
				}
				cond := ifi.Cond.(*ssa.BinOp)
				if cond.X != ssa.Value(in.(*ssa.Call)) && cond.Y != ssa.Value(in.(*ssa.Call)) {
					// err may be a cell: compare terms
					et := p.TermOf(cond.X)
					if !et.Has(func(t *Term) bool { return t.V == ssa.Value(in.(*ssa.Call)) }) {
						continue
					}
				}
				eb := b.Succs[p.errEdge(ifi)]
				is4xx := func(i2 ssa.Instruction) bool {
					c2 := callCommon(i2)
					if c2 == nil {
						return false
					}
					var status *Term
					if f := c2.StaticCallee(); f != nil && f.Pkg != nil && f.Pkg.Pkg.Path() == "net/http" && f.Name() == "Error" {
						status = p.TermOf(c2.Args[2])
					} else if c2.IsInvoke() && c2.Method.Name() == "WriteHeader" {
						status = p.TermOf(c2.Args[0])
					}
					return status != nil && status.Op == "const" && len(status.Name) == 3 && status.Name[0] == '4'
				}
				if is4xx(eb.Instrs[0]) || p.EscapesWithout(h.fn, is4xx, mustOpts{start: eb.Instrs[0]}) == nil {
					// and it returns without going on to use the value: the error block does not reach the API call
					ok4xx = true
				}
			}
			// method check first
			okOrder := false
			for _, s := range callsIn(h.fn, func(k *ssa.CallCommon) bool {
				return k.StaticCallee() != nil && rs.errImpliesResponded(k.StaticCallee())
			}) {
				if instrBefore(s, in) {
					okOrder = true
				}
			}
			c.Check(ok4xx && okOrder, "R2", "handler "+h.path+":decode", in.Pos(), "decode error ⇒ 4xx; sanitizer precedes decode", fmt.Sprintf("body decode in %s: failure answered with 4xx=%v, method/body check before decode=%v", h.path, ok4xx, okOrder))
		})
	}
	if len(hs) < 10 {
		c.Fail("R1", "handlers", 0, fmt.Sprintf("only %d handlers registered", len(hs)))
	}
	c11Guards(c, byPath)
	c11SoleProducer(c)
	fsmResponseChecked(c, "R3")
	c.Rule("R8", "request state is per request: handlers do not write to variables of their factory", 10)
	handlerStatePerRequest(c, "R8")
	errorResponseReturns(c, "R1")
	proposedCommandWellFormed(c, "R3")
	c.Rule("R9", "request-path goroutines signal their WaitGroup on every exit; the consistency range guard holds on an empty log", 3)
	waitGroupDoneOnEveryExit(c, "R9", []string{"consensus", "balloon", "api/apihttp", "api/mgmthttp"})
	sub3 := newCtx(p, c.Prop, c.Tier)
	runC03(sub3)
	for _, in := range sub3.Instances {
		if in.Rule == c.Prop+".R3" {
			in.Rule = c.Prop + ".R9"
			c.Instances = append(c.Instances, in)
		}
	}
	checkUnlocks(c, "R5", []string{"balloon", "balloon/hyper", "consensus", "api/apihttp", "api/mgmthttp"})
	hyperLeafListDiscipline(c, "R6")
	lruDiscipline(c, "R7")
}

// guardOnChain: some function of the chain has, dominating its onward call, a condition mentioning len(<its own parameter/field that carries the value>).
func guardOnChain(p *Program, chain []*ssa.Function, isOnward func(fn *ssa.Function, cc *ssa.CallCommon) bool, mentions func(fn *ssa.Function, t *Term) bool) (bool, string) {
	for _, fn := range chain {
		for _, call := range callsIn(fn, func(cc *ssa.CallCommon) bool { return isOnward(fn, cc) }) {
			cs := p.CondsAt(call.Block())
			for _, k := range cs {
				a := k.Atom
				if (a.Op != "EQ" && a.Op != "LT") || len(a.Args) != 2 {
					continue
				}
				for i := 0; i < 2; i++ {
					// len(value) compared with something that is not a loop counter
					if a.Args[i].Has(func(t *Term) bool { return mentions(fn, t) }) && !strings.Contains(a.String(), "µ") {
						if narrowsLen(k.V, 0) {
							continue // the length is truncated before it is compared: lengths that differ by a multiple of the narrower type's range pass
						}
						return true, funcName(fn) + ": " + k.String()
					}
				}
			}
		}
	}
	return false, ""
}

// narrowsLen: the boolean value compares a length that went through a conversion to a narrower integer
// type (uint16(len(x)*8)): the comparison then holds for lengths it must reject.
func narrowsLen(v ssa.Value, depth int) bool {
	if v == nil || depth > 8 {
		return false
	}
	var hasLen func(x ssa.Value, d int) bool
	hasLen = func(x ssa.Value, d int) bool {
		if d > 8 {
			return false
		}
		switch y := x.(type) {
		case *ssa.Call:
			if b, ok := y.Call.Value.(*ssa.Builtin); ok && b.Name() == "len" {
				return true
			}
		case *ssa.BinOp:
			return hasLen(y.X, d+1) || hasLen(y.Y, d+1)
		case *ssa.Convert:
			return hasLen(y.X, d+1)
		case *ssa.ChangeType:
			return hasLen(y.X, d+1)
		}
		return false
	}
	intSize := func(t types.Type) int {
		b, ok := t.Underlying().(*types.Basic)
		if !ok || b.Info()&types.IsInteger == 0 {
			return 0
		}
		switch b.Kind() {
		case types.Int8, types.Uint8:
			return 1
		case types.Int16, types.Uint16:
			return 2
		case types.Int32, types.Uint32:
			return 4
		}
		return 8
	}
	switch y := v.(type) {
	case *ssa.UnOp:
		return narrowsLen(y.X, depth+1)
	case *ssa.BinOp:
		return narrowsLen(y.X, depth+1) || narrowsLen(y.Y, depth+1)
	case *ssa.ChangeType:
		return narrowsLen(y.X, depth+1)
	case *ssa.Convert:
		if a, b := intSize(y.X.Type()), intSize(y.Type()); a > 0 && b > 0 && b < a && hasLen(y.X, 0) {
			return true
		}
		return narrowsLen(y.X, depth+1)
	}
	return false
}

func c11Guards(c *Ctx, byPath map[string]*ssa.Function) {
	p := c.P
	// (a) digest length
	hyQ := p.MustMethod(pkgHyper, "HyperTree", "QueryMembership")
	for _, nm := range []string{"QueryDigestMembership", "QueryDigestMembershipConsistency"} {
		h := byPath["/proofs/digest-membership"]
		if h == nil {
			c.Fail("R3", "digest-length:"+nm, 0, "digest-membership handler not registered")
			continue
		}
		chain := []*ssa.Function{h, p.MustMethod(pkgConsensus, "RaftNode", nm), p.MustMethod(pkgBalloon, "Balloon", nm), hyQ}
		isOnward := func(fn *ssa.Function, cc *ssa.CallCommon) bool {
			if fn == hyQ {
				// the traversal that indexes the batch cache with the digest
				f := cc.StaticCallee()
				return f != nil && f.Pkg == hyQ.Pkg && f.Signature.Results().Len() == 1 && namedIs(f.Signature.Results().At(0).Type(), pkgHyper, "operationsStack")
			}
			name := ""
			if cc.IsInvoke() {
				name = cc.Method.Name()
			} else if f := cc.StaticCallee(); f != nil {
				name = f.Name()
			}
			return name == nm || name == "QueryMembership" && fn.Pkg != nil && fn.Pkg.Pkg.Path() == modPkg(pkgBalloon)
		}
		mentions := func(fn *ssa.Function, t *Term) bool {
			if t.Op != "builtin" || t.Name != "len" {
				return false
			}
			a := t.Args[0]
			if isByteSliceTerm(a) && (a.Op == "param" && a.Fn == fn || a.IsField("KeyDigest", nil)) {
				return true
			}
			return false
		}
		ok, where := guardOnChain(p, chain, isOnward, mentions)
		c.Check(ok, "R3", "digest-length:"+nm, chain[2].Pos(), "digest length checked at "+where, "no function on the chain handler → RaftNode."+nm+" → Balloon."+nm+" → HyperTree.QueryMembership compares len(digest) (untruncated) with anything before going on: a digest of the wrong length indexes the fixed batch-cache table out of range and panics inside the request")
	}
	// (b) non-empty bulk
	if h := byPath["/events/bulk"]; h != nil {
		rAB := p.MustMethod(pkgConsensus, "RaftNode", "AddBulk")
		chain := []*ssa.Function{h, rAB}
		isOnward := func(fn *ssa.Function, cc *ssa.CallCommon) bool {
			name := ""
			if cc.IsInvoke() {
				name = cc.Method.Name()
			} else if f := cc.StaticCallee(); f != nil {
				name = canonFuncName(f)
			}
			if fn == rAB {
				// handing the command to raft, directly or through a helper of the node
				isApply := func(k *ssa.CallCommon) bool {
					f := k.StaticCallee()
					return f != nil && f.Name() == "Apply" && f.Signature.Recv() != nil && namedIs(f.Signature.Recv().Type(), "github.com/hashicorp/raft", "Raft")
				}
				if isApply(cc) {
					return true
				}
				if f := cc.StaticCallee(); f != nil && p.isHelperOf(rAB, f) {
					return len(p.RegionOf(f, 2).Calls(isApply)) > 0
				}
				return false
			}
			return name == "AddBulk"
		}
		mentions := func(fn *ssa.Function, t *Term) bool {
			if t.Op != "builtin" || t.Name != "len" {
				return false
			}
			a := t.Args[0]
			return a.Op == "param" && a.Fn == fn && a.Idx == 1 || a.IsField("Events", nil)
		}
		ok, where := guardOnChain(p, chain, isOnward, mentions)
		c.Check(ok, "R3", "non-empty-bulk", rAB.Pos(), "bulk emptiness tested at "+where, "an empty bulk is proposed to raft: no function between the /events/bulk handler and raft.Apply tests len(bulk); the replicated command makes every replica's FSM abort when it applies it, and again on every replay")
	} else {
		c.Fail("R3", "non-empty-bulk", 0, "/events/bulk handler not registered")
	}
	// (c) query parameters: indexing the result of URL.Query()[..] needs a length check
	for path, h := range byPath {
		fns := append([]*ssa.Function{h}, staticModuleCallees(p, h)...)
		for _, fn := range fns {
			fn := fn
			eachInstr(fn, func(in ssa.Instruction) {
				ia, ok := in.(*ssa.IndexAddr)
				if !ok {
					return
				}
				t := p.TermOf(ia.X)
				if !(t.Op == "lookup" && t.Args[0].Op == "call" && t.Args[0].Fn != nil && t.Args[0].Fn.Name() == "Query") {
					return
				}
				cs := p.CondsAt(ia.Block())
				guarded := hasCond(cs, func(k Cond) bool {
					return k.Atom.Has(func(x *Term) bool { return x.Op == "builtin" && x.Name == "len" && x.Args[0].String() == t.String() })
				})
				c.Check(guarded, "R3", "query-param:"+path, in.Pos(), "parameter presence checked before indexing", "the handler for "+path+" indexes the values of a query parameter without checking that the parameter is present: a request without it panics")
			})
		}
	}
	// (d) optional version pointer
	for _, path := range []string{"/proofs/membership", "/proofs/digest-membership"} {
		h := byPath[path]
		if h == nil {
			continue
		}
		eachInstr(h, func(in ssa.Instruction) {
			u, ok := in.(*ssa.UnOp)
			if !ok {
				return
			}
			t := p.TermOf(u.X)
			if _, isPtr := u.X.Type().Underlying().(*types.Pointer); !isPtr || !t.IsField("Version", nil) {
				return
			}
			if _, isLoadOfField := u.X.(*ssa.UnOp); !isLoadOfField {
				return
			}
			cs := p.CondsAt(u.Block())
			ok2 := hasCond(cs, func(k Cond) bool {
				return !k.Pol && k.Atom.Op == "EQ" && (k.Atom.Args[0].Name == "nil" && k.Atom.Args[1].String() == t.String() || k.Atom.Args[1].Name == "nil" && k.Atom.Args[0].String() == t.String())
			})
			c.Check(ok2, "R3", "optional-version:"+path, in.Pos(), "*query.Version only when non-nil", "the optional version of "+path+" is dereferenced without a dominating nil test")
		})
	}
	// (e) clamp of the queried version
	fn := p.MustMethod(pkgBalloon, "Balloon", "QueryDigestMembershipConsistency")
	hiP := p.MustMethod(pkgHistory, "HistoryTree", "ProveMembership")
	for _, call := range callsIn(fn, func(k *ssa.CallCommon) bool { return k.StaticCallee() == hiP }) {
		v := p.TermOf(callCommon(call).Args[2])
		ok := v.Op == "phi" && v.Has(func(t *Term) bool { return t.IsParam(fn, 2) }) && v.Has(func(t *Term) bool {
			return t.Op == "binop" && t.Name == "-" && t.Args[0].IsField("version", isParam(fn, 0))
		})
		c.Check(ok, "R3", "version-clamp", call.Pos(), "queried version clamped to the current version", "the history proof is requested for "+v.String()+": a queried version beyond the current one is not clamped and the prover walks past the last leaf")
		// the clamp must take effect for every queried version above the last one (version-1), not only above `version`
		if ph, isPhi := callCommon(call).Args[2].(*ssa.Phi); isPhi && ok {
			okCond := false
			var seen []string
			for _, pred := range ph.Block().Preds {
				for _, k := range p.CondsAtEdge(pred, ph.Block()) {
					a := k.Atom
					if a.Op != "LT" {
						continue
					}
					isQ := func(t *Term) bool { return t.IsParam(fn, 2) }
					isLast := func(t *Term) bool {
						return t.Op == "binop" && t.Name == "-" && t.Args[0].IsField("version", isParam(fn, 0)) && t.Args[1].Name == "1"
					}
					isCount := func(t *Term) bool { return t.IsField("version", isParam(fn, 0)) }
					seen = append(seen, k.String())
					// q > version-1   |   !(q < version)   (and their negations on the other edge)
					if isLast(a.Args[0]) && isQ(a.Args[1]) || isQ(a.Args[0]) && isCount(a.Args[1]) {
						okCond = true
					}
				}
			}
			c.Check(okCond, "R3", "version-clamp:bound", call.Pos(), "clamped exactly when the queried version exceeds version-1", "the clamp of the queried version is not decided by comparing it with the last existing version (version-1): "+strings.Join(seen, " ∧ ")+"; a query for exactly `version` (one past the last) reaches the prover unclamped and it aborts on a missing node")
		}
	}
	// (f) the bulk that is guarded against emptiness is the bulk that is encoded: every event of the
	// request is hashed into the command unconditionally (a filter between the guard and the command
	// lets an empty command through)
	{
		rAB := p.MustMethod(pkgConsensus, "RaftNode", "AddBulk")
		rg := p.RegionOf(rAB, 2)
		n := 0
		for _, ri := range rg.Calls(func(k *ssa.CallCommon) bool { return isHasherInvoke(k, "Do") }) {
			if !rg.InCycle(ri) {
				continue
			}
			n++
			var extra []string
			for _, k := range rg.Conds(ri) {
				if k.Atom.Op == "LT" && strings.Contains(k.Atom.String(), "µ") {
					continue // the loop bound
				}
				if inCycleCond(k) {
					extra = append(extra, k.String())
				}
			}
			c.Check(len(extra) == 0, "R3", "non-empty-bulk:every-event-encoded", ri.in.Pos(), "each event of the bulk is hashed into the command", "events are hashed into the replicated command only under "+strings.Join(extra, " ∧ ")+": the emptiness guard tests the request's bulk, not what is encoded, so a bulk of skipped events proposes an empty command that every replica's FSM aborts on")
		}
		if n == 0 {
			c.Fail("R3", "non-empty-bulk:every-event-encoded", rAB.Pos(), "the loop hashing the events of the bulk was not found")
		}
	}
}

func isByteSliceTerm(t *Term) bool {
	return t.V != nil && isByteSlice(t.V.Type())
}

func staticModuleCallees(p *Program, fn *ssa.Function) []*ssa.Function {
	seen := map[*ssa.Function]bool{}
	var out []*ssa.Function
	eachInstr(fn, func(in ssa.Instruction) {
		if cc := callCommon(in); cc != nil {
			if f := cc.StaticCallee(); f != nil && !seen[f] && f.Pkg != nil && f.Pkg == fn.Pkg && len(f.Blocks) > 0 {
				seen[f] = true
				out = append(out, f)
			}
		}
	})
	return out
}

func c11SoleProducer(c *Ctx) {
	p := c.P
	var sites []string
	var siteFns []*ssa.Function
	for _, fn := range p.ModFuncs {
		if !p.Production(fn) {
			continue
		}
		fn := fn
		eachInstr(fn, func(in ssa.Instruction) {
			cc := callCommon(in)
			if cc == nil {
				return
			}
			f := cc.StaticCallee()
			if f != nil && f.Name() == "Apply" && f.Signature.Recv() != nil && namedIs(f.Signature.Recv().Type(), "github.com/hashicorp/raft", "Raft") {
				sites = append(sites, funcName(fn))
				siteFns = append(siteFns, fn)
			}
		})
	}
	// by role: the single function that hands a command to raft is RaftNode.AddBulk itself or a
	// helper of the node that only AddBulk calls
	ab := p.MustMethod(pkgConsensus, "RaftNode", "AddBulk")
	ok := len(siteFns) == 1
	var callers []string
	if ok && siteFns[0] != ab {
		propose := siteFns[0]
		for _, fn := range p.ModFuncs {
			if p.Production(fn) && len(callsIn(fn, func(k *ssa.CallCommon) bool { return k.StaticCallee() == propose })) > 0 {
				callers = append(callers, funcName(fn))
			}
		}
		ok = len(callers) == 1 && callers[0] == funcName(ab)
	}
	c.Check(ok, "R4", "raft.Apply", ab.Pos(), "sole producer: RaftNode.AddBulk (→ helper) → raft.Apply", fmt.Sprintf("commands are proposed to raft from %v (called by %v); the FSM only knows how to apply what RaftNode.AddBulk encodes", sites, callers))
}

// hyperLeafListDiscipline: outside the list type's own methods a leaf is added to a leavesList only by the sorted, de-duplicating inserter.
func hyperLeafListDiscipline(c *Ctx, rule string) {
	p := c.P
	sp := p.SSAPkg[modPkg(pkgHyper)]
	n := 0
	for _, fn := range p.ModFuncs {
		if fn.Pkg != sp || !p.Production(fn) {
			continue
		}
		root := fn
		for root.Parent() != nil {
			root = root.Parent()
		}
		if root.Signature.Recv() != nil && namedIs(root.Signature.Recv().Type(), pkgHyper, "leavesList") {
			continue
		}
		fn := fn
		eachInstr(fn, func(in ssa.Instruction) {
			cc := callCommon(in)
			if cc == nil {
				return
			}
			if f := cc.StaticCallee(); f != nil && f.Signature.Recv() != nil && namedIs(f.Signature.Recv().Type(), pkgHyper, "leavesList") && isInPlaceMutator(p, f) {
				n++
				c.Ok(rule, funcName(fn)+":"+f.Name(), in.Pos(), "leaf added through the sorted de-duplicating inserter")
				return
			}
			b, ok := cc.Value.(*ssa.Builtin)
			if !ok || b.Name() != "append" || !namedIs(in.(ssa.Value).Type(), pkgHyper, "leavesList") {
				return
			}
			t := p.TermOf(cc.Args[1])
			if t.Op == "list" {
				c.Fail(rule, funcName(fn)+":raw-append", in.Pos(), "a leaf is appended to an insert list directly ("+t.String()+") instead of through the sorted de-duplicating inserter: the same event twice in one bulk then reaches the bottom of the tree as two leaves and the insertion aborts — on every replica and on every replay")
			}
		})
	}
	if n < 2 {
		c.Fail(rule, "hyper:inserter-use", 0, "the insert traversals no longer build their leaf lists with the sorted de-duplicating inserter")
	}
}

func lruDiscipline(c *Ctx, rule string) {
	p := c.P
	get := p.MustMethod("balloon/cache", "LruReadThroughCache", "Get")
	// on the hit edge (lookup ok) MoveToFront of the found element is called before returning
	ok := false
	for _, b := range get.Blocks {
		cs := p.CondsAt(b)
		hit := hasCond(cs, func(k Cond) bool {
			return k.Pol && k.Atom.Op == "extract" && k.Atom.Idx == 1 && k.Atom.Args[0].Op == "lookup"
		})
		if !hit || b.Idom() == nil {
			continue
		}
		if hasCond(p.CondsAt(b.Idom()), func(k Cond) bool {
			return k.Pol && k.Atom.Op == "extract" && k.Atom.Idx == 1 && k.Atom.Args[0].Op == "lookup"
		}) {
			continue
		}
		isMTF := func(in ssa.Instruction) bool {
			cc := callCommon(in)
			return cc != nil && cc.StaticCallee() != nil && cc.StaticCallee().Name() == "MoveToFront" && p.TermOf(cc.Args[1]).Op == "extract"
		}
		if isMTF(b.Instrs[0]) || p.EscapesWithout(get, isMTF, mustOpts{start: b.Instrs[0]}) == nil {
			ok = true
		}
	}
	c.Check(ok, rule, funcName(get), get.Pos(), "a hit moves the entry to the front", "a cache hit does not refresh the entry's recency (no MoveToFront on the hit path): the cache degrades to FIFO and nodes frozen earlier in the same bulk — which exist nowhere else until the batch is persisted — are evicted while still needed; the insert visitor then aborts")
}

// inCycleCond: the condition is decided inside a loop (its If block is in a cycle).
func inCycleCond(k Cond) bool {
	if in, ok := k.V.(ssa.Instruction); ok && in.Block() != nil {
		return inCycle(in.Block())
	}
	return true
}

// handlerStatePerRequest: an HTTP handler runs concurrently for every request in flight; whatever
// it decodes the request into must be its own. A handler closure may read what its factory
// captured (the API object, loggers) but must not write to a captured variable nor hand its
// address on (json.Decode(&captured)): two overlapping requests would share it.
func handlerStatePerRequest(c *Ctx, rule string) {
	p := c.P
	n := 0
	for _, h := range registeredHandlers(p) {
		fns := append([]*ssa.Function{h.fn}, Anons(h.fn)...)
		bad := 0
		for _, fn := range fns {
			for _, fv := range fn.FreeVars {
				// only variables of the factory (declared outside the handler) matter
				b := freeVarBinding(fv)
				if al, ok := b.(*ssa.Alloc); ok && (al.Parent() == h.fn || isNested(al.Parent(), h.fn)) {
					continue
				}
				if fv.Referrers() == nil {
					continue
				}
				for _, r := range *fv.Referrers() {
					switch u := r.(type) {
					case *ssa.UnOp:
						continue // load
					case *ssa.Store:
						if u.Addr == ssa.Value(fv) {
							bad++
							c.Fail(rule, "handler "+h.path+":shared-state", u.Pos(), "the handler assigns to "+fv.Name()+", a variable of its factory shared by all requests in flight")
						}
					case *ssa.MakeClosure:
						continue // passed on to a nested closure (checked there)
					case *ssa.FieldAddr, *ssa.IndexAddr:
						if writesThrough(r.(ssa.Value)) {
							bad++
							c.Fail(rule, "handler "+h.path+":shared-state", r.Pos(), "the handler writes into "+fv.Name()+", a variable of its factory shared by all requests in flight")
						}
					default:
						if cc := callCommon(r); cc != nil {
							bad++
							c.Fail(rule, "handler "+h.path+":shared-state", r.Pos(), "the handler hands the address of "+fv.Name()+" (a variable of its factory, shared by all requests in flight) to "+calleeName(cc)+": overlapping requests decode into the same object")
						}
					}
				}
			}
		}
		n++
		if bad == 0 {
			c.Ok(rule, "handler "+h.path+":shared-state", h.fn.Pos(), "request state is local to the handler invocation")
		}
	}
	if n == 0 {
		c.Fail(rule, "handlers:shared-state", 0, "no registered handler found")
	}
}

func isNested(f, in *ssa.Function) bool {
	for f != nil {
		if f == in {
			return true
		}
		f = f.Parent()
	}
	return false
}

// writesThrough: the address value is stored through (directly or after further field/index selection) or escapes into a call.
func writesThrough(v ssa.Value) bool {
	if v.Referrers() == nil {
		return false
	}
	for _, r := range *v.Referrers() {
		switch u := r.(type) {
		case *ssa.Store:
			if u.Addr == v {
				return true
			}
		case *ssa.FieldAddr, *ssa.IndexAddr:
			if writesThrough(r.(ssa.Value)) {
				return true
			}
		case *ssa.UnOp:
		default:
			if callCommon(r) != nil {
				return true
			}
		}
	}
	return false
}
