package main

import (
	"fmt"
	"sort"
	"strings"

	"golang.org/x/tools/go/ssa"
)

// Decision tables (engine E-SIB b): a loop-free traversal closure is a finite
// map from truth assignments of its canonical branch atoms to the constructor
// term it returns (plus the ordered effects it performs). Two closures agree
// when every pair of mutually consistent rows yields the same normalised
// term. No values, no solver: atoms are compared as strings.

type dtRow struct {
	Facts   map[string]bool
	Result  string
	Effects []string
}

type dtTable struct {
	Fn   *ssa.Function
	Rows []dtRow
}

type normHook func(t *Term, rec func(*Term) string) (string, bool)

// effectsOf, if non-nil, selects the call instructions that count as ordered effects of a path.
func (p *Program) DecisionTable(fn *ssa.Function, hook normHook, effectsOf func(ssa.Instruction) bool) (*dtTable, bool) {
	return p.decisionTable(fn, hook, effectsOf, 0)
}

func (p *Program) decisionTable(fn *ssa.Function, hook normHook, effectsOf func(ssa.Instruction) bool, depth int) (*dtTable, bool) {
	paths, ok := p.EnumPaths(fn, 20000)
	if !ok {
		return nil, false
	}
	tb := &dtTable{Fn: fn}
	for _, pa := range paths {
		row := dtRow{Facts: map[string]bool{}}
		feasible := true
		for _, f := range pa.Facts {
			// re-describe the atom path-sensitively
			atom, pol := p.atomOnPath(pa, f.V)
			if !f.Branch {
				pol = !pol
			}
			key := atom.Render(hook)
			if old, had := row.Facts[key]; had && old != pol {
				feasible = false
				break
			}
			row.Facts[key] = pol
		}
		if !feasible || contradictory(row.Facts) {
			continue
		}
		if pa.Panics {
			row.Result = "PANIC"
		} else if pa.Ret != nil && len(pa.Ret.Results) > 0 {
			var rs []string
			for _, r := range pa.Ret.Results {
				rs = append(rs, p.TermOnPath(pa, pa.resolveDeep(r)).Render(hook))
			}
			row.Result = strings.Join(rs, " ; ")
			// the result is decided by a same-package helper with several outcomes (`return pick(pos, flag)`):
			// one row per outcome of the helper, under the helper's own conditions
			if len(pa.Ret.Results) == 1 && depth < 2 && effectsOf == nil {
				rt := p.TermOnPath(pa, pa.resolveDeep(pa.Ret.Results[0]))
				if sub := p.helperRows(fn, rt, hook, depth); sub != nil {
					for _, sr := range sub {
						merged := dtRow{Facts: map[string]bool{}, Result: sr.Result}
						okRow := true
						for k, v := range row.Facts {
							merged.Facts[k] = v
						}
						for k, v := range sr.Facts {
							if old, had := merged.Facts[k]; had && old != v {
								okRow = false
							}
							merged.Facts[k] = v
						}
						if okRow && !contradictory(merged.Facts) {
							tb.Rows = append(tb.Rows, merged)
						}
					}
					continue
				}
			}
		}
		if effectsOf != nil {
			for _, b := range pa.Blocks {
				for _, in := range b.Instrs {
					if effectsOf(in) {
						if v, ok := in.(ssa.Value); ok {
							row.Effects = append(row.Effects, p.TermOnPath(pa, v).Render(hook))
						}
					}
				}
			}
		}
		tb.Rows = append(tb.Rows, row)
	}
	return tb, true
}

// atomOnPath canonicalises the (phi-resolved) condition value along the path.
func (p *Program) atomOnPath(pa *Path, v ssa.Value) (*Term, bool) {
	old := p.phiHook
	p.phiHook = func(ph *ssa.Phi) ssa.Value {
		pb := pa.pred[ph.Block()]
		if pb == nil {
			return nil
		}
		for k, q := range ph.Block().Preds {
			if q == pb {
				return ph.Edges[k]
			}
		}
		return nil
	}
	defer func() { p.phiHook = old }()
	a, pol := p.AtomOf(pa.resolve(v))
	return a, pol
}

// contradictory: LT(x,y) and LT(y,x) both true.
func contradictory(f map[string]bool) bool {
	for k, v := range f {
		if !v || !strings.HasPrefix(k, "LT(") {
			continue
		}
		args := splitTop(k[3 : len(k)-1])
		if len(args) == 2 {
			if w, ok := f["LT("+args[1]+","+args[0]+")"]; ok && w {
				return true
			}
		}
	}
	return false
}

func splitTop(s string) []string {
	var out []string
	depth := 0
	last := 0
	for i, r := range s {
		switch r {
		case '(', '[', '{':
			depth++
		case ')', ']', '}':
			depth--
		case ',':
			if depth == 0 {
				out = append(out, s[last:i])
				last = i + 1
			}
		}
	}
	out = append(out, s[last:])
	return out
}

func consistent(a, b map[string]bool) bool {
	for k, v := range a {
		if w, ok := b[k]; ok && w != v {
			return false
		}
	}
	m := map[string]bool{}
	for k, v := range a {
		m[k] = v
	}
	for k, v := range b {
		m[k] = v
	}
	return !contradictory(m)
}

func factString(f map[string]bool) string {
	var xs []string
	for k, v := range f {
		if v {
			xs = append(xs, k)
		} else {
			xs = append(xs, "!"+k)
		}
	}
	sort.Strings(xs)
	return strings.Join(xs, " ∧ ")
}

// compareTables returns the disagreements between two decision tables.
func compareTables(a, b *dtTable) []string {
	var diffs []string
	for _, ra := range a.Rows {
		for _, rb := range b.Rows {
			if !consistent(ra.Facts, rb.Facts) {
				continue
			}
			if ra.Result != rb.Result {
				diffs = append(diffs, fmt.Sprintf("under {%s} ∧ {%s}: %s yields %s but %s yields %s", factString(ra.Facts), factString(rb.Facts), a.Fn.Name(), ra.Result, b.Fn.Name(), rb.Result))
			} else if strings.Join(ra.Effects, ";") != strings.Join(rb.Effects, ";") {
				diffs = append(diffs, fmt.Sprintf("under {%s}: effects differ: %s does [%s], %s does [%s]", factString(ra.Facts), a.Fn.Name(), strings.Join(ra.Effects, "; "), b.Fn.Name(), strings.Join(rb.Effects, "; ")))
			}
		}
	}
	sort.Strings(diffs)
	// dedupe
	var out []string
	for i, d := range diffs {
		if i == 0 || d != diffs[i-1] {
			out = append(out, d)
		}
	}
	return out
}

func (tb *dtTable) String() string {
	var sb strings.Builder
	for _, r := range tb.Rows {
		fmt.Fprintf(&sb, "  {%s} -> %s", factString(r.Facts), r.Result)
		if len(r.Effects) > 0 {
			fmt.Fprintf(&sb, " effects[%s]", strings.Join(r.Effects, "; "))
		}
		sb.WriteString("\n")
	}
	return sb.String()
}

// ---- finite order models ------------------------------------------------------
//
// A decision table whose atoms are only comparisons between a few symbols
// (and constants) is decided exactly by evaluating it on every assignment of
// small integers to the symbols: the values are touched only through
// comparisons, so a finite set of orderings covers all behaviours.

// evalAtom evaluates a rendered atom "LT(a,b)" / "EQ(a,b)" / boolean symbol under env.
func evalAtom(key string, env map[string]int) (bool, bool) {
	if strings.HasPrefix(key, "LT(") || strings.HasPrefix(key, "EQ(") {
		args := splitTop(key[3 : len(key)-1])
		if len(args) != 2 {
			return false, false
		}
		x, okx := evalSym(args[0], env)
		y, oky := evalSym(args[1], env)
		if !okx || !oky {
			return false, false
		}
		if key[0] == 'L' {
			return x < y, true
		}
		return x == y, true
	}
	v, ok := env[key]
	return v != 0, ok
}

func evalSym(s string, env map[string]int) (int, bool) {
	if strings.HasPrefix(s, "c:") {
		var n int
		if _, err := fmt.Sscanf(s[2:], "%d", &n); err == nil {
			return n, true
		}
		return 0, false
	}
	v, ok := env[s]
	return v, ok
}

// selectRow finds the rows whose facts all hold under env. unknown lists atoms that could not be evaluated.
func (tb *dtTable) selectRows(env map[string]int) (rows []dtRow, unknown []string) {
	for _, r := range tb.Rows {
		ok := true
		for k, want := range r.Facts {
			got, known := evalAtom(k, env)
			if !known {
				unknown = append(unknown, k)
				ok = false
				break
			}
			if got != want {
				ok = false
				break
			}
		}
		if ok {
			rows = append(rows, r)
		}
	}
	return
}

// checkOrderModel compares the table with a specification on every assignment
// of values 0..max to the symbols. classify maps a row to a verdict string;
// spec gives the expected verdict for an assignment ("" = unconstrained).
func checkOrderModel(tb *dtTable, symbols []string, max int, classify func(dtRow) string, spec func(env map[string]int) string) []string {
	var diffs []string
	seen := map[string]bool{}
	env := map[string]int{}
	var rec func(i int)
	rec = func(i int) {
		if i == len(symbols) {
			want := spec(env)
			if want == "" {
				return
			}
			rows, unknown := tb.selectRows(env)
			if len(unknown) > 0 {
				d := "a branch condition is not a comparison between the expected quantities: " + unknown[0]
				if !seen[d] {
					seen[d] = true
					diffs = append(diffs, d)
				}
				return
			}
			for _, r := range rows {
				got := classify(r)
				if got != want {
					var as []string
					for _, s := range symbols {
						as = append(as, fmt.Sprintf("%s=%d", s, env[s]))
					}
					d := fmt.Sprintf("for %s the code %ss, the rule requires %s", strings.Join(as, ","), got, want)
					if !seen[got+want] {
						seen[got+want] = true
						diffs = append(diffs, d)
					}
				}
			}
			if len(rows) == 0 {
				d := "no path of the function covers some ordering of its inputs"
				if !seen[d] {
					seen[d] = true
					diffs = append(diffs, d)
				}
			}
			return
		}
		for v := 0; v <= max; v++ {
			env[symbols[i]] = v
			rec(i + 1)
		}
	}
	rec(0)
	return diffs
}

// helperRows: rt is a call to a loop-free helper of fn's package that the hook does not interpret
// and that has more than one return: its decision table with the parameters rendered as the
// call's arguments. nil when rt is anything else.
func (p *Program) helperRows(fn *ssa.Function, rt *Term, hook normHook, depth int) []dtRow {
	if rt == nil || rt.Op != "call" || rt.Fn == nil || rt.Fn == fn || rt.Fn.Pkg == nil || rt.Fn.Pkg != outermost(fn).Pkg || len(rt.Fn.Blocks) == 0 {
		return nil
	}
	g := rt.Fn
	if hook != nil {
		if _, interpreted := hook(rt, func(x *Term) string { return x.Render(hook) }); interpreted {
			return nil
		}
	}
	nret := 0
	for _, b := range g.Blocks {
		if len(b.Instrs) > 0 && b != g.Recover {
			if _, ok := b.Instrs[len(b.Instrs)-1].(*ssa.Return); ok {
				nret++
			}
		}
	}
	if nret < 2 || g.Signature.Results().Len() != 1 {
		return nil
	}
	args := rt.Args
	inner := func(t *Term, rec func(*Term) string) (string, bool) {
		if t.Op == "param" && t.Fn == g && t.Idx < len(args) {
			return args[t.Idx].Render(hook), true
		}
		if hook != nil {
			return hook(t, rec)
		}
		return "", false
	}
	tb, ok := p.decisionTable(g, inner, nil, depth+1)
	if !ok {
		return nil
	}
	return tb.Rows
}
