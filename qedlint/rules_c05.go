package main

import (
	"fmt"
	"strings"

	"golang.org/x/tools/go/ssa"
)

func init() {
	register("C05", propMeta{
		Explanation: "Decides the version-assignment mechanism: (R1) the version counter is written only under the balloon's exclusive lock; (R2) Add issues the old value and advances by one, AddBulk by len(bulk); (R3) per-index agreement of digest, history root and version in every bulk path (balloon, history tree, hyper tree); " +
			"(R4) no error return leaves the counter advanced (tree insertions cannot fail, or the counter is restored); (R5) replay filter: shouldApply decided on every ordering of (persisted index, entry index) by a finite order model, applyAdd only under it, new state = {l.Index, Version()+len-1}, state published after the write, every failure of the apply aborts; " +
			"(R6) RaftNode.Add/AddBulk return the FSM's snapshots unchanged; (R7) RefreshVersion = last history key + 1 from the history table; (R8) CurrentVersion reported by proofs = version-1, and the version fields are bound field-for-field by the wire conversions; (R9) a state transfer is loaded until the stream's io.EOF or fails (no silent prefix).",
		Assumptions: []string{"raft delivers committed entries in index order", "the store's batch write is atomic (C14)"},
		Added:       "Third round: (R5) nothing on the apply path recovers from a panic; (R9) a restore always requests the transfer, reports its own version and ends on the first refused batch; (R6) hasher factories return a new hasher on every call. Fifth round: RefreshVersion sets the counter unconditionally on the found edge; an encoded command never aliases a recycled buffer.",
		Declined:    "absence of gaps across restarts / leader changes / replays as a statement over schedules and crash points (raft's guarantees, RocksDB durability).",
	}, runC05)
}

func runC05(c *Ctx) {
	c.Rule("R10", "memory of an object recycled through a sync.Pool never leaves its Get/Put window (returned, stored outside the function, sent)", 1)
	poolEscapes(c, "R10", []string{"consensus", "balloon", "balloon/history", "balloon/hyper", "api/apihttp"})
	c.Rule("R1", "Balloon.version accessed only under the balloon lock (writes exclusive)", 1)
	c.Rule("R2", "Add: issued version = old counter, counter+1; AddBulk: counter+len(bulk)", 2)
	c.Rule("R3", "bulk paths: digest, history root and version of element i use the same index", 4)
	c.Rule("R4", "no error return leaves the counter advanced", 2)
	c.Rule("R5", "replay filter and apply protocol of the FSM", 8)
	c.Rule("R6", "RaftNode.Add/AddBulk hand the FSM's snapshots back unchanged", 2)
	c.Rule("R7", "RefreshVersion derives the counter from the last history key", 1)
	c.Rule("R8", "proofs report CurrentVersion = version-1", 2)
	checkGuards(c, "R1", c10Guards[:1])
	c05Counter(c)
	c05BulkIndex(c)
	c05ErrorsAfterAdvance(c)
	fsmShouldApply(c, "R5")
	_, applyAdd := fsmApplyGuard(c, "R5")
	fsmApplyAdd(c, "R5", applyAdd)
	c05Proposer(c)
	fsmResponseChecked(c, "R6")
	applyPathNoRecover(c, "R5")
	c05Refresh(c)
	c05Current(c)
	// the store's batch write is one write (the version metadata, the tree mutations and the applied
	// index land together): shared with C07/C14
	rocksMutate(c, "R5")
	// the version fields survive the conversion to and from the wire form unchanged (shared with C13)
	sub := newCtx(c.P, c.Prop, c.Tier)
	runC13(sub)
	for _, in := range sub.Instances {
		if in.Rule == c.Prop+".R1" && (strings.Contains(in.Construct, "ToMembershipResult") || strings.Contains(in.Construct, "ToBalloonProof")) {
			in.Rule = c.Prop + ".R8"
			c.Instances = append(c.Instances, in)
		}
	}
	// a state transfer either completes or fails: a follower that silently keeps a prefix re-issues versions
	c.Rule("R9", "a state transfer is loaded completely or reported as failed", 2)
	streamEndOnlyOnEOF(c, "R9", c.P.MustMethod("storage/rocks", "RocksDBStore", "LoadSnapshot"))
	streamReaderForwardsError(c, "R9")
	transferRequest(c, "R9")
	restoreAlwaysTransfers(c, "R9")
	transferCallbackErrorPropagates(c, "R9")
	// acknowledged snapshots carry the digest of their event: hashers are per use
	hasherFactoriesAreFresh(c, "R6", []string{"consensus", "server", "cmd", "balloon", "client"})
}

func c05Counter(c *Ctx) {
	p := c.P
	for _, nm := range []string{"Add", "AddBulk"} {
		fn := p.MustMethod(pkgBalloon, "Balloon", nm)
		name := funcName(fn)
		isVer := func(t *Term) bool { return t.IsField("version", isParam(fn, 0)) }
		// the advance may sit in a helper of the balloon (e.g. a `reserve(n)` method): look through
		// same-package callees and describe what they store in Add's own vocabulary
		rg := p.RegionOf(fn, 2)
		var stores []regionInstr
		rg.Instrs(func(site regionSite, in ssa.Instruction) {
			if st, ok := in.(*ssa.Store); ok {
				if fa, ok := st.Addr.(*ssa.FieldAddr); ok && structFieldName(deref(fa.X.Type()), fa.Field) == "version" && rg.Term(site, fa.X).IsParam(fn, 0) {
					stores = append(stores, regionInstr{site, in})
				}
			}
		})
		okAdv := len(stores) == 1
		var got string
		if okAdv {
			t := rg.Term(stores[0].site, stores[0].in.(*ssa.Store).Val)
			got = t.String()
			okAdv = t.Op == "binop" && t.Name == "+" && isVer(t.Args[0])
			if okAdv {
				inc := t.Args[1]
				if nm == "Add" {
					okAdv = inc.Op == "const" && inc.Name == "1"
				} else {
					okAdv = inc.Op == "builtin" && inc.Name == "len" && inc.Args[0].IsParam(fn, 1)
				}
			}
		}
		c.Check(okAdv, "R2", name+":advance", fn.Pos(), "counter advanced once by the number of events", fmt.Sprintf("%d stores to the counter; new value %s", len(stores), got))
		if nm == "Add" {
			ok := false
			var vs string
			for _, bs := range rg.Built(pkgBalloon, "Snapshot") {
				if len(bs.Fields["Version"]) == 1 {
					t := p.X(bs.Fields["Version"][0])
					vs = t.String()
					// the value read before the increment: the load precedes the store
					if isVer(t) && len(stores) == 1 && preAdvanceRead(p, rg, bs.Site, bs.Vals["Version"][0], stores[0], 0) {
						ok = true
					}
				}
			}
			c.Check(ok, "R2", name+":issued-version", fn.Pos(), "snapshot.Version = counter before the increment", "snapshot.Version ← "+vs+" (must be the counter read before it is advanced)")
		}
	}
}

// preAdvanceRead: v (a value of site.owner) is a read of the counter that is executed before the
// store that advances it; a helper call is followed into each of its returns.
func preAdvanceRead(p *Program, rg *Region, site regionSite, v ssa.Value, store regionInstr, depth int) bool {
	if depth > 3 {
		return false
	}
	if cs, cv, ok := rg.CallerValue(site, v); ok {
		return preAdvanceRead(p, rg, cs, cv, store, depth+1)
	}
	// look through a captured local (the goroutine captures `version`)
	if u, isU := v.(*ssa.UnOp); isU {
		if cell, isA := u.X.(*ssa.Alloc); isA {
			if whole, _ := p.storesTo(cell); len(whole) == 1 {
				v = whole[0]
			}
		}
	}
	if call, isC := v.(*ssa.Call); isC {
		g := call.Call.StaticCallee()
		ss := rg.sites[g]
		if g == nil || len(ss) == 0 || g.Signature.Results().Len() != 1 {
			return false
		}
		n := 0
		for _, b := range g.Blocks {
			if len(b.Instrs) == 0 || b == g.Recover {
				continue
			}
			if r, isR := b.Instrs[len(b.Instrs)-1].(*ssa.Return); isR {
				n++
				if !preAdvanceRead(p, rg, ss[0], RetVal(r, 0), store, depth+1) {
					return false
				}
			}
		}
		return n > 0
	}
	ld, isI := v.(ssa.Instruction)
	if !isI {
		return false
	}
	return rg.Before(regionInstr{site, ld}, store)
}

func isLoopIndex(t *Term) bool {
	return strings.Contains(t.String(), "µ") && !t.Has(func(x *Term) bool { return x.Op == "param" || x.Op == "call" })
}

func c05BulkIndex(c *Ctx) {
	p := c.P
	fn := p.MustMethod(pkgBalloon, "Balloon", "AddBulk")
	name := funcName(fn)
	hiAB := p.MustMethod(pkgHistory, "HistoryTree", "AddBulk")
	hyAB := p.MustMethod(pkgHyper, "HyperTree", "AddBulk")
	// both trees get (bulk, initialVersion) with initialVersion = counter read before the advance
	for _, tr := range []*ssa.Function{hiAB, hyAB} {
		n := 0
		eachInstrDeep(fn, func(f *ssa.Function, in ssa.Instruction) {
			cc := callCommon(in)
			if cc == nil || cc.StaticCallee() != tr {
				return
			}
			n++
			d, v := p.TermOf(cc.Args[1]), p.X(p.TermOf(cc.Args[2]))
			c.Check(d.IsParam(fn, 1) && v.IsField("version", isParam(fn, 0)), "R3", name+":"+tr.Pkg.Pkg.Name()+"-tree", in.Pos(), "tree.AddBulk(bulk, counter before advance)", fmt.Sprintf("%s.AddBulk(%s, %s), expected (the bulk, the counter read before it is advanced)", tr.Pkg.Pkg.Name(), d, v))
		})
		if n != 1 {
			c.Fail("R3", name+":"+tr.Pkg.Pkg.Name()+"-tree", fn.Pos(), fmt.Sprintf("%d calls of the %s tree's AddBulk", n, tr.Pkg.Pkg.Name()))
		}
	}
	// snapshots
	okS := false
	var why string
	for _, bs := range p.RegionOf(fn, 2).Built(pkgBalloon, "Snapshot") {
		bf := bs.Fields
		get := func(f string) *Term {
			if len(bf[f]) == 1 {
				return p.XAll(bf[f][0], func(g *ssa.Function) bool { return g == hiAB || g == hyAB })
			}
			return mk("unknown", f, nil)
		}
		ed, hd, ver, hy := get("EventDigest"), get("HistoryDigest"), get("Version"), get("HyperDigest")
		var idx []string
		okE := ed.Op == "index" && ed.Args[0].IsParam(fn, 1) && isLoopIndex(ed.Args[1])
		if okE {
			idx = append(idx, ed.Args[1].String())
		}
		okH := hd.Op == "index" && hd.Args[0].Has(func(t *Term) bool { return t.IsCallTo(hiAB) }) && isLoopIndex(hd.Args[1])
		if okH {
			idx = append(idx, hd.Args[1].String())
		}
		okV := ver.Op == "binop" && ver.Name == "+" && ver.Args[0].IsField("version", isParam(fn, 0)) && isLoopIndex(ver.Args[1])
		if okV {
			idx = append(idx, ver.Args[1].String())
		}
		okY := hy.Has(func(t *Term) bool { return t.IsCallTo(hyAB) })
		same := len(idx) == 3 && idx[0] == idx[1] && idx[1] == idx[2]
		okS = okE && okH && okV && okY && same
		why = fmt.Sprintf("EventDigest←%s HistoryDigest←%s Version←%s HyperDigest←%s", ed, hd, ver, hy)
	}
	c.Check(okS, "R3", name+":snapshots", fn.Pos(), "snapshot i = {bulk[i], historyDigests[i], hyper root, initial+i}", "bulk snapshots are not assembled per index from the same i: "+why)
	// hyper tree: versions[i] ↔ digests[i]
	okHy := false
	var whyHy string
	// every version rendered for the hyper tree inside the loop (appended or stored by index) is
	// initialVersion + i
	nV := 0
	hyRg := p.RegionOf(hyAB, 3)
	hyRg.Instrs(func(site regionSite, in ssa.Instruction) {
		call, isCall := in.(*ssa.Call)
		if !isCall || !hyRg.InCycle(regionInstr{site, in}) {
			return
		}
		t := hyRg.Term(site, call)
		if !utilCallTerm(t, "Uint64AsBytes") {
			return
		}
		nV++
		v := t.Args[0]
		whyHy = v.String()
		ok := v.Op == "binop" && v.Name == "+" && v.Args[0].IsParam(hyAB, 2) && isLoopIndex(v.Args[1])
		if nV == 1 {
			okHy = ok
		} else {
			okHy = okHy && ok
		}
	})
	c.Check(okHy, "R3", funcName(hyAB)+":versions", hyAB.Pos(), "version of element i = initialVersion+i", "hyper bulk versions are built from "+whyHy)
}

func c05ErrorsAfterAdvance(c *Ctx) {
	p := c.P
	for _, nm := range []string{"Add", "AddBulk"} {
		fn := p.MustMethod(pkgBalloon, "Balloon", nm)
		name := funcName(fn)
		// does any return yield a non-nil error?
		failing := false
		for _, rt := range p.ReturnTerms(fn) {
			e := rt[len(rt)-1]
			if !(e.Op == "const" && e.Name == "nil") {
				failing = true
			}
		}
		if !failing {
			c.Ok("R4", name, fn.Pos(), "never returns an error")
			continue
		}
		// all error sources are tree insertions whose error result is the constant nil
		okAll := true
		var why []string
		for _, tr := range []*ssa.Function{p.MustMethod(pkgHistory, "HistoryTree", nm), p.MustMethod(pkgHyper, "HyperTree", nm)} {
			for _, rt := range p.ReturnTerms(tr) {
				for _, e := range p.XLocal(rt[len(rt)-1], tr).Alts() {
					if !(e.Op == "const" && e.Name == "nil") {
						okAll = false
						why = append(why, funcName(tr)+" can return "+e.String())
					}
				}
			}
		}
		if !okAll {
			// then the counter must be restored on the error returns
			restored := false
			eachInstr(fn, func(in ssa.Instruction) {
				if st, ok := in.(*ssa.Store); ok {
					if fa, ok := st.Addr.(*ssa.FieldAddr); ok && structFieldName(deref(fa.X.Type()), fa.Field) == "version" {
						t := p.TermOf(st.Val)
						if !(t.Op == "binop" && t.Name == "+") {
							restored = true
						}
					}
				}
			})
			okAll = restored
		}
		c.Check(okAll, "R4", name, fn.Pos(), "error returns are infeasible (tree insertions return a constant nil error)", "the counter is advanced before the insertion is known to have succeeded and an error return does not restore it: "+strings.Join(why, "; "))
	}
}

func c05Proposer(c *Ctx) {
	p := c.P
	add := p.MustMethod(pkgConsensus, "RaftNode", "Add")
	addBulk := p.MustMethod(pkgConsensus, "RaftNode", "AddBulk")
	okA := false
	var got string
	for _, rt := range p.ReturnTerms(add) {
		t := rt[0]
		if t.Op == "const" {
			continue
		}
		got = t.String()
		okA = t.Op == "index" && t.Args[1].Op == "const" && t.Args[1].Name == "0" && t.Args[0].Op == "extract" && t.Args[0].Idx == 0 && t.Args[0].Args[0].IsCallTo(addBulk)
		if okA {
			arg := t.Args[0].Args[0].Args[1]
			okA = arg.Has(func(x *Term) bool { return x.IsParam(add, 1) })
		}
	}
	c.Check(okA, "R6", funcName(add), add.Pos(), "Add(event) = AddBulk([event])[0]", "RaftNode.Add returns "+got)
	okB := false
	for _, rt := range p.ReturnTerms(addBulk) {
		t := rt[0]
		if t.Op == "const" {
			continue
		}
		got = t.String()
		okB = t.Strip().Op == "field" && t.Strip().Name == "val" && t.Has(isRaftResponse)
	}
	c.Check(okB, "R6", funcName(addBulk), addBulk.Pos(), "AddBulk returns the FSM response's snapshots", "RaftNode.AddBulk returns "+got)
}

func c05Refresh(c *Ctx) {
	p := c.P
	fn := p.MustMethod(pkgBalloon, "Balloon", "RefreshVersion")
	var stores []*ssa.Store
	eachInstr(fn, func(in ssa.Instruction) {
		if st, ok := in.(*ssa.Store); ok {
			if fa, ok := st.Addr.(*ssa.FieldAddr); ok && structFieldName(deref(fa.X.Type()), fa.Field) == "version" {
				stores = append(stores, st)
			}
		}
	})
	ok := len(stores) == 1
	var got string
	if ok {
		t := p.TermOf(stores[0].Val)
		got = t.String()
		ok = t.Op == "binop" && t.Name == "+" && t.Args[1].Name == "1" && utilCallTerm(t.Args[0], "BytesAsUint64")
		if ok {
			k := t.Args[0].Args[0]
			ok = k.Op == "slice" && (k.Args[1].Name == "_" || k.Args[1].Name == "0") && k.Args[2].Name == "8" && k.Args[0].IsField("Key", nil) &&
				k.Has(func(x *Term) bool {
					return x.Op == "invoke" && x.Name == "GetLast" && tableName(p, x.Args[1]) == "HistoryTable"
				})
		}
		// only on the found edge
		cs := p.CondsAt(stores[0].Block())
		ok = ok && hasCond(cs, func(k Cond) bool {
			return k.Pol && k.Atom.Op == "EQ" && (k.Atom.Args[0].Name == "nil" || k.Atom.Args[1].Name == "nil")
		})
	}
	if ok {
		// ... and whenever the key is found the counter ends up equal to last+1: decided per path on every
		// ordering of (old counter, last+1) — a path that skips the store must imply old == last+1 (so
		// `if next != b.version { b.version = next }` is fine, "only when it grows" is not: it cannot pull
		// back a counter that ran ahead of the store, and the next event skips versions)
		newT := p.TermOf(stores[0].Val).Strip().String()
		symOf := func(t *Term) (string, bool) {
			if t.Op == "field" && t.Name == "version" && len(t.Args) > 0 && t.Args[0].IsParam(fn, 0) {
				return "old", true
			}
			if t.String() == newT {
				return "new", true
			}
			return "", false
		}
		if paths, okP := p.EnumPaths(fn, 4000); okP {
			for _, pa := range paths {
				if pa.Ret == nil || pa.Panics {
					continue
				}
				found := hasCond(pa.Facts, func(k Cond) bool {
					return k.Pol && k.Atom.Op == "EQ" && (k.Atom.Args[0].Name == "nil" && isErrorTerm(k.Atom.Args[1]) || k.Atom.Args[1].Name == "nil" && isErrorTerm(k.Atom.Args[0]))
				})
				stored := false
				for _, b := range pa.Blocks {
					if b == stores[0].Block() {
						stored = true
					}
				}
				if !found || stored {
					continue
				}
				for o := 0; o <= 2 && ok; o++ {
					for n := 0; n <= 2 && ok; n++ {
						if o != n && condsHold(p, pa.Facts, symOf, map[string]int{"old": o, "new": n}) {
							ok = false
							got += fmt.Sprintf(" — with the last key found, a counter of %d is left as it is although last+1 is %d (the refresh depends on the counter's old value)", o, n)
						}
					}
				}
			}
		}
	}
	c.Check(ok, "R7", funcName(fn), fn.Pos(), "version = BE64(lastKey[:8]) + 1 from GetLast(HistoryTable), unchanged when not found", fmt.Sprintf("%d stores to the counter in RefreshVersion; value %s", len(stores), got))
}

func c05Current(c *Ctx) {
	p := c.P
	for _, nm := range []string{"QueryDigestMembership", "QueryDigestMembershipConsistency"} {
		fn := p.MustMethod(pkgBalloon, "Balloon", nm)
		var proof *ssa.Alloc
		eachInstr(fn, func(in ssa.Instruction) {
			if al, ok := in.(*ssa.Alloc); ok && namedIs(deref(al.Type()), pkgBalloon, "MembershipProof") {
				proof = al
			}
		})
		if proof == nil {
			c.Fail("R8", funcName(fn), fn.Pos(), "no proof object")
			continue
		}
		_, bf := p.storesTo(proof)
		ok := len(bf["CurrentVersion"]) > 0
		var got []string
		for _, v := range bf["CurrentVersion"] {
			t := p.TermOf(v)
			got = append(got, t.String())
			if !(t.Op == "binop" && t.Name == "-" && t.Args[0].IsField("version", isParam(fn, 0)) && t.Args[1].Name == "1") {
				ok = false
			}
		}
		c.Check(ok, "R8", funcName(fn)+":current-version", fn.Pos(), "CurrentVersion = version-1", "CurrentVersion ← "+strings.Join(got, " | ")+", expected b.version-1 only")
	}
}
