package main

import (
	"fmt"
	"strings"

	"golang.org/x/tools/go/ssa"
)

const pkgConsensus = "consensus"

// symHook renders terms whose canonical string is in the map as symbols.
func symHook(m map[string]string, extra normHook) normHook {
	return func(t *Term, rec func(*Term) string) (string, bool) {
		if s, ok := m[t.String()]; ok {
			return s, true
		}
		if extra != nil {
			return extra(t, rec)
		}
		return "", false
	}
}

// ---- replay filter ---------------------------------------------------------------

// fsmShouldApply: shouldApply rejects exactly the entries whose index is not
// beyond the persisted one (except on a clean instance, index 0); decided on
// every ordering of (s.Index, f.Index) by the finite order model.
func fsmShouldApply(c *Ctx, rule string) {
	p := c.P
	fn := p.MustMethod(pkgConsensus, "fsmState", "shouldApply")
	name := funcName(fn)
	hook := symHook(map[string]string{
		"P0@" + fn.Name() + ".Index":          "sI",
		"P1@" + fn.Name() + ".Index":          "fI",
		"P0@" + fn.Name() + ".BalloonVersion": "sV",
		"P1@" + fn.Name() + ".BalloonVersion": "fV",
	}, nil)
	tb, ok := p.DecisionTable(fn, hook, nil)
	if !ok {
		c.Fail(rule, name, fn.Pos(), "replay filter is not loop-free")
		return
	}
	classify := func(r dtRow) string {
		switch r.Result {
		case "c:false":
			return "reject"
		case "c:true":
			return "apply"
		}
		return "abort"
	}
	diffs := checkOrderModel(tb, []string{"sI", "fI", "sV", "fV"}, 2, classify, func(env map[string]int) string {
		if env["sI"] >= env["fI"] && env["sI"] != 0 {
			return "reject"
		}
		// not rejected: either applied or the version sanity check aborts
		if env["fV"] > 0 && env["sV"] >= env["fV"] {
			return "" // abort or apply: the sanity panic is not part of the property
		}
		return "apply"
	})
	if len(diffs) == 0 {
		c.Ok(rule, name, fn.Pos(), fmt.Sprintf("%d rows; rejects exactly when persisted index >= entry index and persisted index != 0", len(tb.Rows)))
		return
	}
	for _, d := range diffs {
		c.Fail(rule, name, fn.Pos(), "replay filter: "+d+" (sI/sV = persisted index/version, fI/fV = entry's)")
	}
}

// fsmApply: Apply hands an entry to applyAdd only on the true edge of
// shouldApply(n.state, newState), with newState = {l.Index, Version()+len-1}.
func fsmApplyGuard(c *Ctx, rule string) (apply, applyAdd *ssa.Function) {
	p := c.P
	apply = p.MustMethod(pkgConsensus, "RaftNode", "Apply")
	should := p.MustMethod(pkgConsensus, "fsmState", "shouldApply")
	addBulk := p.MustMethod(pkgBalloon, "Balloon", "AddBulk")
	// Apply and the helpers it delegates to (decoding/dispatch may be extracted) are one region.
	rg := p.RegionOf(apply, 3)
	isMutate := func(k *ssa.CallCommon) bool { return k.IsInvoke() && k.Method.Name() == "Mutate" }
	// applyAdd by role: the deepest function of the region (other than Apply) whose own helpers
	// contain both the balloon insertion and the Store.Mutate write
	best := -1
	for _, f := range rg.Funcs() {
		if f == apply || f == should || f.Parent() != nil {
			continue
		}
		sub := p.RegionOf(f, 2)
		if len(sub.Calls(isMutate)) == 0 || len(sub.Calls(func(k *ssa.CallCommon) bool { return k.StaticCallee() == addBulk })) == 0 {
			continue
		}
		if d := len(rg.sites[f][0].chain); d > best {
			best, applyAdd = d, f
		}
	}
	if applyAdd == nil {
		c.Fail(rule, funcName(apply)+":apply-call", apply.Pos(), "Apply no longer hands the decoded entry to a function that persists it through Store.Mutate")
		return
	}
	for _, ri := range rg.Calls(func(k *ssa.CallCommon) bool { return k.StaticCallee() == applyAdd }) {
		call := ri.in
		cs := rg.Conds(ri)
		var guard *Term
		for _, k := range cs {
			if k.Pol && k.Atom.IsCallTo(should) {
				guard = k.Atom
			}
		}
		cc := callCommon(call)
		st := rg.Term(ri.site, cc.Args[len(cc.Args)-1])
		okGuard := guard != nil && guard.Args[0].IsField("state", isParam(apply, 0)) && guard.Args[1].String() == st.String()
		c.Check(okGuard, rule, funcName(apply)+":replay-guard", call.Pos(), "applyAdd only when n.state.shouldApply(newState)", "the entry is applied without the dominating test n.state.shouldApply(<the state being applied>) (conds: "+strings.Join(condStrings(cs), " ∧ ")+")")
		// the new state
		if al, ok := cc.Args[len(cc.Args)-1].(*ssa.Alloc); ok {
			_, byField := p.storesTo(al)
			idx, ver := "?", "?"
			okI, okV := false, false
			if len(byField["Index"]) == 1 {
				t := rg.Term(ri.site, byField["Index"][0])
				idx = t.String()
				okI = t.IsField("Index", isParam(apply, 1))
			}
			if len(byField["BalloonVersion"]) == 1 {
				t := rg.Term(ri.site, byField["BalloonVersion"][0])
				ver = t.String()
				// (Version() + len(digests)) - 1
				if t.Op == "binop" && t.Name == "-" && t.Args[1].Name == "1" && t.Args[0].Op == "binop" && t.Args[0].Name == "+" {
					a, b := t.Args[0].Args[0], t.Args[0].Args[1]
					isVer := func(x *Term) bool { return x.Op == "call" && x.Fn != nil && x.Fn.Name() == "Version" }
					isLen := func(x *Term) bool { return x.Op == "builtin" && x.Name == "len" }
					okV = isVer(a) && isLen(b) || isVer(b) && isLen(a)
					// the digests handed on are the ones counted
					dig := rg.Term(ri.site, cc.Args[1])
					for _, x := range []*Term{a, b} {
						if isLen(x) && x.Args[0].String() != dig.String() {
							okV = false
						}
					}
				}
			}
			c.Check(okI && okV, rule, funcName(apply)+":new-state", call.Pos(), "newState = {l.Index, Version()+len(digests)-1}", "new FSM state is {Index: "+idx+", BalloonVersion: "+ver+"}, expected {l.Index, balloon.Version()+len(eventDigests)-1}")
		} else {
			c.Fail(rule, funcName(apply)+":new-state", call.Pos(), "the state handed to applyAdd is not built in Apply")
		}
	}
	return
}

// fsmApplyAdd: one atomic batch per entry containing the applied index, version
// metadata attached, state published only after the write, every failure aborts.
func fsmApplyAdd(c *Ctx, rule string, applyAdd *ssa.Function) {
	p := c.P
	if applyAdd == nil {
		return
	}
	name := funcName(applyAdd)
	addBulk := p.MustMethod(pkgBalloon, "Balloon", "AddBulk")
	// applyAdd with the helpers it builds its batch with
	rg := p.RegionOf(applyAdd, 2)
	muts := rg.Calls(func(k *ssa.CallCommon) bool { return k.IsInvoke() && k.Method.Name() == "Mutate" })
	inLoop := false
	for _, m := range muts {
		if rg.InCycle(m) {
			inLoop = true
		}
	}
	if len(muts) != 1 || inLoop {
		c.Fail(rule, name+":one-batch", applyAdd.Pos(), fmt.Sprintf("%d store writes per applied entry (in a loop: %v); tree mutations and the applied-index marker must land in exactly one atomic batch, or a crash between the writes re-applies or loses the entry", len(muts), inLoop))
		return
	}
	mcall := callCommon(muts[0].in)
	mt := rg.Term(muts[0].site, mcall.Args[0])
	hasTree := mt.Has(func(t *Term) bool { return t.Op == "extract" && t.Idx == 1 && t.Args[0].IsCallTo(addBulk) })
	// index of the state parameter, by type (applyAdd may be a method of the node or a function taking it)
	stateI := len(applyAdd.Params) - 1
	for i, par := range applyAdd.Params {
		if namedIs(par.Type(), pkgConsensus, "fsmState") {
			stateI = i
		}
	}
	hasState := mt.Has(func(t *Term) bool {
		if t.Op != "call" || t.Fn == nil || t.Fn.Name() != "NewMutation" || len(t.Args) != 3 {
			return false
		}
		return tableName(p, t.Args[0]) == "FSMStateTable" && t.Args[1].Op == "global" && strings.HasSuffix(t.Args[1].Name, "FSMStateTableKey") &&
			t.Args[2].Has(func(x *Term) bool {
				return isEncodeCall(x) && x.Args[0].IsParam(applyAdd, stateI)
			})
	})
	c.Check(hasTree && hasState, rule, name+":one-batch", muts[0].in.Pos(), "single Mutate of (tree mutations + FSM state marker)", fmt.Sprintf("the batch written per entry contains tree mutations=%v, applied-index marker (FSMStateTable/FSMStateTableKey ← encode(state))=%v: %s", hasTree, hasState, mt))
	// metadata
	md := rg.Term(muts[0].site, mcall.Args[1])
	okMD := false
	var prev, nw string
	md.Has(func(t *Term) bool {
		if isEncodeCall(t) && len(t.Args) == 1 {
			if al, ok := t.Args[0].V.(*ssa.Alloc); ok && namedIs(deref(al.Type()), pkgConsensus, "VersionMetadata") {
				bf := p.AllocFields(t.Args[0])
				if len(bf["PreviousVersion"]) == 1 && len(bf["NewVersion"]) == 1 {
					// getters of the node's package are looked through (n.lastApplied() for n.state.BalloonVersion)
					pt, nt := p.UpParam(p.XLocal(bf["PreviousVersion"][0], applyAdd)), p.XLocal(bf["NewVersion"][0], applyAdd)
					prev, nw = pt.String(), nt.String()
					okMD = nt.IsField("BalloonVersion", isParam(applyAdd, stateI))
					for _, alt := range pt.Alts() {
						alt = p.UpParam(alt)
						if !alt.IsField("BalloonVersion", func(b *Term) bool {
							return b.IsField("state", func(r *Term) bool { return r.Strip().Op == "param" && r.Strip().Idx == 0 })
						}) {
							okMD = false
						}
					}
				}
			}
		}
		return false
	})
	c.Check(okMD, rule, name+":metadata", muts[0].in.Pos(), "metadata = {Previous: n.state.BalloonVersion, New: state.BalloonVersion}", "version metadata attached to the batch is {Previous: "+prev+", New: "+nw+"}; followers validate transfers against {persisted version before, version after}")
	// state published after the write only
	var pub []regionInstr
	rg.Instrs(func(site regionSite, in ssa.Instruction) {
		if st, ok := in.(*ssa.Store); ok {
			if fa, ok := st.Addr.(*ssa.FieldAddr); ok && structFieldName(deref(fa.X.Type()), fa.Field) == "state" && rg.Term(site, fa.X).IsParam(applyAdd, 0) {
				pub = append(pub, regionInstr{site, in})
			}
		}
	})
	okPub := len(pub) == 1
	for _, st := range pub {
		if !rg.Before(muts[0], st) || !rg.Term(st.site, st.in.(*ssa.Store).Val).IsParam(applyAdd, stateI) {
			okPub = false
		}
	}
	c.Check(okPub, rule, name+":publish-after-write", applyAdd.Pos(), "n.state = state after the successful write", "the in-memory FSM state is not advanced exactly once, after the store write, to the state that was persisted")
	// failures abort (in applyAdd and in the helpers it delegates to)
	for _, f := range rg.Funcs() {
		failuresAbort(c, rule, f, "AddBulk", "Mutate", "encode", "encodeMsgPack")
	}
}

// failuresAbort: on the error edge of each listed callee the function must not return normally.
func failuresAbort(c *Ctx, rule string, fn *ssa.Function, callees ...string) {
	p := c.P
	for _, b := range fn.Blocks {
		ifi := blockIf(b)
		if ifi == nil {
			continue
		}
		k := p.errEdge(ifi)
		if k < 0 {
			continue
		}
		cond := ifi.Cond.(*ssa.BinOp)
		et := p.TermOf(cond.X)
		if et.Op == "const" {
			et = p.TermOf(cond.Y)
		}
		src := ""
		for _, a := range et.Alts() {
			a.Has(func(t *Term) bool {
				if (t.Op == "call" || t.Op == "invoke") && src == "" {
					for _, cn := range callees {
						if t.Op == "invoke" && t.Name == cn || t.Fn != nil && canonFuncName(t.Fn) == cn {
							src = cn
						}
					}
				}
				return false
			})
		}
		if src == "" {
			continue
		}
		eb := b.Succs[k]
		esc := p.EscapesWithout(fn, isAbortCall, mustOpts{start: eb.Instrs[0]})
		if isAbortCall(eb.Instrs[0]) {
			esc = nil
		}
		c.Check(esc == nil, rule, funcName(fn)+":"+src+"-failure", ifi.Pos(), "failure aborts the node", "a failure of "+src+" is survived (the function returns normally): the version counter / in-memory trees have already advanced, so the surviving node skips or repeats versions")
	}
}

// ---- state transfer ---------------------------------------------------------------

// fsmValidate: the leader-side validator refuses gaps, skips what the follower has, accepts the rest.
func fsmValidate(c *Ctx, rule string) {
	p := c.P
	fs := p.MustMethod(pkgConsensus, "RaftNode", "FetchSnapshot")
	// the validator: innermost closure of FetchSnapshot with signature func([]byte) (bool, error)
	var val *ssa.Function
	isValidatorSig := func(a *ssa.Function) bool {
		return a.Signature.Params().Len() == 1 && a.Signature.Results().Len() == 2 && isBool(a.Signature.Results().At(0).Type()) && isErrorType(a.Signature.Results().At(1).Type())
	}
	// by role: the function value handed to the store's FetchSnapshot as its batch filter (it may be
	// built in place or by a constructor function); fall back to a closure of that shape inside FetchSnapshot
	for _, call := range callsIn(fs, func(k *ssa.CallCommon) bool { return k.IsInvoke() && k.Method.Name() == "FetchSnapshot" }) {
		cc := callCommon(call)
		vt := p.X(p.TermOf(cc.Args[len(cc.Args)-1]))
		for _, alt := range vt.Alts() {
			if cl := alt.Resolve("closure"); cl != nil && cl.Fn != nil && isValidatorSig(cl.Fn) {
				val = cl.Fn
			}
		}
	}
	if val == nil {
		for _, a := range Anons(fs) {
			if isValidatorSig(a) {
				val = a
			}
		}
	}
	// a method value (`filter.accept`) is a synthetic wrapper around the method: analyse the method,
	// whose running "last applied" version is then a field of its receiver
	isMethod := false
	if val != nil && val.Synthetic != "" {
		var under *ssa.Function
		eachInstr(val, func(in ssa.Instruction) {
			if cc := callCommon(in); cc != nil && cc.StaticCallee() != nil && len(cc.StaticCallee().Blocks) > 0 {
				under = cc.StaticCallee()
			}
		})
		if under != nil {
			val, isMethod = under, true
		}
	}
	if val != nil && val.Signature.Recv() != nil {
		isMethod = true
	}
	name := funcName(fs) + ":validator"
	if val == nil {
		c.Fail(rule, name, fs.Pos(), "no batch validator (func(meta) (bool, error)) is built for the transfer")
		return
	}
	// symbols: last = the captured cell, Prev/New = decoded metadata fields
	var lastT string
	hook := func(t *Term, rec func(*Term) string) (string, bool) {
		if t.Op == "field" && (t.Name == "PreviousVersion" || t.Name == "NewVersion") && t.Args[0].Op == "alloc" {
			if t.Name == "PreviousVersion" {
				return "Prev", true
			}
			return "New", true
		}
		if isMethod && t.Op == "field" && t.Args[0].IsParam(val, 0) {
			lastT = t.String()
			return "last", true
		}
		// the receiver of a method bound at a single site is described by the struct bound there: its
		// field is then what FetchSnapshot stored into it (the follower's version from the request)
		if isMethod && (t.Op == "field" || t.Op == "cell" || t.Op == "phi") && t.Has(func(x *Term) bool { return x.Op == "param" && x.Fn == fs }) {
			lastT = t.String()
			return "last", true
		}
		if t.Op == "cell" || t.Op == "param" && val.Parent() != nil && t.Fn == val.Parent() {
			// the running "last applied" cell: initialised from the outer parameter
			if t.Has(func(x *Term) bool { return x.Op == "param" && x.Fn == val.Parent() }) {
				lastT = t.String()
				return "last", true
			}
		}
		if t.Op == "EQ" && len(t.Args) == 2 {
			for i := 0; i < 2; i++ {
				if t.Args[i].Op == "const" && t.Args[i].Name == "nil" && isErrorTerm(t.Args[1-i]) {
					return "decodeOK", true
				}
			}
		}
		return "", false
	}
	tb, ok := p.DecisionTable(val, hook, nil)
	if !ok {
		c.Fail(rule, name, val.Pos(), "validator is not loop-free")
		return
	}
	classify := func(r dtRow) string {
		parts := strings.Split(r.Result, " ; ")
		if len(parts) != 2 {
			return "?" + r.Result
		}
		switch {
		case parts[0] == "c:true" && parts[1] == "c:nil":
			return "accept"
		case parts[0] == "c:false" && parts[1] == "c:nil":
			return "skip"
		case parts[0] == "c:false":
			return "refuse"
		}
		return "?" + r.Result
	}
	diffs := checkOrderModel(tb, []string{"Prev", "New", "last", "decodeOK"}, 2, classify, func(env map[string]int) string {
		if env["decodeOK"] > 1 {
			return ""
		}
		if env["decodeOK"] == 0 {
			return "skip"
		}
		if env["Prev"] > env["New"] {
			return "" // not a metadata record a leader writes
		}
		switch {
		case env["Prev"] > env["last"]:
			return "refuse"
		case env["New"] < env["last"]:
			return "skip"
		case env["New"] == env["last"] && env["last"] != 0:
			return "skip"
		}
		return "accept"
	})
	for _, d := range diffs {
		c.Fail(rule, name, val.Pos(), "transfer validator: "+d+" (Prev/New = batch metadata, last = follower's last applied version)")
	}
	// on acceptance the running version advances to New
	adv := false
	eachInstr(val, func(in ssa.Instruction) {
		if st, ok := in.(*ssa.Store); ok {
			_, isFV := st.Addr.(*ssa.FreeVar)
			if fa, isFA := st.Addr.(*ssa.FieldAddr); isFA && isMethod && len(val.Params) > 0 && (fa.X == ssa.Value(val.Params[0]) || p.TermOf(fa.X).IsParam(val, 0)) {
				isFV = true
			}
			if isFV {
				v := p.TermOf(st.Val)
				if v.Op == "field" && v.Name == "NewVersion" {
					adv = true
				}
			}
		}
	})
	if len(diffs) == 0 {
		c.Check(adv, rule, name, val.Pos(), fmt.Sprintf("%d rows: refuses gaps, skips applied batches, accepts the rest and advances", len(tb.Rows)), "the validator never advances its last-applied version to the accepted batch's NewVersion: later gaps go unnoticed")
	}
	_ = lastT
	// wiring: validator seeded with the follower's version; sequence numbers passed through
	dbFetch := callsIn(fs, func(k *ssa.CallCommon) bool { return k.IsInvoke() && k.Method.Name() == "FetchSnapshot" })
	if len(dbFetch) == 1 {
		cc := callCommon(dbFetch[0])
		since, until, vf := p.TermOf(cc.Args[1]), p.TermOf(cc.Args[2]), p.TermOf(cc.Args[3])
		okW := since.IsField("StartSeqNum", isParam(fs, 1)) && until.IsField("EndSeqNum", isParam(fs, 1)) && termCarries(p, vf, func(t *Term) bool { return t.IsField("LastAppliedVersion", isParam(fs, 1)) })
		c.Check(okW, rule, funcName(fs)+":wiring", dbFetch[0].Pos(), "db.FetchSnapshot(w, req.StartSeqNum, req.EndSeqNum, validate(req.LastAppliedVersion))", fmt.Sprintf("store transfer called with since=%s until=%s validator=%s", since, until, vf))
	} else {
		c.Fail(rule, funcName(fs)+":wiring", fs.Pos(), "FetchSnapshot does not stream from the store exactly once")
	}
}

// termCarries: t contains a term satisfying pred, directly or inside a struct it points to (the
// receiver bound into a method value, a struct handed over by pointer).
func termCarries(p *Program, t *Term, pred func(*Term) bool) bool {
	if t.Has(pred) {
		return true
	}
	found := false
	t.Has(func(x *Term) bool {
		if x.Op == "alloc" && !found {
			for _, vs := range p.AllocFields(x) {
				for _, v := range vs {
					if v.Has(pred) {
						found = true
					}
				}
			}
		}
		return false
	})
	return found
}

func isErrorTerm(t *Term) bool {
	return t.V != nil && isErrorType(t.V.Type())
}

// fsmRestore: after a successful LoadSnapshot everything derived from the store is refreshed; errors propagate.
func fsmRestore(c *Ctx, rule string) {
	p := c.P
	restore := p.MustMethod(pkgConsensus, "RaftNode", "Restore")
	name := funcName(restore)
	rg := p.RegionOf(restore, 2) // the transfer may be delegated to a helper of the node
	loads := rg.Calls(func(k *ssa.CallCommon) bool { return k.IsInvoke() && k.Method.Name() == "LoadSnapshot" })
	if len(loads) != 1 {
		c.Fail(rule, name+":load", restore.Pos(), fmt.Sprintf("%d LoadSnapshot calls in Restore", len(loads)))
		return
	}
	loadState := p.MustMethod(pkgConsensus, "RaftNode", "loadState")
	refresh := p.MustMethod(pkgBalloon, "Balloon", "RefreshVersion")
	rebuild := p.MustMethod(pkgHyper, "HyperTree", "RebuildCache")
	reaches := func(target *ssa.Function) func(ssa.Instruction) bool {
		memo := map[*ssa.Function]bool{}
		var mustCall func(f *ssa.Function, depth int) bool
		mustCall = func(f *ssa.Function, depth int) bool {
			if f == target {
				return true
			}
			if v, ok := memo[f]; ok {
				return v
			}
			memo[f] = false
			if depth > 4 || len(f.Blocks) == 0 || f.Pkg == nil || !p.inModule(f.Pkg.Pkg.Path()) {
				return false
			}
			hit := func(in ssa.Instruction) bool {
				cc := callCommon(in)
				if cc == nil {
					return false
				}
				if _, isGo := in.(*ssa.Go); isGo {
					return false
				}
				g := cc.StaticCallee()
				return g != nil && mustCall(g, depth+1)
			}
			r := p.EscapesWithout(f, hit, mustOpts{skipErrEdges: true}) == nil
			memo[f] = r
			return r
		}
		return func(in ssa.Instruction) bool {
			cc := callCommon(in)
			if cc == nil {
				return false
			}
			if _, isDefer := in.(*ssa.Defer); isDefer {
				return false
			}
			g := cc.StaticCallee()
			return g != nil && mustCall(g, 0)
		}
	}
	for _, need := range []struct {
		fn   *ssa.Function
		what string
	}{
		{loadState, "the FSM state (applied index / version) is reloaded"},
		{refresh, "the balloon version counter is refreshed"},
		{rebuild, "the hyper tree's in-memory batch cache is rebuilt"},
	} {
		esc := rg.EscapesAfter(loads[0], reaches(need.fn), mustOpts{skipErrEdges: true})
		c.Check(esc == nil, rule, name+":refresh-"+need.fn.Name(), loads[0].in.Pos(), "after LoadSnapshot "+need.what, "Restore can return success after replacing the store's content without making sure that "+need.what+": the follower keeps serving and extending stale in-memory state")
	}
	// also on the start-up path (no transfer) state and version are loaded: entry → return must pass loadState & RefreshVersion
	for _, need := range []*ssa.Function{loadState, refresh} {
		esc := p.EscapesWithout(restore, reaches(need), mustOpts{skipErrEdges: true})
		c.Check(esc == nil, rule, name+":always-"+need.Name(), restore.Pos(), "every successful Restore passes "+need.Name(), "a successful Restore path does not call "+need.Name())
	}
}

// errorDiscipline (E-ERR) on listed functions: an error result of a call must not be discarded,
// an `if err != nil` must test a value assigned since the previous test, and an error edge must not return a nil error.
func errorDiscipline(c *Ctx, rule string, fns []*ssa.Function) {
	p := c.P
	for _, fn := range fns {
		if fn == nil {
			continue
		}
		name := funcName(fn)
		bad := 0
		returnsErr := fn.Signature.Results().Len() > 0 && isErrorType(fn.Signature.Results().At(fn.Signature.Results().Len()-1).Type())
		// (1) discarded error results
		eachInstr(fn, func(in ssa.Instruction) {
			call, ok := in.(*ssa.Call)
			if !ok {
				return
			}
			sig := call.Call.Signature()
			n := sig.Results().Len()
			if n == 0 || !isErrorType(sig.Results().At(n-1).Type()) {
				return
			}
			cn := calleeName(&call.Call)
			if strings.HasPrefix(cn, "(*bytes.Buffer).") {
				return // bytes.Buffer writes cannot fail
			}
			if strings.Contains(cn, "Write") && !strings.Contains(cn, "db") && strings.HasPrefix(cn, "iface:io.") || strings.HasPrefix(cn, "fmt.") || strings.Contains(cn, ".Alert") {
				return
			}
			used := false
			if n == 1 {
				used = len(*call.Referrers()) > 0
			} else {
				for _, r := range *call.Referrers() {
					if ex, ok := r.(*ssa.Extract); ok && ex.Index == n-1 && len(*ex.Referrers()) > 0 {
						used = true
					}
				}
			}
			if !used {
				bad++
				c.Fail(rule, name+":discarded:"+cn, in.Pos(), "the error returned by "+cn+" is discarded")
			}
		})
		// (2) error edge returning nil error / (3) stale re-test
		tested := map[ssa.Value]*ssa.If{}
		for _, b := range fn.Blocks {
			ifi := blockIf(b)
			if ifi == nil {
				continue
			}
			k := p.errEdge(ifi)
			if k < 0 {
				continue
			}
			cond := ifi.Cond.(*ssa.BinOp)
			ev := cond.X
			if cst, ok := ev.(*ssa.Const); ok && cst.Value == nil {
				ev = cond.Y
			}
			if prev, dup := tested[ev]; dup && prev != ifi {
				if _, isPhi := ev.(*ssa.Phi); !isPhi {
					bad++
					c.Fail(rule, name+":stale-check", ifi.Pos(), "an error value is tested again although nothing was assigned to it since the previous test: the call in between (whose error is dropped) is never checked")
				}
			}
			tested[ev] = ifi
			if !returnsErr {
				continue
			}
			// ErrKeyNotFound-style sentinel comparisons are not error edges (errEdge only matches nil tests)
			eb := b.Succs[k]
			// every return reachable from the error edge without leaving it (dominated by eb) must return a non-nil error
			for _, rb := range fn.Blocks {
				if len(rb.Instrs) == 0 || !eb.Dominates(rb) {
					continue
				}
				ret, ok := rb.Instrs[len(rb.Instrs)-1].(*ssa.Return)
				if !ok {
					continue
				}
				rv := RetVal(ret, len(ret.Results)-1)
				if cst, ok := rv.(*ssa.Const); ok && cst.Value == nil {
					// a return on the edge where the error equals a sentinel ("not found") is a decision, not a swallowed failure
					evT := p.TermOf(ev).String()
					if hasCond(p.CondsAt(rb), func(k Cond) bool {
						if !k.Pol || k.Atom.Op != "EQ" {
							return false
						}
						a, b := k.Atom.Args[0], k.Atom.Args[1]
						return a.Op == "global" && b.String() == evT || b.Op == "global" && a.String() == evT
					}) {
						continue
					}
					bad++
					c.Fail(rule, name+":swallowed", ret.Pos(), "on the failure edge of "+p.TermOf(ev).String()+" the function returns a nil error: the caller takes the operation for successful")
				}
			}
		}
		if bad == 0 {
			c.Ok(rule, name, fn.Pos(), "no discarded, stale or swallowed error")
		}
	}
}

// isRaftApplyCall / isRaftResponse: the command handed to raft and the FSM's answer to it, by role
// (whether the node wraps them in a helper or not).
func isRaftApplyCall(x *Term) bool {
	return x.Op == "call" && x.Fn != nil && x.Fn.Name() == "Apply" && x.Fn.Signature.Recv() != nil && namedIs(x.Fn.Signature.Recv().Type(), "github.com/hashicorp/raft", "Raft")
}

func isRaftResponse(x *Term) bool {
	return x.Op == "invoke" && x.Name == "Response" && len(x.Args) > 0 && x.Args[0].Has(isRaftApplyCall)
}

// isEncodeCall: the msgpack encoding of a value of package consensus — the type's own encode
// method or the package's encoder applied to it (the methods are one-line wrappers of the latter).
func isEncodeCall(x *Term) bool {
	if x.Op != "call" || x.Fn == nil || x.Fn.Pkg == nil || x.Fn.Pkg.Pkg.Path() != modPkg(pkgConsensus) || len(x.Args) == 0 {
		return false
	}
	n := canonFuncName(x.Fn)
	return n == "encode" || n == "encodeMsgPack"
}

// fsmResponseChecked: the proposer looks at the FSM's verdict before it uses the FSM's value. Apply
// answers {err, nil} for an entry it refuses (already applied: e.g. the first proposals on a node
// restored from a backup, whose raft indexes start below the restored applied index); asserting
// the concrete type of the nil value aborts the request instead of reporting the refusal.
func fsmResponseChecked(c *Ctx, rule string) {
	p := c.P
	ab := p.MustMethod(pkgConsensus, "RaftNode", "AddBulk")
	rg := p.RegionOf(ab, 2)
	n := 0
	rg.Instrs(func(site regionSite, in ssa.Instruction) {
		ta, ok := in.(*ssa.TypeAssert)
		if !ok || ta.CommaOk {
			return
		}
		t := rg.Term(site, ta.X)
		if !(t.IsField("val", nil) && t.Has(isRaftResponse)) {
			return
		}
		n++
		resp := t.Strip().Args[0].String()
		cs := rg.Conds(regionInstr{site, in})
		checked := hasCond(cs, func(k Cond) bool {
			if k.Atom.Op != "EQ" || !k.Pol {
				return false
			}
			for i := 0; i < 2; i++ {
				x, y := k.Atom.Args[i], k.Atom.Args[1-i]
				if y.Op == "const" && y.Name == "nil" && x.IsField("err", func(b *Term) bool { return b.String() == resp }) {
					return true
				}
			}
			return false
		})
		c.Check(checked, rule, funcName(ab)+":fsm-verdict", in.Pos(), "the FSM's error is tested before its value is used", "the value of the FSM's response is asserted to be a snapshot list without first testing the response's error: when the FSM refuses the entry (\"state already applied\") the value is nil and the assertion panics in the request's goroutine instead of returning the refusal")
	})
	if n == 0 {
		c.Fail(rule, funcName(ab)+":fsm-verdict", ab.Pos(), "AddBulk does not take its result from the FSM's response value")
	}
}
