package main

import (
	"fmt"
	"strings"

	"golang.org/x/tools/go/ssa"
)

func init() {
	register("C03", propMeta{
		Explanation: "Decides the acceptance condition and wiring of consistency proofs: (R1) history.IncrementalProof.Verify accepts only when BOTH recomputed roots equal the supplied digests, the start root recomputed by the start traversal of StartVersion and the end root by the end traversal of (StartVersion, EndVersion), over the proof's own audit path, on every path; " +
			"(R2) balloon.IncrementalProof.Verify hands (Start, End) and (start snapshot history digest, end snapshot history digest) on in order and returns the verdict unmodified; (R3) Balloon.QueryConsistency proves only under start<version ∧ end<version ∧ start<=end and labels the proof with the parameters; " +
			"(R4) prover and verifier traversals are equal as decision tables (checkConsistency ≅ verifyIncrementalEnd, verifyIncrementalStart ≅ single-target prover) ; (R5) the monitor requests and verifies the proof between the first and the last snapshot of its batch; shares the hash-formula and audit-key rules of C01. " +
			"Method: path enumeration with canonical atoms, decision tables, provenance.",
		Assumptions: []string{"hash collisions are infeasible"},
		Added:       "Third round: (R9) a missing audit-path entry aborts the recomputation, ProveConsistency prunes with the consistency traversal only, the client verifies the incremental proof unmodified. Fifth round: recycled (sync.Pool) objects never leak into a proof handed out; the incremental handler admits every pair Start<=End (finite order model).",
		Declined:    "rejection for every alternative digest / forked log (a statement over histories) and the (i, j) arithmetic common to prover and verifier traversals.",
	}, runC03)
}

func runC03(c *Ctx) {
	c.Rule("R11", "the incremental handler admits every request with Start <= End to the prover (finite order model over the handler's own tests)", 1)
	consistencyRequestsAdmitted(c, "R11")
	c.Rule("R10", "memory of an object recycled through a sync.Pool never leaves its Get/Put window (returned, stored outside the function, sent)", 1)
	poolEscapes(c, "R10", []string{"balloon", "balloon/history", "balloon/hyper", "api/apihttp", "protocol", "client"})
	c.Rule("R1", "IncrementalProof.Verify: accepting ⇒ Equal(startRecomputed,startDigest) ∧ Equal(endRecomputed,endDigest), with the right traversals over the proof's audit path", 1)
	c.Rule("R2", "balloon.IncrementalProof.Verify passes versions and history digests in order, verdict unmodified", 1)
	c.Rule("R3", "QueryConsistency: range guard dominates ProveConsistency; proof labelled with the parameters", 2)
	c.Rule("R4", "consistency prover ≅ end verifier; start verifier ≅ single-target prover (decision tables)", 2)
	c.Rule("R5", "monitor: Incremental(first.Version,last.Version) and IncrementalVerify(proof,&first,&last); client passes them through", 3)
	c.Rule("R6", "hash formulas of the visitors (as C01.R1)", 9)
	c.Rule("R7", "audit-path key agreement in the history tree (as C01.R3)", 4)
	r := buildHistRoles(c)
	c03R1(c, r)
	c03R2(c, r)
	c03R3(c)
	histSibConsistency(c, "R4", r)
	c03R5(c)
	histFormulas(c, "R6", r)
	histAuditKeys(c, "R7", r)
	c.Rule("R8", "audit-path wire codec: writer and reader agree on separator, order and widths (index at 64 bits)", 3)
	histAuditCodec(c, "R8")
	c.Rule("R9", "a missing audit-path entry aborts the recomputation; ProveConsistency prunes with the consistency traversal only; the client verifies the proof unmodified", 4)
	verifierMissAborts(c, "R9", r)
	proverUsesItsTraversal(c, "R9", r)
	proofNotModifiedBeforeVerify(c, "R9", []*ssa.Function{c.P.MustMethod("client", "HTTPClient", "IncrementalAutoVerify"), c.P.MustMethod("client", "HTTPClient", "IncrementalVerify")})
}

func c03R1(c *Ctx, r *histRoles) {
	p := c.P
	fn := r.incVerify
	name := funcName(fn)
	if r.incStart == nil || r.incEnd == nil {
		c.Fail("R1", name, fn.Pos(), "the verifier no longer builds a start traversal (1 version) and an end traversal (2 versions)")
		return
	}
	paths, ok := p.AcceptPaths(fn, 0, nil, 0)
	if !ok {
		c.Fail("R1", name, fn.Pos(), "verifier is not loop-free")
		return
	}
	checkDeferredOnlyReject(c, "R1", fn)
	if len(paths) == 0 {
		c.Fail("R1", name, fn.Pos(), "no accepting path")
		return
	}
	overOwnPath := func(t *Term) bool {
		// Accept(traversal, visitor) where the visitor was built over p.AuditPath
		return t.Has(func(x *Term) bool {
			return x.Op == "call" && x.Fn != nil && x.Fn.Pkg == r.m.pkg && len(x.Args) >= 2 && x.Args[len(x.Args)-1].IsField("AuditPath", isParam(fn, 0)) ||
				x.Op == "call" && x.Fn != nil && x.Fn.Pkg == r.m.pkg && hasArg(x, isRecvField(fn, "AuditPath"))
		})
	}
	startRe := func(t *Term) bool {
		return overOwnPath(t) && !t.IsParam(fn, 1) && !t.IsParam(fn, 2) && t.Has(func(x *Term) bool {
			return x.IsCallTo(r.incStart) && len(x.Args) == 1 && isRecvField(fn, "StartVersion")(x.Args[0])
		})
	}
	endRe := func(t *Term) bool {
		return overOwnPath(t) && !t.IsParam(fn, 1) && !t.IsParam(fn, 2) && t.Has(func(x *Term) bool {
			return x.IsCallTo(r.incEnd) && len(x.Args) == 2 && isRecvField(fn, "StartVersion")(x.Args[0]) && isRecvField(fn, "EndVersion")(x.Args[1])
		})
	}
	bad := 0
	for i, cs := range paths {
		var miss []string
		if !hasEqualFact(cs, startRe, isParam(fn, 1)) {
			miss = append(miss, "Equal(recompute-start(StartVersion), startDigest)")
		}
		if !hasEqualFact(cs, endRe, isParam(fn, 2)) {
			miss = append(miss, "Equal(recompute-end(StartVersion,EndVersion), endDigest)")
		}
		if len(miss) > 0 {
			bad++
			c.Fail("R1", name, fn.Pos(), fmt.Sprintf("accepting path #%d lacks {%s}; holds under {%s}", i, strings.Join(miss, "; "), strings.Join(condStrings(cs), " ∧ ")))
		}
	}
	if bad == 0 {
		c.Ok("R1", name, fn.Pos(), fmt.Sprintf("%d accepting path(s) carry both root comparisons", len(paths)))
	}
}

func hasArg(t *Term, pred func(*Term) bool) bool {
	for _, a := range t.Args {
		if pred(a) {
			return true
		}
	}
	return false
}

func c03R2(c *Ctx, r *histRoles) {
	p := c.P
	fn := p.MustMethod(pkgBalloon, "IncrementalProof", "Verify")
	name := funcName(fn)
	paths, ok := p.AcceptPaths(fn, 0, nil, 0)
	if !ok || len(paths) == 0 {
		c.Fail("R2", name, fn.Pos(), "verifier is not loop-free or never accepts")
		return
	}
	newInc := p.Func(pkgHistory, "NewIncrementalProof")
	bad := 0
	for _, cs := range paths {
		ok := hasCond(cs, func(k Cond) bool {
			a := k.Atom
			if !k.Pol || !a.IsCallTo(r.incVerify) || len(a.Args) != 3 {
				return false
			}
			recvOK := a.Args[0].Has(func(x *Term) bool {
				return newInc != nil && x.IsCallTo(newInc) && len(x.Args) >= 3 && isRecvField(fn, "Start")(x.Args[0]) && isRecvField(fn, "End")(x.Args[1]) && isRecvField(fn, "AuditPath")(x.Args[2])
			})
			return recvOK && isParamField(fn, 1, "HistoryDigest")(a.Args[1]) && isParamField(fn, 2, "HistoryDigest")(a.Args[2])
		})
		if !ok {
			bad++
			c.Fail("R2", name, fn.Pos(), "an accepting path does not carry history.IncrementalProof{Start,End,AuditPath}.Verify(snapshotStart.HistoryDigest, snapshotEnd.HistoryDigest): {"+strings.Join(condStrings(cs), " ∧ ")+"}")
		}
	}
	if bad == 0 {
		c.Ok("R2", name, fn.Pos(), "verdict = history verdict on (Start,End,AuditPath) against (start.HistoryDigest, end.HistoryDigest)")
	}
}

func c03R3(c *Ctx) {
	p := c.P
	fn := p.MustMethod(pkgBalloon, "Balloon", "QueryConsistency")
	pc := p.MustMethod(pkgHistory, "HistoryTree", "ProveConsistency")
	name := funcName(fn)
	calls := callsIn(fn, func(cc *ssa.CallCommon) bool { return cc.StaticCallee() == pc })
	if len(calls) != 1 {
		c.Fail("R3", name+":range-guard", fn.Pos(), fmt.Sprintf("%d calls to ProveConsistency, expected one", len(calls)))
		return
	}
	cc := callCommon(calls[0])
	a1, a2 := p.TermOf(cc.Args[1]), p.TermOf(cc.Args[2])
	cs := p.CondsAt(calls[0].Block())
	isVer := func(t *Term) bool { return t.IsField("version", isParam(fn, 0)) }
	okArgs := a1.IsParam(fn, 1) && a2.IsParam(fn, 2)
	g1 := impliesLT(cs, isParam(fn, 1), isVer)
	g2 := impliesLT(cs, isParam(fn, 2), isVer)
	g3 := impliesLE(cs, isParam(fn, 1), isParam(fn, 2))
	c.Check(okArgs && g1 && g2 && g3, "R3", name+":range-guard", calls[0].Pos(), "ProveConsistency(start,end) under start<version ∧ end<version ∧ start<=end",
		fmt.Sprintf("ProveConsistency(%s,%s): start<version=%v end<version=%v start<=end=%v (conds: %s)", a1, a2, g1, g2, g3, strings.Join(condStrings(cs), " ∧ ")))
	// labels
	var proof *ssa.Alloc
	eachInstr(fn, func(in ssa.Instruction) {
		if al, ok := in.(*ssa.Alloc); ok && namedIs(deref(al.Type()), pkgBalloon, "IncrementalProof") {
			proof = al
		}
	})
	if proof == nil {
		c.Fail("R3", name+":labels", fn.Pos(), "no IncrementalProof object is built")
		return
	}
	_, byField := p.storesTo(proof)
	one := func(f string) *Term {
		if len(byField[f]) == 1 {
			return p.TermOf(byField[f][0])
		}
		return mk("unknown", "", nil)
	}
	s, e, ap := one("Start"), one("End"), one("AuditPath")
	okAP := ap.IsField("AuditPath", func(b *Term) bool { return b.Has(func(x *Term) bool { return x.IsCallTo(pc) }) })
	c.Check(s.IsParam(fn, 1) && e.IsParam(fn, 2) && okAP, "R3", name+":labels", fn.Pos(), "proof.Start/End ← parameters, AuditPath ← the history proof",
		fmt.Sprintf("proof labelled Start←%s End←%s AuditPath←%s", s, e, ap))
}

func c03R5(c *Ctx) {
	p := c.P
	inc := p.MustMethod("client", "HTTPClient", "Incremental")
	incV := p.MustMethod("client", "HTTPClient", "IncrementalVerify")
	// monitor task: closure in package cmd calling both
	sp := p.SSAPkg[modPkg("cmd")]
	found := 0
	for _, fn := range p.ModFuncs {
		if fn.Pkg != sp {
			continue
		}
		c1 := callsIn(fn, func(cc *ssa.CallCommon) bool { return cc.StaticCallee() == inc })
		c2 := callsIn(fn, func(cc *ssa.CallCommon) bool { return cc.StaticCallee() == incV })
		if len(c1) == 0 && len(c2) == 0 {
			continue
		}
		// only agents working on gossiped batches (the CLI passes user-supplied versions)
		usesBatch := false
		eachInstr(fn, func(in ssa.Instruction) {
			if fa, ok := in.(*ssa.FieldAddr); ok && namedIs(deref(fa.X.Type()), "protocol", "BatchSnapshots") {
				usesBatch = true
			}
		})
		if !usesBatch {
			continue
		}
		found++
		name := funcName(fn)
		isFirst := func(t *Term) bool {
			// Snapshots[0].Snapshot
			return t.Has(func(x *Term) bool {
				return x.Op == "index" && x.Args[0].IsField("Snapshots", nil) && x.Args[1].Op == "const" && x.Args[1].Name == "0"
			})
		}
		isLast := func(t *Term) bool {
			return t.Has(func(x *Term) bool {
				if x.Op != "index" || !x.Args[0].IsField("Snapshots", nil) {
					return false
				}
				i := x.Args[1]
				return i.Op == "binop" && i.Name == "-" && i.Args[0].Op == "builtin" && i.Args[0].Name == "len" && i.Args[0].Args[0].IsField("Snapshots", nil) && i.Args[1].Op == "const" && i.Args[1].Name == "1"
			})
		}
		for _, call := range c1 {
			cc := callCommon(call)
			s, e := p.TermOf(cc.Args[1]), p.TermOf(cc.Args[2])
			ok := s.IsField("Version", nil) && isFirst(s) && !isLast(s) && e.IsField("Version", nil) && isLast(e) && !isFirst(e)
			c.Check(ok, "R5", name+":request", call.Pos(), "Incremental(first.Version, last.Version)", fmt.Sprintf("Incremental(%s, %s): expected (version of batch element 0, version of batch element len-1)", s, e))
		}
		for _, call := range c2 {
			cc := callCommon(call)
			pr, s, e := p.TermOf(cc.Args[1]), p.PointeeTerm(cc.Args[2]), p.PointeeTerm(cc.Args[3])
			ok := pr.Has(func(x *Term) bool { return x.IsCallTo(inc) }) && isFirst(s) && !isLast(s) && isLast(e) && !isFirst(e)
			c.Check(ok, "R5", name+":verify", call.Pos(), "IncrementalVerify(proof,&first,&last)", fmt.Sprintf("IncrementalVerify(%s, %s, %s): expected (the requested proof, first snapshot, last snapshot)", pr, s, e))
		}
	}
	if found == 0 {
		c.Fail("R5", "monitor", 0, "no function of package cmd requests and verifies an incremental proof")
	}
	// client.IncrementalVerify returns proof.Verify(start,end) unmodified
	bv := p.MustMethod(pkgBalloon, "IncrementalProof", "Verify")
	paths, ok := p.AcceptPaths(incV, 0, nil, 0)
	good := ok && len(paths) > 0
	for _, cs := range paths {
		if !hasCond(cs, func(k Cond) bool {
			a := k.Atom
			return k.Pol && a.IsCallTo(bv) && len(a.Args) == 3 && a.Args[0].IsParam(incV, 1) && a.Args[1].IsParam(incV, 2) && a.Args[2].IsParam(incV, 3)
		}) {
			good = false
		}
	}
	c.Check(good, "R5", funcName(incV), incV.Pos(), "returns proof.Verify(startSnapshot,endSnapshot)", "client.IncrementalVerify does not return proof.Verify(startSnapshot, endSnapshot) unmodified")
}
