package main

import (
	"fmt"
	"go/types"
	"sort"
	"strings"

	"golang.org/x/tools/go/ssa"
)

// Engine E-LOCK: type-level locksets. A lock is identified by the struct type
// that owns the mutex field ("balloon.Balloon.RWMutex"); modes: 1 shared, 2 exclusive.

type lockSet map[string]int

func (s lockSet) clone() lockSet {
	c := lockSet{}
	for k, v := range s {
		c[k] = v
	}
	return c
}

func (s lockSet) String() string {
	var xs []string
	for k, v := range s {
		m := "R"
		if v == 2 {
			m = "W"
		}
		xs = append(xs, k+":"+m)
	}
	sort.Strings(xs)
	return "{" + strings.Join(xs, ",") + "}"
}

func meet(a, b lockSet) lockSet {
	out := lockSet{}
	for k, v := range a {
		if w, ok := b[k]; ok {
			if w < v {
				v = w
			}
			out[k] = v
		}
	}
	return out
}

func join(a, b lockSet) lockSet {
	out := a.clone()
	for k, v := range b {
		if out[k] < v {
			out[k] = v
		}
	}
	return out
}

func equalLS(a, b lockSet) bool {
	if len(a) != len(b) {
		return false
	}
	for k, v := range a {
		if b[k] != v {
			return false
		}
	}
	return true
}

// lockOp recognises mutex operations: returns lock id and op name.
func (p *Program) lockOp(cc *ssa.CallCommon) (id string, op string) {
	if cc == nil || cc.IsInvoke() {
		return "", ""
	}
	fn := cc.StaticCallee()
	if fn == nil || fn.Signature.Recv() == nil {
		return "", ""
	}
	rt := deref(fn.Signature.Recv().Type())
	n, ok := rt.(*types.Named)
	if !ok || n.Obj().Pkg() == nil || n.Obj().Pkg().Path() != "sync" || (n.Obj().Name() != "Mutex" && n.Obj().Name() != "RWMutex") {
		return "", ""
	}
	switch fn.Name() {
	case "Lock", "RLock", "Unlock", "RUnlock":
	default:
		return "", ""
	}
	return p.mutexID(cc.Args[0]), fn.Name()
}

// mutexID: type-level identity of the mutex a pointer designates.
func (p *Program) mutexID(v ssa.Value) string {
	switch a := v.(type) {
	case *ssa.FieldAddr:
		owner := deref(a.X.Type())
		return typeStr(owner) + "." + structFieldName(owner, a.Field)
	case *ssa.Global:
		return "g:" + a.Pkg.Pkg.Name() + "." + a.Name()
	case *ssa.UnOp:
		// *(&x.mu) for pointer-typed mutex fields
		if fa, ok := a.X.(*ssa.FieldAddr); ok {
			owner := deref(fa.X.Type())
			return typeStr(owner) + "." + structFieldName(owner, fa.Field)
		}
	case *ssa.Alloc:
		return "local:" + typeStr(a.Type())
	}
	return "?:" + p.TermOf(v).String()
}

type lockInfo struct {
	before map[ssa.Instruction]lockSet // held before the instruction executes
	exit   []lockSetAt                 // held at returns
}

type lockSetAt struct {
	in ssa.Instruction
	ls lockSet
}

var lockCache = map[*ssa.Function]*lockInfo{}

// Locksets computes the intraprocedural lockset before every instruction.
func (p *Program) Locksets(fn *ssa.Function) *lockInfo {
	if li, ok := lockCache[fn]; ok {
		return li
	}
	li := &lockInfo{before: map[ssa.Instruction]lockSet{}}
	lockCache[fn] = li
	if len(fn.Blocks) == 0 {
		return li
	}
	in := map[*ssa.BasicBlock]lockSet{}
	visited := map[*ssa.BasicBlock]bool{}
	in[fn.Blocks[0]] = lockSet{}
	work := []*ssa.BasicBlock{fn.Blocks[0]}
	transfer := func(b *ssa.BasicBlock, record bool) lockSet {
		cur := in[b].clone()
		for _, ins := range b.Instrs {
			if record {
				li.before[ins] = cur.clone()
			}
			if _, isDefer := ins.(*ssa.Defer); isDefer {
				continue // deferred unlock: held until return
			}
			if _, isGo := ins.(*ssa.Go); isGo {
				continue
			}
			id, op := p.lockOp(callCommon(ins))
			switch op {
			case "Lock":
				cur[id] = 2
			case "RLock":
				if cur[id] < 1 {
					cur[id] = 1
				}
			case "Unlock", "RUnlock":
				delete(cur, id)
			}
		}
		return cur
	}
	for len(work) > 0 {
		b := work[len(work)-1]
		work = work[:len(work)-1]
		visited[b] = true
		out := transfer(b, false)
		for _, s := range b.Succs {
			old, had := in[s]
			var nw lockSet
			if !had {
				nw = out.clone()
			} else {
				nw = meet(old, out)
			}
			if !had || !equalLS(old, nw) {
				in[s] = nw
				work = append(work, s)
			}
		}
	}
	for _, b := range fn.Blocks {
		if !visited[b] {
			continue
		}
		out := transfer(b, true)
		if len(b.Instrs) > 0 {
			if r, ok := b.Instrs[len(b.Instrs)-1].(*ssa.Return); ok {
				li.exit = append(li.exit, lockSetAt{r, out})
			}
		}
	}
	return li
}

// EntryLocksets: locks held on entry of every module function on all of its
// (non-test) call sites; roots have the empty set.
func (p *Program) EntryLocksets() map[*ssa.Function]lockSet {
	if p.entryLS != nil {
		return p.entryLS
	}
	cg := p.CallGraph()
	type edge struct {
		caller *ssa.Function
		site   ssa.CallInstruction
	}
	incoming := map[*ssa.Function][]edge{}
	modset := map[*ssa.Function]bool{}
	for _, f := range p.ModFuncs {
		modset[f] = true
	}
	for _, f := range p.ModFuncs {
		n := cg.Nodes[f]
		if n == nil {
			continue
		}
		for _, e := range n.In {
			if e.Site == nil || e.Caller == nil || !modset[e.Caller.Func] || !p.Production(e.Caller.Func) {
				continue
			}
			incoming[f] = append(incoming[f], edge{e.Caller.Func, e.Site})
		}
	}
	entry := map[*ssa.Function]lockSet{} // missing = top
	for _, f := range p.ModFuncs {
		if len(incoming[f]) == 0 {
			entry[f] = lockSet{}
		}
	}
	changed := true
	for iter := 0; changed && iter < 100; iter++ {
		changed = false
		for _, f := range p.ModFuncs {
			edges := incoming[f]
			if len(edges) == 0 {
				continue
			}
			var acc lockSet
			have := false
			for _, e := range edges {
				ce, known := entry[e.caller]
				if !known {
					continue // caller still top
				}
				var contrib lockSet
				if p.freshReceiverCall(e.site) {
					continue // constructor working on its own fresh object: contributes top
				}
				local := p.Locksets(e.caller).before[e.site]
				if local == nil {
					local = lockSet{}
				}
				if _, isGo := e.site.(*ssa.Go); isGo {
					contrib = p.goroutineInherits(e.caller, e.site.(*ssa.Go), join(local, ce))
				} else {
					contrib = join(local, ce)
				}
				if !have {
					acc, have = contrib.clone(), true
				} else {
					acc = meet(acc, contrib)
				}
			}
			if !have {
				continue
			}
			if old, ok := entry[f]; !ok || !equalLS(old, acc) {
				if ok {
					acc = meet(old, acc)
					if equalLS(old, acc) {
						continue
					}
				}
				entry[f] = acc
				changed = true
			}
		}
	}
	for _, f := range p.ModFuncs {
		if _, ok := entry[f]; !ok {
			entry[f] = lockSet{}
		}
	}
	p.entryLS = entry
	return entry
}

// freshReceiverCall: the call's receiver (first argument) is an object
// allocated in the calling function (constructor idiom).
func (p *Program) freshReceiverCall(site ssa.CallInstruction) bool {
	cc := site.Common()
	if cc.IsInvoke() || len(cc.Args) == 0 {
		return false
	}
	fn := cc.StaticCallee()
	if fn == nil || fn.Signature.Recv() == nil {
		return false
	}
	return isFreshAlloc(cc.Args[0])
}

func isFreshAlloc(v ssa.Value) bool {
	switch a := v.(type) {
	case *ssa.Alloc:
		return a.Heap
	case *ssa.Phi:
		for _, e := range a.Edges {
			if !isFreshAlloc(e) {
				return false
			}
		}
		return len(a.Edges) > 0
	}
	return false
}

// goroutineInherits: a goroutine spawned under a lock inherits it only in
// the enumerated idiom "joined by wg.Wait() before the lock is released":
// from the go statement every path to a return passes a WaitGroup.Wait at
// which the lock is still held.
func (p *Program) goroutineInherits(caller *ssa.Function, g *ssa.Go, held lockSet) lockSet {
	if len(held) == 0 {
		return lockSet{}
	}
	li := p.Locksets(caller)
	entry := lockSet{}
	if p.entryLS != nil {
		if e, ok := p.entryLS[caller]; ok {
			entry = e
		}
	}
	out := held.clone()
	isWait := func(in ssa.Instruction) bool {
		cc := callCommon(in)
		if cc == nil || cc.IsInvoke() {
			return false
		}
		f := cc.StaticCallee()
		if f == nil || f.Name() != "Wait" || f.Signature.Recv() == nil || !namedIs(f.Signature.Recv().Type(), "sync", "WaitGroup") {
			return false
		}
		at := join(li.before[in], entry)
		for k, v := range held {
			if at[k] < v {
				return false
			}
		}
		return true
	}
	if esc := p.EscapesWithout(caller, isWait, mustOpts{start: g}); esc != nil {
		return lockSet{}
	}
	return out
}

// HeldAt: locks held at an instruction (local ∪ entry of its function).
func (p *Program) HeldAt(in ssa.Instruction) lockSet {
	fn := in.Parent()
	local := p.Locksets(fn).before[in]
	if local == nil {
		local = lockSet{}
	}
	return join(local, p.EntryLocksets()[fn])
}

// guardedAccess describes one access to a guarded field.
type guardedAccess struct {
	in    ssa.Instruction
	fn    *ssa.Function
	write bool
	held  lockSet
	fresh bool
}

// FieldAccesses finds all loads/stores of field `field` of struct type
// owner (module-wide, production code). A FieldAddr whose address escapes
// into a call counts as a write.
// guardedFieldTypes: the declared type of each guarded field, as confirmed by reading the code.
// When an (unexported) field is renamed, the field is still found as the only field of its owner
// with this type; a rename is not a change of locking discipline.
var guardedFieldTypes = map[string]string{
	"balloon.Balloon.version":                "uint64",
	"balloon.Balloon.historyTree":            "*history.HistoryTree",
	"balloon.Balloon.hyperTree":              "*hyper.HyperTree",
	"balloon/hyper.HyperTree.cache":          "cache.ModifiableCache",
	"balloon/hyper.HyperTree.hasher":         "hashing.Hasher",
	"balloon/hyper.HyperTree.defaultHashes":  "[]hashing.Digest",
	"balloon/hyper.HyperTree.store":          "storage.Store",
	"balloon/hyper.HyperTree.batchLoader":    "hyper.batchLoader",
	"balloon/history.HistoryTree.hasher":     "hashing.Hasher",
	"balloon/history.HistoryTree.writeCache": "cache.ModifiableCache",
	"balloon/hyper.BatchCache.buf":           "[]byte",
	"gossip.Topology.m":                      "map[string]*gossip.PeerList",
	"client.topology.endpoints":              "[]*client.endpoint",
	"client.topology.primary":                "*client.endpoint",
	"client.topology.cIndex":                 "int",
	"client.endpoint.dead":                   "bool",
	"client.endpoint.failures":               "int",
	"client.endpoint.deadSince":              "*time.Time",
	"client.endpoint.url":                    "string",
	"client.endpoint.nodeType":               "client.nodeType",
}

// resolveField: the current name of a guarded field (itself, or the unique field of the recorded type).
func (p *Program) resolveField(ownerPkg, ownerType, field string) string {
	named := p.NamedType(ownerPkg, ownerType)
	if named == nil {
		return field
	}
	st, ok := named.Underlying().(*types.Struct)
	if !ok {
		return field
	}
	for i := 0; i < st.NumFields(); i++ {
		if st.Field(i).Name() == field {
			return field
		}
	}
	want, ok := guardedFieldTypes[ownerPkg+"."+ownerType+"."+field]
	if !ok {
		return field
	}
	found := ""
	for i := 0; i < st.NumFields(); i++ {
		if typeStr(st.Field(i).Type()) == want {
			if found != "" {
				return field // ambiguous
			}
			found = st.Field(i).Name()
		}
	}
	if found != "" {
		return found
	}
	return field
}

func (p *Program) FieldAccesses(ownerPkg, ownerType, field string) []guardedAccess {
	var out []guardedAccess
	for _, fn := range p.ModFuncs {
		if !p.Production(fn) {
			continue
		}
		fn := fn
		eachInstr(fn, func(in ssa.Instruction) {
			var base ssa.Value
			var isAddr bool
			switch x := in.(type) {
			case *ssa.FieldAddr:
				if !namedIs(deref(x.X.Type()), ownerPkg, ownerType) || structFieldName(deref(x.X.Type()), x.Field) != field {
					return
				}
				base, isAddr = x.X, true
			case *ssa.Field:
				if !namedIs(x.X.Type(), ownerPkg, ownerType) || structFieldName(x.X.Type(), x.Field) != field {
					return
				}
				base = x.X
			default:
				return
			}
			v := in.(ssa.Value)
			write := false
			if isAddr && v.Referrers() != nil {
				for _, r := range *v.Referrers() {
					switch u := r.(type) {
					case *ssa.Store:
						if u.Addr == v {
							write = true
						}
					case *ssa.UnOp:
					default:
						// address passed on / used otherwise: conservatively a write,
						// unless it is a method call on the field itself (handled by the callee's own accesses)
						if cc := callCommon(r); cc != nil {
							continue
						}
						if _, ok := r.(*ssa.FieldAddr); ok {
							continue
						}
						if _, ok := r.(*ssa.IndexAddr); ok {
							continue
						}
					}
				}
			}
			out = append(out, guardedAccess{in: in, fn: fn, write: write, held: p.HeldAt(in), fresh: isFreshBase(base)})
		})
	}
	return out
}

// isFreshBase: the struct being accessed was allocated in this function.
func isFreshBase(v ssa.Value) bool {
	switch a := v.(type) {
	case *ssa.Alloc:
		return true
	case *ssa.UnOp:
		if al, ok := a.X.(*ssa.Alloc); ok {
			// load of a local pointer variable: fresh if all stores into it are fresh allocs
			if refs := al.Referrers(); refs != nil {
				okAll, n := true, 0
				for _, r := range *refs {
					if st, ok := r.(*ssa.Store); ok && st.Addr == al {
						n++
						if !isFreshAlloc(st.Val) {
							okAll = false
						}
					}
				}
				return okAll && n > 0
			}
		}
	case *ssa.Phi:
		return isFreshAlloc(a)
	}
	return false
}

// ---- re-entrant acquisition ---------------------------------------------------------
//
// sync.Mutex and sync.RWMutex are not re-entrant: a method that holds its receiver's
// lock (even the read lock: a writer queued in between blocks the second RLock while
// it waits for the first to be released) must not call a method of the same receiver
// that acquires that lock again.

// acquiresOwnLock: lock ids f acquires on its own receiver (directly, or through a method of the
// same receiver it calls while not holding the lock), up to a small depth.
func (p *Program) acquiresOwnLock(f *ssa.Function, depth int, busy map[*ssa.Function]bool) map[string]bool {
	out := map[string]bool{}
	if f == nil || len(f.Blocks) == 0 || f.Signature.Recv() == nil || depth > 2 || busy[f] {
		return out
	}
	busy[f] = true
	defer delete(busy, f)
	eachInstr(f, func(in ssa.Instruction) {
		if _, isDefer := in.(*ssa.Defer); isDefer {
			return
		}
		if _, isGo := in.(*ssa.Go); isGo {
			return
		}
		cc := callCommon(in)
		if cc == nil {
			return
		}
		if id, op := p.lockOp(cc); op == "Lock" || op == "RLock" {
			if fa, ok := cc.Args[0].(*ssa.FieldAddr); ok && p.TermOf(fa.X).IsParam(f, 0) {
				out[id] = true
			}
			return
		}
		if g := cc.StaticCallee(); g != nil && g.Signature.Recv() != nil && len(cc.Args) > 0 && p.TermOf(cc.Args[0]).IsParam(f, 0) && p.inModuleFn(g) {
			for id := range p.acquiresOwnLock(g, depth+1, busy) {
				out[id] = true
			}
		}
	})
	return out
}

func (p *Program) inModuleFn(f *ssa.Function) bool {
	return f != nil && f.Pkg != nil && p.inModule(f.Pkg.Pkg.Path())
}

func reentrantLocks(c *Ctx, rule string, pkgs []string) {
	p := c.P
	inPkgs := map[*ssa.Package]bool{}
	for _, pk := range pkgs {
		if sp := p.SSAPkg[modPkg(pk)]; sp != nil {
			inPkgs[sp] = true
		}
	}
	n, bad := 0, 0
	for _, fn := range p.ModFuncs {
		if !inPkgs[fn.Pkg] || !p.Production(fn) || fn.Signature.Recv() == nil || fn.Parent() != nil {
			continue
		}
		fn := fn
		li := p.Locksets(fn)
		// ids of locks fn takes on its own receiver
		own := map[string]bool{}
		eachInstr(fn, func(in ssa.Instruction) {
			cc := callCommon(in)
			if id, op := p.lockOp(cc); op == "Lock" || op == "RLock" {
				if fa, ok := cc.Args[0].(*ssa.FieldAddr); ok && p.TermOf(fa.X).IsParam(fn, 0) {
					own[id] = true
				}
			}
		})
		if len(own) == 0 {
			continue
		}
		n++
		eachInstr(fn, func(in ssa.Instruction) {
			if _, isGo := in.(*ssa.Go); isGo {
				return
			}
			cc := callCommon(in)
			if cc == nil {
				return
			}
			g := cc.StaticCallee()
			if g == nil || g.Signature.Recv() == nil || len(cc.Args) == 0 || !p.inModuleFn(g) || !p.TermOf(cc.Args[0]).IsParam(fn, 0) {
				return
			}
			held := li.before[in]
			for id := range p.acquiresOwnLock(g, 0, map[*ssa.Function]bool{}) {
				if own[id] && held[id] > 0 {
					bad++
					c.Fail(rule, funcName(fn)+":reentrant:"+g.Name(), in.Pos(), fmt.Sprintf("%s is called on the same receiver while %s is held, and it acquires %s again: sync locks are not re-entrant (with the read lock held, a writer queued in between blocks the inner RLock for ever, and with it every later reader and the apply path)", g.Name(), id, id))
				}
			}
		})
	}
	if bad == 0 {
		c.Ok(rule, "no-reentrant-acquisition", 0, fmt.Sprintf("%d lock-taking methods; none calls a method of the same receiver that takes the lock again", n))
	}
}
