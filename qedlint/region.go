package main

import (
	"go/token"
	"sort"

	"golang.org/x/tools/go/ssa"
)

// Helper transparency. Maintainers extract blocks into unexported helpers and
// turn closures into functions; rules that anchor on an exported or
// interface-mandated function must see through that. A Region is the subject
// function together with the same-package, non-recursive static callees (and
// the closures) it reaches within a small depth. Instructions of the region are
// described in the root's vocabulary: parameters of a helper are substituted by
// the arguments of its (unique) call site, dominating conditions are those
// inside the helper plus those at the call site, and ordering is decided on the
// call sites in the root.

type regionSite struct {
	owner      *ssa.Function     // function containing the instruction
	chain      []ssa.Instruction // call instructions from the root down to owner (empty for the root)
	viaClosure *ssa.Function     // owner is a closure defined in this function of the region (shares its chain)
}

type Region struct {
	p     *Program
	root  *ssa.Function
	sites map[*ssa.Function][]regionSite // every way a function of the region is entered
	funcs []*ssa.Function
}

// isHelperOf: g may be looked through when analysing root.
func (p *Program) isHelperOf(root, g *ssa.Function) bool {
	if g == nil || len(g.Blocks) == 0 || g.Pkg == nil || root.Pkg == nil || g.Pkg != root.Pkg {
		return false
	}
	if g.Synthetic != "" {
		return false
	}
	return true
}

func (p *Program) RegionOf(root *ssa.Function, depth int) *Region {
	r := &Region{p: p, root: root, sites: map[*ssa.Function][]regionSite{}}
	r.sites[root] = []regionSite{{owner: root}}
	r.funcs = append(r.funcs, root)
	var visit func(fn *ssa.Function, chain []ssa.Instruction, d int, onPath map[*ssa.Function]bool)
	visit = func(fn *ssa.Function, chain []ssa.Instruction, d int, onPath map[*ssa.Function]bool) {
		if d <= 0 {
			return
		}
		add := func(g *ssa.Function, via ssa.Instruction) {
			if !p.isHelperOf(root, g) || onPath[g] {
				return
			}
			nc := append(append([]ssa.Instruction{}, chain...), via)
			if _, seen := r.sites[g]; !seen {
				r.funcs = append(r.funcs, g)
			}
			r.sites[g] = append(r.sites[g], regionSite{owner: g, chain: nc})
			onPath[g] = true
			visit(g, nc, d-1, onPath)
			delete(onPath, g)
		}
		// closures defined here belong to the region; their free variables already resolve to
		// terms of the enclosing function, so they share its chain
		for _, a := range fn.AnonFuncs {
			if _, seen := r.sites[a]; !seen && !onPath[a] {
				r.funcs = append(r.funcs, a)
				r.sites[a] = append(r.sites[a], regionSite{owner: a, chain: chain, viaClosure: fn})
				onPath[a] = true
				visit(a, chain, d, onPath)
				delete(onPath, a)
			}
		}
		eachInstr(fn, func(in ssa.Instruction) {
			if cc := callCommon(in); cc != nil {
				if _, isGo := in.(*ssa.Go); isGo {
					return
				}
				if g := cc.StaticCallee(); g != nil {
					add(g, in)
				} else if !cc.IsInvoke() {
					// call of a closure value
					if cl := p.TermOf(cc.Value).Resolve("closure"); cl != nil && cl.Fn != nil {
						add(cl.Fn, in)
					}
				}
			}
		})
	}
	visit(root, nil, depth, map[*ssa.Function]bool{root: true})
	return r
}

// Instrs visits every instruction of the region once per function (first entry site).
func (r *Region) Instrs(f func(site regionSite, in ssa.Instruction)) {
	for _, fn := range r.funcs {
		s := r.sites[fn][0]
		eachInstr(fn, func(in ssa.Instruction) { f(s, in) })
	}
}

// Calls returns the call-like instructions of the region whose callee satisfies pred.
func (r *Region) Calls(pred func(*ssa.CallCommon) bool) []regionInstr {
	var out []regionInstr
	r.Instrs(func(s regionSite, in ssa.Instruction) {
		if cc := callCommon(in); cc != nil && pred(cc) {
			out = append(out, regionInstr{s, in})
		}
	})
	return out
}

// CallsAllSites: like Calls, with an instruction of a helper reported once per call site of the helper.
func (r *Region) CallsAllSites(pred func(*ssa.CallCommon) bool) []regionInstr {
	var out []regionInstr
	for _, fn := range r.funcs {
		seen := map[ssa.Instruction]bool{}
		for _, s := range r.sites[fn] {
			var key ssa.Instruction
			if len(s.chain) > 0 {
				key = s.chain[0]
			}
			if seen[key] && key != nil {
				continue
			}
			seen[key] = true
			s := s
			eachInstr(fn, func(in ssa.Instruction) {
				if cc := callCommon(in); cc != nil && pred(cc) {
					out = append(out, regionInstr{s, in})
				}
			})
		}
	}
	return out
}

type regionInstr struct {
	site regionSite
	in   ssa.Instruction
}

// Term describes v (a value of site.owner) in the root's vocabulary.
func (r *Region) Term(s regionSite, v ssa.Value) *Term {
	t := r.p.TermOf(v)
	return r.lift(s, t)
}

func (r *Region) lift(s regionSite, t *Term) *Term {
	// substitute parameters of each function on the chain, innermost first
	for i := len(s.chain) - 1; i >= 0; i-- {
		call := s.chain[i]
		cc := callCommon(call)
		var args []*Term
		for _, a := range cc.Args {
			args = append(args, r.p.TermOf(a))
		}
		callee := cc.StaticCallee()
		if callee == nil && !cc.IsInvoke() {
			if cl := r.p.TermOf(cc.Value).Resolve("closure"); cl != nil {
				callee = cl.Fn
			}
		}
		if callee != nil {
			t = t.Subst(callee, args)
		}
	}
	return t
}

// Conds: branch outcomes that hold at the instruction, in the root's vocabulary.
func (r *Region) Conds(ri regionInstr) []Cond {
	var out []Cond
	s := ri.site
	cur := ri.in
	owner := s.owner
	for i := len(s.chain); i >= 0; i-- {
		sub := regionSite{owner: owner, chain: s.chain[:i]}
		for _, c := range r.p.CondsAt(cur.Block()) {
			out = append(out, Cond{Atom: r.lift(sub, c.Atom), Pol: c.Pol, V: c.V, Branch: c.Branch})
		}
		if i == 0 {
			break
		}
		cur = s.chain[i-1]
		owner = cur.Parent()
	}
	return out
}

// Anchor: the instruction of the root through which ri is reached (ri.in itself when it is in the root).
func (r *Region) Anchor(ri regionInstr) ssa.Instruction {
	if len(ri.site.chain) == 0 {
		return ri.in
	}
	return ri.site.chain[0]
}

// Before: a is executed before b on every path reaching b (decided on the anchors; inside one helper, locally).
func (r *Region) Before(a, b regionInstr) bool {
	aa, ab := r.Anchor(a), r.Anchor(b)
	if aa != ab {
		return instrBefore(aa, ab)
	}
	if a.site.owner == b.site.owner {
		return instrBefore(a.in, b.in)
	}
	// same call site, different depths: compare at the first differing level
	for i := 0; i < len(a.site.chain) && i < len(b.site.chain); i++ {
		if a.site.chain[i] != b.site.chain[i] {
			return instrBefore(a.site.chain[i], b.site.chain[i])
		}
	}
	if len(a.site.chain) < len(b.site.chain) {
		return instrBefore(a.in, b.site.chain[len(a.site.chain)])
	}
	return instrBefore(a.site.chain[len(b.site.chain)], b.in)
}

// Reaches: b can execute after a (decided on the call sites in the root; locally inside one helper).
func (r *Region) Reaches(a, b regionInstr) bool {
	aa, ab := r.Anchor(a), r.Anchor(b)
	if aa != ab {
		return instrReaches(aa, ab)
	}
	if a.site.owner == b.site.owner {
		return instrReaches(a.in, b.in)
	}
	return true
}

// InCycle: the instruction may execute more than once per activation of the root (it, or a call
// on its chain, sits in a loop).
func (r *Region) InCycle(ri regionInstr) bool {
	if inCycle(ri.in.Block()) {
		return true
	}
	for _, c := range ri.site.chain {
		if inCycle(c.Block()) {
			return true
		}
	}
	return false
}

// MustHit: on every normal (non-error) path through fn an instruction satisfying hit is executed,
// directly or inside a helper of the region (summaries computed recursively).
func (r *Region) MustHit(fn *ssa.Function, hit func(ssa.Instruction) bool) bool {
	return r.mustHit(fn, hit, mustOpts{skipErrEdges: true}, map[*ssa.Function]int{}, 0)
}

// SiteOf: the (first) way fn is entered from the root.
func (r *Region) SiteOf(fn *ssa.Function) regionSite {
	if ss := r.sites[fn]; len(ss) > 0 {
		return ss[0]
	}
	return regionSite{owner: fn}
}

// TermIn describes a value used by instruction `in` of the region in the root's vocabulary.
func (r *Region) TermIn(in ssa.Instruction, v ssa.Value) *Term {
	return r.Term(r.SiteOf(in.Parent()), v)
}

// LiftIn re-expresses a term built inside fn in the root's vocabulary.
func (r *Region) LiftIn(fn *ssa.Function, t *Term) *Term {
	return r.lift(r.SiteOf(fn), t)
}

func (r *Region) mustHit(fn *ssa.Function, hit func(ssa.Instruction) bool, o mustOpts, memo map[*ssa.Function]int, depth int) bool {
	if v, ok := memo[fn]; ok {
		return v == 1
	}
	memo[fn] = 2
	if depth > 4 || len(fn.Blocks) == 0 {
		return false
	}
	h := r.deepHit(hit, o, memo, depth)
	if r.p.EscapesWithout(fn, h, mustOpts{skipErrEdges: o.skipErrEdges, skipEdge: o.skipEdge}) == nil {
		memo[fn] = 1
		return true
	}
	return false
}

// deepHit lifts an instruction predicate to "this instruction satisfies it, or is a call to a helper that must".
func (r *Region) deepHit(hit func(ssa.Instruction) bool, o mustOpts, memo map[*ssa.Function]int, depth int) func(ssa.Instruction) bool {
	return func(in ssa.Instruction) bool {
		if hit(in) {
			return true
		}
		if _, isDefer := in.(*ssa.Defer); isDefer {
			return false
		}
		if _, isGo := in.(*ssa.Go); isGo {
			return false
		}
		cc := callCommon(in)
		if cc == nil {
			return false
		}
		g := cc.StaticCallee()
		if g == nil && !cc.IsInvoke() {
			if cl := r.p.TermOf(cc.Value).Resolve("closure"); cl != nil {
				g = cl.Fn
			}
		}
		if g == nil || !r.p.isHelperOf(r.root, g) {
			return false
		}
		return r.mustHit(g, hit, o, memo, depth+1)
	}
}

// EscapesWithoutDeep: like EscapesWithout on the root, with helpers of the region counted through their summaries.
func (r *Region) EscapesWithoutDeep(hit func(ssa.Instruction) bool, o mustOpts) ssa.Instruction {
	return r.p.EscapesWithout(r.root, r.deepHit(hit, o, map[*ssa.Function]int{}, 0), o)
}

// EscapesAfter: starting right after ri, can the root return (on a path allowed by o) without an
// instruction satisfying hit? Decided level by level: the rest of the helper containing ri, then
// the rest of its caller after the call, and so on up to the root. Returns the offending exit or nil.
func (r *Region) EscapesAfter(ri regionInstr, hit func(ssa.Instruction) bool, o mustOpts) ssa.Instruction {
	h := r.deepHit(hit, o, map[*ssa.Function]int{}, 0)
	cur := ri.in
	for i := len(ri.site.chain); ; i-- {
		oo := o
		oo.start = cur
		esc := r.p.EscapesWithout(cur.Parent(), h, oo)
		if esc == nil {
			return nil
		}
		if i == 0 {
			return esc
		}
		cur = ri.site.chain[i-1]
	}
}

// builtStruct: a struct value built inside the region (in the root or in a constructor helper).
type builtStruct struct {
	Site   regionSite
	Alloc  *ssa.Alloc
	Vals   map[string][]ssa.Value // field -> stored values (in Site.owner)
	Fields map[string][]*Term     // the same, in the root's vocabulary
}

// Built: the allocations of struct type pkg.name made in the region, with their field contents.
func (r *Region) Built(pkg, name string) []builtStruct {
	var out []builtStruct
	r.Instrs(func(site regionSite, in ssa.Instruction) {
		al, ok := in.(*ssa.Alloc)
		if !ok || !namedIs(deref(al.Type()), pkg, name) {
			return
		}
		_, bf := r.p.storesTo(al)
		b := builtStruct{Site: site, Alloc: al, Vals: bf, Fields: map[string][]*Term{}}
		for f, vs := range bf {
			for _, v := range vs {
				b.Fields[f] = append(b.Fields[f], r.Term(site, v))
			}
		}
		out = append(out, b)
	})
	return out
}

// CallerValue: a parameter of a helper of the region is the argument of its call site: returns the
// argument value together with the site of the calling function (ok=false for anything else).
func (r *Region) CallerValue(site regionSite, v ssa.Value) (regionSite, ssa.Value, bool) {
	pa, ok := v.(*ssa.Parameter)
	if !ok || len(site.chain) == 0 || pa.Parent() != site.owner {
		return site, v, false
	}
	call := site.chain[len(site.chain)-1]
	cc := callCommon(call)
	for i, q := range site.owner.Params {
		if q == pa && i < len(cc.Args) {
			return regionSite{owner: call.Parent(), chain: site.chain[:len(site.chain)-1]}, cc.Args[i], true
		}
	}
	return site, v, false
}

// retCase: one way the root produces result #idx — the value (root vocabulary) and the branch
// outcomes under which it is returned. A result that is the result of a helper call is split into
// the helper's own returns.
type retCase struct {
	T     *Term
	Conds []Cond
	Pos   token.Pos
}

func (r *Region) ReturnCases(idx int) []retCase {
	return r.returnCases(r.SiteOf(r.root), idx, nil, 0)
}

func (r *Region) returnCases(site regionSite, idx int, outer []Cond, depth int) []retCase {
	var out []retCase
	fn := site.owner
	for _, b := range fn.Blocks {
		if len(b.Instrs) == 0 || b == fn.Recover {
			continue
		}
		ret, ok := b.Instrs[len(b.Instrs)-1].(*ssa.Return)
		if !ok || idx >= len(ret.Results) {
			continue
		}
		v := RetVal(ret, idx)
		conds := append([]Cond{}, outer...)
		for _, c := range r.p.CondsAt(b) {
			conds = append(conds, Cond{Atom: r.lift(site, c.Atom), Pol: c.Pol, V: c.V, Branch: c.Branch})
		}
		sub := 0
		var call *ssa.Call
		switch x := v.(type) {
		case *ssa.Call:
			call = x
		case *ssa.Extract:
			if c2, isC := x.Tuple.(*ssa.Call); isC {
				call, sub = c2, x.Index
			}
		}
		if call != nil && depth < 3 {
			if g := call.Call.StaticCallee(); g != nil && r.p.isHelperOf(r.root, g) && len(r.sites[g]) > 0 {
				gs := regionSite{owner: g, chain: append(append([]ssa.Instruction{}, site.chain...), call)}
				out = append(out, r.returnCases(gs, sub, conds, depth+1)...)
				continue
			}
		}
		out = append(out, retCase{T: r.Term(site, v), Conds: conds, Pos: ret.Pos()})
	}
	return out
}

// Funcs: functions of the region, root first, helpers sorted by name.
func (r *Region) Funcs() []*ssa.Function {
	out := append([]*ssa.Function{}, r.funcs...)
	sort.SliceStable(out[1:], func(i, j int) bool { return out[1+i].String() < out[1+j].String() })
	return out
}

// ---- term-level helper transparency --------------------------------------------

// X expands a call to a module helper into the (substituted) terms it returns,
// recursively; anything else is returned unchanged. Multi-result calls are
// expanded when t is an extract of the call.
func (p *Program) X(t *Term) *Term {
	return p.xDepth(t, 4, map[*ssa.Function]bool{})
}

// X1 expands one level only (the caller decides about the calls the helper returns).
func (p *Program) X1(t *Term) *Term {
	return p.xDepth(t, 1, map[*ssa.Function]bool{})
}

func (p *Program) xDepth(t *Term, depth int, busy map[*ssa.Function]bool) *Term {
	if t == nil || depth <= 0 {
		return t
	}
	idx := 0
	callT := t
	if t.Op == "extract" {
		idx = t.Idx
		callT = t.Args[0]
	}
	if callT.Op != "call" && callT.Op != "dyncall" {
		return t
	}
	g := callT.Fn
	if g == nil || len(g.Blocks) == 0 || g.Pkg == nil || !p.inModule(g.Pkg.Pkg.Path()) || busy[g] || g.Synthetic != "" {
		return t
	}
	if t.Op != "extract" && g.Signature.Results().Len() != 1 {
		return t
	}
	args := callT.Args
	if callT.Op == "dyncall" {
		args = args[1:]
	}
	busy[g] = true
	defer delete(busy, g)
	var alts []*Term
	for _, rt := range p.ReturnTerms(g) {
		if idx < len(rt) {
			alts = append(alts, p.xDepth(p.materialise(rt[idx], g, 0).Subst(g, args), depth-1, busy))
		}
	}
	if len(alts) == 0 {
		return t
	}
	return oneOf("phi", t.V, alts)
}

// XAll expands helper calls everywhere inside t (bottom-up), keeping calls to functions in `keep`.
func (p *Program) XAll(t *Term, keep func(*ssa.Function) bool) *Term {
	return p.xAll(t, keep, 4, map[*ssa.Function]bool{})
}

// XLocal expands the calls to helpers living in fn's own package (calls into other packages are
// what rules usually anchor on and stay opaque).
func (p *Program) XLocal(t *Term, fn *ssa.Function) *Term {
	return p.XAll(t, func(g *ssa.Function) bool { return fn == nil || g.Pkg != fn.Pkg })
}

func (p *Program) xAll(t *Term, keep func(*ssa.Function) bool, depth int, busy map[*ssa.Function]bool) *Term {
	if t == nil || depth <= 0 {
		return t
	}
	nt := t
	if len(t.Args) > 0 {
		na := make([]*Term, len(t.Args))
		changed := false
		for i, a := range t.Args {
			na[i] = p.xAll(a, keep, depth, busy)
			if na[i] != a {
				changed = true
			}
		}
		if changed {
			c := *t
			c.Args = na
			c.str = ""
			nt = &c
		}
	}
	callT := nt
	if nt.Op == "extract" {
		callT = nt.Args[0]
	}
	if (callT.Op == "call" || callT.Op == "dyncall") && callT.Fn != nil && (keep == nil || !keep(callT.Fn)) {
		ex := p.xDepth(nt, 1, busy)
		if ex != nt {
			return p.xAll(ex, keep, depth-1, busy)
		}
	}
	return nt
}

// materialise: struct allocations of helper g inside t get their field contents attached as
// `fieldval` children, so that the substitution of g's parameters reaches them (a struct literal
// built inside a helper from the helper's parameters). Read them back with AllocFields.
func (p *Program) materialise(t *Term, g *ssa.Function, depth int) *Term {
	if t == nil || depth > 6 {
		return t
	}
	if t.Op == "alloc" && len(t.Args) == 0 {
		if al, ok := t.V.(*ssa.Alloc); ok && al.Parent() == g {
			_, bf := p.storesTo(al)
			if len(bf) > 0 {
				var names []string
				for f := range bf {
					names = append(names, f)
				}
				sort.Strings(names)
				c := *t
				c.str = ""
				for _, f := range names {
					for _, v := range bf[f] {
						c.Args = append(c.Args, mk("fieldval", f, v, p.materialise(p.TermOf(v), g, depth+1)))
					}
				}
				return &c
			}
		}
		return t
	}
	if len(t.Args) == 0 {
		return t
	}
	na := make([]*Term, len(t.Args))
	changed := false
	for i, a := range t.Args {
		na[i] = p.materialise(a, g, depth+1)
		if na[i] != a {
			changed = true
		}
	}
	if !changed {
		return t
	}
	c := *t
	c.Args = na
	c.str = ""
	return &c
}

// AllocFields: the values stored into the fields of the struct allocation t, as terms in the
// vocabulary t was built in (lifted when t comes out of a helper expansion).
func (p *Program) AllocFields(t *Term) map[string][]*Term {
	out := map[string][]*Term{}
	if t == nil {
		return out
	}
	if t.Op == "alloc" && len(t.Args) > 0 && t.Args[0].Op == "fieldval" {
		for _, a := range t.Args {
			if a.Op == "fieldval" {
				out[a.Name] = append(out[a.Name], a.Args[0])
			}
		}
		return out
	}
	if t.Op == "struct" {
		for _, a := range t.Args {
			if a.Op == "fieldval" && len(a.Args) == 1 {
				out[a.Name] = append(out[a.Name], a.Args[0])
			}
		}
		return out
	}
	if al, ok := t.V.(*ssa.Alloc); ok {
		_, bf := p.storesTo(al)
		for f, vs := range bf {
			for _, v := range vs {
				out[f] = append(out[f], p.TermOf(v))
			}
		}
	}
	return out
}

// FuncsWithGo: the functions of root's region plus the same-package functions it starts as
// goroutines (and their regions). For rules about what happens "in or on behalf of" root, not
// about paths through it.
func (p *Program) FuncsWithGo(root *ssa.Function, depth int) []*ssa.Function {
	seen := map[*ssa.Function]bool{}
	var out []*ssa.Function
	var addRegion func(fn *ssa.Function, d int)
	addRegion = func(fn *ssa.Function, d int) {
		for _, f := range p.RegionOf(fn, depth).Funcs() {
			if seen[f] {
				continue
			}
			seen[f] = true
			out = append(out, f)
			if d <= 0 {
				continue
			}
			eachInstr(f, func(in ssa.Instruction) {
				g, ok := in.(*ssa.Go)
				if !ok {
					return
				}
				t := g.Call.StaticCallee()
				if t == nil && !g.Call.IsInvoke() {
					if cl := p.TermOf(g.Call.Value).Resolve("closure"); cl != nil {
						t = cl.Fn
					}
				}
				if t != nil && !seen[t] && p.isHelperOf(root, t) {
					addRegion(t, d-1)
				}
			})
		}
	}
	addRegion(root, 2)
	return out
}

// UpParam: a parameter of an unexported function with a single static call site in the module is the
// argument passed there (in the caller's vocabulary); applied repeatedly, up to three levels.
// Other terms, and parameters of functions called from several places, are returned unchanged.
func (p *Program) UpParam(t *Term) *Term {
	for d := 0; d < 3; d++ {
		s := t.Strip()
		if s.Op != "param" || s.Fn == nil || s.Fn.Object() == nil || s.Fn.Object().Exported() {
			return t
		}
		var site *ssa.CallCommon
		n := 0
		for _, f := range p.ModFuncs {
			eachInstr(f, func(in ssa.Instruction) {
				if cc := callCommon(in); cc != nil && cc.StaticCallee() == s.Fn {
					n++
					site = cc
				}
			})
		}
		if n != 1 || s.Idx >= len(site.Args) {
			return t
		}
		t = p.TermOf(site.Args[s.Idx])
	}
	return t
}

// UpParamsDeep: every parameter of an unexported function with a single call site that occurs inside t is
// replaced by the argument of that call site (a closure built by a named constructor sees the
// constructor's parameters; what they stand for is known at the one place the constructor is called).
func (p *Program) UpParamsDeep(t *Term) *Term {
	for d := 0; d < 3; d++ {
		var fns []*ssa.Function
		seen := map[*ssa.Function]bool{}
		t.Has(func(x *Term) bool {
			if x.Op == "param" && x.Fn != nil && !seen[x.Fn] && x.Fn.Object() != nil && !x.Fn.Object().Exported() {
				seen[x.Fn] = true
				fns = append(fns, x.Fn)
			}
			return false
		})
		changed := false
		for _, g := range fns {
			var site *ssa.CallCommon
			n := 0
			for _, f := range p.ModFuncs {
				eachInstr(f, func(in ssa.Instruction) {
					if cc := callCommon(in); cc != nil && cc.StaticCallee() == g {
						n++
						site = cc
					}
				})
			}
			if n != 1 {
				continue
			}
			var args []*Term
			for _, a := range site.Args {
				args = append(args, p.TermOf(a))
			}
			nt := t.Subst(g, args)
			if nt.String() != t.String() {
				t = nt
				changed = true
			}
		}
		if !changed {
			break
		}
	}
	return t
}
