package main

import (
	"sort"

	"golang.org/x/tools/go/ssa"
)

// Helper transparency. Maintainers extract blocks into unexported helpers and
// turn closures into functions; rules that anchor on an exported or
// interface-mandated function must see through that. A Region is the subject
// function together with the same-package, non-recursive static callees (and
// the closures) it reaches within a small depth. Instructions of the region are
// described in the root's vocabulary: parameters of a helper are substituted by
// the arguments of its (unique) call site, dominating conditions are those
// inside the helper plus those at the call site, and ordering is decided on the
// call sites in the root.

type regionSite struct {
	owner *ssa.Function   // function containing the instruction
	chain []ssa.Instruction // call instructions from the root down to owner (empty for the root)
}

type Region struct {
	p     *Program
	root  *ssa.Function
	sites map[*ssa.Function][]regionSite // every way a function of the region is entered
	funcs []*ssa.Function
}

// isHelperOf: g may be looked through when analysing root.
func (p *Program) isHelperOf(root, g *ssa.Function) bool {
	if g == nil || len(g.Blocks) == 0 || g.Pkg == nil || root.Pkg == nil || g.Pkg != root.Pkg {
		return false
	}
	if g.Synthetic != "" {
		return false
	}
	return true
}

func (p *Program) RegionOf(root *ssa.Function, depth int) *Region {
	r := &Region{p: p, root: root, sites: map[*ssa.Function][]regionSite{}}
	r.sites[root] = []regionSite{{owner: root}}
	r.funcs = append(r.funcs, root)
	var visit func(fn *ssa.Function, chain []ssa.Instruction, d int, onPath map[*ssa.Function]bool)
	visit = func(fn *ssa.Function, chain []ssa.Instruction, d int, onPath map[*ssa.Function]bool) {
		if d <= 0 {
			return
		}
		add := func(g *ssa.Function, via ssa.Instruction) {
			if !p.isHelperOf(root, g) || onPath[g] {
				return
			}
			nc := append(append([]ssa.Instruction{}, chain...), via)
			if _, seen := r.sites[g]; !seen {
				r.funcs = append(r.funcs, g)
			}
			r.sites[g] = append(r.sites[g], regionSite{owner: g, chain: nc})
			onPath[g] = true
			visit(g, nc, d-1, onPath)
			delete(onPath, g)
		}
		eachInstr(fn, func(in ssa.Instruction) {
			if cc := callCommon(in); cc != nil {
				if _, isGo := in.(*ssa.Go); isGo {
					return
				}
				if g := cc.StaticCallee(); g != nil {
					add(g, in)
				} else if !cc.IsInvoke() {
					// call of a closure value
					if cl := p.TermOf(cc.Value).Resolve("closure"); cl != nil && cl.Fn != nil {
						add(cl.Fn, in)
					}
				}
			}
		})
	}
	visit(root, nil, depth, map[*ssa.Function]bool{root: true})
	return r
}

// Instrs visits every instruction of the region once per function (first entry site).
func (r *Region) Instrs(f func(site regionSite, in ssa.Instruction)) {
	for _, fn := range r.funcs {
		s := r.sites[fn][0]
		eachInstr(fn, func(in ssa.Instruction) { f(s, in) })
	}
}

// Calls returns the call-like instructions of the region whose callee satisfies pred.
func (r *Region) Calls(pred func(*ssa.CallCommon) bool) []regionInstr {
	var out []regionInstr
	r.Instrs(func(s regionSite, in ssa.Instruction) {
		if cc := callCommon(in); cc != nil && pred(cc) {
			out = append(out, regionInstr{s, in})
		}
	})
	return out
}

type regionInstr struct {
	site regionSite
	in   ssa.Instruction
}

// Term describes v (a value of site.owner) in the root's vocabulary.
func (r *Region) Term(s regionSite, v ssa.Value) *Term {
	t := r.p.TermOf(v)
	return r.lift(s, t)
}

func (r *Region) lift(s regionSite, t *Term) *Term {
	// substitute parameters of each function on the chain, innermost first
	owner := s.owner
	for i := len(s.chain) - 1; i >= 0; i-- {
		call := s.chain[i]
		cc := callCommon(call)
		var args []*Term
		for _, a := range cc.Args {
			args = append(args, r.p.TermOf(a))
		}
		if cc.StaticCallee() == nil && !cc.IsInvoke() {
			// closure call: parameters are the call's arguments
		}
		t = t.Subst(owner, args)
		owner = call.Parent()
	}
	return t
}

// Conds: branch outcomes that hold at the instruction, in the root's vocabulary.
func (r *Region) Conds(ri regionInstr) []Cond {
	var out []Cond
	s := ri.site
	cur := ri.in
	owner := s.owner
	for i := len(s.chain); i >= 0; i-- {
		sub := regionSite{owner: owner, chain: s.chain[:i]}
		for _, c := range r.p.CondsAt(cur.Block()) {
			out = append(out, Cond{Atom: r.lift(sub, c.Atom), Pol: c.Pol, V: c.V, Branch: c.Branch})
		}
		if i == 0 {
			break
		}
		cur = s.chain[i-1]
		owner = cur.Parent()
	}
	return out
}

// Anchor: the instruction of the root through which ri is reached (ri.in itself when it is in the root).
func (r *Region) Anchor(ri regionInstr) ssa.Instruction {
	if len(ri.site.chain) == 0 {
		return ri.in
	}
	return ri.site.chain[0]
}

// Before: a is executed before b on every path reaching b (decided on the anchors; inside one helper, locally).
func (r *Region) Before(a, b regionInstr) bool {
	aa, ab := r.Anchor(a), r.Anchor(b)
	if aa != ab {
		return instrBefore(aa, ab)
	}
	if a.site.owner == b.site.owner {
		return instrBefore(a.in, b.in)
	}
	// same call site, different depths: compare at the first differing level
	for i := 0; i < len(a.site.chain) && i < len(b.site.chain); i++ {
		if a.site.chain[i] != b.site.chain[i] {
			return instrBefore(a.site.chain[i], b.site.chain[i])
		}
	}
	if len(a.site.chain) < len(b.site.chain) {
		return instrBefore(a.in, b.site.chain[len(a.site.chain)])
	}
	return instrBefore(a.site.chain[len(b.site.chain)], b.in)
}

// MustHit: on every normal (non-error) path through fn an instruction satisfying hit is executed,
// directly or inside a helper of the region (summaries computed recursively).
func (r *Region) MustHit(fn *ssa.Function, hit func(ssa.Instruction) bool) bool {
	return r.mustHit(fn, hit, map[*ssa.Function]int{}, 0)
}

func (r *Region) mustHit(fn *ssa.Function, hit func(ssa.Instruction) bool, memo map[*ssa.Function]int, depth int) bool {
	if v, ok := memo[fn]; ok {
		return v == 1
	}
	memo[fn] = 2
	if depth > 4 || len(fn.Blocks) == 0 {
		return false
	}
	h := r.deepHit(hit, memo, depth)
	if r.p.EscapesWithout(fn, h, mustOpts{skipErrEdges: true}) == nil {
		memo[fn] = 1
		return true
	}
	return false
}

// deepHit lifts an instruction predicate to "this instruction satisfies it, or is a call to a helper that must".
func (r *Region) deepHit(hit func(ssa.Instruction) bool, memo map[*ssa.Function]int, depth int) func(ssa.Instruction) bool {
	return func(in ssa.Instruction) bool {
		if hit(in) {
			return true
		}
		if _, isDefer := in.(*ssa.Defer); isDefer {
			return false
		}
		if _, isGo := in.(*ssa.Go); isGo {
			return false
		}
		cc := callCommon(in)
		if cc == nil {
			return false
		}
		g := cc.StaticCallee()
		if g == nil && !cc.IsInvoke() {
			if cl := r.p.TermOf(cc.Value).Resolve("closure"); cl != nil {
				g = cl.Fn
			}
		}
		if g == nil || !r.p.isHelperOf(r.root, g) {
			return false
		}
		return r.mustHit(g, hit, memo, depth+1)
	}
}

// EscapesWithoutDeep: like EscapesWithout on the root, with helpers of the region counted through their summaries.
func (r *Region) EscapesWithoutDeep(hit func(ssa.Instruction) bool, o mustOpts) ssa.Instruction {
	return r.p.EscapesWithout(r.root, r.deepHit(hit, map[*ssa.Function]int{}, 0), o)
}

// Funcs: functions of the region, root first, helpers sorted by name.
func (r *Region) Funcs() []*ssa.Function {
	out := append([]*ssa.Function{}, r.funcs...)
	sort.SliceStable(out[1:], func(i, j int) bool { return out[1+i].String() < out[1+j].String() })
	return out
}

// ---- term-level helper transparency --------------------------------------------

// X expands a call to a module helper into the (substituted) terms it returns,
// recursively; anything else is returned unchanged. Multi-result calls are
// expanded when t is an extract of the call.
func (p *Program) X(t *Term) *Term {
	return p.xDepth(t, 4, map[*ssa.Function]bool{})
}

func (p *Program) xDepth(t *Term, depth int, busy map[*ssa.Function]bool) *Term {
	if t == nil || depth <= 0 {
		return t
	}
	idx := 0
	callT := t
	if t.Op == "extract" {
		idx = t.Idx
		callT = t.Args[0]
	}
	if callT.Op != "call" && callT.Op != "dyncall" {
		return t
	}
	g := callT.Fn
	if g == nil || len(g.Blocks) == 0 || g.Pkg == nil || !p.inModule(g.Pkg.Pkg.Path()) || busy[g] || g.Synthetic != "" {
		return t
	}
	if t.Op != "extract" && g.Signature.Results().Len() != 1 {
		return t
	}
	args := callT.Args
	if callT.Op == "dyncall" {
		args = args[1:]
	}
	busy[g] = true
	defer delete(busy, g)
	var alts []*Term
	for _, rt := range p.ReturnTerms(g) {
		if idx < len(rt) {
			alts = append(alts, p.xDepth(rt[idx].Subst(g, args), depth-1, busy))
		}
	}
	if len(alts) == 0 {
		return t
	}
	return oneOf("phi", t.V, alts)
}

// XAll expands helper calls everywhere inside t (bottom-up), keeping calls to functions in `keep`.
func (p *Program) XAll(t *Term, keep func(*ssa.Function) bool) *Term {
	return p.xAll(t, keep, 4, map[*ssa.Function]bool{})
}

func (p *Program) xAll(t *Term, keep func(*ssa.Function) bool, depth int, busy map[*ssa.Function]bool) *Term {
	if t == nil || depth <= 0 {
		return t
	}
	nt := t
	if len(t.Args) > 0 {
		na := make([]*Term, len(t.Args))
		changed := false
		for i, a := range t.Args {
			na[i] = p.xAll(a, keep, depth, busy)
			if na[i] != a {
				changed = true
			}
		}
		if changed {
			c := *t
			c.Args = na
			c.str = ""
			nt = &c
		}
	}
	callT := nt
	if nt.Op == "extract" {
		callT = nt.Args[0]
	}
	if (callT.Op == "call" || callT.Op == "dyncall") && callT.Fn != nil && (keep == nil || !keep(callT.Fn)) {
		ex := p.xDepth(nt, 1, busy)
		if ex != nt {
			return p.xAll(ex, keep, depth-1, busy)
		}
	}
	return nt
}
