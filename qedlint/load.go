package main

import (
	"fmt"
	"go/token"
	"go/types"
	"os"
	"sort"
	"strings"

	"golang.org/x/tools/go/callgraph"
	"golang.org/x/tools/go/callgraph/cha"
	"golang.org/x/tools/go/callgraph/vta"
	"golang.org/x/tools/go/packages"
	"golang.org/x/tools/go/ssa"
	"golang.org/x/tools/go/ssa/ssautil"
)

const modPath = "github.com/bbva/qed"

// Program is the resolved model of /repo every rule works on.
type Program struct {
	Fset      *token.FileSet
	Pkgs      map[string]*packages.Package // by import path (all, incl. deps)
	ModPkgs   []*packages.Package          // packages of the analysed module, sorted
	SSA       *ssa.Program
	SSAPkg    map[string]*ssa.Package
	AllFuncs  map[*ssa.Function]bool
	boundRecv map[*ssa.Function]ssa.Value // see boundOnlyReceiver
	extSites  map[*ssa.Function]int
	ModFuncs  []*ssa.Function // functions (incl. anonymous) whose package is in the module

	cg         *callgraph.Graph
	AllowedErr []string // allow-listed type errors actually seen
	RepoDir    string

	Overlay   map[string][]byte
	entryLS   map[*ssa.Function]lockSet
	reach     map[*ssa.Function]bool
	phiHook   func(*ssa.Phi) ssa.Value
	domCache  map[*ssa.Function]*domInfo
	termCache map[termKey]*Term
}

// checkerError is a failure of the machinery itself (never a verdict).
type checkerError struct{ msg string }

func fatalf(format string, a ...interface{}) {
	panic(checkerError{fmt.Sprintf(format, a...)})
}

// typeErrorAllowed implements the allow-list of DESIGN §1 fact 4: only the
// consequences of the cgo package that cannot be processed in this sandbox.
func typeErrorAllowed(pkgPath string, msg string) bool {
	switch pkgPath {
	case modPath + "/rocksdb":
		return true // could not import C / cgo flags: bodies of the wrapper are outside every analysis
	case modPath + "/consensus", modPath + "/storage/rocks":
		// a constant of C-derived type passed on: "invalid type" / "invalid constant type" / undefined via C
		return strings.Contains(msg, "invalid type") || strings.Contains(msg, "invalid constant type") ||
			strings.Contains(msg, "invalid operand") || strings.Contains(msg, "(invalid type)")
	}
	return false
}

func loadProgram(repo string, overlay map[string][]byte) *Program {
	os.Unsetenv("GOWORK")
	env := append(os.Environ(), "GOFLAGS=-mod=mod", "GOPROXY=off", "GOSUMDB=off", "GOTOOLCHAIN=local", "GOWORK=off", "CGO_ENABLED=1")
	fset := token.NewFileSet()
	cfg := &packages.Config{
		Mode:    packages.LoadAllSyntax,
		Dir:     repo,
		Fset:    fset,
		Env:     env,
		Tests:   false,
		Overlay: overlay,
	}
	roots, err := packages.Load(cfg, "./...")
	if err != nil {
		fatalf("packages.Load: %v", err)
	}
	if len(roots) == 0 {
		fatalf("no packages loaded from %s", repo)
	}
	p := &Program{Fset: fset, Pkgs: map[string]*packages.Package{}, SSAPkg: map[string]*ssa.Package{}, RepoDir: repo, Overlay: overlay,
		domCache: map[*ssa.Function]*domInfo{}, termCache: map[termKey]*Term{}}

	var order []*packages.Package // dependency order (deps first)
	seen := map[*packages.Package]bool{}
	var visit func(pk *packages.Package)
	visit = func(pk *packages.Package) {
		if seen[pk] {
			return
		}
		seen[pk] = true
		paths := make([]string, 0, len(pk.Imports))
		for k := range pk.Imports {
			paths = append(paths, k)
		}
		sort.Strings(paths)
		for _, k := range paths {
			visit(pk.Imports[k])
		}
		order = append(order, pk)
	}
	sort.Slice(roots, func(i, j int) bool { return roots[i].PkgPath < roots[j].PkgPath })
	for _, r := range roots {
		visit(r)
	}
	nmod := 0
	for _, pk := range order {
		p.Pkgs[pk.PkgPath] = pk
		inMod := pk.PkgPath == modPath || strings.HasPrefix(pk.PkgPath, modPath+"/")
		if inMod {
			nmod++
			p.ModPkgs = append(p.ModPkgs, pk)
		}
		for _, e := range pk.Errors {
			if inMod && typeErrorAllowed(pk.PkgPath, e.Msg) {
				p.AllowedErr = append(p.AllowedErr, pk.PkgPath+": "+e.Msg)
				continue
			}
			fatalf("unexpected load/type error in %s: %s (%s)", pk.PkgPath, e.Msg, e.Pos)
		}
		if pk.Types == nil {
			fatalf("package %s has no type information", pk.PkgPath)
		}
	}
	if nmod < 20 {
		fatalf("only %d packages of %s were loaded (expected the whole module)", nmod, modPath)
	}

	prog := ssa.NewProgram(fset, ssa.InstantiateGenerics)
	for _, pk := range order {
		if pk.PkgPath == modPath+"/rocksdb" {
			// cgo bodies cannot be type-checked: body-less externals
			p.SSAPkg[pk.PkgPath] = prog.CreatePackage(pk.Types, nil, nil, true)
			continue
		}
		if pk.TypesInfo == nil || len(pk.Syntax) == 0 && len(pk.GoFiles) > 0 {
			p.SSAPkg[pk.PkgPath] = prog.CreatePackage(pk.Types, nil, nil, true)
			continue
		}
		p.SSAPkg[pk.PkgPath] = prog.CreatePackage(pk.Types, pk.Syntax, pk.TypesInfo, true)
	}
	func() {
		defer func() {
			if r := recover(); r != nil {
				fatalf("SSA build panicked: %v", r)
			}
		}()
		prog.Build()
	}()
	p.SSA = prog
	p.AllFuncs = ssautil.AllFunctions(prog)
	for f := range p.AllFuncs {
		if f.Pkg != nil && p.inModule(f.Pkg.Pkg.Path()) && f.Synthetic == "" {
			p.ModFuncs = append(p.ModFuncs, f)
		} else if f.Pkg == nil && f.Parent() != nil {
			// anonymous functions always have Pkg set via parent; nothing to do
		}
	}
	sort.Slice(p.ModFuncs, func(i, j int) bool {
		a, b := p.ModFuncs[i], p.ModFuncs[j]
		if a.String() != b.String() {
			return a.String() < b.String()
		}
		return a.Pos() < b.Pos()
	})
	if len(p.ModFuncs) < 500 {
		fatalf("only %d module functions in SSA form", len(p.ModFuncs))
	}
	sort.Strings(p.AllowedErr)
	p.resolveRoles()
	theProg = p
	return p
}

func (p *Program) inModule(path string) bool {
	return path == modPath || strings.HasPrefix(path, modPath+"/")
}

// CallGraph returns the whole-program VTA graph (built once, lazily).
func (p *Program) CallGraph() *callgraph.Graph {
	if p.cg == nil {
		p.cg = vta.CallGraph(p.AllFuncs, cha.CallGraph(p.SSA))
	}
	return p.cg
}

// isTestScaffold reports whether the function is declared in a file that only
// exists to support tests (test_util.go etc. are compiled into production
// packages). Used to keep "every site in package P" quantifiers on production
// code; decided by reachability-free, file-independent criterion: the file
// imports the "testing" package or a module testutils package.
func (p *Program) isTestScaffold(f *ssa.Function) bool {
	root := f
	for root.Parent() != nil {
		root = root.Parent()
	}
	if root.Pkg == nil {
		return false
	}
	if strings.HasPrefix(root.Pkg.Pkg.Path(), modPath+"/testutils") || strings.HasPrefix(root.Pkg.Pkg.Path(), modPath+"/tests") {
		return true
	}
	pos := root.Pos()
	if !pos.IsValid() {
		return false
	}
	fname := p.Fset.Position(pos).Filename
	pk := p.Pkgs[root.Pkg.Pkg.Path()]
	if pk == nil {
		return false
	}
	for _, file := range pk.Syntax {
		if p.Fset.Position(file.Pos()).Filename != fname {
			continue
		}
		for _, imp := range file.Imports {
			v := strings.Trim(imp.Path.Value, `"`)
			if v == "testing" || strings.HasPrefix(v, modPath+"/testutils") || v == "github.com/stretchr/testify/require" || v == "github.com/stretchr/testify/assert" {
				return true
			}
		}
	}
	return false
}

// ---- anchors ---------------------------------------------------------

// Func resolves a package-level function; nil if absent.
func (p *Program) Func(pkg, name string) *ssa.Function {
	sp := p.SSAPkg[modPkg(pkg)]
	if sp == nil {
		return nil
	}
	if f := sp.Func(name); f != nil {
		return pureForwardTarget(f)
	}
	// renamed since the baseline (roles.go)
	return pureForwardTarget(roles.funcByName[relPkg(modPkg(pkg))+"\x00\x00"+name])
}

func modPkg(rel string) string {
	if rel == "" || rel == "." {
		return modPath
	}
	if strings.Contains(rel, ".") && !strings.HasPrefix(rel, modPath) && strings.Contains(strings.SplitN(rel, "/", 2)[0], ".") {
		return rel // external import path
	}
	if strings.HasPrefix(rel, modPath) {
		return rel
	}
	return modPath + "/" + rel
}

// Method resolves method `name` of named type `typ` (value or pointer receiver).
func (p *Program) Method(pkg, typ, name string) *ssa.Function {
	return pureForwardTarget(p.method0(pkg, typ, name))
}

// pureForwardTarget: when f does nothing but hand its parameters, in order, to one unexported
// function of its package and return that function's results (the body was moved into a "doX"),
// the subject of a rule about f is that function. Anything else in f (a lock, a test, a log call,
// a reordered or computed argument) keeps f as the subject.
func pureForwardTarget(f *ssa.Function) *ssa.Function {
	for d := 0; d < 2 && f != nil; d++ {
		if len(f.Blocks) != 1 || f.Recover != nil {
			return f
		}
		var call *ssa.Call
		ok := true
		var ret *ssa.Return
		for _, in := range f.Blocks[0].Instrs {
			switch x := in.(type) {
			case *ssa.Call:
				if call != nil {
					ok = false
				}
				call = x
			case *ssa.Extract:
			case *ssa.Return:
				ret = x
			case *ssa.DebugRef:
			default:
				ok = false
			}
		}
		if !ok || call == nil || ret == nil {
			return f
		}
		g := call.Call.StaticCallee()
		if g == nil || g.Pkg != f.Pkg || g.Synthetic != "" || len(g.Blocks) == 0 || g.Object() == nil || g.Object().Exported() || len(call.Call.Args) != len(f.Params) {
			return f
		}
		for i, a := range call.Call.Args {
			if a != ssa.Value(f.Params[i]) {
				return f
			}
		}
		// results handed back unchanged
		if len(ret.Results) == 1 {
			if ret.Results[0] != ssa.Value(call) {
				return f
			}
		} else {
			for i, rv := range ret.Results {
				ex, isEx := rv.(*ssa.Extract)
				if !isEx || ex.Tuple != ssa.Value(call) || ex.Index != i {
					return f
				}
			}
		}
		f = g
	}
	return f
}

func (p *Program) method0(pkg, typ, name string) *ssa.Function {
	if f := p.methodExact(pkg, typ, name); f != nil {
		return f
	}
	// renamed, or turned into a function taking the receiver, since the baseline (roles.go)
	if f := roles.funcByName[relPkg(modPkg(pkg))+"\x00"+typ+"\x00"+name]; f != nil {
		return f
	}
	// reshaped (other parameters): found by what it does
	if r := roleResolvers[pkg+"."+typ+"."+name]; r != nil {
		return r(p)
	}
	return nil
}

// roleResolvers: last-resort structural descriptions of unexported subjects whose signature may
// change in a refactoring (a method turned into a function with explicit dependencies).
var roleResolvers = map[string]func(p *Program) *ssa.Function{
	// the function of package server that signs a snapshot: the only one invoking Signer.Sign
	"server.Sender.doSign": func(p *Program) *ssa.Function {
		return uniqueFunc(p, "server", func(f *ssa.Function) bool {
			return len(callsIn(f, func(k *ssa.CallCommon) bool { return k.IsInvoke() && k.Method.Name() == "Sign" })) > 0
		})
	},
}

func uniqueFunc(p *Program, pkg string, pred func(*ssa.Function) bool) *ssa.Function {
	sp := p.SSAPkg[modPkg(pkg)]
	var found *ssa.Function
	for _, f := range p.ModFuncs {
		if f.Pkg != sp || f.Parent() != nil || f.Synthetic != "" || p.isTestScaffold(f) || !pred(f) {
			continue
		}
		if found != nil {
			return nil
		}
		found = f
	}
	return found
}

func (p *Program) methodExact(pkg, typ, name string) *ssa.Function {
	sp := p.SSAPkg[modPkg(pkg)]
	if sp == nil {
		return nil
	}
	var tn *types.TypeName
	if obj := sp.Pkg.Scope().Lookup(typ); obj != nil {
		tn, _ = obj.(*types.TypeName)
	}
	if tn == nil {
		tn = roles.typeByName[relPkg(modPkg(pkg))+"."+typ]
	}
	if tn == nil {
		return nil
	}
	for _, t := range []types.Type{tn.Type(), types.NewPointer(tn.Type())} {
		ms := p.SSA.MethodSets.MethodSet(t)
		for i := 0; i < ms.Len(); i++ {
			sel := ms.At(i)
			if sel.Obj().Name() == name && len(sel.Index()) == 1 { // declared, not promoted
				if fn := p.SSA.MethodValue(sel); fn != nil {
					// for value-receiver methods the pointer method set yields a wrapper; prefer declared
					if fn.Synthetic != "" {
						continue
					}
					return fn
				}
			}
		}
	}
	return nil
}

// MustFunc / MustMethod: the subject of a rule. Absence of an exported or
// interface-mandated subject is a checker error (the program would not
// compile against its users); callers use the non-Must forms for helpers.
func (p *Program) MustFunc(pkg, name string) *ssa.Function {
	f := p.Func(pkg, name)
	if f == nil {
		fatalf("subject not resolved: func %s.%s", pkg, name)
	}
	return f
}

func (p *Program) MustMethod(pkg, typ, name string) *ssa.Function {
	f := p.Method(pkg, typ, name)
	if f == nil {
		fatalf("subject not resolved: method %s.%s.%s", pkg, typ, name)
	}
	return f
}

// NamedType looks up a named type of the module.
func (p *Program) NamedType(pkg, name string) *types.Named {
	sp := p.SSAPkg[modPkg(pkg)]
	if sp == nil {
		return nil
	}
	obj := sp.Pkg.Scope().Lookup(name)
	if obj == nil {
		if tn := roles.typeByName[relPkg(modPkg(pkg))+"."+name]; tn != nil {
			n, _ := tn.Type().(*types.Named)
			return n
		}
		return nil
	}
	n, _ := obj.Type().(*types.Named)
	return n
}

// Anons returns the anonymous functions nested (at any depth) in f, in source order.
func Anons(f *ssa.Function) []*ssa.Function {
	var out []*ssa.Function
	var rec func(g *ssa.Function)
	seen := map[*ssa.Function]bool{f: true}
	rec = func(g *ssa.Function) {
		for _, a := range g.AnonFuncs {
			if seen[a] {
				continue
			}
			seen[a] = true
			out = append(out, a)
			rec(a)
		}
		// a closure rewritten as "small struct + method, used as a method value" still belongs to g
		if theProg != nil {
			eachInstr(g, func(in ssa.Instruction) {
				mc, ok := in.(*ssa.MakeClosure)
				if !ok {
					return
				}
				m := boundTarget(mc.Fn.(*ssa.Function))
				if m == nil || seen[m] || len(m.Params) == 0 || theProg.boundOnlyReceiver(m.Params[0]) == nil {
					return
				}
				seen[m] = true
				out = append(out, m)
				rec(m)
			})
			// a recursive closure rewritten as an unexported recursive function (or method of a small
			// carrier struct) called from g only still belongs to g
			eachInstr(g, func(in ssa.Instruction) {
				cc := callCommon(in)
				if cc == nil {
					return
				}
				m := cc.StaticCallee()
				if m == nil || seen[m] || m == g || m.Pkg == nil || m.Pkg != g.Pkg || m.Object() == nil || m.Object().Exported() || m.Synthetic != "" || len(selfCalls(m)) == 0 {
					return
				}
				if theProg.externalCallSites(m) != 1 {
					return
				}
				seen[m] = true
				out = append(out, m)
				rec(m)
			})
		}
	}
	rec(f)
	return out
}

func (p *Program) pos(pos token.Pos) string {
	if !pos.IsValid() {
		return "-"
	}
	ps := p.Fset.Position(pos)
	fn := ps.Filename
	if strings.HasPrefix(fn, p.RepoDir+"/") {
		fn = fn[len(p.RepoDir)+1:]
	}
	return fmt.Sprintf("%s:%d", fn, ps.Line)
}

// funcName gives a stable, line-free display name for a function.
func funcName(f *ssa.Function) string {
	if f == nil {
		return "<nil>"
	}
	// a renamed function keeps the label it had in the baseline, so that constructs (and the
	// known-findings keyed on them) stay stable; closures of it follow
	if l, ok := roles.funcLabel[f]; ok {
		return l
	}
	if par := f.Parent(); par != nil {
		if _, renamed := roles.funcLabel[outermost(f)]; renamed {
			return funcName(par) + strings.TrimPrefix(f.String(), par.String())
		}
	}
	s := f.String()
	s = strings.ReplaceAll(s, modPath+"/", "")
	return s
}

func outermost(f *ssa.Function) *ssa.Function {
	for f.Parent() != nil {
		f = f.Parent()
	}
	return f
}

// instrPos finds a usable position for an instruction (falls back to operands / block neighbours).
func instrPos(in ssa.Instruction) token.Pos {
	if in.Pos().IsValid() {
		return in.Pos()
	}
	if v, ok := in.(ssa.Value); ok {
		_ = v
	}
	var ops []*ssa.Value
	for _, op := range in.Operands(ops) {
		if *op != nil && (*op).Pos().IsValid() {
			return (*op).Pos()
		}
	}
	b := in.Block()
	if b != nil {
		for _, i2 := range b.Instrs {
			if i2.Pos().IsValid() {
				return i2.Pos()
			}
		}
		return b.Parent().Pos()
	}
	return token.NoPos
}

// Production: the function is reachable (VTA call graph) from the program's
// entry points — main.main and the package initialisers of the module — and
// is not test scaffolding. Functions only tests use (helpers, dead code) are
// outside every "for all sites" quantifier.
func (p *Program) Production(fn *ssa.Function) bool {
	if p.reach == nil {
		p.reach = map[*ssa.Function]bool{}
		cg := p.CallGraph()
		var work []*ssa.Function
		push := func(f *ssa.Function) {
			if f != nil && !p.reach[f] {
				p.reach[f] = true
				work = append(work, f)
			}
		}
		for path, sp := range p.SSAPkg {
			if !p.inModule(path) || strings.HasPrefix(path, modPath+"/testutils") || strings.HasPrefix(path, modPath+"/tests") {
				continue
			}
			push(sp.Func("init"))
			if sp.Pkg.Name() == "main" {
				push(sp.Func("main"))
			}
		}
		for len(work) > 0 {
			f := work[len(work)-1]
			work = work[:len(work)-1]
			if n := cg.Nodes[f]; n != nil {
				for _, e := range n.Out {
					push(e.Callee.Func)
				}
			}
			// closures created by a reachable function are reachable (they may be stored and called by libraries)
			for _, a := range f.AnonFuncs {
				push(a)
			}
		}
	}
	return p.reach[fn] && !p.isTestScaffold(fn)
}

// externalCallSites: the number of static call sites of m outside m itself (and its closures) in the module.
func (p *Program) externalCallSites(m *ssa.Function) int {
	if p.extSites == nil {
		p.extSites = map[*ssa.Function]int{}
		for _, f := range p.ModFuncs {
			f := f
			eachInstr(f, func(in ssa.Instruction) {
				if cc := callCommon(in); cc != nil {
					if g := cc.StaticCallee(); g != nil && g != f && outermost(f) != g {
						p.extSites[g]++
					}
				}
			})
		}
	}
	return p.extSites[m]
}
