package main

import (
	"fmt"
	"go/types"
	"strings"

	"golang.org/x/tools/go/ssa"
)

// ---- H1: batch-coordinate discipline of the hyper traversals -----------------
//
// Every hyper traversal closure works on a node identified by the triple
// (pos, batch, iBatch). A step or a batch accessor addressed with a different
// slot than the node's own (or, for a freshly created batch, slot 0), or a
// recursive call that does not descend to (Left, 2i+1) / (Right, 2i+2) /
// (same node in the next batch: nil, 0) / (same node again), reads or writes
// the hash of another node.

type hyperTrav struct {
	fn                      *ssa.Function
	posI, batchI, idxI, lvI int
}

func hyperTraversals(p *Program) []hyperTrav {
	sp := p.SSAPkg[modPkg(pkgHyper)]
	var out []hyperTrav
	for _, fn := range p.ModFuncs {
		if fn.Pkg != sp || p.isTestScaffold(fn) || fn.Synthetic != "" {
			continue
		}
		// traversal closures, or (after "closure → top-level function") unexported functions of the
		// same shape that return nothing (step constructors return the step)
		if fn.Parent() == nil && (fn.Signature.Results().Len() != 0 || fn.Signature.Recv() != nil || fn.Object() == nil || fn.Object().Exported()) {
			continue
		}
		t := hyperTrav{fn: fn, posI: -1, batchI: -1, idxI: -1, lvI: -1}
		for i, par := range fn.Params {
			switch {
			case namedIs(par.Type(), pkgHyper, "position"):
				t.posI = i
			case namedIs(par.Type(), pkgHyper, "batchNode"):
				t.batchI = i
			case isBasicKind(par.Type(), types.Int8):
				t.idxI = i
			default:
				if _, ok := par.Type().Underlying().(*types.Slice); ok && !namedIs(par.Type(), pkgHyper, "operationsStack") {
					t.lvI = i
				}
			}
		}
		if t.posI >= 0 && t.batchI >= 0 && t.idxI >= 0 {
			out = append(out, t)
		}
	}
	return out
}

func isBasicKind(t types.Type, k types.BasicKind) bool {
	b, ok := t.Underlying().(*types.Basic)
	return ok && b.Kind() == k
}

// isChildIdx: t == 2*idx + k
func isChildIdx(t *Term, isIdx func(*Term) bool, k string) bool {
	if t.Op != "binop" || t.Name != "+" {
		return false
	}
	for i := 0; i < 2; i++ {
		a, b := t.Args[i], t.Args[1-i]
		if b.Op == "const" && b.Name == k && a.Op == "binop" && a.Name == "*" {
			for j := 0; j < 2; j++ {
				x, y := a.Args[j], a.Args[1-j]
				if x.Op == "const" && x.Name == "2" && isIdx(y) {
					return true
				}
			}
		}
	}
	return false
}

func hyperCoordinates(c *Ctx, rule string) {
	p := c.P
	travs := hyperTraversals(p)
	if len(travs) < 8 {
		c.Fail(rule, "hyper:traversals", 0, fmt.Sprintf("only %d traversal closures with (pos, batch, iBatch) parameters found", len(travs)))
	}
	isTrav := map[*ssa.Function]*hyperTrav{}
	for i := range travs {
		isTrav[travs[i].fn] = &travs[i]
	}
	for _, tv := range travs {
		tv := tv
		fn := tv.fn
		isPos := func(t *Term) bool { return t.IsParam(fn, tv.posI) }
		isIdx := func(t *Term) bool { return t.IsParam(fn, tv.idxI) }
		// batch: the parameter, possibly re-loaded when nil
		isBatch := func(t *Term) bool {
			for _, a := range t.Alts() {
				if a.IsParam(fn, tv.batchI) {
					continue
				}
				if a.Op == "invoke" && a.Name == "Load" && len(a.Args) == 2 && isPos(a.Args[1]) {
					continue
				}
				return false
			}
			return true
		}
		isFreshBatch := func(t *Term) bool {
			return t.Op == "call" && t.Fn != nil && t.Fn.Signature.Results().Len() == 1 && namedIs(t.Fn.Signature.Results().At(0).Type(), pkgHyper, "batchNode") && t.Fn.Signature.Params().Len() == 1
		}
		isLeft := func(t *Term) bool {
			return t.Op == "call" && t.Fn != nil && t.Fn.Name() == "Left" && len(t.Args) == 1 && isPos(t.Args[0])
		}
		isRight := func(t *Term) bool {
			return t.Op == "call" && t.Fn != nil && t.Fn.Name() == "Right" && len(t.Args) == 1 && isPos(t.Args[0])
		}
		splitPart := func(t *Term, k int) bool {
			// inlined form: leaves[:S] / leaves[S:] with S = sort.Search(len(leaves), func(i) … Right(pos).Index …)
			if t.Op == "slice" && len(t.Args) == 3 && tv.lvI >= 0 && t.Args[0].IsParam(fn, tv.lvI) {
				s, other := t.Args[2], t.Args[1]
				if k == 1 {
					s, other = t.Args[1], t.Args[2]
				}
				if !(other.Op == "const" && other.Name == "_") || s.Op != "call" || s.Fn == nil || s.Fn.Name() != "Search" || len(s.Args) != 2 {
					return false
				}
				if mc, ok := s.Args[1].V.(*ssa.MakeClosure); ok {
					for _, b := range mc.Bindings {
						bt := p.TermOf(b)
						if al, isAl := b.(*ssa.Alloc); isAl {
							// a captured local: what was stored into it
							if whole, _ := p.storesTo(al); len(whole) == 1 {
								bt = p.TermOf(whole[0])
							}
						}
						if bt.IsField("Index", isRight) || isRight(bt) {
							return true
						}
					}
				}
				return false
			}
			// Split(leaves, Right(pos).Index)#k  (method or closure)
			if t.Op != "extract" || t.Idx != k {
				return false
			}
			call := t.Args[0]
			if call.Op != "call" && call.Op != "dyncall" {
				return false
			}
			args := call.Args
			if call.Op == "dyncall" {
				args = args[1:]
			}
			if len(args) != 2 || !(tv.lvI >= 0 && args[0].IsParam(fn, tv.lvI)) {
				return false
			}
			return args[1].IsField("Index", isRight)
		}
		bad := 0
		n := 0
		fail := func(in ssa.Instruction, what string) {
			bad++
			c.Fail(rule, funcName(fn), in.Pos(), what)
		}
		eachInstr(fn, func(in ssa.Instruction) {
			cc := callCommon(in)
			if cc == nil {
				return
			}
			// (c) recursive descent / dispatch
			var callee *ssa.Function
			if f := cc.StaticCallee(); f != nil {
				callee = f
			} else if !cc.IsInvoke() {
				if cl := p.TermOf(cc.Value).Resolve("closure"); cl != nil {
					callee = cl.Fn
				}
			}
			if ct := isTrav[callee]; ct != nil {
				n++
				a := cc.Args
				pos, batch, idx := p.TermOf(a[ct.posI]), p.TermOf(a[ct.batchI]), p.TermOf(a[ct.idxI])
				var lv *Term
				if ct.lvI >= 0 {
					lv = p.TermOf(a[ct.lvI])
				}
				isNil := func(t *Term) bool { return t.Op == "const" && t.Name == "nil" }
				isZero := func(t *Term) bool { return t.Op == "const" && t.Name == "0" }
				switch {
				case isLeft(pos) && isBatch(batch) && isChildIdx(idx, isIdx, "1") && (lv == nil || tv.lvI < 0 || splitPart(lv, 0)):
				case isRight(pos) && isBatch(batch) && isChildIdx(idx, isIdx, "2") && (lv == nil || tv.lvI < 0 || splitPart(lv, 1)):
				case isPos(pos) && isNil(batch) && isZero(idx): // same node, next batch
				case isPos(pos) && isBatch(batch) && isIdx(idx): // same node, same slot
				default:
					lvs := ""
					if lv != nil {
						lvs = " leaves=" + lv.String()
					}
					fail(in, fmt.Sprintf("descent to (pos=%s, batch=%s, slot=%s%s) is none of (Left,2i+1,left half) / (Right,2i+2,right half) / (same node, nil, 0) / (same node, same slot)", pos, batch, idx, lvs))
				}
				return
			}
			// (a) calls addressing a batch slot
			var bArg, iArg, pArg *Term
			var params []*types.Var
			if f := cc.StaticCallee(); f != nil {
				if f.Signature.Recv() != nil {
					params = append(params, f.Signature.Recv())
				}
				for i := 0; i < f.Signature.Params().Len(); i++ {
					params = append(params, f.Signature.Params().At(i))
				}
			} else {
				return
			}
			if len(params) != len(cc.Args) {
				return
			}
			for i, pv := range params {
				switch {
				case namedIs(pv.Type(), pkgHyper, "batchNode"):
					bArg = p.TermOf(cc.Args[i])
				case isBasicKind(pv.Type(), types.Int8):
					iArg = p.TermOf(cc.Args[i])
				case namedIs(pv.Type(), pkgHyper, "position") && i == 0 && cc.StaticCallee().Signature.Recv() == nil:
					pArg = p.TermOf(cc.Args[i])
				}
			}
			f := cc.StaticCallee()
			if isTrav[f] != nil {
				// a descent (or a sibling's disposal) through a named traversal function: its own slot or a child's
				if bArg != nil && iArg != nil && isBatch(bArg) && !(isIdx(iArg) || isChildIdx(iArg, isIdx, "1") || isChildIdx(iArg, isIdx, "2")) {
					fail(in, fmt.Sprintf("%s is entered for slot %s of the node's batch; the node being traversed is slot iBatch", f.Name(), iArg))
				}
				return
			}
			isStepCtor := f.Signature.Results().Len() == 1 && namedIs(f.Signature.Results().At(0).Type(), pkgHyper, "operation")
			if isStepCtor && pArg != nil {
				n++
				if !isPos(pArg) {
					fail(in, "step "+f.Name()+" is created for position "+pArg.String()+", not for the node being traversed")
				}
			}
			if bArg == nil || iArg == nil {
				return
			}
			n++
			switch {
			case isBatch(bArg):
				ok := isIdx(iArg)
				if !ok && f.Signature.Results().Len() == 0 && f.Signature.Recv() != nil {
					// child slots may be cleared when a shortcut leaf is pushed down
					ok = isChildIdx(iArg, isIdx, "1") || isChildIdx(iArg, isIdx, "2")
				}
				if !ok {
					fail(in, fmt.Sprintf("%s addresses slot %s of the node's batch; the node being traversed is slot iBatch", f.Name(), iArg))
				}
			case isFreshBatch(bArg):
				if !(iArg.Op == "const" && iArg.Name == "0") {
					fail(in, fmt.Sprintf("%s addresses slot %s of a freshly created batch; its root is slot 0", f.Name(), iArg))
				}
			default:
				fail(in, fmt.Sprintf("%s is applied to batch %s, which is neither the node's batch nor a fresh one", f.Name(), bArg))
			}
		})
		if bad == 0 {
			c.Ok(rule, funcName(fn), fn.Pos(), fmt.Sprintf("%d coordinate use(s) consistent", n))
		}
	}
}

// ---- H2: in-place list mutation must not be visible to sibling branches -------

func isInPlaceMutator(p *Program, f *ssa.Function) bool {
	if f == nil || f.Signature.Recv() == nil || len(f.Blocks) == 0 {
		return false
	}
	if _, ok := f.Signature.Recv().Type().Underlying().(*types.Slice); !ok {
		return false
	}
	found := false
	eachInstr(f, func(in ssa.Instruction) {
		cc := callCommon(in)
		if cc == nil {
			return
		}
		if b, ok := cc.Value.(*ssa.Builtin); ok && b.Name() == "copy" {
			d := p.TermOf(cc.Args[0])
			if d.Has(func(t *Term) bool { return t.IsParam(f, 0) }) || d.Has(func(t *Term) bool { return t.Op == "builtin" && t.Name == "append" }) {
				found = true
			}
		}
	})
	return found
}

func hyperListOwnership(c *Ctx, rule string) {
	p := c.P
	n := 0
	for _, tv := range hyperTraversals(p) {
		tv := tv
		fn := tv.fn
		if tv.lvI < 0 {
			continue
		}
		eachInstr(fn, func(in ssa.Instruction) {
			cc := callCommon(in)
			if cc == nil {
				return
			}
			f := cc.StaticCallee()
			if !isInPlaceMutator(p, f) {
				return
			}
			n++
			recv := p.TermOf(cc.Args[0])
			// fresh copy: append(x[:0:0], x...) or make+copy
			fresh := false
			if recv.Op == "builtin" && recv.Name == "append" {
				base := recv.Args[0]
				if sl, ok := base.V.(*ssa.Slice); ok && sl.Max != nil {
					if k, ok := sl.Max.(*ssa.Const); ok && k.Int64() == 0 {
						fresh = true
					}
				}
				if base.Op == "alloc" || base.Op == "const" {
					fresh = true
				}
			}
			if recv.Op == "alloc" {
				fresh = true
			}
			if fresh {
				c.Ok(rule, funcName(fn)+":"+f.Name(), in.Pos(), "in-place insertion works on a fresh copy of the list")
				return
			}
			// single-element traversal: the enclosing constructor builds its list without a loop
			root := fn
			for root.Parent() != nil {
				root = root.Parent()
			}
			if !hasLoop(root) {
				c.Ok(rule, funcName(fn)+":"+f.Name(), in.Pos(), "single-leaf traversal ("+root.Name()+" builds a one-element list): no sibling branch shares the backing array")
				return
			}
			c.Fail(rule, funcName(fn)+":"+f.Name(), in.Pos(), "the list "+recv.String()+" is modified in place by "+f.Name()+" although it shares its backing array with the halves handed to sibling branches (Split returns sub-slices); a copy with zero capacity is required")
		})
	}
	if n == 0 {
		c.Fail(rule, "hyper:push-down", 0, "no push-down of a shortcut leaf (in-place sorted insertion) found in the insert traversals")
	}
}

// ---- H3: a reused read buffer is consumed only up to the count just read --------

func inCycle(b *ssa.BasicBlock) bool {
	seen := map[*ssa.BasicBlock]bool{}
	work := append([]*ssa.BasicBlock{}, b.Succs...)
	for len(work) > 0 {
		x := work[len(work)-1]
		work = work[:len(work)-1]
		if x == b {
			return true
		}
		if seen[x] {
			continue
		}
		seen[x] = true
		work = append(work, x.Succs...)
	}
	return false
}

func readerBufferDiscipline(c *Ctx, rule string, pkgs []string) {
	p := c.P
	want := map[string]bool{}
	for _, k := range pkgs {
		want[modPkg(k)] = true
	}
	n := 0
	for _, fn := range p.ModFuncs {
		if fn.Pkg == nil || !want[fn.Pkg.Pkg.Path()] || !p.Production(fn) {
			continue
		}
		fn := fn
		eachInstr(fn, func(in ssa.Instruction) {
			cc := callCommon(in)
			if cc == nil || !cc.IsInvoke() || cc.Method.Name() != "Read" || !namedIs(cc.Value.Type(), "storage", "KVPairReader") {
				return
			}
			n++
			call := in.(*ssa.Call)
			buf := cc.Args[0]
			label := funcName(fn) + ":Read"
			var mk ssa.Value
			var mkBlock *ssa.BasicBlock
			switch b := buf.(type) {
			case *ssa.MakeSlice:
				mk, mkBlock = b, b.Block()
			case *ssa.Slice:
				if al, ok := b.X.(*ssa.Alloc); ok && b.Low == nil {
					mk, mkBlock = b, al.Block()
				}
			}
			if mk == nil {
				c.Fail(rule, label, in.Pos(), "the read buffer is not a slice made in this function: its reuse across reads cannot be tracked")
				return
			}
			reused := !inCycle(mkBlock) && inCycle(call.Block())
			if !reused {
				c.Ok(rule, label, in.Pos(), "fresh buffer per read: stale entries cannot be seen")
				return
			}
			// count = result #0 of this Read, or of any Read into the same buffer in this function
			// (a three-clause `for n, err := r.Read(buf); …; n, err = r.Read(buf)` has two sites
			// whose counts meet in a phi)
			var count ssa.Value
			counts := map[ssa.Value]bool{}
			eachInstr(fn, func(i2 ssa.Instruction) {
				c2, isCall := i2.(*ssa.Call)
				if !isCall || !c2.Call.IsInvoke() || c2.Call.Method.Name() != "Read" || len(c2.Call.Args) == 0 || c2.Call.Args[0] != buf {
					return
				}
				for _, r := range *c2.Referrers() {
					if ex, ok := r.(*ssa.Extract); ok && ex.Index == 0 {
						counts[ex] = true
						if c2 == call {
							count = ex
						}
					}
				}
			})
			var isCount func(v ssa.Value, depth int) bool
			isCount = func(v ssa.Value, depth int) bool {
				if counts[v] {
					return true
				}
				if ph, ok := v.(*ssa.Phi); ok && depth < 3 {
					for _, e := range ph.Edges {
						if !isCount(e, depth+1) {
							return false
						}
					}
					return len(ph.Edges) > 0
				}
				return false
			}
			bad := 0
			uses := 0
			for _, r := range *mk.Referrers() {
				var idx ssa.Value
				var at ssa.Instruction
				switch u := r.(type) {
				case *ssa.IndexAddr:
					idx, at = u.Index, u
				case *ssa.Slice:
					// tiles[:n] is fine; any other re-slice is not tracked
					if u.High != nil && count != nil && isCount(u.High, 0) && u.Low == nil {
						continue
					}
					if len(*u.Referrers()) > 0 {
						bad++
						c.Fail(rule, label, u.Pos(), "the reused read buffer is re-sliced with a bound other than the count just read")
					}
					continue
				case *ssa.Range:
					bad++
					c.Fail(rule, label, u.Pos(), "the reused read buffer is ranged over in full; only the first n entries belong to this read")
					continue
				default:
					continue
				}
				uses++
				it := p.TermOf(idx)
				cs := p.CondsAt(at.Block())
				okb := count != nil && impliesLT(cs, func(t *Term) bool { return t.String() == it.String() }, func(t *Term) bool { return t.V != nil && isCount(t.V, 0) })
				if !okb {
					bad++
					c.Fail(rule, label, at.Pos(), "entry "+it.String()+" of the reused read buffer is used without the bound i < n (n = entries returned by this Read): entries of the previous chunk would be processed again")
				}
			}
			if bad == 0 {
				c.Ok(rule, label, in.Pos(), fmt.Sprintf("reused buffer, %d element use(s) all bounded by the count read", uses))
			}
		})
	}
	if n == 0 {
		c.Fail(rule, "readers", 0, "no KVPairReader.Read loop found")
	}
}

// ---- H4: a failed batch load must not be mistaken for an empty batch --------------

func hyperLoaderErrors(c *Ctx, rule string) {
	p := c.P
	sp := p.SSAPkg[modPkg(pkgHyper)]
	n := 0
	for _, fn := range p.ModFuncs {
		if fn.Pkg != sp || !p.Production(fn) {
			continue
		}
		fn := fn
		eachInstr(fn, func(in ssa.Instruction) {
			cc := callCommon(in)
			if cc == nil || !cc.IsInvoke() || cc.Method.Name() != "Get" || !namedIs(cc.Value.Type(), "storage", "Store") {
				return
			}
			n++
			call := in.(*ssa.Call)
			var errV ssa.Value
			for _, r := range *call.Referrers() {
				if ex, ok := r.(*ssa.Extract); ok && ex.Index == 1 {
					errV = ex
				}
			}
			label := funcName(fn) + ":store.Get"
			if errV == nil {
				c.Fail(rule, label, in.Pos(), "the error of store.Get is discarded")
				return
			}
			// find the edge: err != nil && err != ErrKeyNotFound; from there no normal return
			bad := 0
			found := false
			for _, b := range fn.Blocks {
				cs := p.CondsAt(b)
				nonNil := hasCond(cs, func(k Cond) bool {
					return !k.Pol && k.Atom.Op == "EQ" && (k.Atom.Args[0].V == errV || k.Atom.Args[1].V == errV) && (k.Atom.Args[0].Name == "nil" || k.Atom.Args[1].Name == "nil")
				})
				notNF := hasCond(cs, func(k Cond) bool {
					return !k.Pol && k.Atom.Op == "EQ" && (k.Atom.Args[0].V == errV || k.Atom.Args[1].V == errV) && (strings.Contains(k.Atom.Args[0].String(), "ErrKeyNotFound") || strings.Contains(k.Atom.Args[1].String(), "ErrKeyNotFound"))
				})
				if !nonNil || !notNF || len(b.Instrs) == 0 {
					continue
				}
				// entry blocks of the region only
				if b.Idom() != nil {
					pcs := p.CondsAt(b.Idom())
					pn := hasCond(pcs, func(k Cond) bool {
						return !k.Pol && k.Atom.Op == "EQ" && (k.Atom.Args[0].V == errV || k.Atom.Args[1].V == errV) && (strings.Contains(k.Atom.Args[0].String(), "ErrKeyNotFound") || strings.Contains(k.Atom.Args[1].String(), "ErrKeyNotFound"))
					})
					if pn && hasCond(pcs, func(k Cond) bool {
						return !k.Pol && k.Atom.Op == "EQ" && (k.Atom.Args[0].V == errV || k.Atom.Args[1].V == errV) && (k.Atom.Args[0].Name == "nil" || k.Atom.Args[1].Name == "nil")
					}) {
						continue
					}
				}
				found = true
				esc := p.EscapesWithout(fn, isAbortCall, mustOpts{start: b.Instrs[0]})
				if isAbortCall(b.Instrs[0]) {
					esc = nil
				}
				if esc != nil {
					bad++
					c.Fail(rule, label, esc.Pos(), "a store read error other than not-found is survived and the function returns normally: the subtree is then treated as empty and a non-canonical digest is computed and persisted")
				}
			}
			if !found {
				c.Fail(rule, label, in.Pos(), "no branch distinguishes a read failure from key-not-found")
			} else if bad == 0 {
				c.Ok(rule, label, in.Pos(), "read failures other than not-found abort (no normal return)")
			}
		})
	}
	if n == 0 {
		c.Fail(rule, "hyper:loader", 0, "no store read found in the hyper batch loader")
	}
}

// isAbortCall: panic, logger Fatal*/Panic*, os.Exit.
func isAbortCall(in ssa.Instruction) bool {
	if _, ok := in.(*ssa.Panic); ok {
		return true
	}
	cc := callCommon(in)
	if cc == nil {
		return false
	}
	name := ""
	if cc.IsInvoke() {
		name = cc.Method.Name()
	} else if f := cc.StaticCallee(); f != nil {
		name = f.Name()
		if f.Pkg != nil && f.Pkg.Pkg.Path() == "os" && name == "Exit" {
			return true
		}
	}
	return strings.HasPrefix(name, "Fatal") || strings.HasPrefix(name, "Panic")
}
