package main

import (
	"fmt"
	"go/types"
	"strings"

	"golang.org/x/tools/go/ssa"
)

// ---- deliveries are blocking sends ------------------------------------------------------
//
// A producer that hands an item to a channel inside a select with a timeout or a default
// case drops the item when the consumer is slow; nothing upstream keeps it. Wherever the
// property needs "every item arrives", the hand-over must be a plain (blocking) send.
func blockingDelivery(c *Ctx, rule string, fn *ssa.Function, what string) {
	p := c.P
	_ = p
	n, bad := 0, 0
	for _, f := range p.FuncsWithGo(fn, 3) {
		eachInstr(f, func(in ssa.Instruction) {
			switch x := in.(type) {
			case *ssa.Send:
				n++
			case *ssa.Select:
				for _, st := range x.States {
					if st.Dir == types.SendOnly {
						n++
						if !x.Blocking || len(x.States) > 1 {
							bad++
							c.Fail(rule, funcName(fn)+":delivery", in.Pos(), what+" is handed over inside a select with "+selectAlternatives(x)+": when the consumer is slow the item is dropped, and nothing upstream keeps or resends it")
						}
					}
				}
			}
		})
	}
	if n == 0 {
		c.Fail(rule, funcName(fn)+":delivery", fn.Pos(), "no channel hand-over of "+what+" found")
	} else if bad == 0 {
		c.Ok(rule, funcName(fn)+":delivery", fn.Pos(), fmt.Sprintf("%d blocking send(s)", n))
	}
}

func selectAlternatives(s *ssa.Select) string {
	var alts []string
	if !s.Blocking {
		alts = append(alts, "a default case")
	}
	for _, st := range s.States {
		if st.Dir == types.RecvOnly {
			alts = append(alts, "a receive alternative (e.g. a timeout)")
		}
	}
	if len(alts) == 0 {
		return "other alternatives"
	}
	return strings.Join(alts, " and ")
}

// ---- what is signed is the whole snapshot ---------------------------------------------------
//
// The sender signs a fmt rendering of the snapshot value. fmt consults String/Format/GoString/
// Error methods of the value: such a method on the snapshot type changes (and may shorten) what
// the signature covers without touching the signing code.
func snapshotHasNoFormatter(c *Ctx, rule string) {
	p := c.P
	nt := p.NamedType("protocol", "Snapshot")
	if nt == nil {
		c.Fail(rule, "protocol.Snapshot:formatter", 0, "type protocol.Snapshot not found")
		return
	}
	var found []string
	for _, t := range []types.Type{nt, types.NewPointer(nt)} {
		ms := types.NewMethodSet(t)
		for i := 0; i < ms.Len(); i++ {
			switch ms.At(i).Obj().Name() {
			case "String", "Format", "GoString", "Error", "MarshalText":
				found = append(found, ms.At(i).Obj().Name())
			}
		}
	}
	c.Check(len(found) == 0, rule, "protocol.Snapshot:formatter", nt.Obj().Pos(), "the snapshot is rendered field by field by fmt's default formatting", "protocol.Snapshot has a "+strings.Join(uniq(found), "/")+" method: fmt uses it when the sender renders the snapshot for signing, so the signature covers whatever that method prints instead of every field in full")
}

// ---- the key pair is checked when it is loaded --------------------------------------------------
//
// A signer built from files reports success only if a test signature verified with the loaded
// public key (a stale .pub next to a rotated private key must be refused).
func signerSelfCheck(c *Ctx, rule string) {
	p := c.P
	ctor := p.MustFunc("crypto/sign", "NewEd25519SignerFromFile")
	// the test verification may sit in a helper of the signer (selfCheck): found in the constructor's region
	var verify *ssa.Call
	var anchor ssa.Instruction
	rg := p.RegionOf(ctor, 2)
	for _, ri := range rg.Calls(func(k *ssa.CallCommon) bool {
		f := k.StaticCallee()
		return f != nil && f.Name() == "Verify" && f.Signature.Recv() != nil
	}) {
		if call, ok := ri.in.(*ssa.Call); ok {
			verify, anchor = call, rg.Anchor(ri)
		}
	}
	name := funcName(ctor) + ":self-check"
	if verify == nil {
		c.Fail(rule, name, ctor.Pos(), "the constructor does not verify a test signature with the loaded keys")
		return
	}
	bad := 0
	nOK := 0
	for _, b := range ctor.Blocks {
		if len(b.Instrs) == 0 || b == ctor.Recover {
			continue
		}
		ret, ok := b.Instrs[len(b.Instrs)-1].(*ssa.Return)
		if !ok {
			continue
		}
		if k, isC := RetVal(ret, len(ret.Results)-1).(*ssa.Const); !isC || k.Value != nil {
			continue // error return
		}
		if !instrReaches(anchor, ret) {
			continue
		}
		nOK++
		cs := p.CondsAt(b)
		verified := hasCond(cs, func(k Cond) bool {
			a := k.Atom
			isRes := func(t *Term) bool {
				return t.Op == "extract" && t.Idx == 0 && t.Args[0].V == ssa.Value(verify)
			}
			if k.Pol && isRes(a) {
				return true
			}
			if a.Op == "EQ" {
				for i := 0; i < 2; i++ {
					x, y := a.Args[i], a.Args[1-i]
					if isRes(x) && y.Op == "const" {
						return (y.Name == "true") == k.Pol
					}
				}
			}
			return false
		})
		if !verified {
			bad++
			c.Fail(rule, name, ret.Pos(), "the signer is returned without the test verification having succeeded on this path (conds: "+strings.Join(condStrings(cs), " ∧ ")+"): a private key whose .pub file does not match is accepted and every snapshot it signs fails verification")
		}
	}
	if nOK == 0 {
		c.Fail(rule, name, ctor.Pos(), "no successful return after the test verification")
	} else if bad == 0 {
		c.Ok(rule, name, ctor.Pos(), "success only when the test signature verified")
	}
}

// ---- the duplicate-suppression cache is always there ------------------------------------------
//
// BatchProcessor.wasProcessed answers "not processed" when the agent has no cache. The option that
// installs the cache must therefore install one on every path (freecache rounds any size up to its
// minimum); an option that skips the allocation for some sizes turns every redelivery into new work.
func cacheOptionAlwaysSets(c *Ctx, rule string) {
	p := c.P
	opt := p.MustFunc("gossip", "SetCache")
	n := 0
	for _, cl := range returnedFuncs(p, opt) {
		cl := cl
		isStore := func(in ssa.Instruction) bool {
			st, ok := in.(*ssa.Store)
			if !ok {
				return false
			}
			fa, ok := st.Addr.(*ssa.FieldAddr)
			return ok && structFieldName(deref(fa.X.Type()), fa.Field) == "Cache" && !isNilConst(st.Val)
		}
		found := false
		eachInstr(cl, func(in ssa.Instruction) {
			if isStore(in) {
				found = true
			}
		})
		if !found {
			continue
		}
		n++
		esc := p.EscapesWithout(cl, isStore, mustOpts{skipErrEdges: true})
		c.Check(esc == nil, rule, funcName(opt)+":always-sets", cl.Pos(), "the option installs a cache on every path", "the cache option can return without installing a cache (for some sizes): an agent without cache answers \"not processed\" for every delivery, so the same batch is processed and forwarded again each time it arrives")
	}
	if n == 0 {
		c.Fail(rule, funcName(opt)+":always-sets", opt.Pos(), "the cache option does not install a cache")
	}
}

// ---- each message is decoded into its own batch ---------------------------------------------------
//
// The processing loop hands the decoded batch to tasks that run later; the object it decodes into
// must be allocated per message (inside the loop), or queued tasks see the batch of a later message.
func batchPerMessage(c *Ctx, rule string) {
	p := c.P
	sub := p.MustMethod("gossip", "BatchProcessor", "Subscribe")
	n := 0
	seenFn := map[*ssa.Function]bool{}
	for _, fn := range append(append([]*ssa.Function{sub}, Anons(sub)...), p.FuncsWithGo(sub, 3)...) {
		if seenFn[fn] {
			continue
		}
		seenFn[fn] = true
		fn := fn
		eachInstr(fn, func(in ssa.Instruction) {
			cc := callCommon(in)
			if cc == nil || cc.StaticCallee() == nil || cc.StaticCallee().Name() != "Decode" || len(cc.Args) == 0 || !namedIs(cc.Args[0].Type(), "protocol", "BatchSnapshots") {
				return
			}
			n++
			// allocated as often as it is decoded into: in the same function, and not hoisted out of the loop the
			// decode runs in (a per-message helper allocates and decodes once per call)
			al, ok := cc.Args[0].(*ssa.Alloc)
			fresh := ok && al.Parent() == fn && !(inCycle(in.Block()) && !inCycle(al.Block()))
			c.Check(fresh, rule, funcName(sub)+":batch-per-message", in.Pos(), "decoded into a batch allocated for this message", "the batch a message is decoded into is not allocated inside the processing loop ("+p.TermOf(cc.Args[0]).String()+"): tasks queued for an earlier message hold the same object and, when they run, see the batch of a later one")
		})
	}
	if n == 0 {
		c.Fail(rule, funcName(sub)+":batch-per-message", sub.Pos(), "the processing loop does not decode the payload into a batch")
	}
}

// ---- an optional version is optional only when absent ---------------------------------------------
//
// The client sends the queried version whenever the caller gave one; deciding by the VALUE of
// the version (e.g. > 0) sends version 0 as "no version" and the server answers for its latest.
func optionalVersionByPresence(c *Ctx, rule string, fn *ssa.Function, paramIdx int) {
	p := c.P
	n := 0
	bad := 0
	eachInstr(fn, func(in ssa.Instruction) {
		st, ok := in.(*ssa.Store)
		if !ok {
			return
		}
		fa, ok := st.Addr.(*ssa.FieldAddr)
		if !ok || structFieldName(deref(fa.X.Type()), fa.Field) != "Version" || !p.TermOf(st.Val).IsParam(fn, paramIdx) {
			return
		}
		n++
		for _, k := range p.CondsAt(in.Block()) {
			// allowed: version != nil ; any other comparison involving the version is a decision by its value
			// (pointers are transparent in terms: *version and version are the same term)
			a := k.Atom
			if !a.HasLocal(func(x *Term) bool { return x.IsParam(fn, paramIdx) }) {
				continue
			}
			isNilTest := a.Op == "EQ" && (a.Args[0].Op == "const" && a.Args[0].Name == "nil" || a.Args[1].Op == "const" && a.Args[1].Name == "nil")
			if !isNilTest {
				bad++
				c.Fail(rule, funcName(fn)+":optional-version", in.Pos(), "the query carries the version only under "+k.String()+": a decision by the version's value, not by its presence — version 0 is sent as \"no version\" and the server answers for its latest version")
			}
		}
	})
	if n == 0 {
		c.Fail(rule, funcName(fn)+":optional-version", fn.Pos(), "no query carrying the caller's version is built")
	} else if bad == 0 {
		c.Ok(rule, funcName(fn)+":optional-version", fn.Pos(), "version sent whenever given")
	}
}

func isLoadOfParam(v ssa.Value, fn *ssa.Function, idx int) bool {
	u, ok := v.(*ssa.UnOp)
	if !ok {
		return false
	}
	pa, ok := u.X.(*ssa.Parameter)
	return ok && pa.Parent() == fn && paramIndex(pa) == idx
}

// returnedFuncs: the functions whose values fn returns — closures defined in it, or methods bound
// to a value (x.m), unwrapped from their synthetic wrapper.
func returnedFuncs(p *Program, fn *ssa.Function) []*ssa.Function {
	var out []*ssa.Function
	seen := map[*ssa.Function]bool{}
	add := func(g *ssa.Function) {
		if g == nil || seen[g] {
			return
		}
		seen[g] = true
		if g.Synthetic != "" {
			// bound-method / thunk wrapper: the method it forwards to
			eachInstr(g, func(in ssa.Instruction) {
				if cc := callCommon(in); cc != nil && cc.StaticCallee() != nil && !seen[cc.StaticCallee()] {
					seen[cc.StaticCallee()] = true
					out = append(out, cc.StaticCallee())
				}
			})
			return
		}
		out = append(out, g)
	}
	for _, b := range fn.Blocks {
		ret, ok := b.Instrs[len(b.Instrs)-1].(*ssa.Return)
		if !ok {
			continue
		}
		for _, rv := range ret.Results {
			var walk func(v ssa.Value, d int)
			walk = func(v ssa.Value, d int) {
				if d > 4 {
					return
				}
				switch x := v.(type) {
				case *ssa.MakeClosure:
					add(x.Fn.(*ssa.Function))
				case *ssa.Function:
					add(x)
				case *ssa.Phi:
					for _, e := range x.Edges {
						walk(e, d+1)
					}
				case *ssa.ChangeType:
					walk(x.X, d+1)
				case *ssa.MakeInterface:
					walk(x.X, d+1)
				}
			}
			walk(rv, 0)
		}
	}
	if len(out) == 0 {
		out = Anons(fn)
	}
	return out
}
