package main

import (
	"fmt"
	"go/constant"
	"go/token"
	"go/types"
	"strings"

	"golang.org/x/tools/go/ssa"
)

func init() {
	register("C04", propMeta{
		Explanation: "Decides conformance of every hash construction site and of the digest-relevant plumbing to the published construction: (R1) history leaf=H(value‖pos), inner=H(L‖R‖pos), partial=H(L‖pos) in all visitors, hyper leaf/inner steps salted with their position, no hashing elsewhere; " +
			"(R2) every production Hasher: Salted(salt,data…)=Do(data…,salt), Do resets, writes every element in order and returns Sum(nil); fakes are never constructed by production code; (R3) position encodings (history BE64‖BE16, root height bits.Len64(version); hyper BE16‖index, root = zero index at 8·len); " +
			"(R4) hyper default hashes [0]=Do({0},{0}), [i]=Do([i-1],[i-1]); (R5) insert, bulk insert and verify prepare the leaf value identically; (R6) history bulk insertion = the single insertion traversal with version=initial+i; (R7) freeze rule + insertion computes the shape prover/verifier recompute; " +
			"(R8) caches are read-through and wired to the table the tree writes; (R9) hyper traversals address their own (pos, batch, slot); (R10) in-place list insertion never aliases sibling branches; (R11) reused read buffers are consumed up to the count read (cache rebuild after restart); (R12) a failed batch load is never taken for an empty batch.",
		Added:       "Also (R13) no leaf of a bulk is dropped, persisted batch = written batch, a repeated key keeps its first value; (R14) the state-transfer filter skips exactly what the follower has. Third round: (R13) shortcut arguments and push-down resets as in C01.R12; (R9) one ordering convention for leaf lists; (R11) one recovery level and tiles persisted whenever cached. Fifth round: the applied-index marker persisted with an entry is the entry's own new state.",
		Assumptions: []string{"SHA-256 / BLAKE2b implementations", "store returns what was written"},
		Declined:    "equality with an independent reference on all sequences, independence from batching for the hyper push-down logic as a whole, from cache evictions and restarts as value-level statements.",
	}, runC04)
}

func runC04(c *Ctx) {
	c.Rule("R15", "the applied-index marker persisted with an entry is the entry's own new state (a stale marker makes the last entry replay after a restart: duplicated events under new versions change every later digest)", 2)
	if _, aa := fsmApplyGuard(c, "R15"); aa != nil {
		fsmApplyAdd(c, "R15", aa)
	}
	c.Rule("R1", "hash construction sites conform (history visitors, hyper steps)", 12)
	c.Rule("R2", "Hasher implementations: Salted = Do(data…, salt); Do = reset, write all in order, Sum(nil); fakes not used in production", 4)
	c.Rule("R3", "position encodings and root positions", 4)
	c.Rule("R4", "hyper default-hash table", 2)
	c.Rule("R5", "leaf value preparation agrees between insert, bulk insert and verify", 3)
	c.Rule("R6", "history AddBulk = loop of Add's traversal with version = initialVersion+i", 2)
	c.Rule("R7", "freeze rule; insertion shape ≅ prover shape", 2)
	c.Rule("R8", "read-through caches wired to the table their tree writes", 5)
	c.Rule("R9", "hyper traversal coordinates", 10)
	c.Rule("R10", "no aliasing of sibling leaf lists", 2)
	c.Rule("R11", "reused read buffers bounded by the count read", 1)
	c.Rule("R12", "batch load failures abort", 1)
	r := buildHistRoles(c)
	histFormulas(c, "R1", r)
	hyperSteps(c, "R1")
	hasherImpls(c, "R2")
	positionEncodings(c, "R3")
	hyperDefaults(c, "R4")
	hyperLeafValue(c, "R5")
	histBulk(c, "R6", r)
	histFreeze(c, "R7", r)
	histInsertShape(c, "R7", r)
	tableWiring(c, "R8")
	hyperCoordinates(c, "R9")
	hyperListOwnership(c, "R10")
	readerBufferDiscipline(c, "R11", []string{"balloon", "balloon/hyper", "balloon/history", "balloon/cache"})
	hyperLoaderErrors(c, "R12")
	c.Rule("R13", "hyper insert: no leaf of a bulk is dropped, the persisted batch holds the new shortcut, a repeated key keeps its first value", 4)
	hyperLeafConservation(c, "R13")
	hyperShortcutPersist(c, "R13")
	hyperInsertSortedDuplicates(c, "R13")
	hyperShortcutArgs(c, "R13")
	hyperPushDownResets(c, "R13")
	hyperOrderingConvention(c, "R9")
	recoveryHeightAgreement(c, "R11")
	cacheTilesPersistedAlways(c, "R11")
	c.Rule("R14", "a replica built by state transfer receives every batch it lacks (the transfer filter skips exactly what the follower has)", 2)
	fsmValidate(c, "R14")
}

// ---- R2 ---------------------------------------------------------------------

func hasherImpls(c *Ctx, rule string) {
	p := c.P
	sp := p.SSAPkg[modPkg("crypto/hashing")]
	if sp == nil {
		fatalf("package crypto/hashing not loaded")
	}
	hasherT := p.NamedType("crypto/hashing", "Hasher")
	if hasherT == nil {
		fatalf("hashing.Hasher not found")
	}
	hi := hasherT.Underlying().(*types.Interface)
	scope := sp.Pkg.Scope()
	nImpl := 0
	for _, name := range scope.Names() {
		tn, ok := scope.Lookup(name).(*types.TypeName)
		if !ok {
			continue
		}
		named, ok := tn.Type().(*types.Named)
		if !ok || named == hasherT {
			continue
		}
		if _, isI := named.Underlying().(*types.Interface); isI {
			continue
		}
		if !types.Implements(types.NewPointer(named), hi) {
			continue
		}
		salted := p.Method("crypto/hashing", name, "Salted")
		do := p.Method("crypto/hashing", name, "Do")
		if salted == nil || do == nil {
			continue
		}
		// is the type constructed by production code?
		constructed := false
		for _, fn := range p.ModFuncs {
			if fn.Pkg != sp || fn.Signature.Recv() != nil || fn.Parent() != nil || !p.Production(fn) {
				continue
			}
			eachInstr(fn, func(in ssa.Instruction) {
				if al, ok := in.(*ssa.Alloc); ok && deref(al.Type()) == types.Type(named) {
					constructed = true
				}
			})
		}
		// Salted(salt, data...) = Do(data..., salt)
		okS := false
		var got string
		for _, rt := range p.ReturnTerms(salted) {
			t := rt[0]
			got = t.String()
			if (t.Op == "call" || t.Op == "invoke") && strings.HasSuffix(t.Name, "Do") || t.Op == "invoke" && t.Name == "Do" {
				args := t.Args
				if len(args) == 2 && args[1].Op == "builtin" && args[1].Name == "append" && len(args[1].Args) == 2 &&
					args[1].Args[0].IsParam(salted, 2) && args[1].Args[1].Op == "list" && len(args[1].Args[1].Args) == 1 && args[1].Args[1].Args[0].IsParam(salted, 1) &&
					(args[0].IsParam(salted, 0) || constructedOnSelf(args[0], salted)) {
					okS = true
				}
			}
		}
		if !constructed {
			// a test double: must stay unreferenced by production code (checked), formula not constrained
			c.Ok(rule, name+":not-in-production", salted.Pos(), "no production constructor builds this hasher (test double)")
			continue
		}
		nImpl++
		c.Check(okS, rule, name+".Salted", salted.Pos(), "Salted(salt,data…) = Do(data…, salt)", "Salted returns "+got+"; the construction appends the salt after the data and hashes with Do")
		if name == "KeyHasher" {
			c.Check(checkKeyHasherDo(p, do) == "", rule, name+".Do", do.Pos(), "reset, write every element in order, Sum(nil)", checkKeyHasherDo(p, do))
		}
	}
	if nImpl == 0 {
		c.Fail(rule, "hashers", 0, "no production Hasher implementation found")
	}
	// production code builds its hashers only through the non-fake constructors
	for _, fn := range p.ModFuncs {
		if fn.Pkg == sp || !p.Production(fn) {
			continue
		}
		fn := fn
		eachInstr(fn, func(in ssa.Instruction) {
			refs := []ssa.Value{}
			if cc := callCommon(in); cc != nil {
				if f := cc.StaticCallee(); f != nil {
					refs = append(refs, f)
				}
			}
			var ops []*ssa.Value
			for _, op := range in.Operands(ops) {
				if f, ok := (*op).(*ssa.Function); ok {
					refs = append(refs, f)
				}
			}
			for _, r := range refs {
				f := r.(*ssa.Function)
				if f.Pkg == sp && strings.HasPrefix(f.Name(), "NewFake") {
					c.Fail(rule, funcName(fn)+":fake-hasher", in.Pos(), "production code references "+f.Name()+": the fake hasher drops the position salt")
				}
			}
		})
	}
}

func constructedOnSelf(t *Term, fn *ssa.Function) bool {
	return t.Has(func(x *Term) bool { return x.IsParam(fn, 0) })
}

// ascendingFromZero: the index of a loop visiting elements 0,1,2,… in order, in either SSA
// shape: `for i := 0; …; i++` gives phi{0 | µ+1}; `for range` gives phi{-1 | µ}+1.
func ascendingFromZero(t *Term) bool {
	s := t.String()
	if t.Op == "phi" {
		return strings.Contains(s, "c:0") && strings.Contains(s, "+c:1")
	}
	if t.Op == "binop" && t.Name == "+" && len(t.Args) == 2 && t.Args[0].Op == "phi" && t.Args[1].Op == "const" && t.Args[1].Name == "1" {
		return strings.Contains(t.Args[0].String(), "c:-1")
	}
	return false
}

func checkKeyHasherDo(p *Program, do *ssa.Function) string {
	var reset, sum ssa.Instruction
	var writes []ssa.Instruction
	eachInstr(do, func(in ssa.Instruction) {
		cc := callCommon(in)
		if cc == nil || !cc.IsInvoke() {
			return
		}
		if !p.TermOf(cc.Value).IsField("underlying", isParam(do, 0)) {
			return
		}
		switch cc.Method.Name() {
		case "Reset":
			reset = in
		case "Write":
			writes = append(writes, in)
		case "Sum":
			sum = in
		}
	})
	if reset == nil {
		return "Do does not reset the underlying hash: state of the previous call leaks into the digest"
	}
	if len(writes) != 1 {
		return fmt.Sprintf("%d Write sites, expected one inside the loop over the data elements", len(writes))
	}
	if !instrBefore(reset, writes[0]) {
		return "Reset does not precede the first Write on every path"
	}
	w := p.TermOf(callCommon(writes[0]).Args[0])
	okW := w.Op == "index" && w.Args[0].IsParam(do, 1) && ascendingFromZero(w.Args[1])
	if !okW {
		return "Write is given " + w.String() + ", expected data[i] for i = 0,1,…"
	}
	// loop bound: i < len(data)
	cs := p.CondsAt(writes[0].Block())
	if !impliesLT(cs, func(t *Term) bool { return t.String() == w.Args[1].String() }, func(t *Term) bool {
		return t.Op == "builtin" && t.Name == "len" && t.Args[0].IsParam(do, 1)
	}) {
		return "the write loop is not bounded by i < len(data)"
	}
	if sum == nil {
		return "digest is not taken with Sum"
	}
	st := p.TermOf(callCommon(sum).Args[0])
	if !(st.Op == "const" && st.Name == "nil") {
		return "Sum is given a prefix " + st.String() + ", expected nil"
	}
	for _, rt := range p.ReturnTerms(do) {
		if !rt[0].Has(func(t *Term) bool { return t.Op == "invoke" && t.Name == "Sum" }) {
			return "returned digest does not derive from Sum: " + rt[0].String()
		}
		if rt[0].Op == "slice" && !(rt[0].Args[1].Name == "_" || rt[0].Args[1].Name == "0") {
			return "returned digest is a truncated Sum: " + rt[0].String()
		}
		if rt[0].Op == "slice" && rt[0].Args[2].Name != "_" {
			return "returned digest is a truncated Sum: " + rt[0].String()
		}
	}
	return ""
}

// ---- R3 ---------------------------------------------------------------------

func utilCallTerm(t *Term, name string) bool {
	return t.Op == "call" && t.Fn != nil && t.Fn.Name() == name && t.Fn.Pkg != nil && t.Fn.Pkg.Pkg.Path() == modPkg("util")
}

func positionEncodings(c *Ctx, rule string) {
	p := c.P
	// history
	r := buildHistRoles(c)
	var hNewRoot, hNewPos *ssa.Function
	if r.verify != nil {
		eachInstr(r.verify, func(in ssa.Instruction) {
			if cc := callCommon(in); cc != nil {
				if f := cc.StaticCallee(); f != nil && f.Pkg == r.m.pkg && f.Signature.Params().Len() == 1 && f.Signature.Results().Len() == 1 && f.Signature.Recv() == nil && f != r.m.traversal(r.verify) {
					if _, isPtr := f.Signature.Results().At(0).Type().(*types.Pointer); isPtr {
						hNewRoot = f
					}
				}
			}
		})
	}
	if hNewRoot == nil {
		c.Fail(rule, "history:root-position", 0, "root position constructor not found from the verifier traversal")
	} else {
		ok := false
		var got string
		for _, rt := range p.ReturnTerms(hNewRoot) {
			t := rt[0]
			got = t.String()
			if t.Op == "call" && len(t.Args) == 2 && t.Args[0].Op == "const" && t.Args[0].Name == "0" &&
				t.Args[1].Op == "call" && t.Args[1].Fn != nil && t.Args[1].Fn.Name() == "Len64" && t.Args[1].Args[0].IsParam(hNewRoot, 0) {
				ok = true
				hNewPos = t.Fn
			}
		}
		c.Check(ok, rule, "history:root-position", hNewRoot.Pos(), "root = position(0, bits.Len64(version))", "history root position is "+got+", expected newPosition(0, bits.Len64(version))")
	}
	if hNewPos != nil {
		// serialized = BE64(index) ‖ BE16(height)
		var cps []*Term
		eachInstr(hNewPos, func(in ssa.Instruction) {
			if cc := callCommon(in); cc != nil {
				if b, ok := cc.Value.(*ssa.Builtin); ok && b.Name() == "copy" {
					cps = append(cps, p.TermOf(in.(ssa.Value)))
				}
			}
		})
		okI, okH := false, false
		for _, t := range cps {
			dst, src := t.Args[0], t.Args[1]
			if dst.Op != "slice" {
				continue
			}
			lo := dst.Args[1]
			srcBase := src
			if src.Op == "slice" {
				srcBase = src.Args[0]
			}
			if (lo.Name == "_" || lo.Name == "0") && utilCallTerm(srcBase, "Uint64AsBytes") && srcBase.Args[0].IsParam(hNewPos, 0) {
				okI = true
			}
			if (lo.Name == "8" || lo.Op == "builtin" && lo.Name == "len" && utilCallTerm(lo.Args[0], "Uint64AsBytes")) && utilCallTerm(srcBase, "Uint16AsBytes") && srcBase.Args[0].IsParam(hNewPos, 1) {
				okH = true
			}
		}
		// and the struct keeps index/height/serialized
		c.Check(okI && okH, rule, "history:position-key", hNewPos.Pos(), "key = BE64(index) ‖ BE16(height)", fmt.Sprintf("history position key: index part BE64(index) at offset 0 = %v, height part BE16(height) after it = %v", okI, okH))
	}
	// hyper
	hyNew := p.Func(pkgHyper, "newPosition")
	hyRoot := p.Func(pkgHyper, "newRootPosition")
	if hyNew == nil || hyRoot == nil {
		c.Fail(rule, "hyper:positions", 0, "hyper position constructors not found")
		return
	}
	okK := false
	var gotK string
	eachInstr(hyNew, func(in ssa.Instruction) {
		st, ok := in.(*ssa.Store)
		if !ok {
			return
		}
		fa, ok := st.Addr.(*ssa.FieldAddr)
		if !ok || structFieldName(deref(fa.X.Type()), fa.Field) != "serialized" {
			return
		}
		t := p.TermOf(st.Val)
		gotK = t.String()
		if t.Op == "builtin" && t.Name == "append" && utilCallTerm(t.Args[0], "Uint16AsBytes") && t.Args[0].Args[0].IsParam(hyNew, 1) {
			b := t.Args[1]
			if b.Op == "slice" {
				b = b.Args[0]
			}
			okK = b.IsParam(hyNew, 0)
		}
	})
	c.Check(okK, rule, "hyper:position-key", hyNew.Pos(), "key = BE16(height) ‖ index", "hyper position key is "+gotK+", expected BE16(height) ‖ index")
	okR := false
	var gotR string
	for _, rt := range p.ReturnTerms(hyRoot) {
		t := rt[0]
		gotR = t.String()
		if t.IsCallTo(hyNew) && t.Args[0].Op == "alloc" && t.Args[1].Op == "binop" && t.Args[1].Name == "*" {
			a, b := t.Args[1].Args[0], t.Args[1].Args[1]
			if a.IsParam(hyRoot, 0) && b.Name == "8" || b.IsParam(hyRoot, 0) && a.Name == "8" {
				if mk, ok := t.Args[0].V.(*ssa.MakeSlice); ok && p.TermOf(mk.Len).IsParam(hyRoot, 0) {
					okR = true
				}
			}
		}
	}
	c.Check(okR, rule, "hyper:root-position", hyRoot.Pos(), "root = position(zero index of n bytes, 8·n)", "hyper root position is "+gotR)
}

// ---- R4 ---------------------------------------------------------------------

func hyperDefaults(c *Ctx, rule string) {
	p := c.P
	ctor := p.MustFunc(pkgHyper, "NewHyperTreeWithLogger")
	var base, step bool
	var gotB, gotS string
	eachInstr(ctor, func(in ssa.Instruction) {
		st, ok := in.(*ssa.Store)
		if !ok {
			return
		}
		ia, ok := st.Addr.(*ssa.IndexAddr)
		if !ok {
			return
		}
		arr := p.TermOf(ia.X)
		if !arr.Has(func(t *Term) bool { return t.Op == "field" && t.Name == "defaultHashes" }) && !strings.Contains(arr.String(), "Digest") {
			return
		}
		idx := p.TermOf(ia.Index)
		v := p.TermOf(st.Val)
		if v.Op != "invoke" || v.Name != "Do" || len(v.Args) != 2 || v.Args[1].Op != "list" || len(v.Args[1].Args) != 2 {
			return
		}
		a, b := v.Args[1].Args[0], v.Args[1].Args[1]
		if idx.Op == "const" && idx.Name == "0" {
			gotB = v.String()
			isZeroByte := func(t *Term) bool {
				if t.Op != "list" || len(t.Args) != 1 {
					// []byte{0x0} literal: slice of a 1-array with element 0
					return strings.Contains(t.String(), "c:0")
				}
				return t.Args[0].Op == "const" && t.Args[0].Name == "0"
			}
			base = isZeroByte(a) && isZeroByte(b)
			return
		}
		gotS = v.String()
		prev := func(t *Term) bool {
			return t.Op == "index" && t.Args[1].Op == "binop" && t.Args[1].Name == "-" && t.Args[1].Args[0].String() == idx.String() && t.Args[1].Args[1].Name == "1"
		}
		step = prev(a) && prev(b) && a.String() == b.String()
	})
	c.Check(base, rule, "defaultHashes[0]", ctor.Pos(), "Do({0},{0})", "defaultHashes[0] = "+gotB+", expected Do({0},{0})")
	c.Check(step, rule, "defaultHashes[i]", ctor.Pos(), "Do([i-1],[i-1])", "defaultHashes[i] = "+gotS+", expected Do(defaultHashes[i-1], defaultHashes[i-1])")
}

// ---- R5 ---------------------------------------------------------------------

// leaf value preparation: v := AddPaddingToBytes(value, len(index)); v = v[len(v)-len(index):]
func hyperLeafValue(c *Ctx, rule string) {
	p := c.P
	type site struct {
		fn   *ssa.Function
		norm string
		pos  ssa.Instruction
	}
	var sites []site
	for _, nm := range []string{"pruneToInsert", "pruneToInsertBulk", "pruneToVerify"} {
		fn := p.Func(pkgHyper, nm)
		if fn == nil {
			c.Fail(rule, nm, 0, "traversal constructor not found")
			continue
		}
		found := false
		eachInstrDeep(fn, func(f *ssa.Function, in ssa.Instruction) {
			sl, ok := in.(*ssa.Slice)
			if !ok || found || sl.High != nil || sl.Low == nil {
				return
			}
			xt := p.TermOf(sl.X)
			pads := xt.Find(func(t *Term) bool { return utilCallTerm(t, "AddPaddingToBytes") })
			if len(pads) == 0 {
				return
			}
			pad := pads[0]
			found = true
			low := p.TermOf(sl.Low)
			norm := "other:" + low.String()
			if bo, ok := sl.Low.(*ssa.BinOp); ok && bo.Op == token.SUB {
				lenOfX := false
				if call, ok := bo.X.(*ssa.Call); ok {
					if b, ok := call.Call.Value.(*ssa.Builtin); ok && b.Name() == "len" && p.TermOf(call.Call.Args[0]).String() == xt.String() {
						lenOfX = true
					}
				}
				if lenOfX && p.TermOf(bo.Y).String() == pad.Args[1].String() {
					norm = "pad(V,L)[len(pad)-L:]"
				}
			}
			sites = append(sites, site{fn, norm, in})
		})
		if !found {
			c.Fail(rule, nm, fn.Pos(), "the leaf value is no longer padded/truncated to the index length here")
		}
	}
	want := "pad(V,L)[len(pad)-L:]"
	for _, s := range sites {
		c.Check(s.norm == want, rule, s.fn.Name(), s.pos.Pos(), "value padded to the index length and truncated from the left", "leaf value prepared as "+s.norm+", siblings use "+want)
	}
}

// ---- R6 ---------------------------------------------------------------------

func histBulk(c *Ctx, rule string, r *histRoles) {
	p := c.P
	if r.insert == nil {
		c.Fail(rule, "history:bulk", 0, "insert traversal not found")
		return
	}
	// Add: Accept(insert(version, digest), visitor)
	checkCall := func(fn *ssa.Function, label string, verOK func(*Term) bool, digOK func(*Term) bool) {
		calls := callsIn(fn, func(cc *ssa.CallCommon) bool { return cc.StaticCallee() == r.insert })
		if len(calls) != 1 {
			c.Fail(rule, label, fn.Pos(), fmt.Sprintf("%d insert traversals built, expected one", len(calls)))
			return
		}
		cc := callCommon(calls[0])
		v, d := p.TermOf(cc.Args[0]), p.TermOf(cc.Args[1])
		c.Check(verOK(v) && digOK(d), rule, label, calls[0].Pos(), "insert("+v.String()+", "+d.String()+")", "insert traversal built for ("+v.String()+", "+d.String()+")")
	}
	checkCall(r.add, funcName(r.add), func(t *Term) bool { return t.IsParam(r.add, 2) }, func(t *Term) bool { return t.IsParam(r.add, 1) })
	isInd := func(t *Term) bool {
		return strings.Contains(t.String(), "µ") && !t.Has(func(x *Term) bool { return x.Op == "param" }) || t.Op == "extract" && t.Args[0].Op == "next"
	}
	checkCall(r.addBulk, funcName(r.addBulk), func(t *Term) bool {
		// initialVersion + uint64(i)
		if t.Op != "binop" || t.Name != "+" {
			return false
		}
		a, b := t.Args[0], t.Args[1]
		return a.IsParam(r.addBulk, 2) && isInd(b) || b.IsParam(r.addBulk, 2) && isInd(a)
	}, func(t *Term) bool {
		return t.Op == "index" && t.Args[0].IsParam(r.addBulk, 1) && isInd(t.Args[1])
	})
	// same induction variable for version and element
	calls := callsIn(r.addBulk, func(cc *ssa.CallCommon) bool { return cc.StaticCallee() == r.insert })
	if len(calls) == 1 {
		cc := callCommon(calls[0])
		v, d := p.TermOf(cc.Args[0]), p.TermOf(cc.Args[1])
		var iv, id string
		if v.Op == "binop" {
			for _, a := range v.Args {
				if isInd(a) {
					iv = a.String()
				}
			}
		}
		if d.Op == "index" {
			id = d.Args[1].String()
		}
		c.Check(iv != "" && iv == id, rule, funcName(r.addBulk)+":same-index", calls[0].Pos(), "version offset and element use the same loop index", "version offset uses "+iv+" but the element is taken at "+id)
	}
}

// ---- R8 ---------------------------------------------------------------------

func tableName(p *Program, t *Term) string {
	if t.Op != "const" || t.V == nil || !namedIs(t.V.Type(), "storage", "Table") {
		return ""
	}
	k, ok := t.V.(*ssa.Const)
	if !ok {
		return ""
	}
	sp := p.SSAPkg[modPkg("storage")]
	for _, n := range sp.Pkg.Scope().Names() {
		if cst, ok := sp.Pkg.Scope().Lookup(n).(*types.Const); ok && namedIs(cst.Type(), "storage", "Table") && constant.Compare(cst.Val(), token.EQL, k.Value) {
			return n
		}
	}
	return ""
}

func tableWiring(c *Ctx, rule string) {
	p := c.P
	type use struct {
		table, role string
		in          ssa.Instruction
		fn          *ssa.Function
	}
	collect := func(pkg string) []use {
		sp := p.SSAPkg[modPkg(pkg)]
		var out []use
		for _, fn := range p.ModFuncs {
			if fn.Pkg != sp || !p.Production(fn) {
				continue
			}
			fn := fn
			eachInstr(fn, func(in ssa.Instruction) {
				cc := callCommon(in)
				if cc == nil {
					return
				}
				for i, a := range cc.Args {
					t := p.TermOf(a)
					tn := tableName(p, t)
					if tn == "" {
						continue
					}
					role := calleeName(cc)
					_ = i
					out = append(out, use{tn, role, in, fn})
				}
			})
		}
		return out
	}
	// history: exactly one table everywhere
	hu := collect(pkgHistory)
	if len(hu) < 3 {
		c.Fail(rule, "history:tables", 0, fmt.Sprintf("only %d table uses found in the history tree (caches, visitor)", len(hu)))
	}
	for _, u := range hu {
		c.Check(u.table == "HistoryTable", rule, "history:"+u.role, u.in.Pos(), "history tree works on HistoryTable", "the history tree wires "+u.role+" to "+u.table+"; nodes are written to HistoryTable, so a read-through miss would look in the wrong table")
	}
	// balloon: version recovered from the history table
	rv := p.MustMethod(pkgBalloon, "Balloon", "RefreshVersion")
	eachInstr(rv, func(in ssa.Instruction) {
		cc := callCommon(in)
		if cc == nil || !cc.IsInvoke() || cc.Method.Name() != "GetLast" {
			return
		}
		tn := tableName(p, p.TermOf(cc.Args[0]))
		c.Check(tn == "HistoryTable", rule, funcName(rv)+":GetLast", in.Pos(), "version recovered from HistoryTable", "version recovered from "+tn)
	})
	// hyper: per kind of data writer table == reader table
	huu := collect(pkgHyper)
	written := map[string]bool{}
	read := map[string]bool{}
	for _, u := range huu {
		switch {
		case strings.HasSuffix(u.role, "NewMutation"):
			written[u.table] = true
		case strings.HasSuffix(u.role, ".Get") || strings.HasSuffix(u.role, ".GetAll") || strings.HasSuffix(u.role, ".GetLast") || strings.HasSuffix(u.role, ".GetRange"):
			read[u.table] = true
		}
	}
	for _, tname := range []string{"HyperTable", "HyperCacheTable"} {
		c.Check(written[tname] && read[tname], rule, "hyper:"+tname, 0, "written and read back from the same table", fmt.Sprintf("hyper %s: written=%v read=%v — what the tree persists there is not what it loads from there", tname, written[tname], read[tname]))
	}
	for tname := range written {
		if tname != "HyperTable" && tname != "HyperCacheTable" {
			c.Fail(rule, "hyper:"+tname, 0, "the hyper tree writes to "+tname)
		}
	}
	for tname := range read {
		if tname != "HyperTable" && tname != "HyperCacheTable" {
			c.Fail(rule, "hyper:"+tname, 0, "the hyper tree reads from "+tname)
		}
	}
	// per-role pairing in hyper: batches (Get ↔ mutateBatch) on HyperTable, tiles (GetAll ↔ putInCache) on HyperCacheTable
	for _, u := range huu {
		if strings.HasSuffix(u.role, ".GetAll") {
			c.Check(u.table == "HyperCacheTable", rule, funcName(u.fn)+":GetAll", u.in.Pos(), "cache rebuilt from HyperCacheTable", "cache rebuilt from "+u.table)
		}
		if strings.HasSuffix(u.role, ".Get") {
			c.Check(u.table == "HyperTable", rule, funcName(u.fn)+":Get", u.in.Pos(), "batches loaded from HyperTable", "batches loaded from "+u.table)
		}
	}
	// LRU read-through: miss edge reads the store with the cache's own table and the requested key
	get := p.MustMethod("balloon/cache", "LruReadThroughCache", "Get")
	okRT := false
	eachInstr(get, func(in ssa.Instruction) {
		cc := callCommon(in)
		if cc == nil || !cc.IsInvoke() || cc.Method.Name() != "Get" || !namedIs(cc.Value.Type(), "storage", "Store") {
			return
		}
		tb, key := p.TermOf(cc.Args[0]), p.TermOf(cc.Args[1])
		cs := p.CondsAt(in.Block())
		miss := hasCond(cs, func(k Cond) bool {
			return !k.Pol && k.Atom.Op == "extract" && k.Atom.Idx == 1 && k.Atom.Args[0].Op == "lookup"
		})
		if tb.IsField("table", isParam(get, 0)) && key.IsParam(get, 1) && miss {
			okRT = true
		}
	})
	c.Check(okRT, rule, funcName(get)+":read-through", get.Pos(), "miss ⇒ store.Get(c.table, key)", "the LRU cache does not read through to the store (with its own table and the requested key) on a miss: an evicted or cold entry would be reported absent")
}
