// qedlint: repository-specific static analysis of BBVA/QED against the
// properties in /verif/properties.jsonl (see /verif/DESIGN.md).
package main

import (
	"flag"
	"fmt"
	"go/types"
	"os"
	"runtime/debug"
	"sort"
	"strconv"
	"strings"
	"time"
)

type propDef struct {
	meta propMeta
	run  func(c *Ctx)
}

var props = map[string]*propDef{}

func register(id string, meta propMeta, run func(c *Ctx)) {
	props[id] = &propDef{meta: meta, run: run}
}

func main() {
	prop := flag.String("prop", "", "property id (C01..C20) or 'all'")
	tier := flag.String("tier", "quick", "quick|thorough")
	repo := flag.String("repo", "/repo", "repository to analyse")
	verif := flag.String("verif", "/verif", "verification directory (evidence, known findings)")
	dump := flag.String("dump", "", "debug: dump terms/conds of function (substring of its name)")
	overlayFlag := flag.String("overlay", "", "internal: file=replacement pairs, comma separated (self-check variants)")
	quiet := flag.Bool("noevidence", false, "internal: do not write evidence (self-check variants)")
	flag.Parse()
	start := time.Now()
	seed := 0
	if s := os.Getenv("VERIF_SEED"); s != "" {
		if n, err := strconv.Atoi(s); err == nil {
			seed = n
		}
	}
	code := 0
	func() {
		defer func() {
			if r := recover(); r != nil {
				if ce, ok := r.(checkerError); ok {
					fmt.Printf("CHECKER-ERROR %s\n", ce.msg)
				} else {
					fmt.Printf("CHECKER-ERROR internal panic: %v\n%s\n", r, debug.Stack())
				}
				code = 2
			}
		}()
		var overlay map[string][]byte
		if *overlayFlag != "" {
			overlay = map[string][]byte{}
			for _, pair := range strings.Split(*overlayFlag, ",") {
				kv := strings.SplitN(pair, "=", 2)
				b, err := os.ReadFile(kv[1])
				if err != nil {
					fatalf("overlay: %v", err)
				}
				overlay[kv[0]] = b
			}
		}
		p := loadProgram(*repo, overlay)
		if *dump != "" {
			if *dump == "roles" {
				dumpRoles(p, *verif+"/qedlint/roles.json")
				return
			}
			if *dump == "renamed" {
				for _, r := range roles.renamed {
					fmt.Println(r)
				}
				return
			}
			if *dump == "guardtypes" {
				for k, want := range guardedFieldTypes {
					parts := strings.Split(k, ".")
					named := p.NamedType(parts[0], parts[1])
					got := "?"
					if named != nil {
						if st, ok := named.Underlying().(*types.Struct); ok {
							for i := 0; i < st.NumFields(); i++ {
								if st.Field(i).Name() == parts[2] {
									got = typeStr(st.Field(i).Type())
								}
							}
						}
					}
					status := "ok"
					if got != want {
						status = "MISMATCH"
					}
					fmt.Printf("%-45s %-30s %-30s %s\n", k, want, got, status)
				}
				return
			}
			if strings.HasPrefix(*dump, "table:") {
				dumpTables(p, strings.TrimPrefix(*dump, "table:"))
				return
			}
			dumpFuncs(p, *dump)
			return
		}
		var ids []string
		if *prop == "all" {
			for id := range props {
				ids = append(ids, id)
			}
			sort.Strings(ids)
		} else {
			ids = strings.Split(*prop, ",")
		}
		for _, id := range ids {
			def := props[id]
			if def == nil {
				fatalf("unknown property %q", id)
			}
			t0 := time.Now()
			if len(ids) == 1 {
				t0 = start
			}
			c := newCtx(p, id, *tier)
			resetOrdinals()
			def.run(c)
			var variants []variantResult
			if *tier == "thorough" && !*quiet {
				// the both-ways self-check is meaningful only on a tree that passes: on a violating tree the verdict stands alone
				clean := true
				known := loadKnown(*verif + "/known_findings.jsonl")
				for _, in := range c.Instances {
					if in.OK {
						continue
					}
					isKnown := false
					for _, k := range known {
						if k.Status == "known" && k.Property == c.Prop && k.Rule == in.Rule && k.Construct == in.Construct {
							isKnown = true
						}
					}
					if !isKnown {
						clean = false
					}
				}
				if clean {
					variants = runVariants(id, *repo, *verif)
				}
			}
			if *quiet {
				// variant mode: print failing instances only
				failing := 0
				c.applyFloors()
				known := loadKnown(*verif + "/known_findings.jsonl")
				for _, in := range c.Instances {
					isKnown := false
					for _, k := range known {
						if k.Status == "known" && k.Property == c.Prop && k.Rule == in.Rule && k.Construct == in.Construct {
							isKnown = true
						}
					}
					if !in.OK && !isKnown {
						failing++
						fmt.Printf("FAIL %s [%s] %s %s\n", in.Rule, in.Construct, in.Pos, in.Detail)
					}
				}
				if failing > 0 && code == 0 {
					code = 1
				}
				continue
			}
			rc := c.finish(def.meta, *verif, t0, seed, variants)
			// The self-check says something about the checker, not about /repo: a discrepancy is
			// recorded (here and in the evidence) but does not change the verdict on the tree.
			nv, nbad := 0, 0
			for _, v := range variants {
				nv++
				if !v.OK {
					nbad++
					fmt.Printf("SELF-CHECK-DISCREPANCY variant %s (%s): expected %s, got %s\n", v.Name, v.Kind, v.Expected, v.Got)
				}
			}
			if nv > 0 {
				fmt.Printf("self-check: %d variant(s) of the current source analysed (breaking ones reported, refactorings silent), %d discrepancy(ies)\n", nv, nbad)
			}
			if rc > code {
				code = rc
			}
		}
	}()
	os.Exit(code)
}

func (c *Ctx) applyFloors() {
	count := map[string]int{}
	for _, in := range c.Instances {
		count[in.Rule]++
	}
	for _, r := range c.ruleOrder {
		if count[r] < c.floors[r] {
			c.Instances = append(c.Instances, Instance{Rule: r, Construct: "instance-floor", Pos: "-",
				Detail: fmt.Sprintf("only %d of %d instances", count[r], c.floors[r]), OK: false})
		}
	}
}

func dumpFuncs(p *Program, sub string) {
	for _, f := range p.ModFuncs {
		if !strings.Contains(f.String(), sub) {
			continue
		}
		fmt.Printf("== %s (%s)\n", f.String(), p.pos(f.Pos()))
		for _, b := range f.Blocks {
			fmt.Printf(" block %d conds=%v\n", b.Index, condStrings(p.CondsAt(b)))
			for _, in := range b.Instrs {
				if v, ok := in.(interface {
					Name() string
					String() string
				}); ok {
					if val, ok2 := in.(interface{ Referrers() *[]interface{} }); ok2 {
						_ = val
					}
					fmt.Printf("   %s = %s", v.Name(), in.String())
				} else {
					fmt.Printf("   %s", in.String())
				}
				if val, ok := in.(ssaValue); ok {
					fmt.Printf("    ⟦%s⟧", p.TermOf(val).String())
				}
				fmt.Println()
			}
		}
	}
}

func dumpTables(p *Program, sub string) {
	for _, f := range p.ModFuncs {
		if !strings.Contains(f.String(), sub) {
			continue
		}
		tb, ok := p.DecisionTable(f, nil, nil)
		fmt.Printf("== %s ok=%v\n", f.String(), ok)
		if ok {
			fmt.Print(tb.String())
		}
	}
}
