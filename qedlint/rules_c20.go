package main

import (
	"fmt"
	"go/token"
	"strings"

	"golang.org/x/tools/go/ssa"
)

func init() {
	register("C20", propMeta{
		Explanation: "Decides the client's endpoint-selection guards and the termination mechanics of its calls: (R1) every endpoint NextReadEndpoint returns is under a !IsDead() test on that same endpoint, list elements are returned only when they are secondaries or under the Any preference, the primary never under Secondary/Any; Primary() reports a dead primary; " +
			"(R2) every round-robin scan has a counter that grows on each iteration and is compared with the number of endpoints in its exit test; (R3) Add and AddBulk go through callPrimary only, whose request goes to topology.Primary(); (R4) every loop of callPrimary, callAny, discover and the retrier has a progress statement on each way around it: a one-shot flag set and tested, the selected endpoint marked dead, or a bounded counter; " +
			"(R5) discovery and the redirect hook update the topology with the leader's shard as primary; (R6) topology and endpoint state is accessed only under their locks, url/nodeType are immutable after construction.",
		Added:       "Also (R5) discovery selects its node with preference Any and a primary confirmed by a server answer is installed as a fresh endpoint on every path. Third round: (R5) Update builds a fresh endpoint list; (R6) MarkAsDead marks on every path; (R4) the retrier's attempts are bounded. Fifth round: callPrimary's rediscovery does not depend on the state of the other endpoints.",
		Assumptions: []string{"http.Client honours its timeout"},
		Declined:    "convergence after a leader change and fairness of the rotation as statements over histories.",
	}, runC20)
}

// natural loops: back edges s→h with h dominating s
type backEdge struct{ src, hdr *ssa.BasicBlock }

func backEdges(fn *ssa.Function) []backEdge {
	var out []backEdge
	for _, b := range fn.Blocks {
		for _, s := range b.Succs {
			if s.Dominates(b) {
				out = append(out, backEdge{b, s})
			}
		}
	}
	return out
}

func inLoop(e backEdge, b *ssa.BasicBlock) bool {
	// b is in the natural loop of e: hdr dominates b and b reaches src without passing hdr
	if !e.hdr.Dominates(b) {
		return false
	}
	if b == e.src || b == e.hdr {
		return true
	}
	seen := map[*ssa.BasicBlock]bool{e.hdr: true}
	work := []*ssa.BasicBlock{b}
	for len(work) > 0 {
		x := work[len(work)-1]
		work = work[:len(work)-1]
		if x == e.src {
			return true
		}
		if seen[x] {
			continue
		}
		seen[x] = true
		work = append(work, x.Succs...)
	}
	return false
}

// loopProgress classifies the progress argument of one back edge.
func loopProgress(p *Program, fn *ssa.Function, e backEdge, shrink func(ssa.Instruction) bool) string {
	// K1 one-shot flag: a bool phi at the header takes `true` on this edge, and the edge is only reachable while the flag is false
	predIdx := -1
	for i, q := range e.hdr.Preds {
		if q == e.src {
			predIdx = i
		}
	}
	for _, in := range e.hdr.Instrs {
		ph, ok := in.(*ssa.Phi)
		if !ok {
			break
		}
		if predIdx < 0 || predIdx >= len(ph.Edges) {
			continue
		}
		if k, isC := ph.Edges[predIdx].(*ssa.Const); isC && k.Value != nil && k.Value.String() == "true" {
			// (the test may sit in a boolean helper that is handed the flag: implied conditions carry the flag's term)
			cs := p.withImplied(p.CondsAt(e.src))
			if hasCond(cs, func(c Cond) bool {
				return !c.Pol && (c.V == ssa.Value(ph) || c.Atom.V == ssa.Value(ph))
			}) {
				return "one-shot flag " + ph.Comment
			}
		}
		// K3 counter: phi incremented on this edge and tested against a bound in the loop
		if bo, isB := ph.Edges[predIdx].(*ssa.BinOp); isB && bo.Op == token.ADD && bo.X == ssa.Value(ph) {
			for _, b := range fn.Blocks {
				if !inLoop(e, b) {
					continue
				}
				ifi := blockIf(b)
				if ifi == nil {
					continue
				}
				exits := !inLoop(e, b.Succs[0]) || !inLoop(e, b.Succs[1])
				t := p.TermOf(ifi.Cond)
				if exits && t.Has(func(x *Term) bool { return x.V == ssa.Value(ph) }) {
					return "bounded counter " + ph.Comment
				}
			}
		}
	}
	// K1' one-shot flag kept in a memory cell (a field of a local struct, a captured local): on every way to
	// this back edge the cell is set to true, the edge is taken only if the cell read false before that, and
	// nothing in the loop resets it — the edge is taken at most once.
	cellOf := func(addr ssa.Value) (ssa.Value, int) {
		switch a := addr.(type) {
		case *ssa.FieldAddr:
			if al, ok := a.X.(*ssa.Alloc); ok {
				return al, a.Field
			}
		case *ssa.Alloc:
			return a, -1
		}
		return nil, 0
	}
	for _, b := range fn.Blocks {
		if !inLoop(e, b) {
			continue
		}
		for _, in := range b.Instrs {
			st, ok := in.(*ssa.Store)
			if !ok {
				continue
			}
			k, isC := st.Val.(*ssa.Const)
			if !isC || k.Value == nil || k.Value.String() != "true" {
				continue
			}
			cell, fld := cellOf(st.Addr)
			if cell == nil {
				continue
			}
			// monotone: no other store into the cell inside the loop writes anything but true
			mono := true
			for _, b2 := range fn.Blocks {
				if !inLoop(e, b2) {
					continue
				}
				for _, in2 := range b2.Instrs {
					if st2, ok := in2.(*ssa.Store); ok && st2 != st {
						c2, f2 := cellOf(st2.Addr)
						if c2 == cell && (f2 == fld || f2 == -1 || fld == -1) {
							if k2, isC2 := st2.Val.(*ssa.Const); !(isC2 && k2.Value != nil && k2.Value.String() == "true") {
								mono = false
							}
						}
					}
				}
			}
			if !mono {
				continue
			}
			// every way from the header to this back edge passes the store
			last := e.src.Instrs[len(e.src.Instrs)-1]
			if reachesWithout(e.hdr.Instrs[0], func(x ssa.Instruction) bool { return x == last }, func(x ssa.Instruction) bool { return x == ssa.Instruction(st) }, nil) {
				continue
			}
			// the edge requires that the cell read false
			cs := p.CondsAt(e.src)
			readFalse := hasCond(cs, func(c Cond) bool {
				v, pol := c.V, c.Branch
				for {
					u, ok := v.(*ssa.UnOp)
					if !ok || u.Op != token.NOT {
						break
					}
					v, pol = u.X, !pol
				}
				if pol {
					return false
				}
				if u, ok := v.(*ssa.UnOp); ok && u.Op == token.MUL {
					if c3, f3 := cellOf(u.X); c3 == cell && f3 == fld && inLoop(e, u.Block()) {
						return true
					}
				}
				return false
			})
			if readFalse {
				return "one-shot flag (memory cell)"
			}
		}
	}
	// K2 shrink: every way from the header to this back edge passes a shrinking call
	if shrink != nil {
		first := e.hdr.Instrs[0]
		reach := reachesWithout(first, func(in ssa.Instruction) bool { return in.Block() == e.src && in == e.src.Instrs[len(e.src.Instrs)-1] }, shrink, nil)
		if shrink(first) {
			reach = false
		}
		if !reach {
			return "finite set shrinks (selected endpoint marked dead)"
		}
	}
	// K4 service loops, K5 range over a map / string (finite by construction)
	for _, b := range fn.Blocks {
		if inLoop(e, b) {
			for _, in := range b.Instrs {
				if _, ok := in.(*ssa.Select); ok {
					return "service loop (select)"
				}
			}
		}
	}
	for _, in := range e.hdr.Instrs {
		if _, ok := in.(*ssa.Next); ok {
			return "range over a finite collection"
		}
	}
	return ""
}

func runC20(c *Ctx) {
	p := c.P
	c.Rule("R7", "callPrimary rediscovers the topology whenever the primary cannot be used, whatever it believes about the other endpoints", 1)
	rediscoveryUnconditional(c, "R7")
	c.Rule("R1", "selection guards of NextReadEndpoint / Primary", 6)
	c.Rule("R2", "round-robin scans are bounded by the number of endpoints", 1)
	c.Rule("R3", "writes go to the leader", 3)
	c.Rule("R4", "every client loop has a progress statement on every way round", 5)
	c.Rule("R5", "discovery / redirect update the topology with the leader as primary", 2)
	c.Rule("R6", "topology and endpoint state under their locks; url/nodeType immutable", 6)
	nre := p.MustMethod("client", "topology", "NextReadEndpoint")
	// ---- R1
	prefConst := func(name string) string {
		sp := p.SSAPkg[modPkg("client")]
		if cst := sp.Pkg.Scope().Lookup(name); cst != nil {
			if k, ok := cst.(interface {
				Val() interface{ String() string }
			}); ok {
				return k.Val().String()
			}
		}
		return ""
	}
	_ = prefConst
	nreRg := p.RegionOf(nre, 2) // a scan may be a helper of the topology; its returns count as NextReadEndpoint's
	for _, rc := range nreRg.ReturnCases(0) {
		et := rc.T
		if et.Op == "const" {
			continue
		}
		label := "NextReadEndpoint:return@" + et.String()
		cs := rc.Conds
		alive := hasCond(cs, func(k Cond) bool {
			return !k.Pol && k.Atom.Op == "call" && k.Atom.Fn != nil && k.Atom.Fn.Name() == "IsDead" && k.Atom.Args[0].String() == et.String()
		})
		kindOK := true
		var whyKind string
		isPrimary := et.IsField("primary", isParam(nre, 0))
		if isPrimary {
			// never under Secondary / Any
			for _, k := range cs {
				if k.Pol && k.Atom.Op == "EQ" && k.Atom.Has(func(x *Term) bool { return x.IsParam(nre, 1) }) {
					kindOK = kindOK && true
				}
			}
		} else {
			// a list element: secondary-typed, or the Any case
			sec := hasCond(cs, func(k Cond) bool {
				return k.Pol && k.Atom.Op == "EQ" && k.Atom.Has(func(x *Term) bool { return x.IsField("nodeType", nil) && x.Args[0].String() == et.String() })
			})
			anyCase := hasCond(cs, func(k Cond) bool {
				return k.Pol && k.Atom.Op == "EQ" && k.Atom.Has(func(x *Term) bool { return x.IsParam(nre, 1) })
			}) && !hasCond(cs, func(k Cond) bool { return k.Atom.Has(func(x *Term) bool { return x.IsField("nodeType", nil) }) })
			if !sec && !anyCase {
				kindOK = false
				whyKind = "a list endpoint is returned without the secondary-type test outside the Any preference"
			}
		}
		c.Check(alive && kindOK, "R1", label, rc.Pos, "returned only when !IsDead() and of a permitted kind", fmt.Sprintf("endpoint %s is handed out for a read: under a !IsDead() test on that endpoint=%v; %s (conditions: %s)", et, alive, whyKind, strings.Join(condStrings(cs), " ∧ ")))
	}
	pr := p.MustMethod("client", "topology", "Primary")
	{
		ok := false
		for _, b := range pr.Blocks {
			ret, isR := b.Instrs[len(b.Instrs)-1].(*ssa.Return)
			if !isR || b == pr.Recover {
				continue
			}
			et := p.TermOf(RetVal(ret, 1))
			if et.Op == "global" && strings.HasSuffix(et.Name, "ErrPrimaryDead") {
				cs := p.CondsAt(b)
				ok = hasCond(cs, func(k Cond) bool {
					return k.Pol && k.Atom.Op == "call" && k.Atom.Fn != nil && k.Atom.Fn.Name() == "IsDead"
				})
			}
		}
		c.Check(ok, "R1", "topology.Primary:dead", pr.Pos(), "a dead primary is reported as ErrPrimaryDead", "topology.Primary no longer reports a dead primary with ErrPrimaryDead")
	}
	// ---- R2
	{
		n := 0
		for _, nre := range nreRg.Funcs() {
			for _, e := range backEdges(nre) {
				// scans: loops that index t.endpoints with cIndex
				scan := false
				for _, b := range nre.Blocks {
					if !inLoop(e, b) {
						continue
					}
					for _, in := range b.Instrs {
						if st, ok := in.(*ssa.Store); ok {
							if fa, ok := st.Addr.(*ssa.FieldAddr); ok && structFieldName(deref(fa.X.Type()), fa.Field) == "cIndex" {
								scan = true
							}
						}
					}
				}
				if !scan {
					continue
				}
				n++
				kind := loopProgress(p, nre, e, nil)
				okB := strings.HasPrefix(kind, "bounded counter")
				// the bound is the number of endpoints
				if okB {
					okB = false
					for _, b := range nre.Blocks {
						if ifi := blockIf(b); ifi != nil && inLoop(e, b) {
							t := p.TermOf(ifi.Cond)
							if t.Has(func(x *Term) bool { return x.Op == "builtin" && x.Name == "len" && x.Args[0].IsField("endpoints", nil) }) && strings.Contains(t.String(), "µ") {
								okB = true
							}
						}
					}
				}
				c.Check(okB, "R2", fmt.Sprintf("NextReadEndpoint:scan#%d", n), e.hdr.Instrs[0].Pos(), "counter incremented each round, compared with len(endpoints)", "a round-robin scan has no counter that grows on every iteration and is compared with the number of endpoints: with all candidates dead it never ends (the lock is held meanwhile)")
			}
		}
		if n < 1 {
			c.Fail("R2", "NextReadEndpoint:scans", nre.Pos(), fmt.Sprintf("%d round-robin scans found", n))
		}
	}
	// ---- R3
	cp := p.MustMethod("client", "HTTPClient", "callPrimary")
	ca := p.MustMethod("client", "HTTPClient", "callAny")
	doReq := p.MustMethod("client", "HTTPClient", "doReq")
	for _, nm := range []string{"Add", "AddBulk"} {
		fn := p.MustMethod("client", "HTTPClient", nm)
		nP := len(callsIn(fn, func(k *ssa.CallCommon) bool { return k.StaticCallee() == cp }))
		nA := len(callsIn(fn, func(k *ssa.CallCommon) bool { return k.StaticCallee() == ca || k.StaticCallee() == doReq }))
		c.Check(nP == 1 && nA == 0, "R3", "HTTPClient."+nm, fn.Pos(), "through callPrimary only", fmt.Sprintf("%s sends its write through callPrimary %d time(s) and through callAny/doReq %d time(s): writes must only go to the endpoint believed to be the leader", nm, nP, nA))
	}
	{
		ok := false
		var got string
		for _, call := range callsIn(cp, func(k *ssa.CallCommon) bool { return k.StaticCallee() == doReq }) {
			// helpers of the client package are looked through (`endpoint, err := c.resolvePrimary()`)
			t := p.XAll(p.TermOf(callCommon(call).Args[2]), func(g *ssa.Function) bool { return g == pr || g.Pkg != cp.Pkg })
			got = t.String()
			ok = true
			for _, a := range t.Alts() {
				a = a.Strip()
				if a.Op == "const" || a.Op == "mu" {
					continue
				}
				if !(a.Op == "extract" && a.Idx == 0 && a.Args[0].Op == "call" && a.Args[0].Fn == pr) {
					ok = false
				}
			}
		}
		c.Check(ok, "R3", "callPrimary:endpoint", cp.Pos(), "request sent to topology.Primary()", "callPrimary sends its request to "+got+", expected the endpoint returned by topology.Primary()")
	}
	// ---- R4
	markDeadOf := func(fn *ssa.Function) func(ssa.Instruction) bool {
		return func(in ssa.Instruction) bool {
			cc := callCommon(in)
			if cc == nil || cc.StaticCallee() == nil || cc.StaticCallee().Name() != "MarkAsDead" {
				return false
			}
			t := p.TermOf(cc.Args[0])
			return t.Has(func(x *Term) bool { return x.Op == "call" && x.Fn != nil && x.Fn.Name() == "NextReadEndpoint" })
		}
	}
	for _, k := range []struct {
		fn     *ssa.Function
		shrink func(ssa.Instruction) bool
	}{
		{cp, nil}, {ca, markDeadOf(ca)}, {p.MustMethod("client", "HTTPClient", "discover"), markDeadOf(p.MustMethod("client", "HTTPClient", "discover"))},
		{p.MustMethod("client", "BackoffRequestRetrier", "DoReq"), nil},
	} {
		edges := backEdges(k.fn)
		if len(edges) == 0 {
			c.Ok("R4", funcName(k.fn), k.fn.Pos(), "no loop")
			continue
		}
		// ranging loops over finite collections are bounded by construction (counter phi) and are classified too
		for i, e := range edges {
			kind := loopProgress(p, k.fn, e, k.shrink)
			pos := e.src.Instrs[len(e.src.Instrs)-1].Pos()
			if !pos.IsValid() {
				pos = instrPos(e.src.Instrs[0])
			}
			c.Check(kind != "", "R4", fmt.Sprintf("%s:loop-edge#%d", funcName(k.fn), i), pos, "progress: "+kind, "a way around this loop makes no progress: no one-shot flag is set, no counter advances and the selected endpoint is not marked dead — when every endpoint keeps answering with an error that does not mark it dead (e.g. 4xx) the call never returns")
		}
	}
	// ---- R5
	upd := p.MustMethod("client", "topology", "Update")
	nU := 0
	for _, fn := range p.ModFuncs {
		if fn.Pkg != upd.Pkg || !p.Production(fn) {
			continue
		}
		fn := fn
		for _, call := range callsIn(fn, func(k *ssa.CallCommon) bool { return k.StaticCallee() == upd }) {
			pt := p.X(p.TermOf(callCommon(call).Args[1]))
			// only the hooks that learn the shards from a server answer
			if !pt.Has(func(x *Term) bool { return x.IsField("HTTPAddr", nil) }) && !strings.Contains(pt.String(), "Sprintf") {
				continue
			}
			nU++
			// primary is assigned under id == shards.LeaderId: every non-constant value that flows into the
			// primary argument enters (through the loop's φ) on an edge dominated by that test
			ok := false
			// the value may be computed by a helper of the package (`primary, secondaries := splitShards(&shards)`)
			srcs := []ssa.Value{callCommon(call).Args[1]}
			if ex, isEx := srcs[0].(*ssa.Extract); isEx {
				if hc, isCall := ex.Tuple.(*ssa.Call); isCall {
					if g := hc.Call.StaticCallee(); g != nil && g.Pkg == fn.Pkg && len(g.Blocks) > 0 {
						srcs = nil
						for _, b := range g.Blocks {
							if ret, isR := b.Instrs[len(b.Instrs)-1].(*ssa.Return); isR && ex.Index < len(ret.Results) {
								srcs = append(srcs, RetVal(ret, ex.Index))
							}
						}
					}
				}
			}
			okAll := len(srcs) > 0
			for _, sv := range srcs {
				if leaderOnly, any := flowsOnlyUnderLeaderTest(p, sv, 0); !(any && leaderOnly) {
					okAll = false
				}
			}
			if okAll {
				ok = true
			}
			eachInstr(fn, func(in ssa.Instruction) {
				bo, isB := in.(*ssa.BinOp)
				if !isB || bo.Op != token.EQL {
					return
				}
				x, y := p.TermOf(bo.X), p.TermOf(bo.Y)
				if x.IsField("LeaderId", nil) || y.IsField("LeaderId", nil) {
					// the Sprintf that builds the primary url is on the true edge
					for _, b := range fn.Blocks {
						if hasCond(p.CondsAt(b), func(k Cond) bool { return k.Pol && k.V == ssa.Value(bo) }) {
							for _, i2 := range b.Instrs {
								if v, isV := i2.(ssa.Value); isV && pt.Has(func(z *Term) bool { return z.V == v }) {
									ok = true
								}
							}
						}
					}
				}
			})
			c.Check(ok, "R5", funcName(fn)+":update", call.Pos(), "primary = the shard whose id is the leader's", "the topology is updated with a primary that is not selected by id == LeaderId")
		}
	}
	// discovery may ask any node, whatever the caller's read preference (with preference Primary and
	// a dead leader nobody else would ever be asked)
	{
		disc := p.MustMethod("client", "HTTPClient", "discover")
		calls := callsIn(disc, func(k *ssa.CallCommon) bool { return k.StaticCallee() == nre })
		for _, call := range calls {
			pref := p.TermOf(callCommon(call).Args[1])
			anyC := p.Const("client", "Any")
			okP := pref.Op == "const" && anyC != nil && pref.Name == anyC.Val().ExactString()
			c.Check(okP, "R5", funcName(disc)+":asks-any-node", call.Pos(), "discovery selects its node with preference Any", "discovery selects the node to ask with preference "+pref.String()+" instead of Any: under the default preference (Primary) a client whose leader died never asks a secondary and never learns the new leader")
		}
		if len(calls) == 0 {
			c.Fail("R5", funcName(disc)+":asks-any-node", disc.Pos(), "discovery does not select an endpoint through NextReadEndpoint")
		}
	}
	// a primary (re)confirmed by a server answer is installed as a fresh, live endpoint on every path
	{
		isFreshPrimary := func(in ssa.Instruction) bool {
			st, ok := in.(*ssa.Store)
			if !ok {
				return false
			}
			fa, ok := st.Addr.(*ssa.FieldAddr)
			if !ok || structFieldName(deref(fa.X.Type()), fa.Field) != "primary" {
				return false
			}
			v := p.TermOf(st.Val)
			return v.Op == "call" && v.Fn != nil && v.Fn.Signature.Results().Len() == 1 && namedIs(v.Fn.Signature.Results().At(0).Type(), "client", "endpoint")
		}
		noPrimaryGiven := func(b *ssa.BasicBlock, succ int) bool {
			ifi := blockIf(b)
			if ifi == nil {
				return false
			}
			cd := p.condOf(ifi.Cond, succ == 0)
			a := cd.Atom
			if a.Op != "EQ" || !cd.Pol {
				return false
			}
			for i := 0; i < 2; i++ {
				if a.Args[i].IsParam(upd, 1) && a.Args[1-i].Op == "const" && a.Args[1-i].Name == `""` {
					return true
				}
			}
			return false
		}
		esc := p.EscapesWithout(upd, isFreshPrimary, mustOpts{skipEdge: noPrimaryGiven})
		c.Check(esc == nil, "R5", funcName(upd)+":fresh-primary", upd.Pos(), "Update(primary, …) installs a new endpoint for the primary", "topology.Update can finish without installing a new endpoint for the given primary: the old object keeps its dead flag, so a leader that answered one request with 5xx stays 'dead' for writes although discovery has just confirmed it")
	}
	updateBuildsAFreshList(c, "R5")
	markAsDeadAlwaysMarks(c, "R6")
	retrierBound(c, "R4")
	if nU < 2 {
		c.Fail("R5", "topology-updates", upd.Pos(), fmt.Sprintf("%d topology updates from server answers (discovery and redirect hook expected)", nU))
	}
	// ---- R6
	checkGuards(c, "R6", []guardSpec{
		{"client", "topology", "endpoints", "client.topology.RWMutex", false, "endpoint list replaced by Update"},
		{"client", "topology", "primary", "client.topology.RWMutex", false, "replaced by Update"},
		{"client", "topology", "cIndex", "client.topology.RWMutex", false, "round-robin cursor"},
		{"client", "endpoint", "dead", "client.endpoint.RWMutex", false, "liveness flag"},
		{"client", "endpoint", "failures", "client.endpoint.RWMutex", false, "failure counter"},
		{"client", "endpoint", "deadSince", "client.endpoint.RWMutex", false, "time of death"},
	})
	// immutables
	for _, f := range []string{"url", "nodeType"} {
		writes := 0
		for _, a := range p.FieldAccesses("client", "endpoint", f) {
			if a.write && !a.fresh {
				writes++
				c.Fail("R6", "endpoint."+f+":immutable", a.in.Pos(), "endpoint."+f+" is written after construction in "+funcName(a.fn)+" (it is read without the lock by the selection code)")
			}
		}
		if writes == 0 {
			c.Ok("R6", "endpoint."+f+":immutable", 0, "never written outside the constructor")
		}
	}
}

// flowsOnlyUnderLeaderTest: v is a φ-web (loop-carried variable); returns whether every non-constant
// value enters it on an edge dominated by the true outcome of `id == shards.LeaderId`, and whether any
// non-constant value enters at all.
func flowsOnlyUnderLeaderTest(p *Program, v ssa.Value, depth int) (only bool, any bool) {
	ph, ok := v.(*ssa.Phi)
	if !ok || depth > 3 {
		return false, false
	}
	only = true
	seen := map[ssa.Value]bool{ph: true}
	var walk func(ph *ssa.Phi, d int)
	walk = func(ph *ssa.Phi, d int) {
		for i, e := range ph.Edges {
			if _, isC := e.(*ssa.Const); isC || seen[e] {
				continue
			}
			if inner, isPhi := e.(*ssa.Phi); isPhi && d < 3 {
				seen[inner] = true
				walk(inner, d+1)
				continue
			}
			any = true
			pred := ph.Block().Preds[i]
			cs := p.CondsAtEdge(pred, ph.Block())
			if !hasCond(cs, func(k Cond) bool {
				return k.Pol && k.Atom.Op == "EQ" && (k.Atom.Args[0].IsField("LeaderId", nil) || k.Atom.Args[1].IsField("LeaderId", nil))
			}) {
				only = false
			}
		}
	}
	walk(ph, 0)
	return only, any
}
