package main

import (
	"fmt"
	"go/constant"
	"go/token"
	"go/types"
	"sort"
	"strings"

	"golang.org/x/tools/go/ssa"
)

// Term is the provenance description of an SSA value (engine E-PROV): a
// canonical expression tree keyed by access paths, not by SSA identity
// (go/ssa has no CSE; every field use is a fresh FieldAddr+load).
type Term struct {
	Op     string // param fv const field call invoke dyncall builtin extract binop unop phi cell index slice lookup closure global alloc assert range next mu unknown
	Name   string
	Fn     *ssa.Function // static callee / closure / param owner
	Method *types.Func   // invoke
	Args   []*Term
	V      ssa.Value
	Idx    int
	str    string
}

type termKey struct {
	v ssa.Value
}

const maxTermDepth = 40

func (p *Program) TermOf(v ssa.Value) *Term {
	return p.termOf(v, map[ssa.Value]bool{}, 0)
}

// TermOnPath describes v with every phi of the path's function resolved to
// the edge the path took (path-sensitive provenance for E-ACC / E-SIB).
func (p *Program) TermOnPath(pa *Path, v ssa.Value) *Term {
	old := p.phiHook
	p.phiHook = func(ph *ssa.Phi) ssa.Value {
		pb := pa.pred[ph.Block()]
		if pb == nil {
			return nil
		}
		for k, q := range ph.Block().Preds {
			if q == pb {
				return ph.Edges[k]
			}
		}
		return nil
	}
	defer func() { p.phiHook = old }()
	return p.termOf(v, map[ssa.Value]bool{}, 0)
}

func operandRank(t *Term) int {
	switch {
	case t.Op == "const":
		return 3
	case strings.Contains(t.String(), "µ"):
		return 2
	case t.Op == "builtin" && t.Name == "len", t.Op == "convert" && len(t.Args) == 1 && t.Args[0].Op == "builtin" && t.Args[0].Name == "len":
		return 1
	}
	return 0
}

func isStringType(t types.Type) bool {
	b, ok := t.Underlying().(*types.Basic)
	return ok && b.Info()&types.IsString != 0
}

func mk(op, name string, v ssa.Value, args ...*Term) *Term {
	return &Term{Op: op, Name: name, V: v, Args: args}
}

func paramIndex(par *ssa.Parameter) int {
	for i, q := range par.Parent().Params {
		if q == par {
			return i
		}
	}
	return -1
}

func (p *Program) termOf(v ssa.Value, busy map[ssa.Value]bool, depth int) *Term {
	if v == nil {
		return mk("const", "_", nil)
	}
	if depth > maxTermDepth {
		return mk("unknown", "deep", v)
	}
	if busy[v] {
		return mk("mu", "", v)
	}
	if p.phiHook == nil {
		if t, ok := p.termCache[termKey{v}]; ok {
			return t
		}
	}
	busy[v] = true
	t := p.termOf1(v, busy, depth)
	delete(busy, v)
	// cache only cycle-free, path-independent results
	if p.phiHook == nil && !t.HasLocal(func(x *Term) bool { return x.Op == "mu" }) {
		p.termCache[termKey{v}] = t
	}
	return t
}

func (p *Program) termOf1(v ssa.Value, busy map[ssa.Value]bool, depth int) *Term {
	rec := func(x ssa.Value) *Term { return p.termOf(x, busy, depth+1) }
	switch v := v.(type) {
	case *ssa.Parameter:
		// the receiver of an unexported method that is only ever used as a method value bound at one
		// site ("closure turned into a small struct with a method") is whatever was bound there
		if b := p.boundOnlyReceiver(v); b != nil && !busy[b] && depth < 12 {
			return rec(b)
		}
		t := mk("param", v.Name(), v)
		t.Idx = paramIndex(v)
		t.Fn = v.Parent()
		return t
	case *ssa.FreeVar:
		// resolve through the binding in the enclosing function's MakeClosure
		if b := freeVarBinding(v); b != nil {
			return rec(b)
		}
		return mk("fv", v.Name(), v)
	case *ssa.Const:
		return mk("const", constString(v), v)
	case *ssa.Global:
		return mk("global", v.Pkg.Pkg.Name()+"."+v.Name(), v)
	case *ssa.Function:
		t := mk("closure", funcName(v), v)
		t.Fn = v
		return t
	case *ssa.Builtin:
		return mk("builtinref", v.Name(), v)
	case *ssa.MakeClosure:
		cf := v.Fn.(*ssa.Function)
		if m := boundTarget(cf); m != nil {
			// a method value x.m: described as the method itself (its receiver is the bound value)
			t := mk("closure", funcName(m), v)
			t.Fn = m
			if depth < 6 && len(v.Bindings) == 1 && !busy[v.Bindings[0]] {
				t.Args = append(t.Args, mk("captured", "", v.Bindings[0], rec(v.Bindings[0])))
			}
			return t
		}
		t := mk("closure", funcName(cf), v)
		t.Fn = cf
		// what the closure captures (a captured local is described by what was stored into it), so
		// that provenance questions ("is it seeded with req.X?") see through the capture
		if depth < 6 {
			for _, b := range v.Bindings {
				if busy[b] {
					continue
				}
				if al, isAl := b.(*ssa.Alloc); isAl {
					if whole, _ := p.storesTo(al); len(whole) >= 1 && !busy[whole[0]] {
						t.Args = append(t.Args, mk("captured", "", b, rec(whole[0])))
						continue
					}
					if st := p.structTerm(al, busy, depth+1); st != nil {
						t.Args = append(t.Args, mk("captured", "", b, st))
						continue
					}
				}
				t.Args = append(t.Args, mk("captured", "", b, rec(b)))
			}
		}
		return t
	case *ssa.Alloc:
		// the address of a spilled by-value parameter (`func (p T) M() { helper(&p) }`) designates the
		// parameter itself: pointers are transparent (see addrBaseTerm)
		if whole, byField := p.storesTo(v); len(whole) == 1 && len(byField) == 0 {
			if par, ok := whole[0].(*ssa.Parameter); ok {
				return rec(par)
			}
		}
		// the address itself (pointer value): composite literal / new / spilled local
		return mk("alloc", typeStr(v.Type()), v)
	case *ssa.MakeSlice:
		t := mk("alloc", typeStr(v.Type()), v, rec(v.Len))
		// a slice filled by index assignment (`s := make([]T, n); s[i] = e`) carries its elements as
		// `elemval` children, so that it reads like the append-built form to rules asking what it holds
		if depth < 8 {
			if refs := v.Referrers(); refs != nil {
				for _, r := range *refs {
					ia, ok := r.(*ssa.IndexAddr)
					if !ok || ia.X != ssa.Value(v) || ia.Referrers() == nil {
						continue
					}
					for _, u := range *ia.Referrers() {
						if st, ok := u.(*ssa.Store); ok && st.Addr == ssa.Value(ia) && !busy[st.Val] {
							t.Args = append(t.Args, mk("elemval", "", st.Val, rec(ia.Index), rec(st.Val)))
						}
					}
				}
			}
		}
		return t
	case *ssa.MakeMap:
		return mk("alloc", typeStr(v.Type()), v)
	case *ssa.MakeChan:
		return mk("alloc", typeStr(v.Type()), v)
	case *ssa.MakeInterface:
		return rec(v.X)
	case *ssa.ChangeType:
		return rec(v.X)
	case *ssa.ChangeInterface:
		return rec(v.X)
	case *ssa.Convert:
		return rec(v.X)
	case *ssa.SliceToArrayPointer:
		return rec(v.X)
	case *ssa.MultiConvert:
		return rec(v.X)
	case *ssa.TypeAssert:
		t := mk("assert", typeStr(v.AssertedType), v, rec(v.X))
		return t
	case *ssa.Phi:
		if p.phiHook != nil {
			if ch := p.phiHook(v); ch != nil {
				return rec(ch)
			}
		}
		var alts []*Term
		for _, e := range v.Edges {
			alts = append(alts, rec(e))
		}
		return oneOf("phi", v, alts)
	case *ssa.BinOp:
		x, y := rec(v.X), rec(v.Y)
		// commutative integer arithmetic in a canonical operand order (base value, then length,
		// then loop index, then constant), so that `1 + x`, `x + 1` are one shape
		if (v.Op == token.ADD || v.Op == token.MUL) && !isStringType(v.Type()) && operandRank(x) > operandRank(y) {
			x, y = y, x
		}
		return mk("binop", v.Op.String(), v, x, y)
	case *ssa.UnOp:
		switch v.Op {
		case token.MUL:
			return p.loadTerm(v, v.X, busy, depth)
		case token.ARROW:
			return mk("recv", "", v, rec(v.X))
		default:
			return mk("unop", v.Op.String(), v, rec(v.X))
		}
	case *ssa.Field:
		return fieldTerm(rec(v.X), structFieldName(v.X.Type(), v.Field), v, p, busy, depth)
	case *ssa.FieldAddr:
		// address of a field used as a value (e.g. &x.f passed on)
		return mk("addr", "", v, fieldTerm(p.addrBaseTerm(v.X, busy, depth), structFieldName(deref(v.X.Type()), v.Field), v, p, busy, depth))
	case *ssa.IndexAddr:
		return mk("addr", "", v, mk("index", "", v, p.addrBaseTerm(v.X, busy, depth), rec(v.Index)))
	case *ssa.Index:
		return mk("index", "", v, rec(v.X), rec(v.Index))
	case *ssa.Lookup:
		return mk("lookup", "", v, rec(v.X), rec(v.Index))
	case *ssa.Slice:
		if v.Low == nil && v.High == nil {
			if elems, ok := variadicElems(v); ok && len(elems) > 0 {
				var ts []*Term
				for _, e := range elems {
					ts = append(ts, rec(e))
				}
				return mk("list", "", v, ts...)
			}
		}
		return mk("slice", "", v, p.addrBaseTerm(v.X, busy, depth), rec(v.Low), rec(v.High))
	case *ssa.Extract:
		t := mk("extract", "", v, rec(v.Tuple))
		t.Idx = v.Index
		return t
	case *ssa.Range:
		return mk("range", "", v, rec(v.X))
	case *ssa.Next:
		return mk("next", "", v, rec(v.Iter))
	case *ssa.Select:
		return mk("select", "", v)
	case *ssa.Call:
		return p.callTerm(v, &v.Call, busy, depth)
	}
	return mk("unknown", fmt.Sprintf("%T", v), v)
}

func (p *Program) callTerm(v ssa.Value, c *ssa.CallCommon, busy map[ssa.Value]bool, depth int) *Term {
	rec := func(x ssa.Value) *Term { return p.termOf(x, busy, depth+1) }
	var args []*Term
	if c.IsInvoke() {
		args = append(args, rec(c.Value))
		for _, a := range c.Args {
			args = append(args, rec(a))
		}
		t := mk("invoke", c.Method.Name(), v, args...)
		t.Method = c.Method
		return t
	}
	if b, ok := c.Value.(*ssa.Builtin); ok {
		for _, a := range c.Args {
			args = append(args, rec(a))
		}
		return mk("builtin", b.Name(), v, args...)
	}
	if fn := c.StaticCallee(); fn != nil {
		for _, a := range c.Args {
			args = append(args, rec(a))
		}
		t := mk("call", funcName(fn), v, args...)
		t.Fn = fn
		return t
	}
	ft := rec(c.Value)
	args = append(args, ft)
	for _, a := range c.Args {
		args = append(args, rec(a))
	}
	t := mk("dyncall", "", v, args...)
	if cl := ft.Resolve("closure"); cl != nil {
		t.Fn = cl.Fn
	}
	return t
}

// loadTerm describes *addr.
func (p *Program) loadTerm(v ssa.Value, addr ssa.Value, busy map[ssa.Value]bool, depth int) *Term {
	rec := func(x ssa.Value) *Term { return p.termOf(x, busy, depth+1) }
	switch a := addr.(type) {
	case *ssa.FieldAddr:
		base := p.addrBaseTerm(a.X, busy, depth)
		return fieldTerm(base, structFieldName(deref(a.X.Type()), a.Field), v, p, busy, depth)
	case *ssa.IndexAddr:
		return mk("index", "", v, p.addrBaseTerm(a.X, busy, depth), rec(a.Index))
	case *ssa.Alloc:
		return p.cellTerm(a, v, busy, depth)
	case *ssa.FreeVar:
		if b := freeVarBinding(a); b != nil {
			if al, ok := b.(*ssa.Alloc); ok {
				return p.cellTerm(al, v, busy, depth)
			}
			return p.loadTerm(v, b, busy, depth)
		}
		return mk("fv", a.Name(), v)
	case *ssa.Global:
		return mk("global", a.Pkg.Pkg.Name()+"."+a.Name(), v)
	}
	// pointer value from elsewhere: transparent deref
	return rec(addr)
}

// addrBaseTerm describes the object a pointer designates (pointers are
// transparent: p and *p have the same description).
func (p *Program) addrBaseTerm(x ssa.Value, busy map[ssa.Value]bool, depth int) *Term {
	switch a := x.(type) {
	case *ssa.Alloc:
		// content of the local if it is assigned wholesale (spilled receiver,
		// `x := f()`), otherwise the allocation itself (composite literal)
		whole, _ := p.storesTo(a)
		if len(whole) > 0 {
			return p.cellTerm(a, a, busy, depth)
		}
		return mk("alloc", typeStr(a.Type()), a)
	case *ssa.FieldAddr:
		return fieldTerm(p.addrBaseTerm(a.X, busy, depth), structFieldName(deref(a.X.Type()), a.Field), a, p, busy, depth)
	case *ssa.IndexAddr:
		return mk("index", "", a, p.addrBaseTerm(a.X, busy, depth), p.termOf(a.Index, busy, depth+1))
	case *ssa.FreeVar:
		if b := freeVarBinding(a); b != nil {
			return p.addrBaseTerm(b, busy, depth)
		}
	}
	return p.termOf(x, busy, depth+1)
}

// encodedInto: `a` is a []byte local whose address is handed to codec.NewEncoderBytes; the objects
// passed to that encoder's Encode are what the buffer holds.
func (p *Program) encodedInto(a *ssa.Alloc, busy map[ssa.Value]bool, depth int) *Term {
	if !isByteSlice(deref(a.Type())) || a.Referrers() == nil {
		return nil
	}
	var out *Term
	for _, r := range *a.Referrers() {
		call, ok := r.(*ssa.Call)
		if !ok || call.Call.StaticCallee() == nil || call.Call.StaticCallee().Name() != "NewEncoderBytes" || len(call.Call.Args) != 2 || call.Call.Args[0] != ssa.Value(a) || call.Referrers() == nil {
			continue
		}
		for _, u := range *call.Referrers() {
			ec, ok := u.(*ssa.Call)
			if !ok || ec.Call.StaticCallee() == nil || ec.Call.StaticCallee().Name() != "Encode" || len(ec.Call.Args) != 2 || ec.Call.Args[0] != ssa.Value(call) {
				continue
			}
			t := mk("encoded", "", ec, p.termOf(ec.Call.Args[1], busy, depth+1), p.termOf(call.Call.Args[1], busy, depth+1))
			if out != nil {
				return nil // more than one encoding into the same buffer: not described
			}
			out = t
		}
	}
	return out
}

// cellTerm: the set of values ever stored into a local cell (flow-insensitive).
func (p *Program) cellTerm(a *ssa.Alloc, v ssa.Value, busy map[ssa.Value]bool, depth int) *Term {
	if busy[a] {
		return mk("mu", "", a)
	}
	busy[a] = true
	defer delete(busy, a)
	whole, _ := p.storesTo(a)
	var alts []*Term
	for _, s := range whole {
		alts = append(alts, p.termOf(s, busy, depth+1))
	}
	if len(alts) == 0 {
		// a struct built field by field (composite literal): describe its content
		if st := p.structTerm(a, busy, depth); st != nil {
			return st
		}
		// a byte buffer filled through its address by an encoder (`NewEncoderBytes(&buf, h).Encode(x)`):
		// its content is the encoding of x under handle h
		if enc := p.encodedInto(a, busy, depth); enc != nil {
			return enc
		}
		// zero value of the cell (never stored)
		return mk("alloc", typeStr(a.Type()), a)
	}
	return oneOf("cell", v, alts)
}

// fieldTerm builds base.name, looking through fresh allocations: a field of a
// composite literal / local struct is whatever was stored into that field.
func fieldTerm(base *Term, name string, v ssa.Value, p *Program, busy map[ssa.Value]bool, depth int) *Term {
	if base.Op == "struct" {
		for _, a := range base.Args {
			if a.Op == "fieldval" && a.Name == name && len(a.Args) == 1 {
				return a.Args[0]
			}
		}
	}
	if base.Op == "alloc" {
		if al, ok := base.V.(*ssa.Alloc); ok {
			_, byField := p.storesTo(al)
			if vals, ok := byField[name]; ok && len(vals) > 0 {
				key := fieldKey{al, name}
				if busyField(busy, key) {
					return mk("mu", "", v)
				}
				var alts []*Term
				for _, s := range vals {
					alts = append(alts, p.termOf(s, busy, depth+1))
				}
				return oneOf("cell", v, alts)
			}
		}
	}
	return mk("field", name, v, base)
}

type fieldKey struct {
	a    *ssa.Alloc
	name string
}

func busyField(busy map[ssa.Value]bool, k fieldKey) bool { return false }

func oneOf(op string, v ssa.Value, alts []*Term) *Term {
	seen := map[string]bool{}
	var out []*Term
	for _, a := range alts {
		if a.Op == op || (a.Op == "phi" || a.Op == "cell") && (op == "phi" || op == "cell") {
			for _, b := range a.Args {
				if s := b.String(); !seen[s] {
					seen[s] = true
					out = append(out, b)
				}
			}
			continue
		}
		if s := a.String(); !seen[s] {
			seen[s] = true
			out = append(out, a)
		}
	}
	if len(out) == 1 {
		return out[0]
	}
	sort.Slice(out, func(i, j int) bool { return out[i].String() < out[j].String() })
	return &Term{Op: op, V: v, Args: out}
}

// storesTo collects, for a local allocation, the values stored wholesale and
// per field, including stores made through closures that captured the cell.
type storeInfo struct {
	whole   []ssa.Value
	byField map[string][]ssa.Value
	instrs  []*ssa.Store
}

var storeCache = map[ssa.Value]*storeInfo{}

func (p *Program) storesTo(a *ssa.Alloc) ([]ssa.Value, map[string][]ssa.Value) {
	si := p.storeInfoOf(a)
	return si.whole, si.byField
}

func (p *Program) storeInfoOf(a ssa.Value) *storeInfo {
	if si, ok := storeCache[a]; ok {
		return si
	}
	si := &storeInfo{byField: map[string][]ssa.Value{}}
	storeCache[a] = si
	var walk func(addr ssa.Value, seen map[ssa.Value]bool)
	walk = func(addr ssa.Value, seen map[ssa.Value]bool) {
		if seen[addr] {
			return
		}
		seen[addr] = true
		refs := addr.Referrers()
		if refs == nil {
			return
		}
		for _, r := range *refs {
			switch r := r.(type) {
			case *ssa.Store:
				if r.Addr == addr {
					si.whole = append(si.whole, r.Val)
					si.instrs = append(si.instrs, r)
				}
			case *ssa.FieldAddr:
				if r.X == addr {
					name := structFieldName(deref(addr.Type()), r.Field)
					if rr := r.Referrers(); rr != nil {
						for _, u := range *rr {
							if st, ok := u.(*ssa.Store); ok && st.Addr == r {
								si.byField[name] = append(si.byField[name], st.Val)
								si.instrs = append(si.instrs, st)
							}
						}
					}
				}
			case *ssa.MakeClosure:
				fn := r.Fn.(*ssa.Function)
				for i, b := range r.Bindings {
					if b == addr && i < len(fn.FreeVars) {
						walk(fn.FreeVars[i], seen)
					}
				}
			}
		}
	}
	walk(a, map[ssa.Value]bool{})
	return si
}

// freeVarBinding finds the value bound to a free variable by the (unique)
// MakeClosure of its function in the parent.
func freeVarBinding(fv *ssa.FreeVar) ssa.Value {
	fn := fv.Parent()
	par := fn.Parent()
	if par == nil {
		return nil
	}
	idx := -1
	for i, f := range fn.FreeVars {
		if f == fv {
			idx = i
		}
	}
	if idx < 0 {
		return nil
	}
	var found ssa.Value
	n := 0
	for _, b := range par.Blocks {
		for _, in := range b.Instrs {
			if mc, ok := in.(*ssa.MakeClosure); ok && mc.Fn == fn && idx < len(mc.Bindings) {
				found = mc.Bindings[idx]
				n++
			}
		}
	}
	if n == 1 {
		return found
	}
	return nil
}

func deref(t types.Type) types.Type {
	if pt, ok := t.Underlying().(*types.Pointer); ok {
		return pt.Elem()
	}
	return t
}

func structFieldName(t types.Type, i int) string {
	t = deref(t)
	if st, ok := t.Underlying().(*types.Struct); ok && i < st.NumFields() {
		if n, isNamed := t.(*types.Named); isNamed {
			return canonFieldName(n, st.Field(i).Name())
		}
		return st.Field(i).Name()
	}
	return fmt.Sprintf("f%d", i)
}

func typeStr(t types.Type) string {
	return canonTypeString(strings.ReplaceAll(types.TypeString(t, func(p *types.Package) string { return p.Name() }), modPath+"/", ""))
}

func constString(c *ssa.Const) string {
	if c.Value == nil {
		return "nil"
	}
	if c.Value.Kind() == constant.String {
		return fmt.Sprintf("%q", constant.StringVal(c.Value))
	}
	return c.Value.ExactString()
}

// ---- queries on terms ---------------------------------------------------

func (t *Term) String() string {
	if t == nil {
		return "<nil>"
	}
	if t.str != "" {
		return t.str
	}
	t.str = t.Render(nil)
	return t.str
}

// Render prints the term; hook may override the rendering of any subterm
// (used by sibling-agreement rules to erase declared differences).
func (t *Term) Render(hook func(t *Term, rec func(*Term) string) (string, bool)) string {
	if t == nil {
		return "<nil>"
	}
	var rec func(x *Term) string
	rec = func(x *Term) string {
		if hook == nil {
			return x.String()
		}
		return x.Render(hook)
	}
	if hook != nil {
		if s, ok := hook(t, rec); ok {
			return s
		}
	}
	var s string
	argstr := func() string {
		var xs []string
		for _, a := range t.Args {
			xs = append(xs, rec(a))
		}
		return strings.Join(xs, ",")
	}
	switch t.Op {
	case "param":
		s = fmt.Sprintf("P%d", t.Idx)
		if t.Fn != nil {
			s += "@" + shortFn(t.Fn)
		}
	case "const":
		s = "c:" + t.Name
	case "field":
		s = rec(t.Args[0]) + "." + t.Name
	case "call":
		s = "call:" + t.Name + "(" + argstr() + ")"
	case "invoke":
		s = "invoke:" + t.Name + "(" + argstr() + ")"
	case "dyncall":
		s = "dyncall(" + argstr() + ")"
	case "builtin":
		s = t.Name + "(" + argstr() + ")"
	case "extract":
		s = fmt.Sprintf("%s#%d", rec(t.Args[0]), t.Idx)
	case "binop":
		s = "(" + rec(t.Args[0]) + t.Name + rec(t.Args[1]) + ")"
	case "unop":
		s = t.Name + rec(t.Args[0])
	case "phi", "cell":
		s = t.Op + "{" + strings.ReplaceAll(argstr(), ",", "|") + "}"
	case "index":
		s = rec(t.Args[0]) + "[" + rec(t.Args[1]) + "]"
	case "lookup":
		s = rec(t.Args[0]) + "[[" + rec(t.Args[1]) + "]]"
	case "slice":
		s = rec(t.Args[0]) + "[" + rec(t.Args[1]) + ":" + rec(t.Args[2]) + "]"
	case "closure":
		s = "closure:" + t.Name
	case "global":
		s = "g:" + t.Name
	case "alloc":
		s = "new:" + t.Name
	case "assert":
		s = "assert(" + rec(t.Args[0]) + ")"
	case "addr":
		s = "&" + rec(t.Args[0])
	case "mu":
		s = "µ"
	case "list":
		s = "[" + argstr() + "]"
	case "struct":
		s = t.Name + "{" + argstr() + "}"
	case "encoded":
		s = "encoded(" + argstr() + ")"
	case "fieldval":
		s = t.Name + ":" + rec(t.Args[0])
	case "LT", "EQ":
		s = t.Op + "(" + argstr() + ")"
	default:
		s = t.Op + ":" + t.Name + "(" + argstr() + ")"
	}
	return s
}

func shortFn(f *ssa.Function) string {
	return f.Name()
}

// Has reports whether any subterm satisfies pred.
func (t *Term) Has(pred func(*Term) bool) bool {
	return t.has(pred, 0)
}

// HasLocal: like Has, without looking into helper functions.
func (t *Term) HasLocal(pred func(*Term) bool) bool {
	return t.has(pred, 99)
}

// has looks for a subterm satisfying pred; a call to a function of the module is also looked
// through (its returned terms with the arguments substituted), so that moving an expression into
// a helper does not hide where a value comes from.
func (t *Term) has(pred func(*Term) bool, depth int) bool {
	if t == nil {
		return false
	}
	if pred(t) {
		return true
	}
	for _, a := range t.Args {
		if a.has(pred, depth) {
			return true
		}
	}
	if depth < 3 && theProg != nil && (t.Op == "call" || t.Op == "extract" && len(t.Args) == 1 && t.Args[0].Op == "call") {
		if ex := theProg.expandCached(t); ex != t {
			return ex.has(pred, depth+1)
		}
	}
	return false
}

var theProg *Program

var expandCache = map[*Term]*Term{}

func (p *Program) expandCached(t *Term) *Term {
	if p.phiHook != nil {
		return p.X1(t)
	}
	if ex, ok := expandCache[t]; ok {
		return ex
	}
	ex := p.X1(t)
	expandCache[t] = ex
	return ex
}

// Find returns all subterms satisfying pred (pre-order).
func (t *Term) Find(pred func(*Term) bool) []*Term {
	var out []*Term
	var rec func(x *Term)
	rec = func(x *Term) {
		if x == nil {
			return
		}
		if pred(x) {
			out = append(out, x)
		}
		for _, a := range x.Args {
			rec(a)
		}
	}
	rec(t)
	return out
}

// Alts returns the alternatives of a phi/cell, or the term itself.
func (t *Term) Alts() []*Term {
	if t.Op == "phi" || t.Op == "cell" {
		return t.Args
	}
	return []*Term{t}
}

// Strip peels assertions and address-of wrappers.
func (t *Term) Strip() *Term {
	for t != nil && (t.Op == "assert" || t.Op == "addr") {
		t = t.Args[0]
	}
	return t
}

// Resolve returns the unique alternative with the given op, if all non-nil
// alternatives agree on it.
func (t *Term) Resolve(op string) *Term {
	var found *Term
	for _, a := range t.Alts() {
		a = a.Strip()
		if a.Op == "const" && a.Name == "nil" {
			continue
		}
		if a.Op == "mu" {
			continue
		}
		if a.Op != op {
			return nil
		}
		if found != nil && found.String() != a.String() {
			return nil
		}
		found = a
	}
	return found
}

// IsParam: parameter #idx of function fn (or of any function if fn nil).
func (t *Term) IsParam(fn *ssa.Function, idx int) bool {
	t = t.Strip()
	return t.Op == "param" && t.Idx == idx && (fn == nil || t.Fn == fn)
}

// IsField: base.name with base satisfying pred.
func (t *Term) IsField(name string, base func(*Term) bool) bool {
	t = t.Strip()
	return t.Op == "field" && t.Name == name && (base == nil || base(t.Args[0]))
}

// IsCallTo: static call (or resolved dyncall) to fn.
func (t *Term) IsCallTo(fn *ssa.Function) bool {
	return t != nil && (t.Op == "call" || t.Op == "dyncall") && fn != nil && (t.Fn == fn || pureForwardTarget(t.Fn) == fn)
}

// DerivesFrom: some leaf/subterm of t satisfies pred (t "depends on" it).
func (t *Term) DerivesFrom(pred func(*Term) bool) bool { return t.Has(pred) }

// Subst replaces parameters of fn by the given argument terms.
func (t *Term) Subst(fn *ssa.Function, args []*Term) *Term {
	if t == nil {
		return nil
	}
	if t.Op == "param" && t.Fn == fn && t.Idx < len(args) {
		return args[t.Idx]
	}
	if len(t.Args) == 0 {
		return t
	}
	changed := false
	na := make([]*Term, len(t.Args))
	for i, a := range t.Args {
		na[i] = a.Subst(fn, args)
		if na[i] != a {
			changed = true
		}
	}
	if !changed {
		return t
	}
	c := *t
	c.Args = na
	c.str = ""
	return &c
}

// ReturnTerms: for each return statement the terms of its results.
func (p *Program) ReturnTerms(fn *ssa.Function) [][]*Term {
	var out [][]*Term
	for _, b := range fn.Blocks {
		if len(b.Instrs) == 0 || b == fn.Recover {
			continue
		}
		if r, ok := b.Instrs[len(b.Instrs)-1].(*ssa.Return); ok {
			var ts []*Term
			for i := range r.Results {
				ts = append(ts, p.TermOf(RetVal(r, i)))
			}
			out = append(out, ts)
		}
	}
	return out
}

// Inline replaces calls to module functions (static callee with a body) by
// their substituted return terms, up to depth levels. Multi-return callees
// yield a phi of alternatives.
func (p *Program) Inline(t *Term, depth int) *Term {
	if t == nil || depth <= 0 {
		return t
	}
	// inline children first
	nt := t
	if len(t.Args) > 0 {
		na := make([]*Term, len(t.Args))
		changed := false
		for i, a := range t.Args {
			na[i] = p.Inline(a, depth)
			if na[i] != a {
				changed = true
			}
		}
		if changed {
			c := *t
			c.Args = na
			c.str = ""
			nt = &c
		}
	}
	idx := 0
	callT := nt
	if nt.Op == "extract" {
		idx = nt.Idx
		callT = nt.Args[0]
	}
	if (callT.Op == "call" || callT.Op == "dyncall") && callT.Fn != nil && len(callT.Fn.Blocks) > 0 && callT.Fn.Pkg != nil && p.inModule(callT.Fn.Pkg.Pkg.Path()) {
		if nt.Op != "extract" && callT.Fn.Signature.Results().Len() != 1 {
			return nt
		}
		args := callT.Args
		if callT.Op == "dyncall" {
			args = args[1:]
		}
		var alts []*Term
		for _, rt := range p.ReturnTerms(callT.Fn) {
			if idx < len(rt) {
				alts = append(alts, p.Inline(rt[idx].Subst(callT.Fn, args), depth-1))
			}
		}
		if len(alts) > 0 {
			return oneOf("phi", nt.V, alts)
		}
	}
	return nt
}

// PointeeTerm describes what a pointer argument designates (the content of a
// local whose address is passed), falling back to the value's own term.
func (p *Program) PointeeTerm(v ssa.Value) *Term {
	return p.addrBaseTerm(v, map[ssa.Value]bool{}, 0)
}

// RetVal resolves result #i of a return: when results are kept in memory
// (functions with defers: `*res = v; rundefers; t = *res; return t`) it is
// the value last stored into the result cell in the returning block.
func RetVal(r *ssa.Return, i int) ssa.Value {
	v := r.Results[i]
	u, ok := v.(*ssa.UnOp)
	if !ok || u.Op != token.MUL {
		return v
	}
	cell, ok := u.X.(*ssa.Alloc)
	if !ok {
		return v
	}
	b := r.Block()
	for k := len(b.Instrs) - 1; k >= 0; k-- {
		if st, ok := b.Instrs[k].(*ssa.Store); ok && st.Addr == cell {
			return st.Val
		}
	}
	return v
}

// structTerm describes a locally built struct by the values stored into its fields.
func (p *Program) structTerm(a *ssa.Alloc, busy map[ssa.Value]bool, depth int) *Term {
	_, byField := p.storesTo(a)
	if len(byField) == 0 {
		return nil
	}
	names := make([]string, 0, len(byField))
	for n := range byField {
		names = append(names, n)
	}
	sort.Strings(names)
	t := &Term{Op: "struct", Name: typeStr(deref(a.Type())), V: a}
	for _, n := range names {
		var alts []*Term
		for _, v := range byField[n] {
			alts = append(alts, p.termOf(v, busy, depth+1))
		}
		ft := oneOf("cell", a, alts)
		t.Args = append(t.Args, &Term{Op: "fieldval", Name: n, V: a, Args: []*Term{ft}})
	}
	return t
}

// ContentTerm: like TermOf, but a pointer to a freshly built struct is described by the struct's content.
func (p *Program) ContentTerm(v ssa.Value) *Term {
	if a, ok := v.(*ssa.Alloc); ok {
		if st := p.structTerm(a, map[ssa.Value]bool{}, 0); st != nil {
			return st
		}
	}
	return p.TermOf(v)
}

// boundTarget: for the synthetic wrapper go/ssa creates for a method value (x.m), the method m.
func boundTarget(f *ssa.Function) *ssa.Function {
	if f == nil || !strings.HasPrefix(f.Synthetic, "bound method wrapper") {
		return nil
	}
	var m *ssa.Function
	eachInstr(f, func(in ssa.Instruction) {
		if cc := callCommon(in); cc != nil && cc.StaticCallee() != nil && m == nil {
			m = cc.StaticCallee()
		}
	})
	return m
}

// boundOnlyReceiver: when par is the receiver of an unexported method of an unexported module type
// that is used only as a method value bound at a single site (and called by nobody else but
// itself), the value bound there; nil otherwise.
func (p *Program) boundOnlyReceiver(par *ssa.Parameter) ssa.Value {
	fn := par.Parent()
	if fn == nil || fn.Signature.Recv() == nil || len(fn.Params) == 0 || fn.Params[0] != par {
		return nil
	}
	if p.boundRecv == nil {
		p.boundRecv = map[*ssa.Function]ssa.Value{}
		sites := map[*ssa.Function][]ssa.Value{}
		other := map[*ssa.Function]bool{}
		for f := range p.AllFuncs {
			if f.Pkg == nil && f.Parent() == nil && boundTarget(f) == nil {
				continue
			}
			if boundTarget(f) != nil {
				continue // the wrapper's own call of the method
			}
			f := f
			eachInstr(f, func(in ssa.Instruction) {
				if mc, ok := in.(*ssa.MakeClosure); ok {
					if m := boundTarget(mc.Fn.(*ssa.Function)); m != nil && len(mc.Bindings) == 1 {
						sites[m] = append(sites[m], mc.Bindings[0])
					}
				}
				if cc := callCommon(in); cc != nil {
					if g := cc.StaticCallee(); g != nil && g.Signature.Recv() != nil && len(cc.Args) > 0 {
						if g != f && !(f.Parent() != nil && outermost(f) == g) {
							// a direct call from outside: one more site — usable only when the receiver is a
							// struct built on the spot in the caller (the "closure turned into struct + method" shape)
							if al, isAl := cc.Args[0].(*ssa.Alloc); isAl && al.Parent() == f {
								sites[g] = append(sites[g], cc.Args[0])
							} else {
								other[g] = true
							}
						} else if g == f && cc.Args[0] != ssa.Value(f.Params[0]) {
							other[g] = true // recursion on another receiver
						} else if g != f {
							other[g] = true // called from its own closures: keep it simple
						}
					}
				}
				// the method referenced as a plain function value (method expression)
				for _, op := range in.Operands(nil) {
					if g, ok := (*op).(*ssa.Function); ok && g.Signature.Recv() != nil {
						if cc := callCommon(in); cc == nil || cc.Value != *op {
							other[g] = true
						}
					}
				}
			})
		}
		for m, bs := range sites {
			if len(bs) != 1 || other[m] || m.Pkg == nil || !strings.HasPrefix(m.Pkg.Pkg.Path(), modPath) {
				continue
			}
			if m.Object() == nil || m.Object().Exported() {
				continue
			}
			n, ok := deref(m.Signature.Recv().Type()).(*types.Named)
			if !ok || n.Obj().Exported() {
				continue
			}
			// the type must not reach an interface holding the method (dynamic callers)
			p.boundRecv[m] = bs[0]
		}
	}
	return p.boundRecv[fn]
}
