package main

import (
	"fmt"
	"strings"

	"golang.org/x/tools/go/ssa"
)

func init() {
	register("C10", propMeta{
		Explanation: "Decides lock discipline: (R1) guarded-by — every access to a field of the table is made under its mutex on every call path (type-level locksets, entry lockset = intersection over all production call sites, constructors exempt for their fresh object, goroutines inherit a lock only when joined by WaitGroup.Wait before it is released); " +
			"(R2) stateful hashers stored in struct fields are used only under the exclusive lock; (R3) every Lock/RLock is released on every exit; (R4) the store write that persists an insertion happens under a lock every query path also takes; (R5) goroutines spawned on the insertion path are joined; (R6) guarded buffers never escape by reference (cache reads return copies).",
		Added:       "Also (R7) no method re-acquires its receiver's lock through another method of the same receiver; (R8) HTTP handlers write only to their own locals. Third round: (R9) after writing an error answer a query handler returns. Fifth round: RaftNode.state is confined to the FSM goroutine; response bodies never alias a recycled buffer.",
		Assumptions: []string{"mutexes are identified by the struct type that owns them (one balloon, one hyper tree, one batch cache per node)"},
		Declined:    "'never mixes state' as a linearizability statement over all interleavings; exploration under the race detector; races inside third-party code.",
	}, runC10)
}

type guardSpec struct {
	pkg, typ, field string
	lock            string // type-level lock id
	exclForRead     bool   // reads also need the exclusive lock (stateful object)
	why             string
}

var c10Guards = []guardSpec{
	{"balloon", "Balloon", "version", "balloon.Balloon.RWMutex", false, "next version to assign; read by every query, written by Add/AddBulk/RefreshVersion/Close"},
	{"balloon", "Balloon", "historyTree", "balloon.Balloon.RWMutex", false, "set to nil by Close"},
	{"balloon", "Balloon", "hyperTree", "balloon.Balloon.RWMutex", false, "set to nil by Close"},
	{"balloon/hyper", "HyperTree", "cache", "hyper.HyperTree.RWMutex", false, "set to nil by Close"},
	{"balloon/hyper", "HyperTree", "hasher", "hyper.HyperTree.RWMutex", true, "stateful hasher (Reset/Write/Sum)"},
	{"balloon/hyper", "HyperTree", "defaultHashes", "hyper.HyperTree.RWMutex", false, "set to nil by Close"},
	{"balloon/hyper", "HyperTree", "store", "hyper.HyperTree.RWMutex", false, "set to nil by Close"},
	{"balloon/hyper", "HyperTree", "batchLoader", "hyper.HyperTree.RWMutex", false, "set to nil by Close"},
	{"balloon/history", "HistoryTree", "hasher", "balloon.Balloon.RWMutex", true, "stateful hasher shared by all insertions; the history tree has no lock of its own, the balloon's exclusive lock serialises its users"},
	{"balloon/history", "HistoryTree", "writeCache", "balloon.Balloon.RWMutex", true, "LRU cache mutated on Get (MoveToFront) and Put; only insertions may touch it"},
	{"balloon/hyper", "BatchCache", "buf", "hyper.BatchCache.RWMutex", false, "flat cache buffer read by queries and written by insertions"},
	{"consensus", "RaftNode", "closed", "consensus.RaftNode.Mutex", false, "shutdown flag"},
}

func checkGuards(c *Ctx, rule string, guards []guardSpec) {
	p := c.P
	for _, g := range guards {
		accs := p.FieldAccesses(g.pkg, g.typ, g.field)
		if len(accs) == 0 {
			c.Fail(rule, g.typ+"."+g.field, 0, "guarded field no longer exists or is never accessed (table out of date: "+g.why+")")
			continue
		}
		bad := map[string]bool{}
		n := 0
		for _, a := range accs {
			if a.fresh {
				continue
			}
			n++
			need := 1
			if a.write || g.exclForRead {
				need = 2
			}
			if a.held[g.lock] >= need {
				continue
			}
			construct := funcName(a.fn) + ":" + g.typ + "." + g.field
			if bad[construct] {
				continue
			}
			bad[construct] = true
			kind := "read"
			if a.write {
				kind = "written"
			}
			needS := "held"
			if need == 2 {
				needS = "held exclusively"
			}
			c.Fail(rule, construct, a.in.Pos(), fmt.Sprintf("%s.%s is %s while %s is not %s on every call path (held here: %s) — %s", g.typ, g.field, kind, g.lock, needS, a.held, g.why))
		}
		if len(bad) == 0 {
			c.Ok(rule, g.typ+"."+g.field, accs[0].in.Pos(), fmt.Sprintf("%d access(es) outside constructors, all under %s", n, g.lock))
		}
	}
}

func runC10(c *Ctx) {
	c.Rule("R11", "the FSM's applied-state record (RaftNode.state) is touched only on raft's FSM goroutine or before raft starts", 3)
	fsmStateConfined(c, "R11")
	c.Rule("R10", "memory of an object recycled through a sync.Pool never leaves its Get/Put window (returned, stored outside the function, sent)", 1)
	poolEscapes(c, "R10", []string{"api/apihttp", "balloon", "balloon/history", "balloon/hyper", "balloon/cache", "consensus", "protocol"})
	c.Rule("R1", "guarded-by table: every access under the owning mutex on every call path", 12)
	c.Rule("R3", "every Lock/RLock is released on every exit (deferred or explicit)", 10)
	c.Rule("R4", "the store write persisting an insertion runs under a lock that every query path takes", 1)
	c.Rule("R5", "goroutines spawned on the insertion path are joined before their spawner returns", 2)
	c.Rule("R6", "guarded buffers do not escape by reference: cache reads return copies", 1)
	c.Rule("R7", "no method re-acquires its receiver's lock through another method of the same receiver", 1)
	reentrantLocks(c, "R7", []string{"balloon", "balloon/hyper", "balloon/history", "balloon/cache", "consensus", "gossip", "client", "server"})
	c.Rule("R8", "concurrent requests share no decoded request state (handlers write only to their own locals)", 10)
	handlerStatePerRequest(c, "R8")
	c.Rule("R9", "a refused query ends the request: after an error answer the handler returns", 5)
	errorResponseReturns(c, "R9")
	checkGuards(c, "R1", c10Guards)
	checkUnlocks(c, "R3", []string{"balloon", "balloon/hyper", "balloon/history", "balloon/cache", "gossip", "client", "consensus", "server", "storage/bplus", "storage/rocks"})
	c10R4(c)
	joinedGoroutines(c, "R5")
	c10R6(c)
}

// checkUnlocks: at every return no lock acquired in the function is still
// held, unless its unlock was deferred on the way.
func checkUnlocks(c *Ctx, rule string, pkgs []string) {
	p := c.P
	want := map[string]bool{}
	for _, k := range pkgs {
		want[modPkg(k)] = true
	}
	for _, fn := range p.ModFuncs {
		if fn.Pkg == nil || !want[fn.Pkg.Pkg.Path()] || !p.Production(fn) {
			continue
		}
		hasLock := false
		deferred := map[string][]*ssa.BasicBlock{}
		eachInstr(fn, func(in ssa.Instruction) {
			id, op := p.lockOp(callCommon(in))
			if op == "" {
				return
			}
			if _, isDefer := in.(*ssa.Defer); isDefer {
				if op == "Unlock" || op == "RUnlock" {
					deferred[id] = append(deferred[id], in.Block())
				}
				return
			}
			if op == "Lock" || op == "RLock" {
				hasLock = true
			}
		})
		if !hasLock {
			continue
		}
		li := p.Locksets(fn)
		bad := false
		for _, ex := range li.exit {
			for id := range ex.ls {
				ok := false
				for _, db := range deferred[id] {
					if db.Dominates(ex.in.Block()) {
						ok = true
					}
				}
				if !ok {
					bad = true
					c.Fail(rule, funcName(fn)+":"+id, ex.in.Pos(), "returns with "+id+" still held (no deferred or explicit unlock on this path)")
				}
			}
		}
		if !bad {
			c.Ok(rule, funcName(fn), fn.Pos(), "all exits release what was acquired")
		}
	}
}

// c10R4: finding K1 — apply = compute under the balloon lock, then persist without it.
func c10R4(c *Ctx) {
	p := c.P
	addBulk := p.MustMethod(pkgBalloon, "Balloon", "AddBulk")
	add := p.MustMethod(pkgBalloon, "Balloon", "Add")
	n := 0
	for _, fn := range p.ModFuncs {
		if p.isTestScaffold(fn) || fn.Pkg == nil || fn.Pkg.Pkg.Path() == modPkg(pkgBalloon) {
			continue
		}
		fn := fn
		eachInstr(fn, func(in ssa.Instruction) {
			cc := callCommon(in)
			if cc == nil || !cc.IsInvoke() || cc.Method.Name() != "Mutate" {
				return
			}
			muts := p.TermOf(cc.Args[0])
			if !muts.Has(func(t *Term) bool { return t.IsCallTo(addBulk) || t.IsCallTo(add) }) {
				return
			}
			n++
			held := p.HeldAt(in)
			c.Check(held["balloon.Balloon.RWMutex"] >= 1, "R4", funcName(fn)+":Mutate", in.Pos(), "persisted under the balloon lock",
				"the mutations returned by Balloon.Add/AddBulk are written to the store after the balloon lock was released (held: "+held.String()+"): a query in the window sees the new version counter and in-memory hyper cache but not the persisted nodes")
		})
	}
	if n == 0 {
		c.Fail("R4", "persist-site", 0, "no store write of the mutations returned by Balloon.Add/AddBulk was found")
	}
}

// joinedGoroutines: every go statement in the balloon/consensus apply path is followed by the Wait of the WaitGroup its body signals.
func joinedGoroutines(c *Ctx, rule string) {
	p := c.P
	for _, nm := range []string{"Add", "AddBulk"} {
		fn := p.MustMethod(pkgBalloon, "Balloon", nm)
		var gos []*ssa.Go
		eachInstr(fn, func(in ssa.Instruction) {
			if g, ok := in.(*ssa.Go); ok {
				gos = append(gos, g)
			}
		})
		if len(gos) == 0 {
			c.Ok(rule, funcName(fn), fn.Pos(), "no goroutine spawned")
			continue
		}
		for _, g := range gos {
			isWait := func(in ssa.Instruction) bool {
				cc := callCommon(in)
				if cc == nil {
					return false
				}
				f := cc.StaticCallee()
				return f != nil && f.Name() == "Wait" && f.Signature.Recv() != nil && namedIs(f.Signature.Recv().Type(), "sync", "WaitGroup")
			}
			esc := p.EscapesWithout(fn, isWait, mustOpts{start: g})
			// the body signals Done on every path
			body, _ := g.Call.Value.(*ssa.MakeClosure)
			doneOK := false
			if body != nil {
				bf := body.Fn.(*ssa.Function)
				isDone := func(in ssa.Instruction) bool {
					cc := callCommon(in)
					if cc == nil {
						return false
					}
					f := cc.StaticCallee()
					return f != nil && f.Name() == "Done" && f.Signature.Recv() != nil && namedIs(f.Signature.Recv().Type(), "sync", "WaitGroup")
				}
				doneOK = p.EscapesWithout(bf, isDone, mustOpts{}) == nil
			}
			c.Check(esc == nil && doneOK, rule, funcName(fn)+":go", g.Pos(), "goroutine joined by WaitGroup.Wait on every path; body signals Done on every path", "a goroutine spawned on the insertion path is not joined on every path before the function returns (or its body can finish without Done)")
			// what the goroutine writes is read by the spawner only after the join
			if body != nil {
				bf := body.Fn.(*ssa.Function)
				var waits []ssa.Instruction
				eachInstr(fn, func(in ssa.Instruction) {
					if isWait(in) {
						waits = append(waits, in)
					}
				})
				early := 0
				for i, b := range body.Bindings {
					al, ok := b.(*ssa.Alloc)
					if !ok || i >= len(bf.FreeVars) {
						continue
					}
					written := false
					if refs := bf.FreeVars[i].Referrers(); refs != nil {
						for _, r := range *refs {
							if st, ok := r.(*ssa.Store); ok && st.Addr == bf.FreeVars[i] {
								written = true
							}
						}
					}
					if !written {
						continue
					}
					for _, r := range *al.Referrers() {
						ld, ok := r.(*ssa.UnOp)
						if !ok || ld.Parent() != fn || !instrBefore(g, ld) {
							continue
						}
						joined := false
						for _, w := range waits {
							if instrBefore(w, ld) {
								joined = true
							}
						}
						if !joined {
							early++
							c.Fail(rule, funcName(fn)+":read-before-join", ld.Pos(), "a variable written by the helper goroutine ("+al.Comment+") is read before WaitGroup.Wait: the value may not be there yet, and what is persisted then differs between replicas")
						}
					}
				}
				if early == 0 {
					c.Ok(rule, funcName(fn)+":read-before-join", g.Pos(), "results of the helper goroutine are read only after the join")
				}
			}
		}
	}
}

// c10R6: no method of BatchCache returns (or stores elsewhere) a slice aliasing the guarded buffer.
func c10R6(c *Ctx) {
	p := c.P
	get := p.MustMethod(pkgHyper, "BatchCache", "Get")
	bad := false
	for _, rt := range p.ReturnTerms(get) {
		if len(rt) == 0 {
			continue
		}
		if rt[0].Has(func(t *Term) bool { return t.IsField("buf", nil) }) {
			bad = true
			c.Fail("R6", funcName(get), get.Pos(), "returns "+rt[0].String()+": a slice of the cache's own buffer escapes the read lock; later insertions rewrite proofs already handed out")
		}
	}
	if !bad {
		c.Ok("R6", funcName(get), get.Pos(), "returns a fresh copy")
	}
}

var _ = strings.Join
