package main

import (
	"go/ast"
	"go/parser"
	"go/token"
	"os"
	"path/filepath"
	"sort"
	"strings"
)

// The rocksdb wrapper is a cgo package that cannot be type-checked in this
// sandbox, so its bodies are outside the SSA-based rules. A few conventions the
// stores above it rely on are visible in the syntax tree alone and are checked
// there (go/parser + go/ast on the package's files, overlay respected).

func (p *Program) parseDir(rel string) (map[string]*ast.File, *token.FileSet) {
	dir := filepath.Join(p.RepoDir, rel)
	ents, err := os.ReadDir(dir)
	if err != nil {
		fatalf("cannot read %s: %v", dir, err)
	}
	fset := token.NewFileSet()
	out := map[string]*ast.File{}
	for _, e := range ents {
		n := e.Name()
		if e.IsDir() || !strings.HasSuffix(n, ".go") || strings.HasSuffix(n, "_test.go") {
			continue
		}
		full := filepath.Join(dir, n)
		var src interface{}
		if b, ok := p.Overlay[full]; ok {
			src = b
		}
		f, err := parser.ParseFile(fset, full, src, parser.ParseComments)
		if err != nil {
			fatalf("cannot parse %s: %v", full, err)
		}
		out[n] = f
	}
	return out, fset
}

// wrapperAbsence: in every wrapper function returning ([]byte, error) or
// (*Slice, error) from a C get call, `return nil, nil` (absent key) is taken only
// under `<value pointer> == nil` — never under a length test: RocksDB
// distinguishes an absent key (NULL) from an empty value, and both stores above
// map nil to "not found".
func wrapperAbsence(c *Ctx, rule string) {
	p := c.P
	files, fset := p.parseDir("rocksdb")
	var names []string
	for n := range files {
		names = append(names, n)
	}
	sort.Strings(names)
	n := 0
	for _, fname := range names {
		f := files[fname]
		for _, d := range f.Decls {
			fd, ok := d.(*ast.FuncDecl)
			if !ok || fd.Body == nil || fd.Type.Results == nil || len(fd.Type.Results.List) != 2 {
				continue
			}
			if !strings.HasPrefix(fd.Name.Name, "GetBytes") {
				continue
			}
			n++
			var bad []string
			var stack []ast.Node
			ast.Inspect(fd.Body, func(nd ast.Node) bool {
				if nd == nil {
					stack = stack[:len(stack)-1]
					return true
				}
				stack = append(stack, nd)
				ret, ok := nd.(*ast.ReturnStmt)
				if !ok || len(ret.Results) != 2 {
					return true
				}
				isNil := func(e ast.Expr) bool { id, ok := e.(*ast.Ident); return ok && id.Name == "nil" }
				if !isNil(ret.Results[0]) || !isNil(ret.Results[1]) {
					return true
				}
				// innermost enclosing if
				var cond ast.Expr
				for i := len(stack) - 1; i >= 0; i-- {
					if ifs, ok := stack[i].(*ast.IfStmt); ok {
						cond = ifs.Cond
						break
					}
				}
				okCond := false
				if be, ok := cond.(*ast.BinaryExpr); ok && be.Op == token.EQL && (isNil(be.X) || isNil(be.Y)) {
					okCond = true
				}
				if !okCond {
					bad = append(bad, fset.Position(ret.Pos()).String())
				}
				return true
			})
			pos := token.NoPos
			c.Check(len(bad) == 0, rule, "rocksdb."+fd.Name.Name+":absent⇔NULL", pos, "returns (nil, nil) only when the C value pointer is NULL",
				"rocksdb."+fd.Name.Name+" reports a key as absent (nil, nil) under a condition other than `<C value> == nil` at "+strings.Join(bad, ", ")+": a stored empty value would be read back as missing by the raft stable store and by RocksDBStore.Get")
		}
	}
	if n == 0 {
		c.Fail(rule, "rocksdb.GetBytes*", 0, "the wrapper's GetBytes functions were not found")
	}
}
