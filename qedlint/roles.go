package main

import (
	_ "embed"
	"encoding/json"
	"fmt"
	"go/constant"
	"go/types"
	"os"
	"regexp"
	"sort"
	"strings"

	"golang.org/x/tools/go/ssa"
)

// Roles baseline. The rules name the repository's unexported identifiers (a
// field that holds the version counter, the method that decides whether an entry
// is applied, the constant that selects the log column family). A maintainer may
// rename any of them without changing behaviour; a rule must then find the same
// construct under its new name instead of failing. roles.json records, for the
// tree the rules were written against, every named type (shape), struct field
// (type, ordinal among the fields of that type), function/method (flattened
// signature) and typed constant (type, value) of the module. At load time an
// identifier of the baseline that no longer exists is matched to the unique new
// identifier of the same package with the same structural description; the
// rules keep using the baseline ("canonical") names. Ambiguous or missing
// matches stay unresolved and are reported by the rule that needs them.

//go:embed roles.json
var rolesJSON []byte

type fieldRole struct {
	Name string `json:"name"`
	Type string `json:"type"`
}

type typeRole struct {
	Shape   string      `json:"shape"`
	Fields  []fieldRole `json:"fields,omitempty"`
	Methods []string    `json:"methods,omitempty"`
}

type funcRole struct {
	Pkg   string `json:"pkg"`
	Recv  string `json:"recv,omitempty"`
	Name  string `json:"name"`
	Sig   string `json:"sig"` // receiver flattened into the first parameter
	Label string `json:"label"`
}

type constRole struct {
	Pkg   string `json:"pkg"`
	Name  string `json:"name"`
	Type  string `json:"type"`
	Value string `json:"value"`
}

type rolesBaseline struct {
	Types  map[string]typeRole `json:"types"` // "rel/pkg.Type"
	Funcs  []funcRole          `json:"funcs"`
	Consts []constRole         `json:"consts"`
}

type roleMaps struct {
	typeCanon  map[*types.TypeName]string // current type -> canonical name
	typeByName map[string]*types.TypeName // "rel/pkg.Canon" -> current type
	fieldCanon map[string]string          // "rel/pkg.CanonType\x00current" -> canonical field name
	funcByName map[string]*ssa.Function   // "rel/pkg\x00Recv\x00name" -> function
	funcCanon  map[*ssa.Function]string   // current function -> canonical name
	funcLabel  map[*ssa.Function]string   // renamed function -> its baseline label
	constBy    map[string]*types.Const    // "rel/pkg\x00name" -> const
	renamed    []string                   // report
	strRepl    *strings.Replacer          // current qualified type names -> canonical, inside type strings
}

var roles = &roleMaps{typeCanon: map[*types.TypeName]string{}, typeByName: map[string]*types.TypeName{}, fieldCanon: map[string]string{},
	funcByName: map[string]*ssa.Function{}, funcCanon: map[*ssa.Function]string{}, funcLabel: map[*ssa.Function]string{}, constBy: map[string]*types.Const{}}

func relPkg(path string) string {
	if path == modPath {
		return "."
	}
	return strings.TrimPrefix(path, modPath+"/")
}

// rawTypeStr: type string with package names, without canonicalisation.
func rawTypeStr(t types.Type) string {
	return strings.ReplaceAll(types.TypeString(t, func(p *types.Package) string { return p.Name() }), modPath+"/", "")
}

func shapeOf(n *types.Named, canon func(string) string) (string, []fieldRole) {
	self := n.Obj().Pkg().Name() + "." + n.Obj().Name()
	fix := func(s string) string {
		s = regexp.MustCompile(`\b`+regexp.QuoteMeta(self)+`\b`).ReplaceAllString(s, "·self")
		return canon(s)
	}
	if st, ok := n.Underlying().(*types.Struct); ok {
		var parts []string
		var fs []fieldRole
		for i := 0; i < st.NumFields(); i++ {
			ts := fix(rawTypeStr(st.Field(i).Type()))
			parts = append(parts, ts)
			fs = append(fs, fieldRole{Name: st.Field(i).Name(), Type: ts})
		}
		return "struct{" + strings.Join(parts, ";") + "}", fs
	}
	return fix(rawTypeStr(n.Underlying())), nil
}

func flatSig(f *ssa.Function, canon func(string) string) string {
	sig := f.Signature
	var ps []string
	if sig.Recv() != nil {
		ps = append(ps, canon(rawTypeStr(sig.Recv().Type())))
	}
	for i := 0; i < sig.Params().Len(); i++ {
		s := canon(rawTypeStr(sig.Params().At(i).Type()))
		if sig.Variadic() && i == sig.Params().Len()-1 {
			s = "..." + s
		}
		ps = append(ps, s)
	}
	var rs []string
	for i := 0; i < sig.Results().Len(); i++ {
		rs = append(rs, canon(rawTypeStr(sig.Results().At(i).Type())))
	}
	return "(" + strings.Join(ps, ",") + ")->(" + strings.Join(rs, ",") + ")"
}

func recvName(f *ssa.Function) string {
	if f.Signature.Recv() == nil {
		return ""
	}
	if n, ok := deref(f.Signature.Recv().Type()).(*types.Named); ok {
		return n.Obj().Name()
	}
	return "?"
}

// moduleDecls enumerates the module's named types, declared functions and typed constants.
func (p *Program) moduleDecls() (tns []*types.TypeName, fns []*ssa.Function, consts []*types.Const) {
	var paths []string
	for path := range p.SSAPkg {
		if p.inModule(path) {
			paths = append(paths, path)
		}
	}
	sort.Strings(paths)
	for _, path := range paths {
		sp := p.SSAPkg[path]
		scope := sp.Pkg.Scope()
		for _, name := range scope.Names() {
			switch o := scope.Lookup(name).(type) {
			case *types.TypeName:
				if _, ok := o.Type().(*types.Named); ok && !o.IsAlias() {
					tns = append(tns, o)
				}
			case *types.Const:
				consts = append(consts, o)
			}
		}
	}
	for _, f := range p.ModFuncs {
		if f.Parent() != nil || f.Synthetic != "" || f.Pkg == nil {
			continue
		}
		if f.Name() == "init" || strings.HasPrefix(f.Name(), "init#") {
			continue
		}
		fns = append(fns, f)
	}
	return
}

func identity(s string) string { return s }

// dumpRoles writes the baseline for the current tree (run once on the tree the rules were written against).
func dumpRoles(p *Program, path string) {
	b := rolesBaseline{Types: map[string]typeRole{}}
	tns, fns, consts := p.moduleDecls()
	for _, tn := range tns {
		n := tn.Type().(*types.Named)
		shape, fs := shapeOf(n, identity)
		tr := typeRole{Shape: shape, Fields: fs}
		for i := 0; i < n.NumMethods(); i++ {
			tr.Methods = append(tr.Methods, n.Method(i).Name())
		}
		sort.Strings(tr.Methods)
		b.Types[relPkg(tn.Pkg().Path())+"."+tn.Name()] = tr
	}
	for _, f := range fns {
		if p.isTestScaffold(f) {
			continue
		}
		b.Funcs = append(b.Funcs, funcRole{Pkg: relPkg(f.Pkg.Pkg.Path()), Recv: recvName(f), Name: f.Name(), Sig: flatSig(f, identity), Label: strings.ReplaceAll(f.String(), modPath+"/", "")})
	}
	sort.Slice(b.Funcs, func(i, j int) bool {
		a, c := b.Funcs[i], b.Funcs[j]
		return a.Pkg+"\x00"+a.Recv+"\x00"+a.Name < c.Pkg+"\x00"+c.Recv+"\x00"+c.Name
	})
	for _, k := range consts {
		if k.Val() == nil || k.Val().Kind() == constant.Unknown {
			continue
		}
		b.Consts = append(b.Consts, constRole{Pkg: relPkg(k.Pkg().Path()), Name: k.Name(), Type: rawTypeStr(k.Type()), Value: k.Val().ExactString()})
	}
	out, _ := json.MarshalIndent(b, "", " ")
	if err := os.WriteFile(path, out, 0o644); err != nil {
		fatalf("write %s: %v", path, err)
	}
	fmt.Printf("roles baseline: %d types, %d functions, %d constants -> %s\n", len(b.Types), len(b.Funcs), len(b.Consts), path)
}

// resolveRoles matches baseline identifiers that disappeared to the new identifiers that took their place.
func (p *Program) resolveRoles() {
	var b rolesBaseline
	if len(rolesJSON) < 10 {
		return
	}
	if err := json.Unmarshal(rolesJSON, &b); err != nil {
		fatalf("roles.json: %v", err)
	}
	tns, fns, consts := p.moduleDecls()
	// ---- types
	curTypes := map[string]*types.TypeName{}
	byPkgNew := map[string][]*types.TypeName{}
	for _, tn := range tns {
		key := relPkg(tn.Pkg().Path()) + "." + tn.Name()
		curTypes[key] = tn
		roles.typeCanon[tn] = tn.Name()
		roles.typeByName[key] = tn
		if _, inBase := b.Types[key]; !inBase {
			byPkgNew[relPkg(tn.Pkg().Path())] = append(byPkgNew[relPkg(tn.Pkg().Path())], tn)
		}
	}
	var lostTypes []string
	for key := range b.Types {
		if _, ok := curTypes[key]; !ok {
			lostTypes = append(lostTypes, key)
		}
	}
	sort.Strings(lostTypes)
	var pairs []string
	for _, key := range lostTypes {
		i := strings.LastIndex(key, ".")
		pkg, name := key[:i], key[i+1:]
		var cands []*types.TypeName
		for _, tn := range byPkgNew[pkg] {
			shape, _ := shapeOf(tn.Type().(*types.Named), identity)
			if shape != b.Types[key].Shape {
				continue
			}
			// the method sets must agree up to renaming: same number of methods
			if tn.Type().(*types.Named).NumMethods() != len(b.Types[key].Methods) {
				continue
			}
			cands = append(cands, tn)
		}
		if len(cands) == 1 {
			tn := cands[0]
			roles.typeCanon[tn] = name
			roles.typeByName[key] = tn
			roles.renamed = append(roles.renamed, fmt.Sprintf("type %s -> %s", key, tn.Name()))
			pairs = append(pairs, tn.Pkg().Name()+"."+tn.Name(), tn.Pkg().Name()+"."+name)
		}
	}
	wordRepl := map[string]string{}
	for i := 0; i+1 < len(pairs); i += 2 {
		wordRepl[pairs[i]] = pairs[i+1]
	}
	canon := func(s string) string {
		if len(wordRepl) == 0 {
			return s
		}
		for from, to := range wordRepl {
			s = regexp.MustCompile(`\b`+regexp.QuoteMeta(from)+`\b`).ReplaceAllString(s, to)
		}
		return s
	}
	canonTypeString = canon
	// ---- fields
	for key, tr := range b.Types {
		tn := roles.typeByName[key]
		if tn == nil || len(tr.Fields) == 0 {
			continue
		}
		st, ok := tn.Type().(*types.Named).Underlying().(*types.Struct)
		if !ok {
			continue
		}
		curNames := map[string]bool{}
		curByType := map[string][]string{}
		for i := 0; i < st.NumFields(); i++ {
			f := st.Field(i)
			curNames[f.Name()] = true
			_, fs := shapeOf(tn.Type().(*types.Named), canon)
			curByType[fs[i].Type] = append(curByType[fs[i].Type], f.Name())
		}
		baseNames := map[string]bool{}
		baseByType := map[string][]string{}
		for _, f := range tr.Fields {
			baseNames[f.Name] = true
			baseByType[f.Type] = append(baseByType[f.Type], f.Name)
		}
		for ts, bnames := range baseByType {
			cnames := curByType[ts]
			if len(cnames) != len(bnames) {
				continue
			}
			for k, bn := range bnames {
				cn := cnames[k]
				if bn == cn || curNames[bn] || baseNames[cn] {
					continue
				}
				roles.fieldCanon[key+"\x00"+cn] = bn
				roles.renamed = append(roles.renamed, fmt.Sprintf("field %s.%s -> %s", key, bn, cn))
			}
		}
	}
	// ---- functions
	fkey := func(pkg, recv, name string) string { return pkg + "\x00" + recv + "\x00" + name }
	cur := map[string]*ssa.Function{}
	for _, f := range fns {
		recv := recvName(f)
		if recv != "" {
			if n, ok := deref(f.Signature.Recv().Type()).(*types.Named); ok {
				recv = roles.typeCanon[n.Obj()]
				if recv == "" {
					recv = n.Obj().Name()
				}
			}
		}
		k := fkey(relPkg(f.Pkg.Pkg.Path()), recv, f.Name())
		cur[k] = f
		roles.funcByName[k] = f
		roles.funcCanon[f] = f.Name()
	}
	base := map[string]funcRole{}
	for _, fr := range b.Funcs {
		base[fkey(fr.Pkg, fr.Recv, fr.Name)] = fr
	}
	var newFns []*ssa.Function
	for k, f := range cur {
		if _, ok := base[k]; !ok {
			newFns = append(newFns, f)
		}
	}
	sort.Slice(newFns, func(i, j int) bool { return newFns[i].String() < newFns[j].String() })
	var lost []string
	for k := range base {
		if _, ok := cur[k]; !ok {
			lost = append(lost, k)
		}
	}
	sort.Strings(lost)
	claimed := map[*ssa.Function]bool{}
	for pass := 0; pass < 2; pass++ {
		for _, k := range lost {
			fr := base[k]
			if roles.funcByName[k] != nil {
				continue
			}
			var cands []*ssa.Function
			for _, f := range newFns {
				if claimed[f] || relPkg(f.Pkg.Pkg.Path()) != fr.Pkg || p.isTestScaffold(f) {
					continue
				}
				sameKind := (recvName(f) == "") == (fr.Recv == "")
				if pass == 0 && !sameKind {
					continue // first pass: a method stays a method of the same type, a function a function
				}
				if pass == 0 && fr.Recv != "" {
					n, _ := deref(f.Signature.Recv().Type()).(*types.Named)
					if n == nil || roles.typeCanon[n.Obj()] != fr.Recv {
						continue
					}
				}
				if flatSig(f, canon) != fr.Sig {
					continue
				}
				cands = append(cands, f)
			}
			if len(cands) == 1 {
				f := cands[0]
				claimed[f] = true
				roles.funcByName[k] = f
				roles.funcCanon[f] = fr.Name
				if fr.Label != "" {
					roles.funcLabel[f] = fr.Label
				}
				roles.renamed = append(roles.renamed, fmt.Sprintf("func %s.%s%s -> %s", fr.Pkg, map[bool]string{true: fr.Recv + ".", false: ""}[fr.Recv != ""], fr.Name, f.String()))
			}
		}
	}
	// ---- constants
	curConst := map[string]*types.Const{}
	for _, k := range consts {
		key := relPkg(k.Pkg().Path()) + "\x00" + k.Name()
		curConst[key] = k
		roles.constBy[key] = k
	}
	baseConst := map[string]bool{}
	for _, cr := range b.Consts {
		baseConst[cr.Pkg+"\x00"+cr.Name] = true
	}
	for _, cr := range b.Consts {
		key := cr.Pkg + "\x00" + cr.Name
		if curConst[key] != nil {
			continue
		}
		var cands []*types.Const
		for ck, k := range curConst {
			if baseConst[ck] || relPkg(k.Pkg().Path()) != cr.Pkg || k.Val() == nil {
				continue
			}
			if canon(rawTypeStr(k.Type())) == cr.Type && k.Val().ExactString() == cr.Value {
				cands = append(cands, k)
			}
		}
		if len(cands) == 1 {
			roles.constBy[key] = cands[0]
			roles.renamed = append(roles.renamed, fmt.Sprintf("const %s.%s -> %s", cr.Pkg, cr.Name, cands[0].Name()))
		}
	}
	sort.Strings(roles.renamed)
}

var canonTypeString = identity

// canonFieldName: the baseline name of field `cur` of the (current) named struct type.
func canonFieldName(owner *types.Named, cur string) string {
	if owner == nil || owner.Obj().Pkg() == nil {
		return cur
	}
	cn := roles.typeCanon[owner.Obj()]
	if cn == "" {
		cn = owner.Obj().Name()
	}
	if c, ok := roles.fieldCanon[relPkg(owner.Obj().Pkg().Path())+"."+cn+"\x00"+cur]; ok {
		return c
	}
	return cur
}

// canonTypeName: the baseline name of a named type.
func canonTypeName(n *types.Named) string {
	if c, ok := roles.typeCanon[n.Obj()]; ok && c != "" {
		return c
	}
	return n.Obj().Name()
}

// canonFuncName: the baseline name of a function of the module (its own name when it was not renamed).
func canonFuncName(f *ssa.Function) string {
	if f == nil {
		return ""
	}
	if c, ok := roles.funcCanon[f]; ok {
		return c
	}
	return f.Name()
}

// Const resolves a package-level constant by its baseline name.
func (p *Program) Const(pkg, name string) *types.Const {
	if k := roles.constBy[relPkg(modPkg(pkg))+"\x00"+name]; k != nil {
		return k
	}
	sp := p.SSAPkg[modPkg(pkg)]
	if sp == nil {
		return nil
	}
	k, _ := sp.Pkg.Scope().Lookup(name).(*types.Const)
	return k
}
