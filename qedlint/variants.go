package main

import (
	"bufio"
	"encoding/json"
	"fmt"
	"os"
	"os/exec"
	"path/filepath"
	"strings"
	"sync"

	"golang.org/x/tools/go/ssa"
)

type ssaValue = ssa.Value

// A variant is an in-memory edit of /repo's current source (applied through
// packages.Config.Overlay; nothing is written under /repo). "breaking"
// variants must be reported by the named rule; "refactor" variants are
// behaviour-preserving and must stay silent (DESIGN §5).
type variantSpec struct {
	Name   string   `json:"name"`
	Kind   string   `json:"kind"` // breaking | refactor
	File   string   `json:"file"` // relative to the repository root
	Old    string   `json:"old"`
	New    string   `json:"new"`
	Edits  []vEdit  `json:"edits,omitempty"` // additional edits (possibly other files)
	Expect []string `json:"expect,omitempty"` // rule ids (any of) that must fire for a breaking variant
	Note   string   `json:"note,omitempty"`
}

type vEdit struct {
	File string `json:"file"`
	Old  string `json:"old"`
	New  string `json:"new"`
}

func loadVariants(verif, prop string) []variantSpec {
	f, err := os.Open(filepath.Join(verif, "variants", prop+".jsonl"))
	if err != nil {
		return nil
	}
	defer f.Close()
	var out []variantSpec
	sc := bufio.NewScanner(f)
	sc.Buffer(make([]byte, 1<<20), 1<<20)
	for sc.Scan() {
		line := strings.TrimSpace(sc.Text())
		if line == "" || strings.HasPrefix(line, "#") {
			continue
		}
		var v variantSpec
		if err := json.Unmarshal([]byte(line), &v); err != nil {
			fatalf("variants/%s.jsonl: %v", prop, err)
		}
		out = append(out, v)
	}
	return out
}

// runVariants: thorough-tier both-ways self-check.
func runVariants(prop, repo, verif string) []variantResult {
	specs := loadVariants(verif, prop)
	if len(specs) == 0 {
		return nil
	}
	self, err := os.Executable()
	if err != nil {
		fatalf("cannot locate own executable: %v", err)
	}
	tmp, err := os.MkdirTemp("", "qedlint-variants-")
	if err != nil {
		fatalf("tempdir: %v", err)
	}
	defer os.RemoveAll(tmp)
	results := make([]variantResult, len(specs))
	sem := make(chan struct{}, 5)
	var wg sync.WaitGroup
	for i, v := range specs {
		i, v := i, v
		wg.Add(1)
		go func() {
			defer wg.Done()
			sem <- struct{}{}
			defer func() { <-sem }()
			results[i] = runOneVariant(self, prop, repo, verif, tmp, i, v)
		}()
	}
	wg.Wait()
	return results
}

func runOneVariant(self, prop, repo, verif, tmp string, idx int, v variantSpec) variantResult {
	res := variantResult{Name: v.Name, Kind: v.Kind}
	edits := append([]vEdit{{File: v.File, Old: v.Old, New: v.New}}, v.Edits...)
	contents := map[string]string{}
	for _, e := range edits {
		abs := filepath.Join(repo, e.File)
		src, ok := contents[abs]
		if !ok {
			b, err := os.ReadFile(abs)
			if err != nil {
				res.Expected, res.Got, res.OK = "applicable", "stale: file missing: "+e.File, true
				return res
			}
			src = string(b)
		}
		if strings.Count(src, e.Old) != 1 {
			// the source changed since the variant was written: not applicable any more (not a verdict)
			res.Expected, res.Got, res.OK = "applicable", fmt.Sprintf("stale: pattern occurs %d times in %s", strings.Count(src, e.Old), e.File), true
			return res
		}
		contents[abs] = strings.Replace(src, e.Old, e.New, 1)
	}
	var pairs []string
	n := 0
	for abs, src := range contents {
		tf := filepath.Join(tmp, fmt.Sprintf("v%d_%d.go", idx, n))
		n++
		if err := os.WriteFile(tf, []byte(src), 0o644); err != nil {
			fatalf("variant temp file: %v", err)
		}
		pairs = append(pairs, abs+"="+tf)
	}
	cmd := exec.Command(self, "-prop", prop, "-tier", "quick", "-repo", repo, "-verif", verif, "-noevidence", "-overlay", strings.Join(pairs, ","))
	out, _ := cmd.CombinedOutput()
	code := cmd.ProcessState.ExitCode()
	var fired []string
	for _, line := range strings.Split(string(out), "\n") {
		if strings.HasPrefix(line, "FAIL ") {
			f := strings.Fields(line)
			if len(f) > 1 {
				fired = append(fired, f[1])
			}
		}
	}
	switch v.Kind {
	case "breaking":
		res.Expected = "reported by " + strings.Join(v.Expect, "|")
		if code == 2 {
			res.Got = "checker error: " + firstLine(string(out))
			return res
		}
		hit := false
		for _, f := range fired {
			if len(v.Expect) == 0 {
				hit = true
			}
			for _, e := range v.Expect {
				if f == prop+"."+e || f == e {
					hit = true
				}
			}
		}
		res.OK = hit
		res.Got = "fired: " + strings.Join(uniq(fired), ",")
		if len(fired) == 0 {
			res.Got = "silent"
		}
	default:
		res.Expected = "silent"
		res.OK = code == 0 && len(fired) == 0
		res.Got = "silent"
		if !res.OK {
			res.Got = "fired: " + strings.Join(uniq(fired), ",") + " " + firstLine(string(out))
		}
	}
	return res
}

func firstLine(s string) string {
	for _, l := range strings.Split(s, "\n") {
		if strings.Contains(l, "CHECKER-ERROR") {
			return l
		}
	}
	if i := strings.Index(s, "\n"); i >= 0 {
		return s[:i]
	}
	return s
}

func uniq(xs []string) []string {
	seen := map[string]bool{}
	var out []string
	for _, x := range xs {
		if !seen[x] {
			seen[x] = true
			out = append(out, x)
		}
	}
	return out
}
