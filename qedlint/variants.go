package main

import "golang.org/x/tools/go/ssa"

type ssaValue = ssa.Value

// runVariants: thorough-tier both-ways self-check (DESIGN §5); see variants_*.go
func runVariants(prop, repo, verif string) []variantResult { return nil }
