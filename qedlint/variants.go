package main

import (
	"bufio"
	"encoding/json"
	"fmt"
	"os"
	"os/exec"
	"path/filepath"
	"regexp"
	"strings"
	"sync"

	"golang.org/x/tools/go/ssa"
)

type ssaValue = ssa.Value

// A variant is an in-memory edit of /repo's current source (applied through
// packages.Config.Overlay; nothing is written under /repo). "breaking"
// variants must be reported by the named rule; "refactor" variants are
// behaviour-preserving and must stay silent (DESIGN §5).
type variantSpec struct {
	Name   string   `json:"name"`
	Kind   string   `json:"kind"` // breaking | refactor
	File   string   `json:"file"` // relative to the repository root
	Old    string   `json:"old"`
	New    string   `json:"new"`
	Edits  []vEdit  `json:"edits,omitempty"`  // additional edits (possibly other files)
	Expect []string `json:"expect,omitempty"` // rule ids (any of) that must fire for a breaking variant
	Note   string   `json:"note,omitempty"`
}

// patchVariant: a unified diff kept under /verif (seeded mutant or the reverse of a repaired defect).
type patchVariant struct {
	Name   string
	Path   string
	Expect string // "detected" | "missed"
	Note   string
}

type vEdit struct {
	File string `json:"file"`
	Old  string `json:"old"`
	New  string `json:"new"`
}

func loadVariants(verif, prop string) []variantSpec {
	f, err := os.Open(filepath.Join(verif, "variants", prop+".jsonl"))
	if err != nil {
		return nil
	}
	defer f.Close()
	var out []variantSpec
	sc := bufio.NewScanner(f)
	sc.Buffer(make([]byte, 1<<20), 1<<20)
	for sc.Scan() {
		line := strings.TrimSpace(sc.Text())
		if line == "" || strings.HasPrefix(line, "#") {
			continue
		}
		var v variantSpec
		if err := json.Unmarshal([]byte(line), &v); err != nil {
			fatalf("variants/%s.jsonl: %v", prop, err)
		}
		out = append(out, v)
	}
	return out
}

// runVariants: thorough-tier both-ways self-check.
func runVariants(prop, repo, verif string) []variantResult {
	specs := loadVariants(verif, prop)
	patches := loadPatchVariants(verif, prop)
	if len(specs) == 0 && len(patches) == 0 {
		return nil
	}
	self, err := os.Executable()
	if err != nil {
		fatalf("cannot locate own executable: %v", err)
	}
	tmp, err := os.MkdirTemp("", "qedlint-variants-")
	if err != nil {
		fatalf("tempdir: %v", err)
	}
	defer os.RemoveAll(tmp)
	results := make([]variantResult, len(specs)+len(patches))
	sem := make(chan struct{}, 8)
	var wg sync.WaitGroup
	for i, pv := range patches {
		i, pv := i, pv
		wg.Add(1)
		go func() {
			defer wg.Done()
			sem <- struct{}{}
			defer func() { <-sem }()
			results[len(specs)+i] = runPatchVariant(self, prop, repo, verif, tmp, len(specs)+i, pv)
		}()
	}
	for i, v := range specs {
		i, v := i, v
		wg.Add(1)
		go func() {
			defer wg.Done()
			sem <- struct{}{}
			defer func() { <-sem }()
			results[i] = runOneVariant(self, prop, repo, verif, tmp, i, v)
		}()
	}
	wg.Wait()
	return results
}

func runOneVariant(self, prop, repo, verif, tmp string, idx int, v variantSpec) variantResult {
	res := variantResult{Name: v.Name, Kind: v.Kind}
	edits := append([]vEdit{{File: v.File, Old: v.Old, New: v.New}}, v.Edits...)
	contents := map[string]string{}
	for _, e := range edits {
		abs := filepath.Join(repo, e.File)
		src, ok := contents[abs]
		if !ok {
			b, err := os.ReadFile(abs)
			if err != nil {
				res.Expected, res.Got, res.OK = "applicable", "stale: file missing: "+e.File, true
				return res
			}
			src = string(b)
		}
		if strings.Count(src, e.Old) != 1 {
			// the source changed since the variant was written: not applicable any more (not a verdict)
			res.Expected, res.Got, res.OK = "applicable", fmt.Sprintf("stale: pattern occurs %d times in %s", strings.Count(src, e.Old), e.File), true
			return res
		}
		contents[abs] = strings.Replace(src, e.Old, e.New, 1)
	}
	var pairs []string
	n := 0
	for abs, src := range contents {
		tf := filepath.Join(tmp, fmt.Sprintf("v%d_%d.go", idx, n))
		n++
		if err := os.WriteFile(tf, []byte(src), 0o644); err != nil {
			fatalf("variant temp file: %v", err)
		}
		pairs = append(pairs, abs+"="+tf)
	}
	cmd := exec.Command(self, "-prop", prop, "-tier", "quick", "-repo", repo, "-verif", verif, "-noevidence", "-overlay", strings.Join(pairs, ","))
	// eight children run side by side: fewer threads and a lazier collector each (half the wall time on 16 cores)
	cmd.Env = append(os.Environ(), "GOMAXPROCS=4", "GOGC=300")
	out, _ := cmd.CombinedOutput()
	code := cmd.ProcessState.ExitCode()
	var fired []string
	for _, line := range strings.Split(string(out), "\n") {
		if strings.HasPrefix(line, "FAIL ") {
			f := strings.Fields(line)
			if len(f) > 1 {
				fired = append(fired, f[1])
			}
		}
	}
	switch v.Kind {
	case "breaking":
		res.Expected = "reported by " + strings.Join(v.Expect, "|")
		if code == 2 {
			res.Got = "checker error: " + firstLine(string(out))
			return res
		}
		hit := false
		for _, f := range fired {
			if len(v.Expect) == 0 {
				hit = true
			}
			for _, e := range v.Expect {
				if f == prop+"."+e || f == e {
					hit = true
				}
			}
		}
		res.OK = hit
		res.Got = "fired: " + strings.Join(uniq(fired), ",")
		if len(fired) == 0 {
			res.Got = "silent"
		}
	default:
		res.Expected = "silent"
		res.OK = code == 0 && len(fired) == 0
		res.Got = "silent"
		if !res.OK {
			res.Got = "fired: " + strings.Join(uniq(fired), ",") + " " + firstLine(string(out))
		}
	}
	return res
}

func firstLine(s string) string {
	for _, l := range strings.Split(s, "\n") {
		if strings.Contains(l, "CHECKER-ERROR") {
			return l
		}
	}
	if i := strings.Index(s, "\n"); i >= 0 {
		return s[:i]
	}
	return s
}

func uniq(xs []string) []string {
	seen := map[string]bool{}
	var out []string
	for _, x := range xs {
		if !seen[x] {
			seen[x] = true
			out = append(out, x)
		}
	}
	return out
}

func loadPatchVariants(verif, prop string) []patchVariant {
	var out []patchVariant
	// seeded mutants of this property
	dirs, _ := filepath.Glob(filepath.Join(verif, "seeded", prop+"-*"))
	// mutants whose demonstration cannot be executed in this sandbox (cgo): kept apart, still must be reported
	more, _ := filepath.Glob(filepath.Join(verif, "seeded-unexecuted", prop+"-*"))
	dirs = append(dirs, more...)
	for _, d := range dirs {
		pv := patchVariant{Name: filepath.Base(filepath.Dir(d)) + "/" + filepath.Base(d), Path: filepath.Join(d, "patch.diff"), Expect: "detected"}
		if b, err := os.ReadFile(filepath.Join(d, "meta.json")); err == nil {
			var m struct {
				Expected string `json:"expected_by_static_check"`
				Note     string `json:"why_not_detected"`
			}
			if json.Unmarshal(b, &m) == nil && m.Expected == "missed" {
				pv.Expect, pv.Note = "missed", m.Note
			}
		}
		out = append(out, pv)
	}
	// regressions of repaired defects that this property's check must report
	regs, _ := filepath.Glob(filepath.Join(verif, "regressions", "*", "meta.json"))
	for _, mf := range regs {
		b, err := os.ReadFile(mf)
		if err != nil {
			continue
		}
		var m struct {
			Must []string `json:"must_be_reported_by"`
		}
		if json.Unmarshal(b, &m) != nil {
			continue
		}
		for _, p := range m.Must {
			if p == prop {
				out = append(out, patchVariant{Name: "regression/" + filepath.Base(filepath.Dir(mf)), Path: filepath.Join(filepath.Dir(mf), "patch.diff"), Expect: "detected"})
			}
		}
	}
	// behaviour-preserving refactorings of this property's code: the check must stay silent
	rfs, _ := filepath.Glob(filepath.Join(verif, "refactors", prop+"_*", "patch.diff"))
	for _, f := range rfs {
		out = append(out, patchVariant{Name: "refactor/" + filepath.Base(filepath.Dir(f)), Path: f, Expect: "silent"})
	}
	// refactorings written against functions rather than properties (ALL_*): relevant when they touch
	// a file this property is anchored in
	anchored := anchorFiles(verif, prop)
	all, _ := filepath.Glob(filepath.Join(verif, "refactors", "ALL_*", "patch.diff"))
	for _, f := range all {
		diff, err := os.ReadFile(f)
		if err != nil {
			continue
		}
		touches := false
		for _, m := range patchFileRe.FindAllStringSubmatch(string(diff), -1) {
			if anchored[m[1]] {
				touches = true
			}
		}
		if touches {
			out = append(out, patchVariant{Name: "refactor/" + filepath.Base(filepath.Dir(f)), Path: f, Expect: "silent"})
		}
	}
	return out
}

// anchorFiles: the files a property is anchored in (properties.jsonl).
func anchorFiles(verif, prop string) map[string]bool {
	out := map[string]bool{}
	f, err := os.Open(filepath.Join(verif, "properties.jsonl"))
	if err != nil {
		return out
	}
	defer f.Close()
	sc := bufio.NewScanner(f)
	sc.Buffer(make([]byte, 1<<20), 1<<22)
	for sc.Scan() {
		var rec struct {
			ID      string `json:"id"`
			Anchors struct {
				Files []string `json:"files"`
			} `json:"anchors"`
		}
		if json.Unmarshal(sc.Bytes(), &rec) == nil && rec.ID == prop {
			for _, fl := range rec.Anchors.Files {
				out[fl] = true
			}
		}
	}
	return out
}

var patchFileRe = regexp.MustCompile(`(?m)^\+\+\+ b/(\S+)`)
var patchDeletedRe = regexp.MustCompile(`(?m)^--- a/(\S+)\n\+\+\+ /dev/null`)
var packageClauseRe = regexp.MustCompile(`(?m)^package\s+(\w+)`)

func runPatchVariant(self, prop, repo, verif, tmp string, idx int, pv patchVariant) variantResult {
	res := variantResult{Name: pv.Name, Kind: "breaking", Expected: pv.Expect}
	if pv.Expect == "silent" {
		res.Kind = "refactor"
	}
	diff, err := os.ReadFile(pv.Path)
	if err != nil {
		res.Got, res.OK = "stale: patch missing", true
		return res
	}
	dir := filepath.Join(tmp, fmt.Sprintf("p%d", idx))
	var pairs []string
	for _, m := range patchFileRe.FindAllStringSubmatch(string(diff), -1) {
		rel := m[1]
		src, err := os.ReadFile(filepath.Join(repo, rel))
		dst := filepath.Join(dir, rel)
		os.MkdirAll(filepath.Dir(dst), 0o755)
		if err == nil {
			os.WriteFile(dst, src, 0o644)
		}
		pairs = append(pairs, filepath.Join(repo, rel)+"="+dst)
	}
	// files the patch deletes: present for `patch`, afterwards replaced by an empty file of the same package
	var deleted []string
	for _, m := range patchDeletedRe.FindAllStringSubmatch(string(diff), -1) {
		rel := m[1]
		if src, err := os.ReadFile(filepath.Join(repo, rel)); err == nil {
			dst := filepath.Join(dir, rel)
			os.MkdirAll(filepath.Dir(dst), 0o755)
			os.WriteFile(dst, src, 0o644)
			deleted = append(deleted, rel)
			pairs = append(pairs, filepath.Join(repo, rel)+"="+dst)
		}
	}
	if out, err := exec.Command("patch", "-p1", "-s", "-f", "-d", dir, "-i", pv.Path).CombinedOutput(); err != nil {
		_ = out
		res.Got, res.OK = "stale: patch no longer applies to the current tree", true
		return res
	}
	for _, rel := range deleted {
		src, _ := os.ReadFile(filepath.Join(repo, rel))
		pk := "main"
		if m := packageClauseRe.FindSubmatch(src); m != nil {
			pk = string(m[1])
		}
		os.WriteFile(filepath.Join(dir, rel), []byte("package "+pk+"\n"), 0o644)
	}
	cmd := exec.Command(self, "-prop", prop, "-tier", "quick", "-repo", repo, "-verif", verif, "-noevidence", "-overlay", strings.Join(pairs, ","))
	// eight children run side by side: fewer threads and a lazier collector each (half the wall time on 16 cores)
	cmd.Env = append(os.Environ(), "GOMAXPROCS=4", "GOGC=300")
	out, _ := cmd.CombinedOutput()
	code := cmd.ProcessState.ExitCode()
	var fired []string
	for _, line := range strings.Split(string(out), "\n") {
		if strings.HasPrefix(line, "FAIL ") {
			if f := strings.Fields(line); len(f) > 1 {
				fired = append(fired, f[1])
			}
		}
	}
	switch {
	case code == 2:
		res.Got = "checker error: " + firstLine(string(out))
		// a mutant that no longer type-checks is not a verdict either way
		res.OK = strings.Contains(string(out), "load/type error")
	case pv.Expect == "silent":
		res.Got = "silent"
		res.OK = len(fired) == 0 && code == 0
		if !res.OK {
			res.Got = "fired: " + strings.Join(uniq(fired), ",")
		}
	case len(fired) > 0:
		res.Got = "detected by " + strings.Join(uniq(fired), ",")
		res.OK = true // detecting a mutant recorded as 'missed' is an improvement, not an error
	default:
		res.Got = "missed"
		res.OK = pv.Expect == "missed"
	}
	return res
}
