package main

import (
	"fmt"
	"strings"

	"golang.org/x/tools/go/ssa"
)

func init() {
	register("C16", propMeta{
		Explanation: "Decides QED's share of backup/restore, which is plumbing around RocksDB's backup engine: (R1) the version recorded with a backup is the decimal rendering of Version()-1, read and handed on under the node lock, and the store passes that string and its own database to the engine; (R2) a backup identifier travels unchanged and without truncation from the management request to the engine (parsed at 32 bits where it is converted to uint32), restore-by-id uses the given id and directories; " +
			"(R3) the listing visits every index below the engine's count and copies id, timestamp, size, file count and metadata of the same index; (R4) routing: POST /backup creates, DELETE /backup deletes, GET /backups lists; (R5) a node opened on a restored directory rebuilds its caches exactly from what it reads.",
		Added:       "Also (R5) recovery-level tiles are persisted whenever cached and at the level the rebuild reads; (R6) a restore does not keep the directory's old write-ahead logs. Third round: (R7) what a backup can capture is a whole number of applied bulks: one atomic store write per bulk (imports the C07.R1/R3 instances) and no write bypassing the write-ahead log, which Backup relies on because it does not flush; (R2) RestoreFromBackup hands db and wal directories over in their own positions. Fifth round: a successful CreateBackup always passes through the store's Backup.",
		Assumptions: []string{"RocksDB's backup engine captures a consistent point-in-time image"},
		Declined:    "that the restored node contains exactly the first v+1 events, continues at v+1 and verifies old snapshots (RocksDB backup semantics + C01/C05 at run time); consistency of a backup taken concurrently with Apply.",
	}, runC16)
}

func runC16(c *Ctx) {
	p := c.P
	c.Rule("R1", "recorded version = Version()-1, under the node lock; store hands it with its own db to the engine", 2)
	c.Rule("R2", "backup id passes through unchanged, parsed without truncation", 4)
	c.Rule("R3", "listing is complete and per-index consistent", 1)
	c.Rule("R4", "management routing", 3)
	c.Rule("R5", "caches rebuilt from the restored store", 3)
	// R1
	cb := p.MustMethod(pkgConsensus, "RaftNode", "CreateBackup")
	{
		// a CreateBackup that reports success has asked the store for a backup on that very call (no memo of
		// "already taken": the earlier backup may have been deleted since)
		rgB := p.RegionOf(cb, 3)
		escB := rgB.EscapesWithoutDeep(func(in ssa.Instruction) bool {
			cc := callCommon(in)
			return cc != nil && cc.IsInvoke() && cc.Method.Name() == "Backup"
		}, mustOpts{skipErrEdges: true})
		posB := cb.Pos()
		if escB != nil {
			posB = escB.Pos()
		}
		c.Check(escB == nil, "R1", funcName(cb)+":always-backs-up", posB, "every successful CreateBackup passes through the store's Backup", "CreateBackup can report success without asking the store for a backup: a backup that was deleted meanwhile (or never completed) is then believed to exist, and a restore silently goes back to an older one")
	}
	{
		rg := p.RegionOf(cb, 3)
		rcalls := rg.Calls(func(k *ssa.CallCommon) bool { return k.IsInvoke() && k.Method.Name() == "Backup" })
		var calls []ssa.Instruction
		for _, ri := range rcalls {
			calls = append(calls, ri.in)
		}
		var why []string
		if len(calls) != 1 {
			why = append(why, fmt.Sprintf("%d Backup calls", len(calls)))
		} else {
			md := p.XLocal(rg.Term(rcalls[0].site, callCommon(calls[0]).Args[0]), cb)
			v, ok := decimalOf(md)
			if ok {
				ok = v.Op == "binop" && v.Name == "-" && v.Args[1].Name == "1" && v.Args[0].Op == "call" && v.Args[0].Fn != nil && v.Args[0].Fn.Name() == "Version" && v.Args[0].Args[0].IsField("balloon", isParam(cb, 0))
			}
			if !ok {
				why = append(why, "backup metadata is "+md.String()+`, expected Sprintf("%d", balloon.Version()-1)`)
			}
			held := p.HeldAt(calls[0])
			if held["consensus.RaftNode.Mutex"] < 2 {
				why = append(why, "the version is read and the backup taken without the node lock (held: "+held.String()+")")
			}
		}
		c.Check(len(why) == 0, "R1", funcName(cb), cb.Pos(), "metadata = decimal(Version()-1) under the node lock", strings.Join(why, "; "))
		sb := p.MustMethod("storage/rocks", "RocksDBStore", "Backup")
		okS := false
		var got string
		eachInstr(sb, func(in ssa.Instruction) {
			if cc := callCommon(in); cc != nil && cc.StaticCallee() != nil && cc.StaticCallee().Name() == "CreateNewBackupWithMetadata" {
				db, md := p.TermOf(cc.Args[1]), p.TermOf(cc.Args[2])
				got = db.String() + ", " + md.String()
				okS = db.IsField("db", isParam(sb, 0)) && md.IsParam(sb, 1) && p.TermOf(cc.Args[0]).IsField("backupEngine", isParam(sb, 0))
			}
		})
		c.Check(okS, "R1", funcName(sb), sb.Pos(), "backupEngine.CreateNewBackupWithMetadata(s.db, metadata)", "the store creates the backup with ("+got+"), expected its own database and the metadata it was given")
	}
	// R2
	del := p.MustFunc("api/mgmthttp", "DeleteBackup")
	{
		var why []string
		found := false
		eachInstr(del, func(in ssa.Instruction) {
			cc := callCommon(in)
			if cc == nil || !cc.IsInvoke() || cc.Method.Name() != "DeleteBackup" {
				return
			}
			found = true
			t := p.XLocal(p.TermOf(cc.Args[0]), del)
			// the value handed on is the first result of ParseUint (possibly through a parsing helper,
			// whose failure alternatives the handler answers 400 for)
			var pu *Term
			for _, alt := range t.Alts() {
				alt = alt.Strip()
				if alt.Op == "const" {
					continue
				}
				if alt.Op == "extract" && alt.Idx == 0 && alt.Args[0].Op == "call" && alt.Args[0].Fn != nil && alt.Args[0].Fn.Name() == "ParseUint" && pu == nil {
					pu = alt.Args[0]
					continue
				}
				pu = nil
				break
			}
			if pu == nil {
				why = append(why, "the id handed to the node is "+t.String()+", expected the parsed backupID parameter")
				return
			}
			if !(pu.Args[2].Op == "const" && (pu.Args[2].Name == "32" || pu.Args[2].Name == "16" || pu.Args[2].Name == "8")) {
				why = append(why, "the id is parsed at bit size "+pu.Args[2].Name+" and then converted to uint32: larger values wrap around and name a different, existing backup")
			}
			if !(pu.Args[1].Name == "10") {
				why = append(why, "the id is parsed in base "+pu.Args[1].Name)
			}
			if !pu.Args[0].Has(func(x *Term) bool { return x.Op == "lookup" && x.Args[1].Name == `"backupID"` }) {
				why = append(why, "the id is not taken from the backupID parameter")
			}
		})
		if !found {
			why = append(why, "the handler does not call DeleteBackup")
		}
		c.Check(len(why) == 0, "R2", funcName(del), del.Pos(), "backupID parsed at 32 bits and handed on", strings.Join(why, "; "))
	}
	passes := func(fn *ssa.Function, callee string, argIdx []int, label string) {
		ok := false
		var got string
		eachInstr(fn, func(in ssa.Instruction) {
			cc := callCommon(in)
			if cc == nil {
				return
			}
			name := ""
			args := cc.Args
			if cc.IsInvoke() {
				name = cc.Method.Name()
			} else if f := cc.StaticCallee(); f != nil {
				name = f.Name()
				if f.Signature.Recv() != nil {
					args = args[1:]
				}
			}
			if name != callee {
				return
			}
			ok = true
			for i, pi := range argIdx {
				if i >= len(args) || !p.TermOf(args[i]).IsParam(fn, pi) {
					ok = false
					got += fmt.Sprintf("arg%d=%s ", i, p.TermOf(args[i]))
				}
			}
		})
		c.Check(ok, "R2", label, fn.Pos(), "passes its arguments on to "+callee+" unchanged", label+" does not hand its arguments to "+callee+" unchanged: "+got)
	}
	passes(p.MustMethod(pkgConsensus, "RaftNode", "DeleteBackup"), "DeleteBackup", []int{1}, "RaftNode.DeleteBackup")
	passes(p.MustMethod("storage/rocks", "RocksDBStore", "DeleteBackup"), "DeleteBackup", []int{1}, "RocksDBStore.DeleteBackup")
	passes(p.MustMethod("storage/rocks", "RocksDBStore", "RestoreFromBackup"), "RestoreDBFromBackup", []int{1, 2, 3}, "RocksDBStore.RestoreFromBackup")
	// R3 listing
	gi := p.MustMethod("storage/rocks", "RocksDBStore", "GetBackupsInfo")
	{
		var why []string
		var idxTerms []string
		fields := map[string]string{"ID": "GetBackupID", "Timestamp": "GetTimestamp", "Size": "GetSize", "NumFiles": "GetNumFiles", "Metadata": "GetAppMetadata"}
		var info *ssa.Alloc
		eachInstr(gi, func(in ssa.Instruction) {
			if al, ok := in.(*ssa.Alloc); ok && namedIs(deref(al.Type()), "storage", "BackupInfo") {
				info = al
			}
		})
		if info == nil {
			why = append(why, "no BackupInfo is built")
		} else {
			_, bf := p.storesTo(info)
			for f, getter := range fields {
				if len(bf[f]) != 1 {
					why = append(why, "field "+f+" is not set")
					continue
				}
				t := p.TermOf(bf[f][0])
				if !(t.Op == "call" && t.Fn != nil && t.Fn.Name() == getter && len(t.Args) == 2) {
					why = append(why, fmt.Sprintf("%s ← %s, expected %s(i)", f, t, getter))
					continue
				}
				idxTerms = append(idxTerms, t.Args[1].String())
			}
			for _, s := range idxTerms {
				if s != idxTerms[0] || !strings.Contains(s, "µ") {
					why = append(why, "the fields of one entry are read at different indexes: "+strings.Join(idxTerms, ", "))
					break
				}
			}
			// stored at the same index, loop bounded by GetCount
			okStore := false
			eachInstr(gi, func(in ssa.Instruction) {
				if st, ok := in.(*ssa.Store); ok && st.Val == ssa.Value(info) {
					if ia, ok := st.Addr.(*ssa.IndexAddr); ok && len(idxTerms) > 0 && p.TermOf(ia.Index).String() == idxTerms[0] {
						cs := p.CondsAt(st.Block())
						isCount := func(t *Term) bool { return t.Op == "call" && t.Fn != nil && t.Fn.Name() == "GetCount" }
						if hasCond(cs, func(k Cond) bool {
							if !k.Pol || k.Atom.Op != "LT" {
								return false
							}
							b := k.Atom.Args[1]
							// i < GetCount(), or i < len(result) with result = make(.., GetCount())
							return isCount(b) || b.Op == "builtin" && b.Name == "len" && b.Args[0].Op == "alloc" && len(b.Args[0].Args) > 0 && isCount(b.Args[0].Args[0])
						}) {
							okStore = true
						}
					}
				}
			})
			if !okStore {
				why = append(why, "entries are not stored at their own index for every i < GetCount()")
			}
		}
		c.Check(len(why) == 0, "R3", funcName(gi), gi.Pos(), "for i < GetCount(): result[i] = {id, timestamp, size, files, metadata}(i)", strings.Join(why, "; "))
	}
	// R4 routing
	hs := registeredHandlers(p)
	byPath := map[string]*ssa.Function{}
	for _, h := range hs {
		byPath[h.path] = h.fn
	}
	if mb := byPath["/backup"]; mb != nil {
		for _, k := range [][2]string{{`"DELETE"`, "DeleteBackup"}, {`"POST"`, "CreateBackup"}} {
			ok := false
			for _, call := range callsIn(mb, func(cc *ssa.CallCommon) bool {
				return cc.StaticCallee() != nil && cc.StaticCallee().Name() == k[1] && cc.StaticCallee().Pkg == mb.Pkg
			}) {
				cs := p.CondsAt(call.Block())
				if hasCond(cs, func(kc Cond) bool {
					return kc.Pol && kc.Atom.Op == "EQ" && (kc.Atom.Args[0].Name == k[0] || kc.Atom.Args[1].Name == k[0]) && kc.Atom.Has(func(x *Term) bool { return x.IsField("Method", nil) })
				}) {
					ok = true
				}
			}
			c.Check(ok, "R4", "/backup "+strings.Trim(k[0], `"`), mb.Pos(), "→ "+k[1], "the "+k[0]+" method of /backup is not routed to "+k[1])
		}
	} else {
		c.Fail("R4", "/backup", 0, "route not registered")
	}
	if lb := byPath["/backups"]; lb != nil {
		ok := len(callsIn(lb, func(cc *ssa.CallCommon) bool { return cc.IsInvoke() && cc.Method.Name() == "ListBackups" })) == 1
		c.Check(ok, "R4", "/backups", lb.Pos(), "→ ListBackups", "/backups does not list the backups")
	} else {
		c.Fail("R4", "/backups", 0, "route not registered")
	}
	rebuildOnOpen(c, "R5")
	cacheTilesPersistedAlways(c, "R5")
	recoveryHeightAgreement(c, "R5")
	c.Rule("R6", "a restore replaces the directory's content (old write-ahead logs are not kept)", 1)
	restoreDropsOldLogs(c, "R6")
	// A backup copies the table files and the write-ahead log as they are at one instant, and it is
	// serialised against nothing but the node lock, which the FSM does not take. What it captures is
	// a prefix of the log only if (a) an applied bulk reaches the store in one atomic write and
	// (b) no write bypasses the write-ahead log (Backup does not flush memtables).
	c.Rule("R7", "what a backup captures is a whole number of applied bulks: one atomic store write per bulk, none bypassing the write-ahead log", 8)
	{
		sub := newSub(c, "R7")
		_, applyAdd := fsmApplyGuard(sub, "R4")
		fsmApplyAdd(sub, "R1", applyAdd)
		rocksMutate(sub, "R3")
		walNeverDisabled(c, "R7")
	}
}

// decimalOf: t renders an integer in decimal — Sprintf("%d", v), Sprint(v), strconv.FormatUint/FormatInt(v, 10), strconv.Itoa(v).
func decimalOf(t *Term) (*Term, bool) {
	if t.Op != "call" || t.Fn == nil || t.Fn.Pkg == nil {
		return nil, false
	}
	stripConv := func(x *Term) *Term {
		for x.Op == "convert" && len(x.Args) == 1 {
			x = x.Args[0]
		}
		return x
	}
	switch t.Fn.Pkg.Pkg.Path() + "." + t.Fn.Name() {
	case "fmt.Sprintf":
		if len(t.Args) == 2 && (t.Args[0].Name == `"%d"` || t.Args[0].Name == `"%v"`) && t.Args[1].Op == "list" && len(t.Args[1].Args) == 1 {
			return stripConv(t.Args[1].Args[0]), true
		}
	case "fmt.Sprint":
		if len(t.Args) == 1 && t.Args[0].Op == "list" && len(t.Args[0].Args) == 1 {
			return stripConv(t.Args[0].Args[0]), true
		}
	case "strconv.FormatUint", "strconv.FormatInt":
		if len(t.Args) == 2 && t.Args[1].Op == "const" && t.Args[1].Name == "10" {
			return stripConv(t.Args[0]), true
		}
	case "strconv.Itoa":
		if len(t.Args) == 1 {
			return stripConv(t.Args[0]), true
		}
	}
	return nil, false
}
