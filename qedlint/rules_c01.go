package main

import (
	"fmt"
	"strings"

	"golang.org/x/tools/go/ssa"
)

func init() {
	register("C01", propMeta{
		Explanation: "Decides the structural agreement between inserter, prover and verifier that every membership proof rests on: " +
			"(R1) the three history visitors hash leaf/inner/partial nodes with the same position-salted formula over the same operands; " +
			"(R2) every hash step of the hyper tree is created by the two step constructors, salted with the step's position; " +
			"(R3) audit-path entries are written and looked up under the same key derivation (history: serialised position; hyper: position id); " +
			"(R4) the balloon glue: hyper query with the caller's digest, Exists set exactly on the non-empty-value edge, ActualVersion from the hyper value, history proof requested for (ActualVersion, query version) under ActualVersion<=query version, CurrentVersion = version-1; " +
			"(R5) DigestVerify has an accepting path that every honest existence answer takes (no conjunct beyond the specified ones); " +
			"(R6) the single-target prover traversal and the verifier traversal are equal as decision tables under index:=version, the fast path is only taken when index==version; insertion computes the same hash shape. " +
			"Method: decision-table comparison of loop-free traversal closures over canonical comparison atoms, provenance terms, dominating conditions.",
		Added:       "Added after the second mutant round: (R11) provers record every cached hash they read outside an already recorded subtree; (R12) a shortcut leaf is made from leaves[0] only when the bulk list has one element, and the batch persisted is the one holding the new shortcut. Third round: (R12) the shortcut leaf is built from the key and value of the leaf it stands for, a pushed-down shortcut's slot is reset in the batch that is written; (R7) the leaf-list ordering convention (left = smaller key) is the same in InsertSorted, Split and every traversal. Fifth round: the cache rebuild consumes a reused read buffer up to the count read; the client's automatic verification pairs an answer with the stored snapshots of its own versions (finite order model).",
		Assumptions: []string{"hash function is a function", "store returns what was written (C14)"},
		Declined:    "the pruning arithmetic itself: agreement of the two-target prover traversal (index != version) with the verifier, hyper search/insert push-down and collision depths, 'keeps holding after any number of insertions' — these quantify over tree shapes and values; an off-by-one applied consistently to prover and verifier is C04's subject.",
	}, runC01)
}

func runC01(c *Ctx) {
	c.Rule("R14", "the cache rebuild at start-up consumes a reused read buffer only up to the count read (a restarted node proves the same events)", 1)
	readerBufferDiscipline(c, "R14", []string{"balloon", "balloon/hyper", "balloon/history", "balloon/cache"})
	c.Rule("R1", "history visitors: leaf=H(value‖pos), inner=H(L‖R‖pos), partial=H(L‖pos), identically in inserter, prover and verifier", 9)
	c.Rule("R2", "hyper: hash steps only through the leaf/inner step constructors, salted with the step's own position", 3)
	c.Rule("R3", "audit-path key agreement between the collecting side and the reading side", 5)
	c.Rule("R4", "balloon glue of QueryDigestMembership / QueryDigestMembershipConsistency", 10)
	c.Rule("R5", "DigestVerify accepts every honest existence answer (no extra conjunct)", 1)
	c.Rule("R6", "prover fast-path traversal ≅ verifier traversal; fast path only when index==version; insert ≅ find modulo wrappers", 4)
	c.Rule("R7", "hyper traversals: steps, batch accessors and recursive descents address the node's own (pos, batch, slot) coordinates", 10)
	c.Rule("R8", "hyper insert: in-place list insertion never writes into a backing array shared with sibling branches", 2)
	c.Rule("R9", "hyper loader: a store read failure is never mistaken for an empty batch", 1)
	r := buildHistRoles(c)
	histFormulas(c, "R1", r)
	hyperSteps(c, "R2")
	histAuditKeys(c, "R3", r)
	hyperAuditKeys(c, "R3")
	balloonGlue(c, "R4")
	c01R5(c)
	histSibMembership(c, "R6", r)
	histInsertShape(c, "R6", r)
	hyperCoordinates(c, "R7")
	hyperListOwnership(c, "R8")
	hyperLoaderErrors(c, "R9")
	c.Rule("R11", "provers record every cached hash they read (outside an already recorded subtree) in the audit path", 3)
	histCollectDiscipline(c, "R11", r)
	c.Rule("R12", "hyper bulk insert: a shortcut leaf is made from leaves[0] only when the list has one element; the batch persisted is the one written", 2)
	hyperLeafConservation(c, "R12")
	hyperShortcutPersist(c, "R12")
	hyperShortcutArgs(c, "R12")
	hyperPushDownResets(c, "R12")
	hyperOrderingConvention(c, "R7")
	c.Rule("R13", "the client's automatic verification checks an answer against the history digest of the queried version's snapshot and the hyper digest of the current snapshot (per path, every ordering of the three versions)", 1)
	snapshotPairing(c, "R13", c.P.MustMethod(pkgBalloon, "MembershipProof", "DigestVerify"))
	// proofs hold copies of what they read from the cache (shared with C10.R6)
	sub10 := newCtx(c.P, c.Prop, c.Tier)
	runC10(sub10)
	for _, in := range sub10.Instances {
		if in.Rule == c.Prop+".R6" {
			in.Rule = c.Prop + ".R8"
			c.Instances = append(c.Instances, in)
		}
	}
	c.Rule("R10", "provers create a fresh hasher per query; the trees' long-lived stateful hashers are used only under the exclusive lock (a shared hasher corrupts concurrent proofs)", 2)
	var hg []guardSpec
	for _, g := range c10Guards {
		if g.field == "hasher" {
			hg = append(hg, g)
		}
	}
	checkGuards(c, "R10", hg)
}

func c01R5(c *Ctx) {
	p := c.P
	dv := p.MustMethod(pkgBalloon, "MembershipProof", "DigestVerify")
	hyV := p.MustMethod(pkgHyper, "QueryProof", "Verify")
	hiV := p.MustMethod(pkgHistory, "MembershipProof", "Verify")
	name := funcName(dv)
	paths, ok := p.AcceptPaths(dv, 0, sameBalloonPkg(p), 3)
	if !ok {
		c.Fail("R5", name, dv.Pos(), "verifier is not loop-free")
		return
	}
	actual := isRecvField(dv, "ActualVersion")
	query := isRecvField(dv, "QueryVersion")
	honest := func(k Cond) bool {
		a := k.Atom
		switch {
		case k.Expanded:
			return true // a helper whose own conditions are part of this set
		case a.Op == "EQ" && !k.Pol && (a.Args[0].Op == "const" && a.Args[0].Name == "nil" || a.Args[1].Op == "const" && a.Args[1].Name == "nil"):
			return true // part / snapshot is not nil
		case k.Pol && isRecvField(dv, "Exists")(a):
			return true
		case a.Op == "LT" && !k.Pol && query(a.Args[0]) && actual(a.Args[1]):
			return true // Actual <= Query
		case k.Pol && (a.IsCallTo(hyV) || a.IsCallTo(hiV)):
			return true
		}
		return false
	}
	var why []string
	for _, cs := range paths {
		extra := ""
		for _, k := range cs {
			if !honest(k) {
				extra = k.String()
				break
			}
		}
		if extra == "" {
			c.Ok("R5", name, dv.Pos(), "an accepting path needs only {parts non-nil, Exists, Actual<=Query, hyper ok, history ok}")
			return
		}
		why = append(why, extra)
	}
	c.Fail("R5", name, dv.Pos(), "every accepting path demands something an honest existence answer need not satisfy: "+strings.Join(why, " | "))
}

// balloonGlue: rule R4 on both membership query entry points.
func balloonGlue(c *Ctx, rule string) {
	p := c.P
	hyQ := p.MustMethod(pkgHyper, "HyperTree", "QueryMembership")
	hiP := p.MustMethod(pkgHistory, "HistoryTree", "ProveMembership")
	for _, nm := range []string{"QueryDigestMembership", "QueryDigestMembershipConsistency"} {
		fn := p.MustMethod(pkgBalloon, "Balloon", nm)
		name := funcName(fn)
		// the proof object under construction
		var proof *ssa.Alloc
		eachInstr(fn, func(in ssa.Instruction) {
			if al, ok := in.(*ssa.Alloc); ok && namedIs(deref(al.Type()), pkgBalloon, "MembershipProof") {
				proof = al
			}
		})
		if proof == nil {
			c.Fail(rule, name, fn.Pos(), "no MembershipProof object is built in this function")
			continue
		}
		fieldStores := func(field string) []*ssa.Store {
			var out []*ssa.Store
			for _, st := range p.storeInfoOf(proof).instrs {
				if fa, ok := st.Addr.(*ssa.FieldAddr); ok && structFieldName(deref(fa.X.Type()), fa.Field) == field {
					out = append(out, st)
				}
			}
			return out
		}
		fromHyperValue := func(t *Term) bool {
			return t.Has(func(x *Term) bool {
				return x.Op == "field" && x.Name == "Value" && x.Args[0].Has(func(y *Term) bool { return y.IsCallTo(hyQ) })
			})
		}
		isLenHyperValueZero := func(k Cond) (bool, bool) { // (matches, polarity meaning "empty")
			a := k.Atom
			if a.Op != "EQ" {
				return false, false
			}
			for i := 0; i < 2; i++ {
				x, y := a.Args[i], a.Args[1-i]
				if x.Op == "const" && x.Name == "0" && y.Op == "builtin" && y.Name == "len" && fromHyperValue(y.Args[0]) {
					return true, k.Pol
				}
			}
			return false, false
		}
		emptyAt := func(b *ssa.BasicBlock) (known bool, empty bool) {
			for _, k := range p.CondsAt(b) {
				if m, e := isLenHyperValueZero(k); m {
					return true, e
				}
			}
			return false, false
		}
		// (1) hyper query made with the caller's digest
		calls := callsIn(fn, func(cc *ssa.CallCommon) bool { return cc.StaticCallee() == hyQ })
		if len(calls) != 1 {
			c.Fail(rule, name+":hyper-query", fn.Pos(), fmt.Sprintf("%d hyper membership queries, expected exactly one", len(calls)))
		} else {
			cc := callCommon(calls[0])
			arg := p.TermOf(cc.Args[1])
			recv := p.TermOf(cc.Args[0])
			c.Check(arg.IsParam(fn, 1) && recv.IsField("hyperTree", isParam(fn, 0)), rule, name+":hyper-query", calls[0].Pos(), "hyperTree.QueryMembership(keyDigest)", "hyper tree queried with "+arg.String()+" on "+recv.String()+", expected the caller's digest on the balloon's hyper tree")
		}
		// (2) Exists true exactly on the non-empty edge
		okE, nE := true, 0
		var whyE string
		for _, st := range fieldStores("Exists") {
			k, isC := st.Val.(*ssa.Const)
			if !isC {
				okE, whyE = false, "Exists is assigned a non-constant: "+p.TermOf(st.Val).String()
				continue
			}
			nE++
			val := k.Value.String() == "true"
			known, empty := emptyAt(st.Block())
			if !known || empty == val {
				okE, whyE = false, fmt.Sprintf("Exists=%v is not assigned on the matching edge of len(HyperProof.Value)==0 (at %s)", val, p.pos(st.Pos()))
			}
		}
		if nE < 2 {
			okE, whyE = false, "Exists is not set on both edges of the hyper value emptiness test"
		}
		c.Check(okE, rule, name+":exists", fn.Pos(), "Exists=false on the empty-value edge, true on the other", whyE)
		// (3) ActualVersion from the hyper value on the existence branch
		okA, nA := true, 0
		var whyA string
		for _, st := range fieldStores("ActualVersion") {
			known, empty := emptyAt(st.Block())
			if known && empty {
				continue // absence answer: not constrained
			}
			nA++
			t := p.TermOf(st.Val)
			if !fromHyperValue(t) || !known {
				okA, whyA = false, "ActualVersion ← "+t.String()+" (must be decoded from the hyper proof's value on the non-empty edge)"
			}
		}
		if nA == 0 {
			okA, whyA = false, "ActualVersion is never assigned from the hyper value"
		}
		c.Check(okA, rule, name+":actual-version", fn.Pos(), "ActualVersion decoded from HyperProof.Value", whyA)
		// (4) history proof for (ActualVersion, query version) under Actual <= query
		pcs := callsIn(fn, func(cc *ssa.CallCommon) bool { return cc.StaticCallee() == hiP })
		if len(pcs) != 1 {
			c.Fail(rule, name+":history-proof", fn.Pos(), fmt.Sprintf("%d history membership proofs requested, expected exactly one", len(pcs)))
		} else {
			cc := callCommon(pcs[0])
			a1, a2 := p.TermOf(cc.Args[1]), p.TermOf(cc.Args[2])
			isActualLoad := false
			if u, ok := cc.Args[1].(*ssa.UnOp); ok {
				if fa, ok := u.X.(*ssa.FieldAddr); ok && fa.X == proof && structFieldName(deref(fa.X.Type()), fa.Field) == "ActualVersion" {
					isActualLoad = true
				}
			}
			same := func(ref *Term) func(*Term) bool { return func(t *Term) bool { return t.String() == ref.String() } }
			cs := p.CondsAt(pcs[0].Block())
			guarded := impliesLE(cs, same(a1), same(a2))
			queryOK := false
			if nm == "QueryDigestMembershipConsistency" {
				queryOK = a2.Has(isParam(fn, 2))
			} else {
				if u, ok := cc.Args[2].(*ssa.UnOp); ok {
					if fa, ok := u.X.(*ssa.FieldAddr); ok && fa.X == proof && structFieldName(deref(fa.X.Type()), fa.Field) == "QueryVersion" {
						queryOK = true
					}
				}
			}
			c.Check(isActualLoad && queryOK && guarded, rule, name+":history-proof", pcs[0].Pos(), "ProveMembership(ActualVersion, query version) under ActualVersion <= query version",
				fmt.Sprintf("ProveMembership(%s, %s): index-is-ActualVersion=%v version-is-query=%v dominated-by-Actual<=query=%v (conds %s)", a1, a2, isActualLoad, queryOK, guarded, strings.Join(condStrings(cs), " ∧ ")))
		}
		// (5) CurrentVersion = b.version - 1
		okC := len(fieldStores("CurrentVersion")) > 0
		var tC string
		for _, st := range fieldStores("CurrentVersion") {
			t := p.TermOf(st.Val)
			tC += t.String() + " "
			if !(t.Op == "binop" && t.Name == "-" && t.Args[0].IsField("version", isParam(fn, 0)) && t.Args[1].Op == "const" && t.Args[1].Name == "1") {
				okC = false
			}
		}
		c.Check(okC, rule, name+":current-version", fn.Pos(), "CurrentVersion = version-1", "CurrentVersion ← "+tC+", expected b.version-1")
	}
}
