package main

import (
	"fmt"
	"go/constant"
	"go/types"
	"sort"
	"strings"

	"golang.org/x/tools/go/ssa"
)

func init() {
	register("C14", propMeta{
		Explanation: "Decides the per-table isolation and batching mechanics of both store back-ends: (R1) table registry — every storage.Table constant has its own name and its own distinct key prefix (decided by evaluating Prefix()/String() decision tables on every constant), and the RocksDB column-family name and option lists have one entry per constant in constant order (handles are indexed by the constant); " +
			"(R2) B+tree prefix discipline — every key handed to the tree is prefix‖key, every key handed back has the prefix removed, and inside every tree-iteration callback an item reaches the result only under a comparison that involves the table's prefix; (R3) every RocksDB store method uses the handle indexed by its own table argument; " +
			"(R4) one write batch per Mutate, handles released; (R5) both back-ends signal absence with storage.ErrKeyNotFound, and absence is decided by nil-ness of the value, not by its length.",
		Added:       "Also (R4) every batch handed to db.Write is created in the same call; (R7) keys/values are copied out of native slices into buffers sized by the same slice. Third round: (R4) a reader hands out newly allocated pairs with their own key/value (never recycling the ones found in the caller's buffer) and reports an error only with an empty chunk. Fifth round: B+tree walks bound the key by the table prefix on both sides; a batch is never reordered unstably.",
		Assumptions: []string{"google/btree iterates in key order; RocksDB column families are isolated"},
		Declined:    "equivalence with a map model over all operation sequences; durability across reopen.",
	}, runC14)
}

func tableConsts(p *Program) []*types.Const {
	sp := p.SSAPkg[modPkg("storage")]
	var out []*types.Const
	for _, n := range sp.Pkg.Scope().Names() {
		if cst, ok := sp.Pkg.Scope().Lookup(n).(*types.Const); ok && namedIs(cst.Type(), "storage", "Table") {
			out = append(out, cst)
		}
	}
	sort.Slice(out, func(i, j int) bool {
		a, _ := constant.Int64Val(out[i].Val())
		b, _ := constant.Int64Val(out[j].Val())
		return a < b
	})
	return out
}

func runC14(c *Ctx) {
	p := c.P
	c.Rule("R1", "table registry: distinct names and prefixes; column families in constant order", 3)
	c.Rule("R2", "B+tree: prefix‖key in, prefix stripped out, iteration callbacks bounded by the table prefix", 5)
	c.Rule("R3", "RocksDB: each method uses the handle of its own table", 4)
	c.Rule("R4", "one batch per Mutate; iterators released", 4)
	c.Rule("R5", "absence = ErrKeyNotFound, decided by nil-ness", 4)
	c.Rule("R6", "cgo wrapper (syntax-level): a key is reported absent only when the C value pointer is NULL", 2)
	consts := tableConsts(p)
	if len(consts) < 5 {
		c.Fail("R1", "tables", 0, fmt.Sprintf("only %d storage.Table constants", len(consts)))
	}
	// R1: Prefix / String distinct per constant
	for _, mname := range []string{"Prefix", "String"} {
		fn := p.MustMethod("storage", "Table", mname)
		hook := symHook(map[string]string{"P0@" + mname: "T"}, nil)
		tb, ok := p.DecisionTable(fn, hook, nil)
		if !ok {
			c.Fail("R1", "Table."+mname, fn.Pos(), "not loop-free")
			continue
		}
		seen := map[string]string{}
		var why []string
		for _, k := range consts {
			v, _ := constant.Int64Val(k.Val())
			rows, unknown := tb.selectRows(map[string]int{"T": int(v)})
			if len(unknown) > 0 || len(rows) != 1 {
				why = append(why, fmt.Sprintf("%s: cannot evaluate %s() (%d rows, unknown %v)", k.Name(), mname, len(rows), unknown))
				continue
			}
			res := rows[0].Result
			if prev, dup := seen[res]; dup {
				why = append(why, fmt.Sprintf("%s and %s share %s %s: their keys collide / tables leak into each other", prev, k.Name(), strings.ToLower(mname), res))
			}
			seen[res] = k.Name()
			if mname == "String" && (res == `c:""`) {
				why = append(why, k.Name()+" has no name")
			}
		}
		c.Check(len(why) == 0, "R1", "Table."+mname, fn.Pos(), fmt.Sprintf("%d constants map to %d distinct values", len(consts), len(seen)), strings.Join(why, "; "))
	}
	// R1: column families in constant order
	ctor := p.MustFunc("storage/rocks", "NewRocksDBStoreWithOpts")
	var open ssa.Instruction
	eachInstr(ctor, func(in ssa.Instruction) {
		if cc := callCommon(in); cc != nil && cc.StaticCallee() != nil && cc.StaticCallee().Name() == "OpenDBColumnFamilies" {
			open = in
		}
	})
	if open == nil {
		c.Fail("R1", "rocks:column-families", ctor.Pos(), "the store is not opened with column families")
	} else {
		cc := callCommon(open)
		names, opts := p.TermOf(cc.Args[2]), p.TermOf(cc.Args[3])
		var why []string
		if names.Op != "list" || len(names.Args) != len(consts) {
			why = append(why, fmt.Sprintf("column-family name list has %d entries for %d tables", len(names.Args), len(consts)))
		} else {
			for i, e := range names.Args {
				if !(e.Op == "call" && e.Fn != nil && e.Fn.Name() == "String" && tableName(p, e.Args[0]) == consts[i].Name()) {
					why = append(why, fmt.Sprintf("column family #%d is %s, expected %s.String(): handles are indexed by the table constant", i, e, consts[i].Name()))
				}
			}
		}
		if opts.Op != "list" || len(opts.Args) != len(consts) {
			why = append(why, fmt.Sprintf("column-family option list has %d entries for %d tables", len(opts.Args), len(consts)))
		}
		c.Check(len(why) == 0, "R1", "rocks:column-families", open.Pos(), "one column family per table constant, in constant order", strings.Join(why, "; "))
	}
	c14Bplus(c)
	c14RocksHandles(c)
	rocksMutate(c, "R4")
	sub := newCtx(p, c.Prop, c.Tier)
	handlePairing(sub, "R4")
	for _, in := range sub.Instances {
		if strings.Contains(in.Construct, "storage/rocks") || strings.Contains(in.Construct, "RocksDBKVPairReader") {
			c.Instances = append(c.Instances, in)
		}
	}
	c14Absence(c)
	wrapperAbsence(c, "R6")
	c.Rule("R7", "keys and values are copied out of native slices into buffers sized by the same slice", 1)
	nativeSliceCopies(c, "R7", []string{"storage/rocks"})
	freshWriteBatches(c, "R4", []string{"storage/rocks"})
	readerHandsOutFreshPairs(c, "R4")
	memoryMutateIsAllOrNothing(c, "R4")
	readsConsultTheStore(c, "R5")
	noPrefixExtractor(c, "R3")
	readerErrOnlyWithEmptyChunk(c, "R4")
}

func isPrefixDerived(t *Term) bool {
	return t.Has(func(x *Term) bool {
		if x.Op == "call" && x.Fn != nil && x.Fn.Name() == "Prefix" && x.Fn.Signature.Recv() != nil && namedIs(x.Fn.Signature.Recv().Type(), "storage", "Table") {
			return true
		}
		return x.Op == "field" && x.Name == "prefix"
	})
}

func c14Bplus(c *Ctx) {
	p := c.P
	sp := p.SSAPkg[modPkg("storage/bplus")]
	kvItem := p.NamedType("storage/bplus", "KVItem")
	if kvItem == nil {
		fatalf("bplus.KVItem not found")
	}
	nCB := 0
	for _, fn := range p.ModFuncs {
		if fn.Pkg != sp || !p.Production(fn) {
			continue
		}
		fn := fn
		// (a) keys handed to the tree carry the prefix
		eachInstr(fn, func(in ssa.Instruction) {
			cc := callCommon(in)
			if cc == nil || cc.StaticCallee() == nil || cc.StaticCallee().Pkg == nil || !strings.Contains(cc.StaticCallee().Pkg.Pkg.Path(), "google/btree") {
				return
			}
			for _, a := range cc.Args[1:] {
				mi, ok := a.(*ssa.MakeInterface)
				if !ok || !types.Identical(mi.X.Type(), kvItem) {
					continue
				}
				t := p.TermOf(mi.X)
				// KVItem literal: Key field
				var key *Term
				if u, ok := mi.X.(*ssa.UnOp); ok {
					if al, ok := u.X.(*ssa.Alloc); ok {
						_, bf := p.storesTo(al)
						if len(bf["Key"]) == 1 {
							key = p.TermOf(bf["Key"][0])
						}
					}
				}
				if key == nil {
					key = t
				}
				ok2 := isPrefixDerived(key) || key.Has(func(x *Term) bool { return x.Op == "field" && x.Name == "lastKey" })
				c.Check(ok2, "R2", funcName(fn)+":"+cc.StaticCallee().Name()+":key", in.Pos(), "tree key = prefix‖key", "a key handed to the tree ("+key.String()+") does not carry the table prefix: tables share one tree, the entry lands in (or is looked up from) another table's range")
			}
		})
		// (c) iteration callbacks
		// a closure, or (after "closure → small struct with a method") a method used as the callback
		if fn.Signature.Params().Len() != 1 || !namedIs(fn.Signature.Params().At(0).Type(), "github.com/google/btree", "Item") || fn.Signature.Results().Len() != 1 || fn.Synthetic != "" {
			continue
		}
		if fn.Parent() == nil && (fn.Object() == nil || fn.Object().Exported()) {
			continue // KVItem.Less and the like are not iteration callbacks
		}
		nCB++
		itemI := len(fn.Params) - 1
		isItem := func(t *Term) bool { return t.Has(func(x *Term) bool { return x.IsParam(fn, itemI) }) }
		sinks := 0
		bad := 0
		eachInstr(fn, func(in ssa.Instruction) {
			var v ssa.Value
			switch x := in.(type) {
			case *ssa.Store:
				v = x.Val
				// store of an item-derived value into something outliving the callback (captured variable / its fields / buffer element)
				if !isItem(p.ContentTerm(v)) {
					return
				}
				if al, ok := x.Addr.(*ssa.Alloc); ok && !al.Heap {
					return
				}
				if fa, ok := x.Addr.(*ssa.FieldAddr); ok {
					if al, ok := fa.X.(*ssa.Alloc); ok && al.Parent() == fn {
						return // building a local struct
					}
				}
				if ia, ok := x.Addr.(*ssa.IndexAddr); ok {
					if al, ok := ia.X.(*ssa.Alloc); ok && al.Parent() == fn {
						return
					}
				}
			default:
				return
			}
			// the resume cursor of the reader is not a result
			if fa, ok := in.(*ssa.Store).Addr.(*ssa.FieldAddr); ok && structFieldName(deref(fa.X.Type()), fa.Field) == "lastKey" {
				return
			}
			sinks++
			cs := p.CondsAt(in.Block())
			guarded := hasCond(cs, func(k Cond) bool {
				return (isPrefixDerived(k.Atom) || isPrefixDerived(p.UpParamsDeep(k.Atom))) && isItem(k.Atom)
			})
			if guarded {
				// bounded on both sides: the walk's starting point bounds the key on one side only, the comparisons
				// of the key's first byte with the prefix must supply the other (decided when every
				// prefix comparison here is of that simple kind)
				lower, upper, simple := false, false, true
				for _, k := range cs {
					if !(isPrefixDerived(k.Atom) && isItem(k.Atom)) {
						continue
					}
					a := k.Atom
					if (a.Op != "EQ" && a.Op != "LT") || len(a.Args) != 2 {
						simple = false
						continue
					}
					isK0 := func(t *Term) bool {
						t = t.Strip()
						return t.Op == "index" && isItem(t) && len(t.Args) == 2 && t.Args[1].Name == "0" && t.Args[0].IsField("Key", nil)
					}
					isPfx := func(t *Term) bool { return isPrefixDerived(t) && !isItem(t) && t.Strip().Op != "binop" }
					switch {
					case a.Op == "EQ" && (isK0(a.Args[0]) && isPfx(a.Args[1]) || isK0(a.Args[1]) && isPfx(a.Args[0])):
						if k.Pol {
							lower, upper = true, true
						}
					case a.Op == "LT" && isPfx(a.Args[0]) && isK0(a.Args[1]): // prefix < key0
						if !k.Pol {
							upper = true
						}
					case a.Op == "LT" && isK0(a.Args[0]) && isPfx(a.Args[1]): // key0 < prefix
						if !k.Pol {
							lower = true
						}
					default:
						simple = false
					}
				}
				if simple {
					switch dir := btreeWalkDirection(p, fn); dir {
					case "Ascend":
						lower = true
					case "Descend":
						upper = true
					case "":
						simple = false
					}
				}
				if simple && !(lower && upper) {
					bad++
					side := "below (an entry of a lower table is taken for this table's — e.g. the last key of an empty table)"
					if lower {
						side = "above"
					}
					c.Fail("R2", funcName(fn)+":result", in.Pos(), "an item of the shared tree is copied into the result with its key bounded by the table's prefix on one side only; nothing bounds it from "+side+" (conditions here: "+strings.Join(condStrings(cs), " ∧ ")+")")
				}
			}
			if !guarded {
				bad++
				c.Fail("R2", funcName(fn)+":result", in.Pos(), "an item of the shared tree is copied into the result without a dominating comparison of its key with the table's prefix (conditions here: "+strings.Join(condStrings(cs), " ∧ ")+"): entries of a neighbouring table can be returned")
			}
			// prefix stripped
			t := p.ContentTerm(v)
			if t.Has(func(x *Term) bool { return x.IsField("Key", nil) }) {
				stripped := t.Has(func(x *Term) bool { return x.Op == "slice" && x.Args[1].Name == "1" })
				if !stripped {
					bad++
					c.Fail("R2", funcName(fn)+":strip", in.Pos(), "a key is handed back with its table prefix still attached: "+t.String())
				}
			}
		})
		if sinks == 0 {
			c.Fail("R2", funcName(fn)+":result", fn.Pos(), "iteration callback produces no result")
		} else if bad == 0 {
			c.Ok("R2", funcName(fn), fn.Pos(), fmt.Sprintf("%d result store(s), each under a comparison with the table prefix; keys stripped", sinks))
		}
	}
	if nCB < 3 {
		c.Fail("R2", "bplus:callbacks", 0, fmt.Sprintf("only %d tree-iteration callbacks found", nCB))
	}
	// Mutate: every mutation inserted
	mut := p.MustMethod("storage/bplus", "BPlusTreeStore", "Mutate")
	okM := false
	eachInstr(mut, func(in ssa.Instruction) {
		if cc := callCommon(in); cc != nil && cc.StaticCallee() != nil && cc.StaticCallee().Name() == "ReplaceOrInsert" && inCycle(in.Block()) {
			okM = true
		}
	})
	c.Check(okM, "R2", funcName(mut)+":all", mut.Pos(), "every mutation of the batch is inserted", "Mutate does not insert every mutation of the batch")
}

func c14RocksHandles(c *Ctx) {
	p := c.P
	for _, mname := range []string{"Get", "GetRange", "GetLast", "GetAll"} {
		fn := p.MustMethod("storage/rocks", "RocksDBStore", mname)
		n, bad := 0, 0
		eachInstr(fn, func(in ssa.Instruction) {
			ia, ok := in.(*ssa.IndexAddr)
			if !ok || !p.TermOf(ia.X).IsField("cfHandles", isParam(fn, 0)) {
				return
			}
			n++
			idx := p.TermOf(ia.Index)
			if !idx.IsParam(fn, 1) {
				bad++
				c.Fail("R3", funcName(fn), in.Pos(), "the column family used is cfHandles["+idx.String()+"], not the one of the table argument")
			}
		})
		if n == 0 {
			c.Fail("R3", funcName(fn), fn.Pos(), "no column-family handle is selected")
		} else if bad == 0 {
			c.Ok("R3", funcName(fn), fn.Pos(), "cfHandles[table]")
		}
	}
}

func c14Absence(c *Ctx) {
	p := c.P
	for _, be := range []struct{ pkg, typ string }{{"storage/rocks", "RocksDBStore"}, {"storage/bplus", "BPlusTreeStore"}} {
		for _, mname := range []string{"Get", "GetLast"} {
			fn := p.MustMethod(be.pkg, be.typ, mname)
			found := false
			var why []string
			rg := p.RegionOf(fn, 3)
			for _, rc := range rg.ReturnCases(fn.Signature.Results().Len() - 1) {
				et := rc.T
				if !(et.Op == "global" && strings.HasSuffix(et.Name, "ErrKeyNotFound")) {
					continue
				}
				found = true
				for _, k := range rc.Conds {
					if k.Atom.Has(func(x *Term) bool { return x.Op == "builtin" && x.Name == "len" }) {
						why = append(why, "absence is decided by "+k.String()+": a key whose stored value is empty would be reported missing by point reads while scans still list it")
					}
				}
			}
			if !found {
				why = append(why, "never returns storage.ErrKeyNotFound")
			}
			c.Check(len(why) == 0, "R5", funcName(fn), fn.Pos(), "missing ⇒ storage.ErrKeyNotFound, decided by nil-ness / iterator validity", strings.Join(why, "; "))
		}
	}
}

// btreeWalkDirection: "Ascend" / "Descend" when cb is the callback of a btree walk that starts at a pivot
// (AscendGreaterOrEqual, DescendLessOrEqual, ...), "" when that cannot be told.
func btreeWalkDirection(p *Program, cb *ssa.Function) string {
	dir := ""
	for _, fn := range p.ModFuncs {
		if fn.Pkg != cb.Pkg {
			continue
		}
		eachInstr(fn, func(in ssa.Instruction) {
			cc := callCommon(in)
			if cc == nil || cc.StaticCallee() == nil || cc.StaticCallee().Pkg == nil || !strings.Contains(cc.StaticCallee().Pkg.Pkg.Path(), "google/btree") {
				return
			}
			name := cc.StaticCallee().Name()
			for _, a := range cc.Args {
				t := p.TermOf(a)
				uses := false
				if cl := t.Resolve("closure"); cl != nil && (cl.Fn == cb || boundTarget(cl.Fn) == cb) {
					uses = true
				}
				if !uses {
					continue
				}
				switch {
				case strings.HasPrefix(name, "AscendGreaterOrEqual"), strings.HasPrefix(name, "AscendRange"):
					dir = "Ascend"
				case strings.HasPrefix(name, "DescendLessOrEqual"), strings.HasPrefix(name, "DescendRange"):
					dir = "Descend"
				}
			}
		})
	}
	return dir
}
