package main

import (
	"fmt"
	"go/types"
	"strings"

	"golang.org/x/tools/go/ssa"
)

// ---- the client verifies the answer it received, unmodified -------------------------------------
//
// The proof object rebuilt from the server's answer carries its versions twice: in the outer
// fields the verifier's guards look at and inside the history/hyper parts the tree verifiers use.
// A client that assigns to a field of the decoded proof before verifying it makes the guards test
// something else than what the parts are verified with.
func proofNotModifiedBeforeVerify(c *Ctx, rule string, fns []*ssa.Function) {
	p := c.P
	for _, fn := range fns {
		fn := fn
		bad := 0
		eachInstr(fn, func(in ssa.Instruction) {
			st, ok := in.(*ssa.Store)
			if !ok {
				return
			}
			fa, ok := st.Addr.(*ssa.FieldAddr)
			if !ok {
				return
			}
			owner := deref(fa.X.Type())
			if !(namedIs(owner, pkgBalloon, "MembershipProof") || namedIs(owner, pkgBalloon, "IncrementalProof") || namedIs(owner, pkgHistory, "MembershipProof") || namedIs(owner, pkgHistory, "IncrementalProof") || namedIs(owner, pkgHyper, "QueryProof")) {
				return
			}
			base := p.TermOf(fa.X)
			// a proof obtained from a call (the decoded answer), not one being built locally
			if base.Op == "alloc" || base.Op == "struct" {
				return
			}
			bad++
			c.Fail(rule, funcName(fn)+":modifies-proof", in.Pos(), "the client assigns to "+structFieldName(owner, fa.Field)+" of the proof it received ("+base.String()+") before verifying it: the verifier's guards then look at a value the proof's parts were not built with")
		})
		if bad == 0 {
			c.Ok(rule, funcName(fn)+":modifies-proof", fn.Pos(), "the received proof is verified as received")
		}
	}
}

// ---- a missing audit-path entry is a rejection -------------------------------------------------
//
// The verifier's visitor must not answer a cache miss with a value (an empty digest makes a full
// node with a missing child hash like the partial node at the same position): the miss edge must
// abort, which the verifier's recover boundary turns into "invalid".
func verifierMissAborts(c *Ctx, rule string, r *histRoles) {
	p := c.P
	// the visitor type the membership verifier constructs
	var vis *ssa.Function
	eachInstr(r.memVerify, func(in ssa.Instruction) {
		if cc := callCommon(in); cc != nil && cc.StaticCallee() != nil && cc.StaticCallee().Pkg == r.memVerify.Pkg && cc.StaticCallee().Signature.Results().Len() == 1 {
			if n, ok := namedOf(cc.StaticCallee().Signature.Results().At(0).Type()); ok {
				for i := 0; i < n.NumMethods(); i++ {
					if strings.HasPrefix(n.Method(i).Name(), "Visit") {
						if m := p.Method(pkgHistory, canonTypeName(n), "VisitGetCacheOp"); m != nil {
							vis = m
						}
					}
				}
			}
		}
	})
	if vis == nil {
		c.Fail(rule, "history:verifier-miss", r.memVerify.Pos(), "the visitor the membership verifier recomputes the root with was not found")
		return
	}
	var get *ssa.Call
	eachInstr(vis, func(in ssa.Instruction) {
		if call, ok := in.(*ssa.Call); ok && call.Call.IsInvoke() && call.Call.Method.Name() == "Get" {
			get = call
		}
	})
	if get == nil {
		c.Fail(rule, funcName(vis)+":miss", vis.Pos(), "the verifier's cache read was not found")
		return
	}
	// every return must be under ok == true
	bad := 0
	for _, b := range vis.Blocks {
		if len(b.Instrs) == 0 || b == vis.Recover {
			continue
		}
		ret, isR := b.Instrs[len(b.Instrs)-1].(*ssa.Return)
		if !isR {
			continue
		}
		found := hasCond(p.CondsAt(b), func(k Cond) bool {
			return k.Pol && k.Atom.Op == "extract" && k.Atom.Idx == 1 && k.Atom.Args[0].V == ssa.Value(get)
		})
		if !found {
			bad++
			c.Fail(rule, funcName(vis)+":miss", ret.Pos(), "the verifier's visitor returns a digest although the position was not found in the audit path: a missing entry must abort the verification (and be turned into a rejection), not contribute an empty digest")
		}
	}
	if bad == 0 {
		c.Ok(rule, funcName(vis)+":miss", vis.Pos(), "returns only what the audit path holds; a miss aborts")
	}
}

// ---- one traversal per prover entry ------------------------------------------------------------------
func proverUsesItsTraversal(c *Ctx, rule string, r *histRoles) {
	p := c.P
	tc := r.m.traversalCallees(p, r.proveConsistency)
	ok := len(tc) == 1 && tc[0] == r.checkConsist
	var names []string
	for _, f := range tc {
		names = append(names, f.Name())
	}
	c.Check(ok, rule, funcName(r.proveConsistency)+":traversal", r.proveConsistency.Pos(), "ProveConsistency prunes with the consistency traversal only", "ProveConsistency builds its pruned tree with "+strings.Join(names, ", ")+": the incremental verifier reads every target from the audit path, so only the traversal that collects them (the two-argument consistency traversal) yields a proof it accepts")
}

// ---- an error response ends the handler ---------------------------------------------------------------
//
// After a handler has answered with an error status it must return: going on uses results that
// are nil on that path (and writes a second response).
func errorResponseReturns(c *Ctx, rule string) {
	p := c.P
	n := 0
	for _, h := range registeredHandlers(p) {
		fn := h.fn
		bad := 0
		sites := 0
		eachInstr(fn, func(in ssa.Instruction) {
			cc := callCommon(in)
			if cc == nil {
				return
			}
			f := cc.StaticCallee()
			if f == nil || f.Pkg == nil || f.Pkg.Pkg.Path() != "net/http" || f.Name() != "Error" {
				return
			}
			sites++
			isWork := func(i2 ssa.Instruction) bool {
				c2 := callCommon(i2)
				if c2 == nil {
					return false
				}
				if _, isDefer := i2.(*ssa.Defer); isDefer {
					return false
				}
				name := calleeName(c2)
				// logging / metrics after the answer are harmless
				if strings.Contains(name, "log.") || strings.Contains(name, ".Inc") || strings.Contains(name, "Logger") || strings.HasPrefix(name, "iface:log") {
					return false
				}
				if c2.IsInvoke() && (strings.HasPrefix(c2.Method.Name(), "Debug") || strings.HasPrefix(c2.Method.Name(), "Info") || strings.HasPrefix(c2.Method.Name(), "Warn") || strings.HasPrefix(c2.Method.Name(), "Error") || strings.HasPrefix(c2.Method.Name(), "Trace")) {
					return false
				}
				return true
			}
			if reachesWithout(in, isWork, func(ssa.Instruction) bool { return false }, nil) {
				bad++
				c.Fail(rule, "handler "+h.path+":error-then-return", in.Pos(), "after answering with an error the handler goes on instead of returning: it uses results that are nil on this path (nil dereference in the request goroutine) and answers twice")
			}
		})
		if sites > 0 {
			n++
			if bad == 0 {
				c.Ok(rule, "handler "+h.path+":error-then-return", fn.Pos(), fmt.Sprintf("%d error answer(s), each followed by return", sites))
			}
		}
	}
	if n == 0 {
		c.Fail(rule, "handlers:error-then-return", 0, "no handler answering with http.Error found")
	}
}

func namedOf(t types.Type) (*types.Named, bool) {
	n, ok := deref(t).(*types.Named)
	return n, ok
}

// ---- the persisted FSM state is loaded as stored ---------------------------------------------------
//
// loadState installs the decoded marker whatever its content: {index, version 0} is a real state (one
// event applied). Resetting or skipping it by value makes the next start replay the entry.
func loadStateInstallsWhatItDecodes(c *Ctx, rule string) {
	p := c.P
	ls := p.MustMethod(pkgConsensus, "RaftNode", "loadState")
	n := 0
	bad := 0
	eachInstr(ls, func(in ssa.Instruction) {
		st, ok := in.(*ssa.Store)
		if !ok {
			return
		}
		fa, ok := st.Addr.(*ssa.FieldAddr)
		if !ok || structFieldName(deref(fa.X.Type()), fa.Field) != "state" || !p.TermOf(fa.X).IsParam(ls, 0) {
			return
		}
		n++
		// conditions: only about errors / presence, never about the decoded fields
		for _, k := range p.CondsAt(in.Block()) {
			if k.Atom.Has(func(x *Term) bool {
				return x.Op == "field" && (x.Name == "BalloonVersion" || x.Name == "Index")
			}) {
				bad++
				c.Fail(rule, funcName(ls)+":by-value", in.Pos(), "the loaded FSM state is installed under "+k.String()+": a decision by the marker's value — {index, version 0} is the state after exactly one event, treating it as \"nothing applied\" makes the node apply that entry again after a restart")
			}
		}
		// and the value installed is the decoded one (its alloc is written by the decoder only)
		if al, isAl := st.Val.(*ssa.Alloc); isAl {
			whole, byField := p.storesTo(al)
			if len(whole) > 0 || len(byField) > 0 {
				decodedOnly := true
				for _, w := range whole {
					if _, isConst := w.(*ssa.Const); !isConst {
						if _, isAlloc := w.(*ssa.Alloc); !isAlloc {
							continue
						}
					}
					decodedOnly = false
				}
				if len(byField) > 0 {
					decodedOnly = false
				}
				if !decodedOnly && namedIs(deref(al.Type()), pkgConsensus, "fsmState") && len(callsIn(ls, func(k *ssa.CallCommon) bool {
					for _, a := range k.Args {
						if a == ssa.Value(al) {
							return true
						}
					}
					return false
				})) > 0 {
					bad++
					c.Fail(rule, funcName(ls)+":overwritten", in.Pos(), "the state decoded from the store is overwritten before it is installed")
				}
			}
		}
	})
	if n == 0 {
		c.Fail(rule, funcName(ls)+":by-value", ls.Pos(), "loadState does not install a state")
	} else if bad == 0 {
		c.Ok(rule, funcName(ls)+":by-value", ls.Pos(), "the decoded marker is installed as stored")
	}
}

// ---- a reader reports an error only with an empty chunk -----------------------------------------------
//
// Consumers of KVPairReader stop on `n == 0 || err != nil` without looking at the chunk. Both
// implementations must therefore never return entries together with an error (io.Reader style).
func readerErrOnlyWithEmptyChunk(c *Ctx, rule string) {
	p := c.P
	n := 0
	for _, impl := range []struct{ pkg, typ string }{{"storage/rocks", "RocksDBKVPairReader"}, {"storage/bplus", "BPlusKVPairReader"}} {
		rd := p.Method(impl.pkg, impl.typ, "Read")
		if rd == nil {
			c.Fail(rule, impl.typ+".Read:err-with-entries", 0, "reader implementation not found")
			continue
		}
		n++
		bad := 0
		for _, rt := range p.ReturnTerms(rd) {
			if len(rt) != 2 {
				continue
			}
			cnt, e := rt[0], rt[1]
			if e.Op == "const" && e.Name == "nil" {
				continue
			}
			if !(cnt.Op == "const" && cnt.Name == "0") {
				bad++
				c.Fail(rule, impl.typ+".Read:err-with-entries", rd.Pos(), "Read can return "+cnt.String()+" entries together with the error "+e.String()+": the consumers (cache rebuild, tree iteration) test the error first and drop that chunk")
			}
		}
		if bad == 0 {
			c.Ok(rule, impl.typ+".Read:err-with-entries", rd.Pos(), "an error is returned only with an empty chunk")
		}
	}
	if n == 0 {
		c.Fail(rule, "readers:err-with-entries", 0, "no KVPairReader implementation found")
	}
}

// ---- the transfer callback's verdicts are kept apart -----------------------------------------------------
//
// The store asks a callback per batch: (ship?, error). The error (a gap) must end the transfer with
// that error; only "do not ship" may skip the batch.
func transferCallbackErrorPropagates(c *Ctx, rule string) {
	p := c.P
	fs := p.MustMethod("storage/rocks", "RocksDBStore", "FetchSnapshot")
	var call *ssa.Call
	eachInstr(fs, func(in ssa.Instruction) {
		if cl, ok := in.(*ssa.Call); ok && !cl.Call.IsInvoke() && cl.Call.StaticCallee() == nil {
			// call of the function-typed parameter (bool, error)
			if sig := cl.Call.Signature(); sig.Results().Len() == 2 && isBool(sig.Results().At(0).Type()) && isErrorType(sig.Results().At(1).Type()) {
				call = cl
			}
		}
	})
	name := funcName(fs) + ":callback-error"
	if call == nil {
		c.Fail(rule, name, fs.Pos(), "the per-batch callback of the transfer is not called")
		return
	}
	var errV ssa.Value
	for _, r := range *call.Referrers() {
		if ex, ok := r.(*ssa.Extract); ok && ex.Index == 1 {
			errV = ex
		}
	}
	if errV == nil {
		c.Fail(rule, name, call.Pos(), "the error result of the per-batch callback is discarded")
		return
	}
	// from every edge on which err != nil holds, the function must return (a non-nil error) without going round the loop
	ok := false
	var why string
	for _, b := range fs.Blocks {
		ifi := blockIf(b)
		if ifi == nil {
			continue
		}
		bo, isB := ifi.Cond.(*ssa.BinOp)
		if !isB || (bo.X != errV && bo.Y != errV) {
			continue
		}
		k := p.errEdge(ifi)
		if k < 0 {
			continue
		}
		eb := b.Succs[k]
		// the error block must lead straight to a return of that error: it must not reach the callback again
		again := reachesWithout(eb.Instrs[0], func(i2 ssa.Instruction) bool { return i2 == ssa.Instruction(call) }, func(i2 ssa.Instruction) bool { _, isR := i2.(*ssa.Return); return isR }, nil)
		if eb.Instrs[0] == ssa.Instruction(call) {
			again = true
		}
		ok = !again
		if again {
			why = "on the callback's error the loop goes on to the next batch"
		}
	}
	// ... and what every error edge of the transfer returns is that error (or one built on the spot):
	// a return of some other, older error variable reports success for a refused or broken transfer
	for _, d := range errorEdgesReturnTheError(p, fs) {
		ok = false
		if why != "" {
			why += "; "
		}
		why += d
	}
	if why == "" && !ok {
		why = "the callback's error is not tested on its own (it is merged with the \"do not ship\" verdict)"
	}
	c.Check(ok, rule, name, call.Pos(), "the callback's error ends the transfer", why+": a refusal (\"Gap found between versions\") is swallowed, the stream ends cleanly with nothing shipped and the follower's restore succeeds on a state that lacks versions")
}

// errorEdgesReturnTheError: for every `err != nil` test of fn, the returns reachable from its error edge
// (before the tested value is produced again) return a value that derives from the tested error, or
// an error constructed on the way. Reported: returns of nil or of an unrelated value.
func errorEdgesReturnTheError(p *Program, fn *ssa.Function) []string {
	var out []string
	if fn.Signature.Results().Len() == 0 || !isErrorType(fn.Signature.Results().At(fn.Signature.Results().Len()-1).Type()) {
		return nil
	}
	for _, b := range fn.Blocks {
		ifi := blockIf(b)
		if ifi == nil {
			continue
		}
		k := p.errEdge(ifi)
		if k < 0 {
			continue
		}
		bo := ifi.Cond.(*ssa.BinOp)
		ev := bo.X
		if c, isC := ev.(*ssa.Const); isC && c.Value == nil {
			ev = bo.Y
		}
		// sentinel comparisons and errors that are deliberately tolerated are not this rule's business:
		// only edges from which a return is reachable without another statement that handles the error
		evT := p.TermOf(ev).String()
		seen := map[*ssa.BasicBlock]bool{}
		var walk func(blk *ssa.BasicBlock)
		walk = func(blk *ssa.BasicBlock) {
			if seen[blk] {
				return
			}
			seen[blk] = true
			for _, in := range blk.Instrs {
				if v, isV := in.(ssa.Value); isV && v == ev {
					return // the tested value is produced again: a new round
				}
				if ret, isR := in.(*ssa.Return); isR {
					rv := RetVal(ret, len(ret.Results)-1)
					// resolve a phi by the edges reachable from the error edge only: approximate by accepting any alternative deriving from ev
					t := p.TermOf(rv)
					okR := false
					for _, alt := range t.Alts() {
						if alt.Has(func(x *Term) bool { return x.String() == evT }) {
							okR = true
						}
						if (alt.Op == "call" || alt.Op == "invoke") && isErrorTerm(alt) {
							okR = true // an error constructed for the occasion
						}
						if alt.Op == "global" {
							okR = true // a sentinel error
						}
					}
					if !okR {
						out = append(out, fmt.Sprintf("on the error edge of the test at %s the function returns %s instead of the error it tested", p.pos(bo.Pos()), t.String()))
					}
					return
				}
			}
			for _, s := range blk.Succs {
				walk(s)
			}
		}
		walk(b.Succs[k])
	}
	return out
}

// otherEdgeFailsLoudly: the branch outcome k was decided by an If whose other edge leads only to error
// exits (returns of a non-nil error) or aborts.
func otherEdgeFailsLoudly(p *Program, k Cond) bool {
	if k.V == nil || k.V.Referrers() == nil {
		return false
	}
	for _, r := range *k.V.Referrers() {
		ifi, ok := r.(*ssa.If)
		if !ok {
			continue
		}
		b := ifi.Block()
		other := b.Succs[1]
		if !k.Branch {
			other = b.Succs[0]
		}
		if len(other.Instrs) == 0 {
			return false
		}
		first := other.Instrs[0]
		if ret, isR := first.(*ssa.Return); isR {
			return len(ret.Results) > 0 && definitelyError(RetVal(ret, len(ret.Results)-1))
		}
		esc := p.EscapesWithout(b.Parent(), func(ssa.Instruction) bool { return false }, mustOpts{start: first, skipErrEdges: true})
		return esc == nil
	}
	return false
}

// ---- the restore transfers whenever it runs inside a cluster ---------------------------------------------
func restoreAlwaysTransfers(c *Ctx, rule string) {
	p := c.P
	restore := p.MustMethod(pkgConsensus, "RaftNode", "Restore")
	rg := p.RegionOf(restore, 3)
	loads := rg.Calls(func(k *ssa.CallCommon) bool { return k.IsInvoke() && k.Method.Name() == "LoadSnapshot" })
	if len(loads) != 1 {
		return // reported by the restore rule
	}
	var extra []string
	for _, k := range rg.Conds(loads[0]) {
		a := k.Atom
		if a.Op == "EQ" && (isErrorTerm(a.Args[0]) || isErrorTerm(a.Args[1])) {
			continue
		}
		if a.Op == "EQ" && !k.Pol && (a.Args[0].IsField("raft", isParam(restore, 0)) || a.Args[1].IsField("raft", isParam(restore, 0))) {
			continue // not restoring on start-up
		}
		if otherEdgeFailsLoudly(p, k) {
			continue // a validation: when it does not hold Restore fails with an error, nothing is skipped silently
		}
		extra = append(extra, k.String())
	}
	c.Check(len(extra) == 0, rule, funcName(restore)+":transfer-unconditional", loads[0].in.Pos(), "inside a cluster the transfer is always requested and loaded", "the state transfer is requested only under "+strings.Join(extra, " ∧ ")+": a shortcut by version arithmetic (the snapshot's version is a count, the FSM's is \"last applied\", and 0 means both \"one event\" and \"none\") lets a follower skip a transfer it needs")
	// leader side: the handler streams from the store on every path
	fs := p.MustMethod(pkgConsensus, "RaftNode", "FetchSnapshot")
	esc := p.RegionOf(fs, 2).EscapesWithoutDeep(func(in ssa.Instruction) bool {
		cc := callCommon(in)
		return cc != nil && cc.IsInvoke() && cc.Method.Name() == "FetchSnapshot"
	}, mustOpts{})
	c.Check(esc == nil, rule, funcName(fs)+":always-streams", fs.Pos(), "every request is answered from the store's log", "the leader's handler can answer a transfer request without scanning the store (a fast path by version comparison): an empty stream closed cleanly is indistinguishable from \"nothing to send\", so the follower's restore succeeds without the batches it lacks")
}

// ---- a node with existing raft state neither bootstraps nor joins again ------------------------------------
//
// On start the node bootstraps or joins only when raft has no existing state. A restarted member
// that tries to join again depends on a seed being up and being the leader at that moment; after a
// full stop of the cluster it can never come back.
func startupJoinOnlyWithoutState(c *Ctx, rule string) {
	p := c.P
	ctor := p.MustFunc(pkgConsensus, "NewRaftNodeWithLogger")
	rg := p.RegionOf(ctor, 2)
	n := 0
	for _, what := range []string{"attemptToJoinCluster", "bootstrapCluster"} {
		for _, ri := range rg.Calls(func(k *ssa.CallCommon) bool {
			return k.StaticCallee() != nil && canonFuncName(k.StaticCallee()) == what
		}) {
			n++
			cs := rg.Conds(ri)
			fresh := hasCond(cs, func(k Cond) bool {
				return !k.Pol && k.Atom.Has(func(x *Term) bool { return x.Op == "call" && x.Fn != nil && x.Fn.Name() == "HasExistingState" })
			})
			c.Check(fresh, rule, funcName(ctor)+":"+what, ri.in.Pos(), what+" only when raft has no existing state", what+" is attempted although raft already has state (conds: "+strings.Join(condStrings(cs), " ∧ ")+"): a restarted member then depends on its seed being up and leader to come back, and after a full stop the cluster cannot be reopened")
		}
	}
	if n < 2 {
		c.Fail(rule, funcName(ctor)+":startup", ctor.Pos(), "the start-up no longer bootstraps / joins through bootstrapCluster and attemptToJoinCluster")
	}
}

// ---- the apply path has no recover boundary ------------------------------------------------------------
//
// A failure while applying a committed entry must take the node down (it restarts and replays).
// A recover() on that path lets raft mark the entry applied while the in-memory trees advanced and
// nothing was stored: the replica silently diverges from its peers.
func applyPathNoRecover(c *Ctx, rule string) {
	p := c.P
	apply := p.MustMethod(pkgConsensus, "RaftNode", "Apply")
	rg := p.RegionOf(apply, 3)
	n := 0
	bad := 0
	rg.Instrs(func(site regionSite, in ssa.Instruction) {
		n++
		cc := callCommon(in)
		if cc == nil {
			return
		}
		if b, ok := cc.Value.(*ssa.Builtin); ok && b.Name() == "recover" {
			bad++
			c.Fail(rule, funcName(apply)+":recover", in.Pos(), "recover() on the apply path (in "+funcName(site.owner)+"): a failure while applying a committed entry is turned into a response, raft marks the entry applied and goes on, and this replica diverges from its peers instead of restarting and replaying")
		}
	})
	// deferred named functions that recover
	rg.Instrs(func(site regionSite, in ssa.Instruction) {
		d, ok := in.(*ssa.Defer)
		if !ok {
			return
		}
		if g := d.Call.StaticCallee(); g != nil && len(g.Blocks) > 0 && p.inModuleFn(g) {
			eachInstr(g, func(i2 ssa.Instruction) {
				if c2 := callCommon(i2); c2 != nil {
					if b, isB := c2.Value.(*ssa.Builtin); isB && b.Name() == "recover" {
						bad++
						c.Fail(rule, funcName(apply)+":recover", in.Pos(), "a deferred function that recovers is installed on the apply path")
					}
				}
			})
		}
	})
	if bad == 0 {
		c.Ok(rule, funcName(apply)+":recover", apply.Pos(), "no recover boundary on the apply path")
	}
}

// ---- hasher factories make hashers ---------------------------------------------------------------------
//
// `hasherF func() hashing.Hasher` is called once per use because hashers are stateful
// (Reset/Write/Sum). A factory that hands out one long-lived instance turns every concurrent
// user into a data race that silently produces wrong digests.
func hasherFactoriesAreFresh(c *Ctx, rule string, pkgs []string) {
	p := c.P
	inPkgs := map[*ssa.Package]bool{}
	for _, pk := range pkgs {
		if sp := p.SSAPkg[modPkg(pk)]; sp != nil {
			inPkgs[sp] = true
		}
	}
	n, bad := 0, 0
	for _, fn := range p.ModFuncs {
		if !inPkgs[fn.Pkg] || !p.Production(fn) {
			continue
		}
		fn := fn
		eachInstr(fn, func(in ssa.Instruction) {
			mc, ok := in.(*ssa.MakeClosure)
			if !ok {
				return
			}
			cl := mc.Fn.(*ssa.Function)
			sig := cl.Signature
			if sig.Params().Len() != 0 || sig.Results().Len() != 1 || !namedIs(sig.Results().At(0).Type(), "crypto/hashing", "Hasher") {
				return
			}
			n++
			for _, b := range cl.Blocks {
				if len(b.Instrs) == 0 || b == cl.Recover {
					continue
				}
				ret, isR := b.Instrs[len(b.Instrs)-1].(*ssa.Return)
				if !isR {
					continue
				}
				// the returned hasher must be made inside the factory: a call or an allocation that is an
				// instruction of the closure itself (possibly boxed), not a value captured from outside
				v := RetVal(ret, 0)
				for {
					if mi, isMI := v.(*ssa.MakeInterface); isMI {
						v = mi.X
						continue
					}
					if ct, isCT := v.(*ssa.ChangeInterface); isCT {
						v = ct.X
						continue
					}
					break
				}
				fresh := false
				switch x := v.(type) {
				case *ssa.Call:
					fresh = x.Parent() == cl
				case *ssa.Alloc:
					fresh = x.Parent() == cl
				}
				t := p.TermOf(RetVal(ret, 0))
				if !fresh {
					bad++
					c.Fail(rule, funcName(fn)+":hasher-factory", in.Pos(), "a hasher factory returns "+t.String()+", an instance that outlives the call: hashers are stateful, so every caller of the factory shares one hasher (concurrent requests interleave Reset/Write/Sum and get digests of nothing they submitted)")
				}
			}
		})
	}
	if bad == 0 {
		c.Ok(rule, "hasher-factories", 0, fmt.Sprintf("%d hasher-factory closure(s) in production code, each returning a new hasher", n))
	}
}

// ---- a proposed command is well formed -----------------------------------------------------------------
//
// RaftNode.AddBulk proposes cmd.data. Either it tests command.encode's verdict, or encode cannot
// refuse for reasons of its own (its only error is the msgpack encoder's, which cannot fail for a
// list of digests). An encoder that may refuse (a size limit) next to a proposer that does not look
// proposes an empty command, which every replica's FSM aborts on, again at every replay.
func proposedCommandWellFormed(c *Ctx, rule string) {
	p := c.P
	ab := p.MustMethod(pkgConsensus, "RaftNode", "AddBulk")
	enc := p.MustMethod(pkgConsensus, "command", "encode")
	rg := p.RegionOf(ab, 2)
	checked := true
	for _, ri := range rg.Calls(func(k *ssa.CallCommon) bool { return k.StaticCallee() == enc }) {
		call, ok := ri.in.(*ssa.Call)
		if !ok || call.Referrers() == nil || len(*call.Referrers()) == 0 {
			checked = false
		}
	}
	// errors encode can return: only values that come out of a callee
	ownErrors := 0
	var example string
	for _, rt := range p.ReturnTerms(enc) {
		e := rt[len(rt)-1]
		for _, a := range e.Alts() {
			a = a.Strip()
			if a.Op == "const" {
				continue
			}
			fromCallee := (a.Op == "call" || a.Op == "extract" || a.Op == "invoke") && !(a.Op == "call" && a.Fn != nil && a.Fn.Pkg != nil && (a.Fn.Pkg.Pkg.Path() == "fmt" || a.Fn.Pkg.Pkg.Path() == "errors"))
			if a.Op == "extract" && a.Args[0].Op == "call" && a.Args[0].Fn != nil && a.Args[0].Fn.Pkg != nil && (a.Args[0].Fn.Pkg.Pkg.Path() == "fmt" || a.Args[0].Fn.Pkg.Pkg.Path() == "errors") {
				fromCallee = false
			}
			if !fromCallee {
				ownErrors++
				example = a.String()
			}
		}
	}
	ok := checked || ownErrors == 0
	c.Check(ok, rule, funcName(ab)+":encode-verdict", ab.Pos(), "the proposer tests command.encode's error, or encode has no refusal of its own", "command.encode can refuse a command on its own ("+example+") while RaftNode.AddBulk discards its verdict and proposes cmd.data anyway: an empty entry is committed and every replica's FSM aborts on it, again at every replay")
}

// ---- goroutines that are waited for signal on every exit --------------------------------------------------
func waitGroupDoneOnEveryExit(c *Ctx, rule string, pkgs []string) {
	p := c.P
	inPkgs := map[*ssa.Package]bool{}
	for _, pk := range pkgs {
		if sp := p.SSAPkg[modPkg(pk)]; sp != nil {
			inPkgs[sp] = true
		}
	}
	isDone := func(in ssa.Instruction) bool {
		cc := callCommon(in)
		if cc == nil || cc.StaticCallee() == nil {
			return false
		}
		f := cc.StaticCallee()
		return f.Name() == "Done" && f.Signature.Recv() != nil && namedIs(f.Signature.Recv().Type(), "sync", "WaitGroup")
	}
	n := 0
	for _, fn := range p.ModFuncs {
		if !inPkgs[fn.Pkg] || !p.Production(fn) || fn.Parent() == nil {
			continue
		}
		has, deferred := false, false
		eachInstr(fn, func(in ssa.Instruction) {
			if isDone(in) {
				has = true
				if _, isDefer := in.(*ssa.Defer); isDefer && in.Block() == fn.Blocks[0] {
					deferred = true
				}
			}
		})
		if !has {
			continue
		}
		n++
		ok := deferred
		if !ok {
			ok = p.EscapesWithout(fn, func(in ssa.Instruction) bool {
				_, isDefer := in.(*ssa.Defer)
				return isDone(in) && !isDefer
			}, mustOpts{panicIsExit: true}) == nil
		}
		c.Check(ok, rule, funcName(fn)+":wg-done", fn.Pos(), "WaitGroup.Done on every exit", "this goroutine can return without calling WaitGroup.Done (an early return on an error path): the Wait of its spawner never returns, the request that started it hangs for ever and leaks its goroutines")
	}
	if n == 0 {
		c.Fail(rule, "wg-done", 0, "no goroutine signalling a WaitGroup found")
	}
}

// ---- characters of a token are read only after its length was tested -----------------------------------------
func tokenCharsGuarded(c *Ctx, rule string) {
	p := c.P
	fn := p.MustFunc(pkgHistory, "ParseAuditPath")
	rg := p.RegionOf(fn, 2)
	bad := 0
	rg.Instrs(func(site regionSite, in ssa.Instruction) {
		// s[i] on a string: go/ssa uses Index (newer) or Lookup (older)
		var sx ssa.Value
		switch x := in.(type) {
		case *ssa.Lookup:
			sx = x.X
		case *ssa.Index:
			sx = x.X
		}
		if sx == nil || !isStringType(sx.Type()) {
			return
		}
		t := rg.Term(site, sx)
		cs := rg.Conds(regionInstr{site, in})
		guarded := hasCond(cs, func(k Cond) bool {
			return k.Atom.Has(func(x *Term) bool { return x.Op == "builtin" && x.Name == "len" && x.Args[0].String() == t.String() })
		})
		if !guarded {
			bad++
			c.Fail(rule, funcName(fn)+":token-char", in.Pos(), "a character of "+t.String()+" is read without a test of its length: a key with an empty token (\"|3\", \"7|\") panics while the answer is being decoded, before any verifier's recover boundary")
		}
	})
	if bad == 0 {
		c.Ok(rule, funcName(fn)+":token-char", fn.Pos(), "no unguarded character access on key tokens")
	}
}

// ---- a single-entry store operation always writes ---------------------------------------------------------------
func storeLogAlwaysWrites(c *Ctx, rule string) {
	p := c.P
	fn := p.MustMethod(pkgConsensus, "raftLog", "StoreLog")
	isPut := func(in ssa.Instruction) bool {
		cc := callCommon(in)
		return cc != nil && cc.StaticCallee() != nil && (cc.StaticCallee().Name() == "PutCF" || cc.StaticCallee().Name() == "Write") && cc.StaticCallee().Pkg != nil && strings.HasSuffix(cc.StaticCallee().Pkg.Pkg.Path(), "/rocksdb")
	}
	esc := p.RegionOf(fn, 2).EscapesWithoutDeep(isPut, mustOpts{skipErrEdges: true})
	pos := fn.Pos()
	if esc != nil {
		pos = esc.Pos()
	}
	c.Check(esc == nil, rule, funcName(fn)+":always-writes", pos, "every successful StoreLog has written the entry", "StoreLog can report success without writing (a shortcut for an entry it believes it already holds): the entry stored under that index keeps its old type/payload while StoreLogs would have replaced it")
}

// ---- a verdict is computed from the message -------------------------------------------------------------------------
func verifyLooksAtTheMessage(c *Ctx, rule string) {
	p := c.P
	v := p.MustMethod("crypto/sign", "Ed25519Signer", "Verify")
	bad := 0
	n := 0
	for _, rt := range p.ReturnTerms(v) {
		n++
		t := p.XLocal(rt[0], v)
		for _, a := range t.Alts() {
			a = a.Strip()
			ok := a.Op == "call" && a.Fn != nil && a.Fn.Name() == "Verify" && a.Has(func(x *Term) bool { return x.IsParam(v, 1) }) && a.Has(func(x *Term) bool { return x.IsParam(v, 2) })
			if a.Op == "const" && a.Name == "false" {
				ok = true
			}
			if !ok {
				bad++
				c.Fail(rule, funcName(v)+":verdict", v.Pos(), "Verify can answer "+a.String()+" without checking the signature against the message (e.g. from a cache keyed by the signature): a modified snapshot carrying a signature seen before verifies")
			}
		}
	}
	if bad == 0 && n > 0 {
		c.Ok(rule, funcName(v)+":verdict", v.Pos(), "every positive verdict is ed25519.Verify(publicKey, message, sig)")
	}
}

// ---- peer lists of the topology are touched under its mutex --------------------------------------------------------
func peerListsUnderTopologyLock(c *Ctx, rule string) {
	p := c.P
	sp := p.SSAPkg[modPkg("gossip")]
	n, bad := 0, 0
	for _, fn := range p.ModFuncs {
		if fn.Pkg != sp || !p.Production(fn) || fn.Signature.Recv() == nil || !namedIs(fn.Signature.Recv().Type(), "gossip", "Topology") {
			continue
		}
		fn := fn
		eachInstr(fn, func(in ssa.Instruction) {
			cc := callCommon(in)
			if cc == nil || cc.StaticCallee() == nil || cc.StaticCallee().Signature.Recv() == nil || !namedIs(cc.StaticCallee().Signature.Recv().Type(), "gossip", "PeerList") || len(cc.Args) == 0 {
				return
			}
			recv := p.TermOf(cc.Args[0])
			// lists that live in the topology's map (looked up or just stored there), not locals of the method
			if !recv.Has(func(x *Term) bool { return x.Op == "lookup" || x.Op == "field" && x.Args[0].IsParam(fn, 0) }) {
				return
			}
			n++
			if p.HeldAt(in)["gossip.Topology.Mutex"] == 0 {
				bad++
				c.Fail(rule, funcName(fn)+":peer-list:"+cc.StaticCallee().Name(), in.Pos(), "a peer list of the topology is used ("+cc.StaticCallee().Name()+") after the topology mutex was released: PeerList has no lock of its own, so join/leave notifications race with routing (lost peers, torn slices)")
			}
		})
	}
	if n == 0 {
		c.Fail(rule, "topology:peer-lists", 0, "no use of the topology's peer lists found")
	} else if bad == 0 {
		c.Ok(rule, "topology:peer-lists", 0, fmt.Sprintf("%d use(s) of the topology's peer lists, all under its mutex", n))
	}
}

// ---- goroutines started in a loop do not share a variable the loop assigns ------------------------------------------
func loopGoroutinesOwnTheirVariables(c *Ctx, rule string, pkgs []string) {
	p := c.P
	inPkgs := map[*ssa.Package]bool{}
	for _, pk := range pkgs {
		if sp := p.SSAPkg[modPkg(pk)]; sp != nil {
			inPkgs[sp] = true
		}
	}
	n, bad := 0, 0
	for _, fn := range p.ModFuncs {
		if !inPkgs[fn.Pkg] || !p.Production(fn) {
			continue
		}
		fn := fn
		eachInstr(fn, func(in ssa.Instruction) {
			g, ok := in.(*ssa.Go)
			if !ok || !inCycle(in.Block()) {
				return
			}
			mc, ok := g.Call.Value.(*ssa.MakeClosure)
			if !ok {
				return
			}
			n++
			for _, b := range mc.Bindings {
				al, isAl := b.(*ssa.Alloc)
				if !isAl || inCycle(al.Block()) {
					continue // a fresh variable per iteration
				}
				// assigned inside the loop?
				assigned := false
				if al.Referrers() != nil {
					for _, r := range *al.Referrers() {
						if st, isSt := r.(*ssa.Store); isSt && st.Addr == ssa.Value(al) && inCycle(st.Block()) {
							assigned = true
						}
					}
				}
				if assigned {
					bad++
					c.Fail(rule, funcName(fn)+":loop-capture:"+al.Comment, in.Pos(), "the goroutine started in this loop captures "+al.Comment+", a variable declared outside the loop and assigned in every iteration: goroutines of earlier iterations see the value of a later one (one task runs several times, the others never)")
				}
			}
		})
	}
	if bad == 0 {
		c.Ok(rule, "loop-goroutines", 0, fmt.Sprintf("%d goroutine(s) started in loops, none shares a loop-assigned variable", n))
	}
}

// ---- only membership notifications change the topology -------------------------------------------------------------
func topologyChangedByNotificationsOnly(c *Ctx, rule string) {
	p := c.P
	upd := p.MustMethod("gossip", "Topology", "Update")
	del := p.MustMethod("gossip", "Topology", "Delete")
	n := 0
	for _, fn := range p.ModFuncs {
		if !p.Production(fn) {
			continue
		}
		fn := fn
		for _, call := range callsIn(fn, func(k *ssa.CallCommon) bool { return k.StaticCallee() == upd || k.StaticCallee() == del }) {
			n++
			root := outermost(fn)
			ok := root.Signature.Recv() != nil && strings.HasPrefix(root.Name(), "Notify")
			c.Check(ok, rule, funcName(fn)+":topology-writer", call.Pos(), "the topology is changed from a membership notification", funcName(fn)+" changes the topology outside a membership notification (NotifyJoin/NotifyLeave/NotifyUpdate): memberlist announces a peer again only on a dead→alive transition, so a peer removed for another reason (a failed send) is never routed to again while it is still a live member")
		}
	}
	if n == 0 {
		c.Fail(rule, "topology-writers", upd.Pos(), "nothing updates the topology")
	}
}

// ---- the duplicate filter identifies a batch by its whole content -----------------------------------------------------
func dedupKeyCoversTheBatch(c *Ctx, rule string) {
	p := c.P
	wp := p.MustMethod("gossip", "BatchProcessor", "wasProcessed")
	okEnc := false
	bi := -1
	for i, pr := range wp.Params {
		if namedIs(pr.Type(), "protocol", "BatchSnapshots") {
			bi = i
		}
	}
	r := p.RegionOf(wp, 3)
	for _, ri := range r.Calls(func(cc *ssa.CallCommon) bool {
		return cc.StaticCallee() != nil && cc.StaticCallee().Name() == "Encode" && len(cc.Args) >= 2
	}) {
		a := r.Term(ri.site, callCommon(ri.in).Args[1])
		if bi >= 0 && (a.IsField("Snapshots", isParam(wp, bi)) || a.IsParam(wp, bi)) {
			okEnc = true
		}
	}
	c.Check(okEnc, rule, funcName(wp)+":key-covers-batch", wp.Pos(), "the looked-up digest is computed from the encoding of all snapshots of the batch", "the digest that identifies a batch is no longer computed from the encoding of its snapshots: a copy altered in a field the key does not cover (digests, version — nobody verifies signatures on this path) is dropped as already processed and never audited")
}

// ---- the publisher posts a batch once ------------------------------------------------------------------------------------
func storePostsOnce(c *Ctx, rule string) {
	p := c.P
	pb := p.MustMethod("gossip", "RestSnapshotStore", "PutBatch")
	posts := callsIn(pb, func(k *ssa.CallCommon) bool { return k.StaticCallee() != nil && k.StaticCallee().Name() == "Post" })
	ok := len(posts) == 1 && !inCycle(posts[0].Block())
	c.Check(ok, rule, funcName(pb)+":posts-once", pb.Pos(), "one POST per batch", fmt.Sprintf("PutBatch issues its POST %d time(s) or in a loop: a client-side error does not mean the store did not take the batch, so retrying on another endpoint stores the same signed snapshots twice", len(posts)))
}

// ---- an endpoint that fails is dead, whatever its history -----------------------------------------------------------------
func markAsDeadAlwaysMarks(c *Ctx, rule string) {
	p := c.P
	md := p.MustMethod("client", "endpoint", "MarkAsDead")
	isSet := func(in ssa.Instruction) bool {
		st, ok := in.(*ssa.Store)
		if !ok {
			return false
		}
		fa, ok := st.Addr.(*ssa.FieldAddr)
		if !ok || structFieldName(deref(fa.X.Type()), fa.Field) != "dead" {
			return false
		}
		k, isC := st.Val.(*ssa.Const)
		return isC && k.Value != nil && k.Value.String() == "true"
	}
	esc := p.EscapesWithout(md, isSet, mustOpts{})
	c.Check(esc == nil, rule, funcName(md)+":always", md.Pos(), "MarkAsDead sets the dead flag on every path", "MarkAsDead can return without setting the dead flag (only under a condition on the endpoint's history): an endpoint that failed, was revived and fails again is handed out for ever and the request loops never end")
}

// ---- the retrier stops when no retry remains --------------------------------------------------------------------------------
func retrierBound(c *Ctx, rule string) {
	p := c.P
	fn := p.MustMethod("client", "BackoffRequestRetrier", "DoReq")
	n := 0
	for _, b := range fn.Blocks {
		ifi := blockIf(b)
		if ifi == nil || !inCycle(b) {
			continue
		}
		cd := p.condOf(ifi.Cond, true)
		a := cd.Atom
		if a.Op != "LT" && a.Op != "EQ" {
			continue
		}
		isRemain := func(t *Term) bool {
			return t.Op == "binop" && t.Name == "-" && t.Args[0].IsField("maxRetries", nil)
		}
		isZero := func(t *Term) bool { return t.Op == "const" && t.Name == "0" }
		var truthAtZero bool
		switch {
		case a.Op == "LT" && isZero(a.Args[0]) && isRemain(a.Args[1]): // 0 < remain
			truthAtZero = false
		case a.Op == "LT" && isRemain(a.Args[0]) && isZero(a.Args[1]): // remain < 0
			truthAtZero = false
		case a.Op == "EQ" && (isRemain(a.Args[0]) && isZero(a.Args[1]) || isRemain(a.Args[1]) && isZero(a.Args[0])):
			truthAtZero = true
		default:
			continue
		}
		n++
		// which edge is taken when remain == 0 ? (cd describes the true edge with polarity Pol)
		taken := 1
		if truthAtZero == cd.Pol {
			taken = 0
		}
		leaves := !inCycle(b.Succs[taken]) || !b.Succs[taken].Dominates(b) && !reachesBlock(b.Succs[taken], b)
		c.Check(leaves, rule, funcName(fn)+":bound", ifi.Pos(), "with no retry remaining (maxRetries - i == 0) the loop is left", "when maxRetries - i is exactly 0 the retry loop goes round once more: the retrier sends maxRetries+2 requests (a non-idempotent POST configured with no retries goes out twice)")
	}
	if n == 0 {
		c.Fail(rule, funcName(fn)+":bound", fn.Pos(), "the retry loop no longer compares the remaining retries (maxRetries - i) with zero")
	}
}

func reachesBlock(from, to *ssa.BasicBlock) bool {
	seen := map[*ssa.BasicBlock]bool{}
	work := []*ssa.BasicBlock{from}
	for len(work) > 0 {
		b := work[len(work)-1]
		work = work[:len(work)-1]
		if b == to {
			return true
		}
		if seen[b] {
			continue
		}
		seen[b] = true
		work = append(work, b.Succs...)
	}
	return false
}

// ---- the rebuilt endpoint list does not alias the list it is built from ---------------------------------------------------------
func updateBuildsAFreshList(c *Ctx, rule string) {
	p := c.P
	upd := p.MustMethod("client", "topology", "Update")
	bad := 0
	eachInstr(upd, func(in ssa.Instruction) {
		sl, ok := in.(*ssa.Slice)
		if !ok {
			return
		}
		if p.TermOf(sl.X).IsField("endpoints", isParam(upd, 0)) {
			bad++
			c.Fail(rule, funcName(upd)+":fresh-list", in.Pos(), "the new endpoint list is built in the backing array of the old one (a re-slice of t.endpoints) while the old list is still being searched for endpoints to take over: entries overwritten before they are looked up are re-created and lose their dead mark")
		}
	})
	if bad == 0 {
		c.Ok(rule, funcName(upd)+":fresh-list", upd.Pos(), "the new list does not alias the old one")
	}
}

// ---- the hyper value is padded to the hasher's length ----------------------------------------------------------------
//
// The length the version is padded to when a proof is rebuilt comes from the client's own hasher,
// never from the answer: Uint64AsPaddedBytes slices with it, and an answer-controlled length of 2..7
// is a negative bound — a panic while decoding, outside every recover boundary.
func paddingLengthFromHasher(c *Ctx, rule string) {
	p := c.P
	fn := p.MustFunc("protocol", "ToBalloonProof")
	n := 0
	rgP := p.RegionOf(fn, 2)
	rgP.Instrs(func(site regionSite, in ssa.Instruction) {
		cc := callCommon(in)
		if cc == nil || cc.StaticCallee() == nil || cc.StaticCallee().Name() != "Uint64AsPaddedBytes" || len(cc.Args) != 2 {
			return
		}
		n++
		l := rgP.Term(site, cc.Args[1])
		fromAnswer := l.Has(func(x *Term) bool { return x.Op == "field" && x.Args[0].IsParam(fn, 0) })
		fromHasher := l.Has(func(x *Term) bool { return x.Op == "invoke" && x.Name == "Len" })
		c.Check(fromHasher && !fromAnswer, rule, funcName(fn)+":padding-length", in.Pos(), "padding length = hasher.Len()", "the version is padded to "+l.String()+", a length taken from the answer: a short KeyDigest makes Uint64AsPaddedBytes slice with a negative bound and the client panics while decoding the answer")
	})
	if n == 0 {
		c.Fail(rule, funcName(fn)+":padding-length", fn.Pos(), "ToBalloonProof no longer pads the version with Uint64AsPaddedBytes")
	}
}

// ---- a reader hands out objects of its own ---------------------------------------------------------------------------
//
// Consumers keep what Read gave them while they call Read again with the same buffer
// (RebuildCache does). Every pair put into the buffer must therefore be a new object with its own
// key/value; recycling the pairs found in the buffer rewrites what the previous call handed out.
func readerHandsOutFreshPairs(c *Ctx, rule string) {
	p := c.P
	n := 0
	for _, impl := range []struct{ pkg, typ string }{{"storage/rocks", "RocksDBKVPairReader"}, {"storage/bplus", "BPlusKVPairReader"}} {
		rd := p.Method(impl.pkg, impl.typ, "Read")
		if rd == nil {
			continue
		}
		n++
		bad := 0
		fns := append([]*ssa.Function{rd}, Anons(rd)...)
		for _, fn := range fns {
			fn := fn
			eachInstr(fn, func(in ssa.Instruction) {
				st, ok := in.(*ssa.Store)
				if !ok {
					return
				}
				switch a := st.Addr.(type) {
				case *ssa.IndexAddr:
					// buffer[i] = X : X must be allocated here, per element
					if !p.TermOf(a.X).IsParam(rd, 1) {
						return
					}
					al, isAl := st.Val.(*ssa.Alloc)
					if !isAl || al.Parent() != fn {
						bad++
						c.Fail(rule, impl.typ+".Read:fresh-pairs", in.Pos(), "the pair stored into the caller's buffer is "+p.TermOf(st.Val).String()+", not an object allocated for this entry")
					}
				case *ssa.FieldAddr:
					// writing into a pair that was read out of the buffer
					base := p.TermOf(a.X)
					if base.HasLocal(func(t *Term) bool { return t.Op == "index" && len(t.Args) > 0 && t.Args[0].IsParam(rd, 1) }) {
						bad++
						c.Fail(rule, impl.typ+".Read:fresh-pairs", in.Pos(), "Read writes into a pair it found in the caller's buffer ("+base.String()+"): the pairs handed out by the previous Read are rewritten in place while the consumer still holds them")
					}
				}
			})
		}
		if bad == 0 {
			c.Ok(rule, impl.typ+".Read:fresh-pairs", rd.Pos(), "every pair handed out is a new object")
		}
	}
	if n == 0 {
		c.Fail(rule, "readers:fresh-pairs", 0, "no KVPairReader implementation found")
	}
}

// ---- round 4 ----------------------------------------------------------------------------------------------------------

// callReceiver: the receiver value of a method call (static or through an interface), or nil.
func callReceiver(cc *ssa.CallCommon) ssa.Value {
	if cc.IsInvoke() {
		return cc.Value
	}
	if g := cc.StaticCallee(); g != nil && g.Signature.Recv() != nil && len(cc.Args) > 0 {
		return cc.Args[0]
	}
	return nil
}

// A read answers from the store: every successful return of a point/range/last read has consulted
// the underlying database. A shortcut that answers "nothing" from the arguments alone (an "empty
// interval" test on inclusive bounds, say) makes the two back-ends, and a map, disagree.
func readsConsultTheStore(c *Ctx, rule string) {
	p := c.P
	for _, be := range []struct{ pkg, typ, dbPkg, dbTyp string }{{"storage/rocks", "RocksDBStore", "rocksdb", "DB"}, {"storage/bplus", "BPlusTreeStore", "github.com/google/btree", "BTree"}} {
		for _, mname := range []string{"Get", "GetRange", "GetLast"} {
			fn := p.Method(be.pkg, be.typ, mname)
			if fn == nil {
				c.Fail(rule, be.typ+"."+mname+":consults-store", 0, "method not found")
				continue
			}
			r := p.RegionOf(fn, 2)
			be := be
			hit := func(in ssa.Instruction) bool {
				cc := callCommon(in)
				if cc == nil {
					return false
				}
				rv := callReceiver(cc)
				if rv == nil {
					return false
				}
				n, isN := namedOf(rv.Type())
				return isN && n.Obj().Name() == be.dbTyp && n.Obj().Pkg() != nil && strings.HasSuffix(n.Obj().Pkg().Path(), be.dbPkg)
			}
			esc := r.EscapesWithoutDeep(hit, mustOpts{skipErrEdges: true})
			if esc != nil {
				c.Fail(rule, be.typ+"."+mname+":consults-store", esc.Pos(), "this return is reached without having asked the database: the answer is decided from the arguments alone (bounds are inclusive, an empty-looking interval can hold a key)")
			} else {
				c.Ok(rule, be.typ+"."+mname+":consults-store", fn.Pos(), "every return follows a database access")
			}
		}
	}
}

// The in-memory back-end applies a batch with no way back: it must not leave the loop early, or a
// failing batch is half visible.
func memoryMutateIsAllOrNothing(c *Ctx, rule string) {
	p := c.P
	mut := p.MustMethod("storage/bplus", "BPlusTreeStore", "Mutate")
	r := p.RegionOf(mut, 2)
	ins := r.Calls(func(cc *ssa.CallCommon) bool {
		g := cc.StaticCallee()
		return g != nil && g.Name() == "ReplaceOrInsert"
	})
	if len(ins) == 0 {
		c.Fail(rule, funcName(mut)+":all-or-nothing", mut.Pos(), "no insertion found")
		return
	}
	bad := 0
	for _, ri := range ins {
		// an error reported after an insertion has already been made
		failing := func(in ssa.Instruction) bool {
			ret, ok := in.(*ssa.Return)
			if !ok || len(ret.Results) == 0 {
				return false
			}
			t := p.TermOf(RetVal(ret, len(ret.Results)-1))
			return !(t.Op == "const" && t.Name == "nil")
		}
		var at ssa.Instruction
		if reachesWithout(ri.in, func(in ssa.Instruction) bool {
			if failing(in) {
				at = in
				return true
			}
			return false
		}, func(ssa.Instruction) bool { return false }, nil) {
			bad++
			c.Fail(rule, funcName(mut)+":all-or-nothing", at.Pos(), "Mutate can fail after it has already inserted part of the batch: the mutations before the failing one stay visible, the rest are dropped")
		}
	}
	if bad == 0 {
		c.Ok(rule, funcName(mut)+":all-or-nothing", mut.Pos(), "no exit inside the applying loop")
	}
}

// Iterators of the store are used with the default read options and rely on total-order seeks; a
// prefix extractor on a column family makes Seek/SeekForPrev skip files whose filter lacks the
// target's prefix (GetLast, GetRange between stored keys).
func noPrefixExtractor(c *Ctx, rule string) {
	p := c.P
	has := false
	if nt := p.NamedType("rocksdb", "Options"); nt != nil {
		for i := 0; i < nt.NumMethods(); i++ {
			if nt.Method(i).Name() == "SetPrefixExtractor" {
				has = true
			}
		}
	}
	c.Control("rocksdb.Options.SetPrefixExtractor is part of the wrapper's API", has)
	bad := 0
	for _, fn := range p.ModFuncs {
		if fn.Pkg == nil || !p.Production(fn) || strings.HasSuffix(fn.Pkg.Pkg.Path(), "/rocksdb") {
			continue
		}
		fn := fn
		eachInstr(fn, func(in ssa.Instruction) {
			cc := callCommon(in)
			if cc == nil || cc.StaticCallee() == nil || cc.StaticCallee().Name() != "SetPrefixExtractor" {
				return
			}
			bad++
			c.Fail(rule, funcName(fn)+":prefix-extractor", in.Pos(), "a prefix extractor is installed on a column family whose iterators seek in total order with default read options: seeks to a key whose prefix is in no filter skip the file (GetLast, GetRange)")
		})
	}
	if bad == 0 {
		c.Ok(rule, "storage:no-prefix-extractor", 0, "no column family has a prefix extractor")
	}
}
