package main

import (
	"fmt"
	"go/types"
	"strings"

	"golang.org/x/tools/go/ssa"
)

// ---- the client verifies the answer it received, unmodified -------------------------------------
//
// The proof object rebuilt from the server's answer carries its versions twice: in the outer
// fields the verifier's guards look at and inside the history/hyper parts the tree verifiers use.
// A client that assigns to a field of the decoded proof before verifying it makes the guards test
// something else than what the parts are verified with.
func proofNotModifiedBeforeVerify(c *Ctx, rule string, fns []*ssa.Function) {
	p := c.P
	for _, fn := range fns {
		fn := fn
		bad := 0
		eachInstr(fn, func(in ssa.Instruction) {
			st, ok := in.(*ssa.Store)
			if !ok {
				return
			}
			fa, ok := st.Addr.(*ssa.FieldAddr)
			if !ok {
				return
			}
			owner := deref(fa.X.Type())
			if !(namedIs(owner, pkgBalloon, "MembershipProof") || namedIs(owner, pkgBalloon, "IncrementalProof") || namedIs(owner, pkgHistory, "MembershipProof") || namedIs(owner, pkgHistory, "IncrementalProof") || namedIs(owner, pkgHyper, "QueryProof")) {
				return
			}
			base := p.TermOf(fa.X)
			// a proof obtained from a call (the decoded answer), not one being built locally
			if base.Op == "alloc" || base.Op == "struct" {
				return
			}
			bad++
			c.Fail(rule, funcName(fn)+":modifies-proof", in.Pos(), "the client assigns to "+structFieldName(owner, fa.Field)+" of the proof it received ("+base.String()+") before verifying it: the verifier's guards then look at a value the proof's parts were not built with")
		})
		if bad == 0 {
			c.Ok(rule, funcName(fn)+":modifies-proof", fn.Pos(), "the received proof is verified as received")
		}
	}
}

// ---- a missing audit-path entry is a rejection -------------------------------------------------
//
// The verifier's visitor must not answer a cache miss with a value (an empty digest makes a full
// node with a missing child hash like the partial node at the same position): the miss edge must
// abort, which the verifier's recover boundary turns into "invalid".
func verifierMissAborts(c *Ctx, rule string, r *histRoles) {
	p := c.P
	// the visitor type the membership verifier constructs
	var vis *ssa.Function
	eachInstr(r.memVerify, func(in ssa.Instruction) {
		if cc := callCommon(in); cc != nil && cc.StaticCallee() != nil && cc.StaticCallee().Pkg == r.memVerify.Pkg && cc.StaticCallee().Signature.Results().Len() == 1 {
			if n, ok := namedOf(cc.StaticCallee().Signature.Results().At(0).Type()); ok {
				for i := 0; i < n.NumMethods(); i++ {
					if strings.HasPrefix(n.Method(i).Name(), "Visit") {
						if m := p.Method(pkgHistory, canonTypeName(n), "VisitGetCacheOp"); m != nil {
							vis = m
						}
					}
				}
			}
		}
	})
	if vis == nil {
		c.Fail(rule, "history:verifier-miss", r.memVerify.Pos(), "the visitor the membership verifier recomputes the root with was not found")
		return
	}
	var get *ssa.Call
	eachInstr(vis, func(in ssa.Instruction) {
		if call, ok := in.(*ssa.Call); ok && call.Call.IsInvoke() && call.Call.Method.Name() == "Get" {
			get = call
		}
	})
	if get == nil {
		c.Fail(rule, funcName(vis)+":miss", vis.Pos(), "the verifier's cache read was not found")
		return
	}
	// every return must be under ok == true
	bad := 0
	for _, b := range vis.Blocks {
		if len(b.Instrs) == 0 || b == vis.Recover {
			continue
		}
		ret, isR := b.Instrs[len(b.Instrs)-1].(*ssa.Return)
		if !isR {
			continue
		}
		found := hasCond(p.CondsAt(b), func(k Cond) bool {
			return k.Pol && k.Atom.Op == "extract" && k.Atom.Idx == 1 && k.Atom.Args[0].V == ssa.Value(get)
		})
		if !found {
			bad++
			c.Fail(rule, funcName(vis)+":miss", ret.Pos(), "the verifier's visitor returns a digest although the position was not found in the audit path: a missing entry must abort the verification (and be turned into a rejection), not contribute an empty digest")
		}
	}
	if bad == 0 {
		c.Ok(rule, funcName(vis)+":miss", vis.Pos(), "returns only what the audit path holds; a miss aborts")
	}
}

// ---- one traversal per prover entry ------------------------------------------------------------------
func proverUsesItsTraversal(c *Ctx, rule string, r *histRoles) {
	p := c.P
	tc := r.m.traversalCallees(p, r.proveConsistency)
	ok := len(tc) == 1 && tc[0] == r.checkConsist
	var names []string
	for _, f := range tc {
		names = append(names, f.Name())
	}
	c.Check(ok, rule, funcName(r.proveConsistency)+":traversal", r.proveConsistency.Pos(), "ProveConsistency prunes with the consistency traversal only", "ProveConsistency builds its pruned tree with "+strings.Join(names, ", ")+": the incremental verifier reads every target from the audit path, so only the traversal that collects them (the two-argument consistency traversal) yields a proof it accepts")
}

// ---- an error response ends the handler ---------------------------------------------------------------
//
// After a handler has answered with an error status it must return: going on uses results that
// are nil on that path (and writes a second response).
func errorResponseReturns(c *Ctx, rule string) {
	p := c.P
	n := 0
	for _, h := range registeredHandlers(p) {
		fn := h.fn
		bad := 0
		sites := 0
		eachInstr(fn, func(in ssa.Instruction) {
			cc := callCommon(in)
			if cc == nil {
				return
			}
			f := cc.StaticCallee()
			if f == nil || f.Pkg == nil || f.Pkg.Pkg.Path() != "net/http" || f.Name() != "Error" {
				return
			}
			sites++
			isWork := func(i2 ssa.Instruction) bool {
				c2 := callCommon(i2)
				if c2 == nil {
					return false
				}
				if _, isDefer := i2.(*ssa.Defer); isDefer {
					return false
				}
				name := calleeName(c2)
				// logging / metrics after the answer are harmless
				if strings.Contains(name, "log.") || strings.Contains(name, ".Inc") || strings.Contains(name, "Logger") || strings.HasPrefix(name, "iface:log") {
					return false
				}
				if c2.IsInvoke() && (strings.HasPrefix(c2.Method.Name(), "Debug") || strings.HasPrefix(c2.Method.Name(), "Info") || strings.HasPrefix(c2.Method.Name(), "Warn") || strings.HasPrefix(c2.Method.Name(), "Error") || strings.HasPrefix(c2.Method.Name(), "Trace")) {
					return false
				}
				return true
			}
			if reachesWithout(in, isWork, func(ssa.Instruction) bool { return false }, nil) {
				bad++
				c.Fail(rule, "handler "+h.path+":error-then-return", in.Pos(), "after answering with an error the handler goes on instead of returning: it uses results that are nil on this path (nil dereference in the request goroutine) and answers twice")
			}
		})
		if sites > 0 {
			n++
			if bad == 0 {
				c.Ok(rule, "handler "+h.path+":error-then-return", fn.Pos(), fmt.Sprintf("%d error answer(s), each followed by return", sites))
			}
		}
	}
	if n == 0 {
		c.Fail(rule, "handlers:error-then-return", 0, "no handler answering with http.Error found")
	}
}

func namedOf(t types.Type) (*types.Named, bool) {
	n, ok := deref(t).(*types.Named)
	return n, ok
}

// ---- the persisted FSM state is loaded as stored ---------------------------------------------------
//
// loadState installs the decoded marker whatever its content: {index, version 0} is a real state (one
// event applied). Resetting or skipping it by value makes the next start replay the entry.
func loadStateInstallsWhatItDecodes(c *Ctx, rule string) {
	p := c.P
	ls := p.MustMethod(pkgConsensus, "RaftNode", "loadState")
	n := 0
	bad := 0
	eachInstr(ls, func(in ssa.Instruction) {
		st, ok := in.(*ssa.Store)
		if !ok {
			return
		}
		fa, ok := st.Addr.(*ssa.FieldAddr)
		if !ok || structFieldName(deref(fa.X.Type()), fa.Field) != "state" || !p.TermOf(fa.X).IsParam(ls, 0) {
			return
		}
		n++
		// conditions: only about errors / presence, never about the decoded fields
		for _, k := range p.CondsAt(in.Block()) {
			if k.Atom.Has(func(x *Term) bool {
				return x.Op == "field" && (x.Name == "BalloonVersion" || x.Name == "Index")
			}) {
				bad++
				c.Fail(rule, funcName(ls)+":by-value", in.Pos(), "the loaded FSM state is installed under "+k.String()+": a decision by the marker's value — {index, version 0} is the state after exactly one event, treating it as \"nothing applied\" makes the node apply that entry again after a restart")
			}
		}
		// and the value installed is the decoded one (its alloc is written by the decoder only)
		if al, isAl := st.Val.(*ssa.Alloc); isAl {
			whole, byField := p.storesTo(al)
			if len(whole) > 0 || len(byField) > 0 {
				decodedOnly := true
				for _, w := range whole {
					if _, isConst := w.(*ssa.Const); !isConst {
						if _, isAlloc := w.(*ssa.Alloc); !isAlloc {
							continue
						}
					}
					decodedOnly = false
				}
				if len(byField) > 0 {
					decodedOnly = false
				}
				if !decodedOnly && namedIs(deref(al.Type()), pkgConsensus, "fsmState") && len(callsIn(ls, func(k *ssa.CallCommon) bool {
					for _, a := range k.Args {
						if a == ssa.Value(al) {
							return true
						}
					}
					return false
				})) > 0 {
					bad++
					c.Fail(rule, funcName(ls)+":overwritten", in.Pos(), "the state decoded from the store is overwritten before it is installed")
				}
			}
		}
	})
	if n == 0 {
		c.Fail(rule, funcName(ls)+":by-value", ls.Pos(), "loadState does not install a state")
	} else if bad == 0 {
		c.Ok(rule, funcName(ls)+":by-value", ls.Pos(), "the decoded marker is installed as stored")
	}
}

// ---- a reader reports an error only with an empty chunk -----------------------------------------------
//
// Consumers of KVPairReader stop on `n == 0 || err != nil` without looking at the chunk. Both
// implementations must therefore never return entries together with an error (io.Reader style).
func readerErrOnlyWithEmptyChunk(c *Ctx, rule string) {
	p := c.P
	n := 0
	for _, impl := range []struct{ pkg, typ string }{{"storage/rocks", "RocksDBKVPairReader"}, {"storage/bplus", "BPlusKVPairReader"}} {
		rd := p.Method(impl.pkg, impl.typ, "Read")
		if rd == nil {
			c.Fail(rule, impl.typ+".Read:err-with-entries", 0, "reader implementation not found")
			continue
		}
		n++
		bad := 0
		for _, rt := range p.ReturnTerms(rd) {
			if len(rt) != 2 {
				continue
			}
			cnt, e := rt[0], rt[1]
			if e.Op == "const" && e.Name == "nil" {
				continue
			}
			if !(cnt.Op == "const" && cnt.Name == "0") {
				bad++
				c.Fail(rule, impl.typ+".Read:err-with-entries", rd.Pos(), "Read can return "+cnt.String()+" entries together with the error "+e.String()+": the consumers (cache rebuild, tree iteration) test the error first and drop that chunk")
			}
		}
		if bad == 0 {
			c.Ok(rule, impl.typ+".Read:err-with-entries", rd.Pos(), "an error is returned only with an empty chunk")
		}
	}
	if n == 0 {
		c.Fail(rule, "readers:err-with-entries", 0, "no KVPairReader implementation found")
	}
}

// ---- the transfer callback's verdicts are kept apart -----------------------------------------------------
//
// The store asks a callback per batch: (ship?, error). The error (a gap) must end the transfer with
// that error; only "do not ship" may skip the batch.
func transferCallbackErrorPropagates(c *Ctx, rule string) {
	p := c.P
	fs := p.MustMethod("storage/rocks", "RocksDBStore", "FetchSnapshot")
	var call *ssa.Call
	eachInstr(fs, func(in ssa.Instruction) {
		if cl, ok := in.(*ssa.Call); ok && !cl.Call.IsInvoke() && cl.Call.StaticCallee() == nil {
			// call of the function-typed parameter (bool, error)
			if sig := cl.Call.Signature(); sig.Results().Len() == 2 && isBool(sig.Results().At(0).Type()) && isErrorType(sig.Results().At(1).Type()) {
				call = cl
			}
		}
	})
	name := funcName(fs) + ":callback-error"
	if call == nil {
		c.Fail(rule, name, fs.Pos(), "the per-batch callback of the transfer is not called")
		return
	}
	var errV ssa.Value
	for _, r := range *call.Referrers() {
		if ex, ok := r.(*ssa.Extract); ok && ex.Index == 1 {
			errV = ex
		}
	}
	if errV == nil {
		c.Fail(rule, name, call.Pos(), "the error result of the per-batch callback is discarded")
		return
	}
	// from every edge on which err != nil holds, the function must return (a non-nil error) without going round the loop
	ok := false
	var why string
	for _, b := range fs.Blocks {
		ifi := blockIf(b)
		if ifi == nil {
			continue
		}
		bo, isB := ifi.Cond.(*ssa.BinOp)
		if !isB || (bo.X != errV && bo.Y != errV) {
			continue
		}
		k := p.errEdge(ifi)
		if k < 0 {
			continue
		}
		eb := b.Succs[k]
		// the error block must lead straight to a return of that error: it must not reach the callback again
		again := reachesWithout(eb.Instrs[0], func(i2 ssa.Instruction) bool { return i2 == ssa.Instruction(call) }, func(i2 ssa.Instruction) bool { _, isR := i2.(*ssa.Return); return isR }, nil)
		if eb.Instrs[0] == ssa.Instruction(call) {
			again = true
		}
		ok = !again
		if again {
			why = "on the callback's error the loop goes on to the next batch"
		}
	}
	if why == "" && !ok {
		why = "the callback's error is not tested on its own (it is merged with the \"do not ship\" verdict)"
	}
	c.Check(ok, rule, name, call.Pos(), "the callback's error ends the transfer", why+": a refusal (\"Gap found between versions\") is swallowed, the stream ends cleanly with nothing shipped and the follower's restore succeeds on a state that lacks versions")
}

// ---- the restore transfers whenever it runs inside a cluster ---------------------------------------------
func restoreAlwaysTransfers(c *Ctx, rule string) {
	p := c.P
	restore := p.MustMethod(pkgConsensus, "RaftNode", "Restore")
	rg := p.RegionOf(restore, 3)
	loads := rg.Calls(func(k *ssa.CallCommon) bool { return k.IsInvoke() && k.Method.Name() == "LoadSnapshot" })
	if len(loads) != 1 {
		return // reported by the restore rule
	}
	var extra []string
	for _, k := range rg.Conds(loads[0]) {
		a := k.Atom
		if a.Op == "EQ" && (isErrorTerm(a.Args[0]) || isErrorTerm(a.Args[1])) {
			continue
		}
		if a.Op == "EQ" && !k.Pol && (a.Args[0].IsField("raft", isParam(restore, 0)) || a.Args[1].IsField("raft", isParam(restore, 0))) {
			continue // not restoring on start-up
		}
		extra = append(extra, k.String())
	}
	c.Check(len(extra) == 0, rule, funcName(restore)+":transfer-unconditional", loads[0].in.Pos(), "inside a cluster the transfer is always requested and loaded", "the state transfer is requested only under "+strings.Join(extra, " ∧ ")+": a shortcut by version arithmetic (the snapshot's version is a count, the FSM's is \"last applied\", and 0 means both \"one event\" and \"none\") lets a follower skip a transfer it needs")
	// leader side: the handler streams from the store on every path
	fs := p.MustMethod(pkgConsensus, "RaftNode", "FetchSnapshot")
	esc := p.RegionOf(fs, 2).EscapesWithoutDeep(func(in ssa.Instruction) bool {
		cc := callCommon(in)
		return cc != nil && cc.IsInvoke() && cc.Method.Name() == "FetchSnapshot"
	}, mustOpts{})
	c.Check(esc == nil, rule, funcName(fs)+":always-streams", fs.Pos(), "every request is answered from the store's log", "the leader's handler can answer a transfer request without scanning the store (a fast path by version comparison): an empty stream closed cleanly is indistinguishable from \"nothing to send\", so the follower's restore succeeds without the batches it lacks")
}

// ---- a node with existing raft state neither bootstraps nor joins again ------------------------------------
//
// On start the node bootstraps or joins only when raft has no existing state. A restarted member
// that tries to join again depends on a seed being up and being the leader at that moment; after a
// full stop of the cluster it can never come back.
func startupJoinOnlyWithoutState(c *Ctx, rule string) {
	p := c.P
	ctor := p.MustFunc(pkgConsensus, "NewRaftNodeWithLogger")
	rg := p.RegionOf(ctor, 2)
	n := 0
	for _, what := range []string{"attemptToJoinCluster", "bootstrapCluster"} {
		for _, ri := range rg.Calls(func(k *ssa.CallCommon) bool {
			return k.StaticCallee() != nil && canonFuncName(k.StaticCallee()) == what
		}) {
			n++
			cs := rg.Conds(ri)
			fresh := hasCond(cs, func(k Cond) bool {
				return !k.Pol && k.Atom.Has(func(x *Term) bool { return x.Op == "call" && x.Fn != nil && x.Fn.Name() == "HasExistingState" })
			})
			c.Check(fresh, rule, funcName(ctor)+":"+what, ri.in.Pos(), what+" only when raft has no existing state", what+" is attempted although raft already has state (conds: "+strings.Join(condStrings(cs), " ∧ ")+"): a restarted member then depends on its seed being up and leader to come back, and after a full stop the cluster cannot be reopened")
		}
	}
	if n < 2 {
		c.Fail(rule, funcName(ctor)+":startup", ctor.Pos(), "the start-up no longer bootstraps / joins through bootstrapCluster and attemptToJoinCluster")
	}
}

// ---- the apply path has no recover boundary ------------------------------------------------------------
//
// A failure while applying a committed entry must take the node down (it restarts and replays).
// A recover() on that path lets raft mark the entry applied while the in-memory trees advanced and
// nothing was stored: the replica silently diverges from its peers.
func applyPathNoRecover(c *Ctx, rule string) {
	p := c.P
	apply := p.MustMethod(pkgConsensus, "RaftNode", "Apply")
	rg := p.RegionOf(apply, 3)
	n := 0
	bad := 0
	rg.Instrs(func(site regionSite, in ssa.Instruction) {
		n++
		cc := callCommon(in)
		if cc == nil {
			return
		}
		if b, ok := cc.Value.(*ssa.Builtin); ok && b.Name() == "recover" {
			bad++
			c.Fail(rule, funcName(apply)+":recover", in.Pos(), "recover() on the apply path (in "+funcName(site.owner)+"): a failure while applying a committed entry is turned into a response, raft marks the entry applied and goes on, and this replica diverges from its peers instead of restarting and replaying")
		}
	})
	// deferred named functions that recover
	rg.Instrs(func(site regionSite, in ssa.Instruction) {
		d, ok := in.(*ssa.Defer)
		if !ok {
			return
		}
		if g := d.Call.StaticCallee(); g != nil && len(g.Blocks) > 0 && p.inModuleFn(g) {
			eachInstr(g, func(i2 ssa.Instruction) {
				if c2 := callCommon(i2); c2 != nil {
					if b, isB := c2.Value.(*ssa.Builtin); isB && b.Name() == "recover" {
						bad++
						c.Fail(rule, funcName(apply)+":recover", in.Pos(), "a deferred function that recovers is installed on the apply path")
					}
				}
			})
		}
	})
	if bad == 0 {
		c.Ok(rule, funcName(apply)+":recover", apply.Pos(), "no recover boundary on the apply path")
	}
}

// ---- hasher factories make hashers ---------------------------------------------------------------------
//
// `hasherF func() hashing.Hasher` is called once per use because hashers are stateful
// (Reset/Write/Sum). A factory that hands out one long-lived instance turns every concurrent
// user into a data race that silently produces wrong digests.
func hasherFactoriesAreFresh(c *Ctx, rule string, pkgs []string) {
	p := c.P
	inPkgs := map[*ssa.Package]bool{}
	for _, pk := range pkgs {
		if sp := p.SSAPkg[modPkg(pk)]; sp != nil {
			inPkgs[sp] = true
		}
	}
	n, bad := 0, 0
	for _, fn := range p.ModFuncs {
		if !inPkgs[fn.Pkg] || !p.Production(fn) {
			continue
		}
		fn := fn
		eachInstr(fn, func(in ssa.Instruction) {
			mc, ok := in.(*ssa.MakeClosure)
			if !ok {
				return
			}
			cl := mc.Fn.(*ssa.Function)
			sig := cl.Signature
			if sig.Params().Len() != 0 || sig.Results().Len() != 1 || !namedIs(sig.Results().At(0).Type(), "crypto/hashing", "Hasher") {
				return
			}
			n++
			for _, b := range cl.Blocks {
				if len(b.Instrs) == 0 || b == cl.Recover {
					continue
				}
				ret, isR := b.Instrs[len(b.Instrs)-1].(*ssa.Return)
				if !isR {
					continue
				}
				// the returned hasher must be made inside the factory: a call or an allocation that is an
				// instruction of the closure itself (possibly boxed), not a value captured from outside
				v := RetVal(ret, 0)
				for {
					if mi, isMI := v.(*ssa.MakeInterface); isMI {
						v = mi.X
						continue
					}
					if ct, isCT := v.(*ssa.ChangeInterface); isCT {
						v = ct.X
						continue
					}
					break
				}
				fresh := false
				switch x := v.(type) {
				case *ssa.Call:
					fresh = x.Parent() == cl
				case *ssa.Alloc:
					fresh = x.Parent() == cl
				}
				t := p.TermOf(RetVal(ret, 0))
				if !fresh {
					bad++
					c.Fail(rule, funcName(fn)+":hasher-factory", in.Pos(), "a hasher factory returns "+t.String()+", an instance that outlives the call: hashers are stateful, so every caller of the factory shares one hasher (concurrent requests interleave Reset/Write/Sum and get digests of nothing they submitted)")
				}
			}
		})
	}
	if bad == 0 {
		c.Ok(rule, "hasher-factories", 0, fmt.Sprintf("%d hasher-factory closure(s) in production code, each returning a new hasher", n))
	}
}
