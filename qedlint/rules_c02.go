package main

import (
	"fmt"
	"go/types"
	"strings"

	"golang.org/x/tools/go/ssa"
)

func init() {
	register("C02", propMeta{
		Explanation: "Decides the acceptance condition of every verifier entry point on all control-flow paths: " +
			"(R1) every accepting path of balloon.MembershipProof.DigestVerify carries Exists ∧ ActualVersion<=QueryVersion ∧ hyper verdict ∧ history verdict, each Verify called with the caller's digest and the matching snapshot digest; " +
			"(R2) hyper.QueryProof.Verify accepts only with a non-empty audit path, key equality and root equality of the value recomputed from the caller's key; " +
			"(R3) history.MembershipProof.Verify returns root equality of a value recomputed from the caller's digest (leaf payload never taken from the proof); " +
			"(R4) protocol.ToBalloonProof ties hyper value and history index to the same ActualVersion; (R5) the client entry points return DigestVerify's verdict unmodified. " +
			"Method: path enumeration over the SSA CFG of loop-free functions with canonical comparison atoms, access-path provenance.",
		Assumptions: []string{"hash collisions are infeasible", "deferred closures in verifiers may only set the result to false (checked)"},
		Added:       "Third round: (R7) the client hands the proof it received to the verifier unmodified, and a missing audit-path entry aborts the recomputation instead of substituting a value. Fifth round: which stored snapshot supplies which digest is decided per path on every ordering Actual<=Query<=Current.",
		Declined:    "the cryptographic soundness argument itself (that both trees together bind digest and version), forging by recombination over all inputs.",
	}, runC02)
}

const pkgBalloon = "balloon"
const pkgHyper = "balloon/hyper"
const pkgHistory = "balloon/history"

func isRecvField(fn *ssa.Function, field string) func(*Term) bool {
	return func(t *Term) bool { return t.IsField(field, func(b *Term) bool { return b.IsParam(fn, 0) }) }
}
func isParamField(fn *ssa.Function, idx int, field string) func(*Term) bool {
	return func(t *Term) bool { return t.IsField(field, func(b *Term) bool { return b.IsParam(fn, idx) }) }
}
func isParam(fn *ssa.Function, idx int) func(*Term) bool {
	return func(t *Term) bool { return t.IsParam(fn, idx) }
}

// positive fact: call to fn with argument predicates
func hasCallFact(cs []Cond, fn *ssa.Function, args ...func(*Term) bool) bool {
	for _, c := range cs {
		if !c.Pol || !c.Atom.IsCallTo(fn) {
			continue
		}
		a := c.Atom.Args
		if c.Atom.Op == "dyncall" {
			a = a[1:]
		}
		ok := len(a) >= len(args)
		for i := 0; ok && i < len(args); i++ {
			if args[i] != nil && !args[i](a[i]) {
				ok = false
			}
		}
		if ok {
			return true
		}
	}
	return false
}

func runC02(c *Ctx) {
	p := c.P
	c.Rule("R1", "DigestVerify: every accepting path carries Exists ∧ Actual<=Query ∧ hyper.Verify(digest,snapshot.HyperDigest) ∧ history.Verify(digest,snapshot.HistoryDigest)", 1)
	c.Rule("R2", "hyper.QueryProof.Verify: accepting ⇒ non-empty path ∧ key equality ∧ root equality of value recomputed from the caller's key", 1)
	c.Rule("R3", "history.MembershipProof.Verify: result = Equal(recomputed-from-caller-digest, expected root); leaf payload from the parameter only", 1)
	c.Rule("R4", "protocol.ToBalloonProof: hyper Value and history Index from the same ActualVersion; history Version from QueryVersion", 3)
	c.Rule("R5", "callers of DigestVerify pass the caller-supplied digest, return its verdict unmodified, and assemble the snapshot from the right stored versions", 6)

	dv := p.MustMethod(pkgBalloon, "MembershipProof", "DigestVerify")
	hyV := p.MustMethod(pkgHyper, "QueryProof", "Verify")
	hiV := p.MustMethod(pkgHistory, "MembershipProof", "Verify")
	c02R1(c, dv, hyV, hiV)
	c02R2(c, hyV)
	c02R3(c, hiV)
	c02R4(c)
	c02R5(c, dv)
	c.Rule("R6", "the verifier's visitor (and its siblings) hash a leaf from the node's value with the position salt on every return — never from the proof", 9)
	histFormulas(c, "R6", buildHistRoles(c))
	c.Rule("R7", "the client verifies the proof it received unmodified; a missing audit-path entry aborts the recomputation", 3)
	proofNotModifiedBeforeVerify(c, "R7", []*ssa.Function{c.P.MustMethod("client", "HTTPClient", "MembershipAutoVerify"), c.P.MustMethod("client", "HTTPClient", "MembershipVerify")})
	verifierMissAborts(c, "R7", buildHistRoles(c))
}

func sameBalloonPkg(p *Program) func(*ssa.Function) bool {
	return func(f *ssa.Function) bool {
		return f.Pkg != nil && f.Pkg.Pkg.Path() == modPkg(pkgBalloon) && len(f.Blocks) > 0
	}
}

// checkDeferredOnlyReject: closures nested in fn may store only constant
// false into fn's boolean result cells.
func checkDeferredOnlyReject(c *Ctx, rule string, fn *ssa.Function) {
	p := c.P
	for _, a := range Anons(fn) {
		eachInstr(a, func(in ssa.Instruction) {
			st, ok := in.(*ssa.Store)
			if !ok {
				return
			}
			fv, ok := st.Addr.(*ssa.FreeVar)
			if !ok {
				return
			}
			b := freeVarBinding(fv)
			al, ok := b.(*ssa.Alloc)
			if !ok || !isBool(deref(al.Type())) {
				return
			}
			if k, ok := st.Val.(*ssa.Const); ok && k.Value != nil && k.Value.String() == "false" {
				return
			}
			c.Fail(rule, funcName(fn)+":closure-sets-verdict", st.Pos(), "a closure of the verifier assigns a non-false value to its boolean result: "+p.TermOf(st.Val).String())
		})
	}
	// the same for a named function that is handed the address of the boolean result (defer reject(&ok))
	eachInstr(fn, func(in ssa.Instruction) {
		cc := callCommon(in)
		if cc == nil {
			return
		}
		for i, a := range cc.Args {
			al, ok := a.(*ssa.Alloc)
			if !ok || !isBool(deref(al.Type())) {
				continue
			}
			g := cc.StaticCallee()
			if g == nil || len(g.Blocks) == 0 || i >= len(g.Params) {
				c.Fail(rule, funcName(fn)+":closure-sets-verdict", in.Pos(), "the address of the verifier's boolean result is handed to code that cannot be inspected")
				continue
			}
			eachInstr(g, func(i2 ssa.Instruction) {
				st, ok := i2.(*ssa.Store)
				if !ok || st.Addr != ssa.Value(g.Params[i]) {
					return
				}
				if k, ok := st.Val.(*ssa.Const); ok && k.Value != nil && k.Value.String() == "false" {
					return
				}
				c.Fail(rule, funcName(fn)+":closure-sets-verdict", st.Pos(), "a function handed the verifier's boolean result assigns a non-false value to it: "+p.TermOf(st.Val).String())
			})
		}
	})
}

func c02R1(c *Ctx, dv, hyV, hiV *ssa.Function) {
	p := c.P
	name := funcName(dv)
	paths, ok := p.AcceptPaths(dv, 0, sameBalloonPkg(p), 3)
	if !ok {
		c.Fail("R1", name, dv.Pos(), "verifier is not loop-free (or has too many paths): acceptance condition cannot be enumerated")
		return
	}
	checkDeferredOnlyReject(c, "R1", dv)
	if len(paths) == 0 {
		c.Fail("R1", name, dv.Pos(), "no accepting path at all")
		return
	}
	exists := isRecvField(dv, "Exists")
	actual := isRecvField(dv, "ActualVersion")
	query := isRecvField(dv, "QueryVersion")
	bad := 0
	for i, cs := range paths {
		var missing []string
		if !hasCond(cs, func(k Cond) bool { return k.Pol && exists(k.Atom) }) {
			missing = append(missing, "Exists")
		}
		if !impliesLE(cs, actual, query) {
			missing = append(missing, "ActualVersion<=QueryVersion")
		}
		if !hasCallFact(cs, hyV, isRecvField(dv, "HyperProof"), isParam(dv, 1), isParamField(dv, 2, "HyperDigest")) {
			missing = append(missing, "HyperProof.Verify(digest, snapshot.HyperDigest)")
		}
		if !hasCallFact(cs, hiV, isRecvField(dv, "HistoryProof"), isParam(dv, 1), isParamField(dv, 2, "HistoryDigest")) {
			missing = append(missing, "HistoryProof.Verify(digest, snapshot.HistoryDigest)")
		}
		if len(missing) > 0 {
			bad++
			c.Fail("R1", name, dv.Pos(), fmt.Sprintf("accepting path #%d lacks {%s}; it holds only under {%s}", i, strings.Join(missing, "; "), strings.Join(condStrings(cs), " ∧ ")))
		}
	}
	if bad == 0 {
		c.Ok("R1", name, dv.Pos(), fmt.Sprintf("%d accepting path(s), all carry the four conjuncts", len(paths)))
	}
}

func isBoolCallTo(pkg, name string) func(*Term) bool {
	return func(t *Term) bool {
		return t.Op == "call" && t.Fn != nil && t.Fn.Name() == name && t.Fn.Pkg != nil && t.Fn.Pkg.Pkg.Path() == pkg
	}
}

// equalFact: positive bytes.Equal(a,b) (either order) or bytes.Compare(a,b)==0
func hasEqualFact(cs []Cond, isA, isB func(*Term) bool) bool {
	for _, c := range cs {
		a := c.Atom
		if c.Pol && isBoolCallTo("bytes", "Equal")(a) && len(a.Args) == 2 {
			if isA(a.Args[0]) && isB(a.Args[1]) || isA(a.Args[1]) && isB(a.Args[0]) {
				return true
			}
		}
		if c.Pol && a.Op == "EQ" {
			for k := 0; k < 2; k++ {
				x, y := a.Args[k], a.Args[1-k]
				if y.Op == "const" && y.Name == "0" && isBoolCallTo("bytes", "Compare")(x) && len(x.Args) == 2 {
					if isA(x.Args[0]) && isB(x.Args[1]) || isA(x.Args[1]) && isB(x.Args[0]) {
						return true
					}
				}
			}
		}
	}
	return false
}

// staticCalleesReturning: module callees of fn (direct) whose first result type is named `typeName` (pointer or value).
func staticCalleesReturning(p *Program, fn *ssa.Function, pkg, typeName string) []*ssa.Function {
	// searched in fn and, when fn itself has none, in the helpers it delegates to, level by
	// level, so that extracting the recomputation into a method of the proof does not hide it
	level := []*ssa.Function{fn}
	visited := map[*ssa.Function]bool{fn: true}
	for depth := 0; depth < 3 && len(level) > 0; depth++ {
		seen := map[*ssa.Function]bool{}
		var out, next []*ssa.Function
		for _, g := range level {
			eachInstr(g, func(in ssa.Instruction) {
				cc := callCommon(in)
				if cc == nil {
					return
				}
				f := cc.StaticCallee()
				if f == nil || seen[f] || f.Signature.Results().Len() == 0 {
					if f != nil && !visited[f] && p.isHelperOf(fn, f) {
						visited[f] = true
						next = append(next, f)
					}
					return
				}
				if namedIs(f.Signature.Results().At(0).Type(), pkg, typeName) && f.Signature.Recv() == nil && f.Pkg != nil && p.inModule(f.Pkg.Pkg.Path()) {
					seen[f] = true
					out = append(out, f)
				} else if !visited[f] && p.isHelperOf(fn, f) {
					visited[f] = true
					next = append(next, f)
				}
			})
		}
		if len(out) > 0 {
			return out
		}
		level = next
	}
	return nil
}

// xConds: the conditions with helper calls in their atoms expanded (calls to `keep` stay opaque).
func xConds(p *Program, cs []Cond, keep ...*ssa.Function) []Cond {
	out := make([]Cond, len(cs))
	for i, k := range cs {
		out[i] = k
		out[i].Atom = p.XAll(k.Atom, func(f *ssa.Function) bool {
			for _, g := range keep {
				if f == g {
					return true
				}
			}
			return false
		})
	}
	return out
}

func c02R2(c *Ctx, hyV *ssa.Function) {
	p := c.P
	name := funcName(hyV)
	paths, ok := p.AcceptPaths(hyV, 0, nil, 0)
	if !ok {
		c.Fail("R2", name, hyV.Pos(), "verifier is not loop-free: acceptance condition cannot be enumerated")
		return
	}
	checkDeferredOnlyReject(c, "R2", hyV)
	pruners := staticCalleesReturning(p, hyV, pkgHyper, "operationsStack")
	if len(pruners) != 1 {
		c.Fail("R2", name, hyV.Pos(), fmt.Sprintf("expected exactly one traversal constructor (callee returning *operationsStack), found %d", len(pruners)))
		return
	}
	pr := pruners[0]
	recomputed := func(t *Term) bool {
		// derived from the interpretation of pruneToVerify(key<-P1, value<-P0.Value, ...)
		return t.Has(func(x *Term) bool {
			return x.IsCallTo(pr) && len(x.Args) >= 2 && x.Args[0].IsParam(hyV, 1) && isRecvField(hyV, "Value")(x.Args[1])
		}) && !t.IsParam(hyV, 2)
	}
	if len(paths) == 0 {
		c.Fail("R2", name, hyV.Pos(), "no accepting path")
		return
	}
	bad := 0
	for i, cs := range paths {
		cs = xConds(p, cs, pr)
		var missing []string
		// non-empty audit path: !EQ(len(P0.AuditPath),0) or LT(0,len) ...
		nonEmpty := hasCond(cs, func(k Cond) bool {
			a := k.Atom
			isLen := func(t *Term) bool {
				return t.Op == "builtin" && t.Name == "len" && isRecvField(hyV, "AuditPath")(t.Args[0])
			}
			isZero := func(t *Term) bool { return t.Op == "const" && t.Name == "0" }
			if a.Op == "EQ" && !k.Pol {
				return isLen(a.Args[0]) && isZero(a.Args[1]) || isLen(a.Args[1]) && isZero(a.Args[0])
			}
			if a.Op == "LT" && k.Pol {
				return isZero(a.Args[0]) && isLen(a.Args[1])
			}
			return false
		})
		if !nonEmpty {
			missing = append(missing, "len(AuditPath)!=0")
		}
		if !hasEqualFact(cs, isParam(hyV, 1), isRecvField(hyV, "Key")) {
			missing = append(missing, "Equal(key, p.Key)")
		}
		if !hasEqualFact(cs, recomputed, isParam(hyV, 2)) {
			missing = append(missing, "Equal(recomputed(key,p.Value), expectedRootHash)")
		}
		if len(missing) > 0 {
			bad++
			c.Fail("R2", name, hyV.Pos(), fmt.Sprintf("accepting path #%d lacks {%s}; holds under {%s}", i, strings.Join(missing, "; "), strings.Join(condStrings(cs), " ∧ ")))
		}
	}
	if bad == 0 {
		c.Ok("R2", name, hyV.Pos(), fmt.Sprintf("%d accepting path(s); traversal %s(key, p.Value, …)", len(paths), pr.Name()))
	}
}

func c02R3(c *Ctx, hiV *ssa.Function) {
	p := c.P
	name := funcName(hiV)
	paths, ok := p.AcceptPaths(hiV, 0, nil, 0)
	if !ok {
		c.Fail("R3", name, hiV.Pos(), "verifier is not loop-free")
		return
	}
	checkDeferredOnlyReject(c, "R3", hiV)
	pruners := staticCalleesReturning(p, hiV, pkgHistory, "operation")
	if len(pruners) != 1 {
		c.Fail("R3", name, hiV.Pos(), fmt.Sprintf("expected exactly one traversal constructor (callee returning operation), found %d", len(pruners)))
		return
	}
	pr := pruners[0]
	recomputed := func(t *Term) bool {
		// invoke Accept on pruneToVerify(P0.Index, P0.Version, P1)
		return t.Has(func(x *Term) bool {
			return x.IsCallTo(pr) && len(x.Args) == 3 && isRecvField(hiV, "Index")(x.Args[0]) && isRecvField(hiV, "Version")(x.Args[1]) && x.Args[2].IsParam(hiV, 1)
		}) && !t.IsParam(hiV, 2)
	}
	bad := 0
	if len(paths) == 0 {
		c.Fail("R3", name, hiV.Pos(), "no accepting path")
		return
	}
	for i, cs := range paths {
		cs = xConds(p, cs, pr)
		if !hasEqualFact(cs, recomputed, isParam(hiV, 2)) {
			bad++
			c.Fail("R3", name, hiV.Pos(), fmt.Sprintf("accepting path #%d lacks Equal(recompute(p.Index,p.Version,eventDigest), expectedRootHash); holds under {%s}", i, strings.Join(condStrings(cs), " ∧ ")))
		}
	}
	// leaf payload provenance inside the traversal: every leaf-hash op is built from the digest parameter
	leafCtor := p.Func(pkgHistory, "newLeafHashOp")
	nLeaf := 0
	prRegion := p.RegionOf(pr, 3) // the traversal may be a closure or a recursive package-level helper
	prRegion.Instrs(func(site regionSite, in ssa.Instruction) {
		cc := callCommon(in)
		if cc == nil {
			return
		}
		f := cc.StaticCallee()
		if f == nil || f.Signature.Results().Len() == 0 || !namedIs(f.Signature.Results().At(0).Type(), pkgHistory, "leafHashOp") {
			return
		}
		if leafCtor != nil && f != leafCtor {
			return
		}
		nLeaf++
		val := prRegion.Term(site, cc.Args[len(cc.Args)-1])
		if !val.IsParam(pr, 2) {
			bad++
			c.Fail("R3", funcName(pr)+":leaf-payload", in.Pos(), "leaf hash payload is "+val.String()+", not the caller's digest parameter")
		}
	})
	if nLeaf == 0 {
		bad++
		c.Fail("R3", funcName(pr)+":leaf-payload", pr.Pos(), "the verifier traversal builds no leaf-hash step from the caller's digest")
	}
	if bad == 0 {
		c.Ok("R3", name, hiV.Pos(), fmt.Sprintf("%d accepting path(s); %d leaf step(s) in %s take the digest parameter", len(paths), nLeaf, pr.Name()))
	}
}

func isBool(t interface{ String() string }) bool { return t.String() == "bool" }

func c02R4(c *Ctx) {
	p := c.P
	fn := p.MustFunc("protocol", "ToBalloonProof")
	name := funcName(fn)
	hyNew := p.Func(pkgHyper, "NewQueryProof")
	hiNew := p.Func(pkgHistory, "NewMembershipProof")
	fromActual := func(t *Term) bool { return t.Has(isParamField(fn, 0, "ActualVersion")) }
	fromQuery := func(t *Term) bool { return t.Has(isParamField(fn, 0, "QueryVersion")) }
	found := 0
	rg4 := p.RegionOf(fn, 2) // a part may be rebuilt by a helper of the package
	rg4.Instrs(func(site regionSite, in ssa.Instruction) {
		cc := callCommon(in)
		if cc == nil {
			return
		}
		f := cc.StaticCallee()
		if f == nil {
			return
		}
		tOf := func(v ssa.Value) *Term { return rg4.Term(site, v) }
		if f == hyNew && hyNew != nil {
			found++
			v := tOf(cc.Args[1])
			c.Check(fromActual(v) && !fromQuery(v), "R4", name+":hyper.Value", in.Pos(), "hyper proof value ← "+v.String(), "hyper proof value is "+v.String()+", must derive from mr.ActualVersion only")
			k := tOf(cc.Args[0])
			c.Check(k.Has(isParamField(fn, 0, "KeyDigest")), "R4", name+":hyper.Key", in.Pos(), "hyper proof key ← "+k.String(), "hyper proof key is "+k.String()+", must be mr.KeyDigest")
		}
		if f == hiNew && hiNew != nil {
			found++
			idx := tOf(cc.Args[0])
			ver := tOf(cc.Args[1])
			c.Check(isParamField(fn, 0, "ActualVersion")(idx), "R4", name+":history.Index", in.Pos(), "history index ← "+idx.String(), "history index is "+idx.String()+", must be mr.ActualVersion")
			c.Check(isParamField(fn, 0, "QueryVersion")(ver), "R4", name+":history.Version", in.Pos(), "history version ← "+ver.String(), "history version is "+ver.String()+", must be mr.QueryVersion")
		}
	})
	if found < 2 {
		c.Fail("R4", name, fn.Pos(), "ToBalloonProof no longer builds both proofs through hyper.NewQueryProof and history.NewMembershipProof")
	}
}

func c02R5(c *Ctx, dv *ssa.Function) {
	p := c.P
	// every non-test caller of DigestVerify in the module
	n := 0
	for _, fn := range p.ModFuncs {
		if p.isTestScaffold(fn) {
			continue
		}
		calls := callsIn(fn, func(cc *ssa.CallCommon) bool { return cc.StaticCallee() == dv })
		if len(calls) == 0 {
			continue
		}
		n++
		name := funcName(fn)
		for _, call := range calls {
			cc := callCommon(call)
			recv := p.TermOf(cc.Args[0])
			dig := p.TermOf(cc.Args[1])
			// derives from the answer under verification (its client-side hasher is not part of the answer)
			var fromProofRec func(t *Term) bool
			fromProofRec = func(t *Term) bool {
				if t.String() == recv.String() {
					return true
				}
				if t.Op == "field" && namedIs(typeOfTerm(t), "crypto/hashing", "Hasher") {
					return false
				}
				for _, a := range t.Args {
					if fromProofRec(a) {
						return true
					}
				}
				return false
			}
			fromProof := fromProofRec(dig)
			fromParam := dig.Has(func(t *Term) bool { return t.Op == "param" && t.Fn == fn && t.String() != recv.String() })
			c.Check(!fromProof && fromParam, "R5", name+":digest-arg", call.Pos(), "verifies the caller-supplied digest: "+dig.String(),
				"DigestVerify is given "+dig.String()+" (proof is "+recv.String()+"): the digest under verification must come from the caller, never from the answer being verified")
		}
		if fn.Signature.Results().Len() == 0 || !isBool(fn.Signature.Results().At(0).Type()) {
			continue
		}
		paths, ok := p.AcceptPaths(fn, 0, nil, 0)
		if !ok {
			c.Fail("R5", name, fn.Pos(), "verification entry point is not loop-free")
			continue
		}
		bad := false
		for _, cs := range paths {
			if !hasCond(cs, func(k Cond) bool { return k.Pol && k.Atom.IsCallTo(dv) }) {
				bad = true
				c.Fail("R5", name, fn.Pos(), "returns true on a path that does not carry DigestVerify's verdict: {"+strings.Join(condStrings(cs), " ∧ ")+"}")
			}
		}
		if !bad {
			c.Ok("R5", name, fn.Pos(), fmt.Sprintf("%d accepting path(s), all carry DigestVerify(...)", len(paths)))
		}
	}
	if n < 2 {
		c.Fail("R5", "callers-of-DigestVerify", dv.Pos(), "fewer than two callers of DigestVerify remain in the module")
	}
	// MembershipAutoVerify: which stored snapshot supplies which digest (path-sensitive, finite order model)
	snapshotPairing(c, "R5", dv)
}

func typeOfTerm(t *Term) types.Type {
	if t.V == nil {
		return nil
	}
	return t.V.Type()
}
