package main

import (
	"fmt"
	"go/constant"
	"strings"

	"golang.org/x/tools/go/ssa"
)

func init() {
	register("C15", propMeta{
		Explanation: "Decides the key/table/batch mechanics of the RocksDB-backed raft log store: (R1) LogStore methods touch only the log column family, StableStore methods only the stable one; (R2) every log key written, read or deleted is the big-endian encoding of the index, First/LastIndex seek to first/last, decode with the inverse, derive their answer from the iterator on every call and return (0,nil) on an empty store; " +
			"(R3) DeleteRange removes the half-open range [min, max+1) and performs the write on every non-error path (no input is silently ignored); (R4) StoreLogs puts every element and writes once, StoreLog stores the encoding of the entry under its own index; (R5) entries are encoded and decoded with the same handle, and a missing entry is raft.ErrLogNotFound decided by nil-ness.",
		Added:       "Also (R4) the stored bytes are the encoding of the raft.Log itself, batches are per call; (R2) read options see range deletions; (R7) native slices copied in full. Third round: (R4) StoreLog(s) writes every log it was given on every path; no write bypasses the write-ahead log. Fifth round: a decoded log entry never shares memory with a recycled decoding target.",
		Assumptions: []string{"the rocksdb cgo wrapper returns nil exactly for absent keys (its bodies cannot be analysed in this sandbox)"},
		Declined:    "behaviour against a map model over all sequences; survival across reopen (RocksDB).",
	}, runC15)
}

func consensusTableConst(p *Program, name string) (int64, bool) {
	if cst := p.Const(pkgConsensus, name); cst != nil {
		v, ok2 := constant.Int64Val(cst.Val())
		return v, ok2
	}
	return 0, false
}

func runC15(c *Ctx) {
	c.Rule("R8", "memory of an object recycled through a sync.Pool never leaves its Get/Put window (returned, stored outside the function, sent)", 1)
	poolEscapes(c, "R8", []string{"consensus", "rocksdb"})
	p := c.P
	c.Rule("R1", "log methods use the log column family, stable-store methods the stable one", 8)
	c.Rule("R2", "index keys are BE64(index); First/LastIndex computed from the iterator each call", 3)
	c.Rule("R3", "DeleteRange(min,max) deletes [min, max+1) and always writes", 1)
	c.Rule("R4", "StoreLogs puts every entry and writes once; StoreLog stores encode(log) under log.Index", 2)
	c.Rule("R5", "shared codec handle; missing entry = ErrLogNotFound by nil-ness", 2)
	c.Rule("R6", "cgo wrapper (syntax-level): a key is reported absent only when the C value pointer is NULL", 2)
	wrapperAbsence(c, "R6")
	c.Rule("R7", "keys and values are copied out of native slices into buffers sized by the same slice", 1)
	nativeSliceCopies(c, "R7", []string{"consensus"})
	freshWriteBatches(c, "R4", []string{"consensus"})
	readOptionsSeeDeletions(c, "R2")
	storeLogAlwaysWrites(c, "R4")
	walNeverDisabled(c, "R4")
	logT, ok1 := consensusTableConst(p, "logTable")
	stableT, ok2 := consensusTableConst(p, "stableTable")
	if !ok1 || !ok2 {
		fatalf("raft log column-family constants not found")
	}
	m := func(n string) *ssa.Function { return p.MustMethod(pkgConsensus, "raftLog", n) }
	// R1
	for _, k := range []struct {
		names []string
		want  int64
		what  string
	}{
		{[]string{"FirstIndex", "LastIndex", "GetLog", "StoreLog", "StoreLogs", "DeleteRange"}, logT, "log"},
		{[]string{"Set", "Get"}, stableT, "stable"},
	} {
		for _, n := range k.names {
			fn := m(n)
			cnt, bad := 0, 0
			rg := p.RegionOf(fn, 2) // the iterator/handle may be obtained through a helper of the store
			rg.Instrs(func(site regionSite, in ssa.Instruction) {
				ia, ok := in.(*ssa.IndexAddr)
				if !ok || !rg.Term(site, ia.X).IsField("cfHandles", isParam(fn, 0)) {
					return
				}
				cnt++
				idx := rg.Term(site, ia.Index)
				if !(idx.Op == "const" && idx.Name == fmt.Sprint(k.want)) {
					bad++
					c.Fail("R1", funcName(fn), in.Pos(), "uses column family cfHandles["+idx.String()+"], expected the "+k.what+" column family")
				}
			})
			if cnt == 0 {
				c.Fail("R1", funcName(fn), fn.Pos(), "no column family selected")
			} else if bad == 0 {
				c.Ok("R1", funcName(fn), fn.Pos(), k.what+" column family")
			}
		}
	}
	// SetUint64/GetUint64 delegate to Set/Get
	for _, pr := range [][2]string{{"SetUint64", "Set"}, {"GetUint64", "Get"}} {
		fn := m(pr[0])
		ok := len(callsIn(fn, func(k *ssa.CallCommon) bool { return k.StaticCallee() == m(pr[1]) })) == 1
		c.Check(ok, "R1", funcName(fn), fn.Pos(), "delegates to "+pr[1], pr[0]+" does not go through "+pr[1])
	}
	// R2 keys
	isBE := func(t *Term, src func(*Term) bool) bool { return utilCallTerm(t, "Uint64AsBytes") && src(t.Args[0]) }
	keyArg := func(fn *ssa.Function, callee string, argIdx int) (*Term, ssa.Instruction) {
		var t *Term
		var at ssa.Instruction
		// the store call may sit in a helper of the log store, the key may be built by one (`logKey(index)`)
		rg := p.RegionOf(fn, 2)
		for _, ri := range rg.Calls(func(cc *ssa.CallCommon) bool { return cc.StaticCallee() != nil && cc.StaticCallee().Name() == callee }) {
			t, at = p.XLocal(rg.Term(ri.site, callCommon(ri.in).Args[argIdx]), fn), ri.in
			if alts := t.Alts(); len(alts) == 1 {
				t = alts[0]
			}
		}
		return t, at
	}
	if t, at := keyArg(m("GetLog"), "GetBytesCF", 3); t != nil {
		c.Check(isBE(t, paramIs(m("GetLog"), 1)), "R2", "GetLog:key", at.Pos(), "key = BE64(index)", "GetLog reads key "+t.String()+", expected Uint64AsBytes(index)")
	} else {
		c.Fail("R2", "GetLog:key", m("GetLog").Pos(), "GetLog does not read through GetBytesCF")
	}
	if t, at := keyArg(m("StoreLog"), "PutCF", 3); t != nil {
		fn := m("StoreLog")
		v, _ := keyArg(fn, "PutCF", 4)
		okV := v != nil && v.Has(func(x *Term) bool {
			// the bytes stored are the encoding of the raft.Log itself (not of a projection that may drop fields)
			return x.Op == "encoded" && x.Args[0].IsParam(fn, 1)
		})
		c.Check(isBE(t, isParamField(fn, 1, "Index")) && okV, "R4", "StoreLog", at.Pos(), "put(BE64(log.Index), encode(log))", "StoreLog puts key "+t.String()+" / value not the encoding of the same entry")
	} else {
		c.Fail("R4", "StoreLog", m("StoreLog").Pos(), "StoreLog does not put through PutCF")
	}
	// StoreLogs
	{
		fn := m("StoreLogs")
		var put, write []regionInstr
		rg := p.RegionOf(fn, 2) // the loop body may be a helper (`addToBatch(batch, log)`)
		rg.Instrs(func(site regionSite, in ssa.Instruction) {
			if cc := callCommon(in); cc != nil && cc.StaticCallee() != nil {
				switch cc.StaticCallee().Name() {
				case "PutCF":
					put = append(put, regionInstr{site, in})
				case "Write":
					if cc.StaticCallee().Pkg != nil && strings.HasSuffix(cc.StaticCallee().Pkg.Pkg.Path(), "/rocksdb") {
						write = append(write, regionInstr{site, in})
					}
				}
			}
		})
		var why []string
		if len(put) != 1 || !rg.InCycle(put[0]) {
			why = append(why, fmt.Sprintf("%d put sites (expected one inside the loop over the entries)", len(put)))
		} else {
			cc := callCommon(put[0].in)
			k, v := p.XLocal(rg.Term(put[0].site, cc.Args[2]), fn), p.XLocal(rg.Term(put[0].site, cc.Args[3]), fn)
			if alts := k.Alts(); len(alts) == 1 {
				k = alts[0]
			}
			isElem := func(t *Term) bool { t = t.Strip(); return t.Op == "index" && t.Args[0].IsParam(fn, 1) }
			if !(isBE(k, func(t *Term) bool { return t.IsField("Index", isElem) })) {
				why = append(why, "key is "+k.String()+", expected BE64(entry.Index)")
			}
			if !v.Has(func(x *Term) bool {
				return x.Op == "encoded" && isElem(x.Args[0])
			}) {
				why = append(why, "value is "+v.String()+", expected the encoding of the same entry")
			}
			cs := rg.Conds(put[0])
			for _, kc := range cs {
				if kc.Atom.Op == "LT" && kc.Atom.Args[1].Op == "builtin" && kc.Atom.Args[1].Name == "len" {
					continue
				}
				if kc.Atom.Op == "EQ" && isErrorTerm(kc.Atom.Args[1]) || kc.Atom.Op == "EQ" && isErrorTerm(kc.Atom.Args[0]) {
					continue
				}
				why = append(why, "entries are put only under "+kc.String())
			}
		}
		if len(write) != 1 || (len(write) == 1 && rg.InCycle(write[0])) {
			why = append(why, fmt.Sprintf("%d batch writes (expected exactly one after the loop)", len(write)))
		}
		c.Check(len(why) == 0, "R4", "StoreLogs", fn.Pos(), "every entry put under BE64(index), one write", strings.Join(why, "; "))
	}
	// First/LastIndex
	for _, k := range [][2]string{{"FirstIndex", "SeekToFirst"}, {"LastIndex", "SeekToLast"}} {
		fn := m(k[0])
		rg := p.RegionOf(fn, 2)
		seek := len(rg.Calls(func(cc *ssa.CallCommon) bool { return cc.StaticCallee() != nil && cc.StaticCallee().Name() == k[1] })) == 1
		if !seek {
			// the positioning method handed to a shared helper as a function value
			refs, others := 0, 0
			eachInstr(fn, func(in ssa.Instruction) {
				for _, op := range in.Operands(nil) {
					if g, ok := (*op).(*ssa.Function); ok && g.Signature != nil {
						nm := strings.TrimSuffix(g.Name(), "$thunk")
						if cc := callCommon(in); cc != nil && cc.Value == *op {
							continue
						}
						if nm == k[1] {
							refs++
						} else if strings.HasPrefix(nm, "Seek") {
							others++
						}
					}
				}
			})
			seek = refs == 1 && others == 0
		}
		var why []string
		if !seek {
			why = append(why, "does not position the iterator with "+k[1])
		}
		for _, rc := range rg.ReturnCases(0) {
			t := rc.T
			cs := rc.Conds
			valid := hasCond(cs, func(kc Cond) bool {
				return kc.Pol && kc.Atom.Op == "call" && kc.Atom.Fn != nil && kc.Atom.Fn.Name() == "Valid"
			})
			invalid := hasCond(cs, func(kc Cond) bool {
				return !kc.Pol && kc.Atom.Op == "call" && kc.Atom.Fn != nil && kc.Atom.Fn.Name() == "Valid"
			})
			switch {
			case valid:
				if !(utilCallTerm(t, "BytesAsUint64") && t.Has(func(x *Term) bool { return x.Op == "call" && x.Fn != nil && x.Fn.Name() == "Key" })) {
					why = append(why, "on a valid iterator returns "+t.String()+", expected BytesAsUint64(key under the iterator)")
				}
			case invalid:
				if !(t.Op == "const" && t.Name == "0") {
					why = append(why, "on an empty store returns "+t.String()+", expected 0")
				}
			default:
				why = append(why, "returns "+t.String()+" without consulting the iterator (a remembered value goes stale when the range is deleted)")
			}
		}
		c.Check(len(why) == 0, "R2", k[0], fn.Pos(), k[1]+" → BytesAsUint64(key) | 0 when empty", strings.Join(why, "; "))
	}
	// R3 DeleteRange
	{
		fn := m("DeleteRange")
		var why []string
		var del ssa.Instruction
		eachInstr(fn, func(in ssa.Instruction) {
			if cc := callCommon(in); cc != nil && cc.StaticCallee() != nil && strings.HasPrefix(cc.StaticCallee().Name(), "DeleteRange") {
				del = in
			}
		})
		if del == nil {
			why = append(why, "no range deletion issued")
		} else {
			cc := callCommon(del)
			one := func(t *Term) *Term {
				t = p.XLocal(t, fn) // the key may be built by a helper of the log store
				if alts := t.Alts(); len(alts) == 1 {
					return alts[0]
				}
				return t
			}
			b, e := one(p.TermOf(cc.Args[2])), one(p.TermOf(cc.Args[3]))
			if !isBE(b, paramIs(fn, 1)) {
				why = append(why, "range begins at "+b.String()+", expected BE64(min)")
			}
			okE := utilCallTerm(e, "Uint64AsBytes") && e.Args[0].Op == "binop" && e.Args[0].Name == "+" && e.Args[0].Args[0].IsParam(fn, 2) && e.Args[0].Args[1].Name == "1"
			if !okE {
				why = append(why, "range ends at "+e.String()+", expected BE64(max+1) (the engine's range is half-open, raft's is inclusive)")
			}
		}
		isWrite := func(in ssa.Instruction) bool {
			cc := callCommon(in)
			return cc != nil && cc.StaticCallee() != nil && cc.StaticCallee().Name() == "Write"
		}
		if esc := p.EscapesWithout(fn, isWrite, mustOpts{skipErrEdges: true}); esc != nil {
			why = append(why, "can return success without writing the deletion (exit at "+p.pos(instrPos(esc))+"): some (min,max) are silently ignored")
		}
		if del != nil {
			if cs := p.CondsAt(del.Block()); len(cs) > 0 {
				why = append(why, "the deletion is issued only under "+strings.Join(condStrings(cs), " ∧ "))
			}
		}
		c.Check(len(why) == 0, "R3", "DeleteRange", fn.Pos(), "delete [BE64(min), BE64(max+1)) then write, unconditionally", strings.Join(why, "; "))
	}
	// R5
	raftLogCodecHandle(c, "R5")
	{
		fn := m("GetLog")
		okNF := false
		var why string
		for _, b := range fn.Blocks {
			ret, ok := b.Instrs[len(b.Instrs)-1].(*ssa.Return)
			if !ok {
				continue
			}
			et := p.TermOf(RetVal(ret, 0))
			if et.Op == "global" && strings.HasSuffix(et.Name, "ErrLogNotFound") {
				cs := p.CondsAt(b)
				okNF = hasCond(cs, func(k Cond) bool {
					return k.Pol && k.Atom.Op == "EQ" && (k.Atom.Args[0].Name == "nil" || k.Atom.Args[1].Name == "nil") && !k.Atom.Has(func(x *Term) bool { return x.Op == "builtin" && x.Name == "len" })
				})
				if !okNF {
					why = "ErrLogNotFound is returned under " + strings.Join(condStrings(cs), " ∧ ")
				}
			}
		}
		if why == "" && !okNF {
			why = "GetLog never returns raft.ErrLogNotFound"
		}
		c.Check(okNF, "R5", "GetLog:not-found", fn.Pos(), "missing entry ⇒ raft.ErrLogNotFound (value is nil)", why)
	}
}
