package main

import (
	"fmt"
	"sort"
	"strings"

	"golang.org/x/tools/go/ssa"
)

// ---- the client pairs a decoded proof with the stored snapshots of the right versions ---------------
//
// MembershipAutoVerify assembles the snapshot a proof is verified against from the snapshot store:
// the history digest must be the one of the proof's QueryVersion, the hyper digest the one of its
// CurrentVersion (the server always proves on the current hyper tree). Which stored snapshot
// supplies which digest is decided per path: on every entry→DigestVerify path, the version whose
// stored snapshot supplies a digest is identified (through helpers), the path's branch outcomes
// over the three decoded versions are evaluated on every ordering A<=Q<=C of small integers
// (an honest answer satisfies Actual<=Query<=Current), and the version chosen must be equal to
// the required one on every ordering the path is feasible for. The versions are touched only
// through comparisons, so the finite set of orderings covers all values.
func snapshotPairing(c *Ctx, rule string, dv *ssa.Function) {
	p := c.P
	auto := p.MustMethod("client", "HTTPClient", "MembershipAutoVerify")
	getSnap := p.MustMethod("client", "HTTPClient", "GetSnapshot")
	name := funcName(auto) + ":snapshot-pairing"
	// the verification call: DigestVerify itself, or a module function handed the assembled snapshot that calls it
	var reachesDV func(g *ssa.Function, depth int) bool
	reachesDV = func(g *ssa.Function, depth int) bool {
		if g == dv {
			return true
		}
		if g == nil || depth == 0 || len(g.Blocks) == 0 || g.Pkg == nil || !p.inModule(g.Pkg.Pkg.Path()) {
			return false
		}
		return len(callsIn(g, func(cc *ssa.CallCommon) bool { return reachesDV(cc.StaticCallee(), depth-1) })) > 0
	}
	var dvCall ssa.Instruction
	snapArg := -1
	for _, in := range callsIn(auto, func(cc *ssa.CallCommon) bool { return reachesDV(cc.StaticCallee(), 2) }) {
		for i, a := range callCommon(in).Args {
			if namedIs(deref(a.Type()), pkgBalloon, "Snapshot") {
				dvCall, snapArg = in, i
			}
		}
	}
	if dvCall == nil {
		c.Fail(rule, name, auto.Pos(), "MembershipAutoVerify does not call DigestVerify itself: the pairing of proof and stored snapshots cannot be located")
		return
	}
	paths, ok := p.EnumPaths(auto, 4000)
	if !ok {
		c.Fail(rule, name, auto.Pos(), "MembershipAutoVerify is not loop-free: the pairing of proof and stored snapshots is not decided")
		return
	}
	cc := callCommon(dvCall)
	isProofField := func(t *Term) string {
		if t.Op != "field" || len(t.Args) == 0 {
			return ""
		}
		switch t.Name {
		case "QueryVersion", "ActualVersion", "CurrentVersion":
		default:
			return ""
		}
		if n, ok := namedOf(deref(typeOfTerm(t.Args[0]))); ok && n.Obj().Name() == "MembershipProof" {
			return t.Name[:1]
		}
		return ""
	}
	// the version whose stored snapshot a digest term comes from ("" = not a stored snapshot's digest of that kind)
	versionsOf := func(t *Term, digestField string) (out []string, bad []string) {
		t = p.XAll(t, func(g *ssa.Function) bool { return g == getSnap || g.Pkg != auto.Pkg })
		for _, alt := range t.Alts() {
			alt = alt.Strip()
			if alt.Op == "const" {
				out = append(out, "nil")
				continue
			}
			if !alt.IsField(digestField, nil) {
				bad = append(bad, alt.String())
				continue
			}
			found := ""
			alt.Has(func(x *Term) bool {
				if x.IsCallTo(getSnap) && len(x.Args) == 2 {
					for _, a := range p.XAll(x.Args[1], func(g *ssa.Function) bool { return g.Pkg != auto.Pkg }).Alts() {
						if s := isProofField(a.Strip()); s != "" {
							found = s
						}
					}
				}
				return false
			})
			if found == "" {
				bad = append(bad, alt.String())
				continue
			}
			out = append(out, found)
		}
		return
	}
	evalSym := func(t *Term, env map[string]int) (int, bool) {
		if s := isProofField(t.Strip()); s != "" {
			return env[s], true
		}
		return 0, false
	}
	feasible := func(pa *Path, env map[string]int) bool {
		for _, k := range p.withImplied(pa.Facts) {
			if k.Atom == nil || (k.Atom.Op != "LT" && k.Atom.Op != "EQ") || len(k.Atom.Args) != 2 {
				continue
			}
			x, okx := evalSym(k.Atom.Args[0], env)
			y, oky := evalSym(k.Atom.Args[1], env)
			if !okx || !oky {
				continue
			}
			got := x < y
			if k.Atom.Op == "EQ" {
				got = x == y
			}
			if got != k.Pol {
				return false
			}
		}
		return true
	}
	nPaths := 0
	var diffs []string
	seen := map[string]bool{}
	for _, pa := range paths {
		onPath := false
		for _, b := range pa.Blocks {
			if b == dvCall.Block() {
				onPath = true
			}
		}
		if !onPath || pa.Panics {
			continue
		}
		nPaths++
		snapV := pa.resolveDeep(cc.Args[snapArg])
		al, isAl := snapV.(*ssa.Alloc)
		if !isAl {
			if !seen["noalloc"] {
				seen["noalloc"] = true
				diffs = append(diffs, "the snapshot handed to DigestVerify is not assembled in MembershipAutoVerify ("+p.TermOf(cc.Args[snapArg]).String()+")")
			}
			continue
		}
		for _, want := range []struct{ field, sym string }{{"HistoryDigest", "Q"}, {"HyperDigest", "C"}} {
			v := pa.lastFieldStoreOnPath(al, want.field, dvCall)
			if v == nil {
				d := want.field + " of the assembled snapshot is never set on a path to DigestVerify"
				if !seen[d] {
					seen[d] = true
					diffs = append(diffs, d)
				}
				continue
			}
			vs, bad := versionsOf(p.TermOnPath(pa, v), want.field)
			for _, b := range bad {
				d := want.field + " ← " + b + " is not the " + want.field + " of a stored snapshot of one of the proof's versions"
				if !seen[d] {
					seen[d] = true
					diffs = append(diffs, d)
				}
			}
			// a nil alternative next to real ones is the error return of a helper (the caller leaves on its err != nil edge)
			if len(vs) > 1 {
				nn := vs[:0:0]
				for _, x := range vs {
					if x != "nil" {
						nn = append(nn, x)
					}
				}
				if len(nn) > 0 {
					vs = nn
				}
			}
			for _, chosen := range vs {
				for a := 0; a <= 2; a++ {
					for q := a; q <= 2; q++ {
						for cu := q; cu <= 2; cu++ {
							env := map[string]int{"A": a, "Q": q, "C": cu}
							if !feasible(pa, env) {
								continue
							}
							if chosen == "nil" || env[chosen] != env[want.sym] {
								long := map[string]string{"A": "ActualVersion", "Q": "QueryVersion", "C": "CurrentVersion", "nil": "no snapshot"}
								d := fmt.Sprintf("for an answer with ActualVersion=%d, QueryVersion=%d, CurrentVersion=%d the %s is taken from the stored snapshot of %s, it must be the one of %s", a, q, cu, want.field, long[chosen], long[want.sym])
								key := want.field + chosen
								if !seen[key] {
									seen[key] = true
									diffs = append(diffs, d)
								}
							}
						}
					}
				}
			}
		}
	}
	sort.Strings(diffs)
	if nPaths == 0 {
		c.Fail(rule, name, auto.Pos(), "no path of MembershipAutoVerify reaches DigestVerify")
		return
	}
	c.Check(len(diffs) == 0, rule, name, dvCall.Pos(),
		fmt.Sprintf("%d path(s) to DigestVerify: on every ordering Actual<=Query<=Current each path is feasible for, history digest = stored snapshot of QueryVersion, hyper digest = stored snapshot of CurrentVersion", nPaths),
		"the snapshot a decoded proof is verified against is paired with the wrong stored version: "+strings.Join(diffs, "; "))
}

// lastFieldStoreOnPath: the value most recently stored, on this path before `before`, into field
// `field` of the struct allocated by al (every field access is a fresh FieldAddr in go/ssa).
func (pa *Path) lastFieldStoreOnPath(al *ssa.Alloc, field string, before ssa.Instruction) ssa.Value {
	started := false
	for bi := len(pa.Blocks) - 1; bi >= 0; bi-- {
		b := pa.Blocks[bi]
		for i := len(b.Instrs) - 1; i >= 0; i-- {
			in := b.Instrs[i]
			if !started {
				if in == before {
					started = true
				}
				continue
			}
			st, ok := in.(*ssa.Store)
			if !ok {
				continue
			}
			fa, ok := st.Addr.(*ssa.FieldAddr)
			if !ok || pa.resolve(fa.X) != ssa.Value(al) {
				continue
			}
			if structFieldName(deref(fa.X.Type()), fa.Field) == field {
				return st.Val
			}
		}
	}
	return nil
}
