package main

import (
	"fmt"
	"go/token"
	"go/types"
	"sort"
	"strings"

	"golang.org/x/tools/go/ssa"
)

// ---- the client pairs a decoded proof with the stored snapshots of the right versions ---------------
//
// MembershipAutoVerify assembles the snapshot a proof is verified against from the snapshot store:
// the history digest must be the one of the proof's QueryVersion, the hyper digest the one of its
// CurrentVersion (the server always proves on the current hyper tree). Which stored snapshot
// supplies which digest is decided per path: on every entry→DigestVerify path, the version whose
// stored snapshot supplies a digest is identified (through helpers), the path's branch outcomes
// over the three decoded versions are evaluated on every ordering A<=Q<=C of small integers
// (an honest answer satisfies Actual<=Query<=Current), and the version chosen must be equal to
// the required one on every ordering the path is feasible for. The versions are touched only
// through comparisons, so the finite set of orderings covers all values.
func snapshotPairing(c *Ctx, rule string, dv *ssa.Function) {
	p := c.P
	auto := p.MustMethod("client", "HTTPClient", "MembershipAutoVerify")
	getSnap := p.MustMethod("client", "HTTPClient", "GetSnapshot")
	name := funcName(auto) + ":snapshot-pairing"
	// the verification call: DigestVerify itself, or a module function handed the assembled snapshot that calls it
	var reachesDV func(g *ssa.Function, depth int) bool
	reachesDV = func(g *ssa.Function, depth int) bool {
		if g == dv {
			return true
		}
		if g == nil || depth == 0 || len(g.Blocks) == 0 || g.Pkg == nil || !p.inModule(g.Pkg.Pkg.Path()) {
			return false
		}
		return len(callsIn(g, func(cc *ssa.CallCommon) bool { return reachesDV(cc.StaticCallee(), depth-1) })) > 0
	}
	var dvCall ssa.Instruction
	snapArg := -1
	for _, in := range callsIn(auto, func(cc *ssa.CallCommon) bool { return reachesDV(cc.StaticCallee(), 2) }) {
		for i, a := range callCommon(in).Args {
			if namedIs(deref(a.Type()), pkgBalloon, "Snapshot") {
				dvCall, snapArg = in, i
			}
		}
	}
	if dvCall == nil {
		c.Fail(rule, name, auto.Pos(), "MembershipAutoVerify does not call DigestVerify itself: the pairing of proof and stored snapshots cannot be located")
		return
	}
	paths, ok := p.EnumPaths(auto, 4000)
	if !ok {
		c.Fail(rule, name, auto.Pos(), "MembershipAutoVerify is not loop-free: the pairing of proof and stored snapshots is not decided")
		return
	}
	cc := callCommon(dvCall)
	isProofField := func(t *Term) string {
		if t.Op != "field" || len(t.Args) == 0 {
			return ""
		}
		switch t.Name {
		case "QueryVersion", "ActualVersion", "CurrentVersion":
		default:
			return ""
		}
		if n, ok := namedOf(deref(typeOfTerm(t.Args[0]))); ok && n.Obj().Name() == "MembershipProof" {
			return t.Name[:1]
		}
		return ""
	}
	// the version whose stored snapshot a digest term comes from ("" = not a stored snapshot's digest of that kind)
	versionsOf := func(t *Term, digestField string) (out []string, bad []string) {
		t = p.XAll(t, func(g *ssa.Function) bool { return g == getSnap || g.Pkg != auto.Pkg })
		for _, alt := range t.Alts() {
			alt = alt.Strip()
			if alt.Op == "const" {
				out = append(out, "nil")
				continue
			}
			if !alt.IsField(digestField, nil) {
				bad = append(bad, alt.String())
				continue
			}
			found := ""
			alt.Has(func(x *Term) bool {
				if x.IsCallTo(getSnap) && len(x.Args) == 2 {
					for _, a := range p.XAll(x.Args[1], func(g *ssa.Function) bool { return g.Pkg != auto.Pkg }).Alts() {
						if s := isProofField(a.Strip()); s != "" {
							found = s
						}
					}
				}
				return false
			})
			if found == "" {
				bad = append(bad, alt.String())
				continue
			}
			out = append(out, found)
		}
		return
	}
	evalSym := func(t *Term, env map[string]int) (int, bool) {
		if s := isProofField(t.Strip()); s != "" {
			return env[s], true
		}
		return 0, false
	}
	feasible := func(pa *Path, env map[string]int) bool {
		for _, k := range p.withImplied(pa.Facts) {
			if k.Atom == nil || (k.Atom.Op != "LT" && k.Atom.Op != "EQ") || len(k.Atom.Args) != 2 {
				continue
			}
			x, okx := evalSym(k.Atom.Args[0], env)
			y, oky := evalSym(k.Atom.Args[1], env)
			if !okx || !oky {
				continue
			}
			got := x < y
			if k.Atom.Op == "EQ" {
				got = x == y
			}
			if got != k.Pol {
				return false
			}
		}
		return true
	}
	nPaths := 0
	var diffs []string
	seen := map[string]bool{}
	for _, pa := range paths {
		onPath := false
		for _, b := range pa.Blocks {
			if b == dvCall.Block() {
				onPath = true
			}
		}
		if !onPath || pa.Panics {
			continue
		}
		nPaths++
		snapV := pa.resolveDeep(cc.Args[snapArg])
		al, isAl := snapV.(*ssa.Alloc)
		if !isAl {
			if !seen["noalloc"] {
				seen["noalloc"] = true
				diffs = append(diffs, "the snapshot handed to DigestVerify is not assembled in MembershipAutoVerify ("+p.TermOf(cc.Args[snapArg]).String()+")")
			}
			continue
		}
		for _, want := range []struct{ field, sym string }{{"HistoryDigest", "Q"}, {"HyperDigest", "C"}} {
			v := pa.lastFieldStoreOnPath(al, want.field, dvCall)
			if v == nil {
				d := want.field + " of the assembled snapshot is never set on a path to DigestVerify"
				if !seen[d] {
					seen[d] = true
					diffs = append(diffs, d)
				}
				continue
			}
			vs, bad := versionsOf(p.TermOnPath(pa, v), want.field)
			for _, b := range bad {
				d := want.field + " ← " + b + " is not the " + want.field + " of a stored snapshot of one of the proof's versions"
				if !seen[d] {
					seen[d] = true
					diffs = append(diffs, d)
				}
			}
			// a nil alternative next to real ones is the error return of a helper (the caller leaves on its err != nil edge)
			if len(vs) > 1 {
				nn := vs[:0:0]
				for _, x := range vs {
					if x != "nil" {
						nn = append(nn, x)
					}
				}
				if len(nn) > 0 {
					vs = nn
				}
			}
			for _, chosen := range vs {
				for a := 0; a <= 2; a++ {
					for q := a; q <= 2; q++ {
						for cu := q; cu <= 2; cu++ {
							env := map[string]int{"A": a, "Q": q, "C": cu}
							if !feasible(pa, env) {
								continue
							}
							if chosen == "nil" || env[chosen] != env[want.sym] {
								long := map[string]string{"A": "ActualVersion", "Q": "QueryVersion", "C": "CurrentVersion", "nil": "no snapshot"}
								d := fmt.Sprintf("for an answer with ActualVersion=%d, QueryVersion=%d, CurrentVersion=%d the %s is taken from the stored snapshot of %s, it must be the one of %s", a, q, cu, want.field, long[chosen], long[want.sym])
								key := want.field + chosen
								if !seen[key] {
									seen[key] = true
									diffs = append(diffs, d)
								}
							}
						}
					}
				}
			}
		}
	}
	sort.Strings(diffs)
	if nPaths == 0 {
		c.Fail(rule, name, auto.Pos(), "no path of MembershipAutoVerify reaches DigestVerify")
		return
	}
	c.Check(len(diffs) == 0, rule, name, dvCall.Pos(),
		fmt.Sprintf("%d path(s) to DigestVerify: on every ordering Actual<=Query<=Current each path is feasible for, history digest = stored snapshot of QueryVersion, hyper digest = stored snapshot of CurrentVersion", nPaths),
		"the snapshot a decoded proof is verified against is paired with the wrong stored version: "+strings.Join(diffs, "; "))
}

// lastFieldStoreOnPath: the value most recently stored, on this path before `before`, into field
// `field` of the struct allocated by al (every field access is a fresh FieldAddr in go/ssa).
func (pa *Path) lastFieldStoreOnPath(al *ssa.Alloc, field string, before ssa.Instruction) ssa.Value {
	started := false
	for bi := len(pa.Blocks) - 1; bi >= 0; bi-- {
		b := pa.Blocks[bi]
		for i := len(b.Instrs) - 1; i >= 0; i-- {
			in := b.Instrs[i]
			if !started {
				if in == before {
					started = true
				}
				continue
			}
			st, ok := in.(*ssa.Store)
			if !ok {
				continue
			}
			fa, ok := st.Addr.(*ssa.FieldAddr)
			if !ok || pa.resolve(fa.X) != ssa.Value(al) {
				continue
			}
			if structFieldName(deref(fa.X.Type()), fa.Field) == field {
				return st.Val
			}
		}
	}
	return nil
}

// ---- memory of a recycled object does not leave its Get/Put window ---------------------------------
//
// A function that hands an object back to a sync.Pool (directly, deferred, or through a helper that
// puts its parameter back) must not let memory of that object escape: the next user of the pool
// overwrites what the caller still holds (an encoded command while raft still owns it, a response
// body while it is being written, a proof's audit path, a decoded log entry's payload). Escape =
// returned, stored into memory that is not local to the function, or sent on a channel. Aliasing is
// decided on the provenance term: scalars and strings cannot alias; field/index/slice/deref and the
// state-returning methods (bytes.Buffer.Bytes/Next, module methods returning a reference-typed field
// of their receiver, constructors storing their argument) preserve aliasing; copies (String,
// append to a fresh slice of scalars, copy, Marshal) cut it.
func holdsRef(t types.Type, depth int) bool {
	if t == nil || depth > 6 {
		return false
	}
	switch u := t.Underlying().(type) {
	case *types.Basic:
		return u.Kind() == types.UnsafePointer
	case *types.Pointer, *types.Slice, *types.Map, *types.Chan, *types.Interface, *types.Signature:
		return true
	case *types.Struct:
		for i := 0; i < u.NumFields(); i++ {
			if holdsRef(u.Field(i).Type(), depth+1) {
				return true
			}
		}
		return false
	case *types.Array:
		return holdsRef(u.Elem(), depth+1)
	case *types.Tuple:
		for i := 0; i < u.Len(); i++ {
			if holdsRef(u.At(i).Type(), depth+1) {
				return true
			}
		}
		return false
	}
	return true
}

var aliasReturningMethods = map[string]bool{"Bytes": true, "Next": true, "Peek": true, "AvailableBuffer": true}

func (p *Program) mayAlias(t *Term, isPooled func(*Term) bool, depth int) bool {
	if t == nil || depth > 14 {
		return false
	}
	if isPooled(t) {
		return true
	}
	if t.V != nil && t.Op != "call" && t.Op != "dyncall" && t.Op != "invoke" && !holdsRef(t.V.Type(), 0) {
		return false
	}
	switch t.Op {
	case "const", "global", "param", "fv", "unknown":
		return false
	case "call", "dyncall", "invoke", "extract":
		callT := t
		if t.Op == "extract" && len(t.Args) > 0 {
			callT = t.Args[0]
		}
		if t.V != nil {
			rt := t.V.Type()
			if t.Op != "extract" {
				if tu, ok := rt.(*types.Tuple); ok && tu.Len() > 0 {
					rt = tu
				}
			}
			if !holdsRef(rt, 0) {
				return false
			}
		}
		if callT.Op == "invoke" {
			return false
		}
		g := callT.Fn
		if g != nil && g.Pkg != nil && p.inModule(g.Pkg.Pkg.Path()) && len(g.Blocks) > 0 {
			if ex := p.X1(t); ex != t {
				return p.mayAlias(ex, isPooled, depth+1)
			}
			return false
		}
		if g != nil && aliasReturningMethods[g.Name()] && len(callT.Args) > 0 {
			return p.mayAlias(callT.Args[0], isPooled, depth+1)
		}
		return false
	case "builtin":
		if t.Name == "append" && len(t.Args) > 0 {
			if p.mayAlias(t.Args[0], isPooled, depth+1) {
				return true
			}
			// appended elements are copied; they alias only when they are references themselves
			if t.V != nil {
				if sl, ok := t.V.Type().Underlying().(*types.Slice); ok && !holdsRef(sl.Elem(), 0) {
					return false
				}
			}
			for _, a := range t.Args[1:] {
				if p.mayAlias(a, isPooled, depth+1) {
					return true
				}
			}
		}
		return false
	}
	for _, a := range t.Args {
		if p.mayAlias(a, isPooled, depth+1) {
			return true
		}
	}
	return false
}

// putBack: the values fn hands back to a sync.Pool (Put called directly, deferred, or by a module
// helper that puts its own parameter back).
func (p *Program) putBack(fn *ssa.Function) []ssa.Value {
	isPoolPut := func(f *ssa.Function) bool {
		return f != nil && f.Name() == "Put" && f.Signature.Recv() != nil && namedIs(f.Signature.Recv().Type(), "sync", "Pool")
	}
	var out []ssa.Value
	eachInstr(fn, func(in ssa.Instruction) {
		cc := callCommon(in)
		if cc == nil || cc.StaticCallee() == nil {
			return
		}
		f := cc.StaticCallee()
		if isPoolPut(f) && len(cc.Args) == 2 {
			out = append(out, cc.Args[1])
			return
		}
		if f.Pkg != nil && p.inModule(f.Pkg.Pkg.Path()) && len(f.Blocks) > 0 && f != fn {
			eachInstr(f, func(in2 ssa.Instruction) {
				c2 := callCommon(in2)
				if c2 == nil || !isPoolPut(c2.StaticCallee()) || len(c2.Args) != 2 {
					return
				}
				v := c2.Args[1]
				if mi, ok := v.(*ssa.MakeInterface); ok {
					v = mi.X
				}
				if par, ok := v.(*ssa.Parameter); ok {
					if i := paramIndex(par); i >= 0 && i < len(cc.Args) {
						out = append(out, cc.Args[i])
					}
				}
			})
		}
	})
	return out
}

func poolEscapes(c *Ctx, rule string, pkgs []string) {
	p := c.P
	want := map[string]bool{}
	for _, k := range pkgs {
		want[modPkg(k)] = true
	}
	bad, n, pools := 0, 0, 0
	for _, fn := range p.ModFuncs {
		if fn.Pkg == nil || !want[fn.Pkg.Pkg.Path()] || !p.Production(fn) {
			continue
		}
		n++
		put := p.putBack(fn)
		if len(put) == 0 {
			continue
		}
		pools++
		pooledStr := map[string]bool{}
		for _, v := range put {
			if mi, ok := v.(*ssa.MakeInterface); ok {
				v = mi.X
			}
			pooledStr[p.TermOf(v).Strip().String()] = true
		}
		isPooled := func(t *Term) bool { return pooledStr[t.Strip().String()] }
		fail := func(pos token.Pos, what string) {
			bad++
			c.Fail(rule, funcName(fn)+":pooled-memory", pos, what+": the function hands that object back to a sync.Pool, so the next user of the pool overwrites memory the receiver still holds")
		}
		for _, rt := range p.ReturnTerms(fn) {
			for _, t := range rt {
				if p.mayAlias(t, isPooled, 0) {
					fail(fn.Pos(), "returns "+t.String()+", memory of a recycled object")
				}
			}
		}
		eachInstr(fn, func(in ssa.Instruction) {
			switch st := in.(type) {
			case *ssa.Store:
				// the base object the address designates
				base := st.Addr
				for {
					if fa, ok := base.(*ssa.FieldAddr); ok {
						base = fa.X
					} else if ia, ok := base.(*ssa.IndexAddr); ok {
						base = ia.X
					} else {
						break
					}
				}
				if _, local := base.(*ssa.Alloc); local {
					return
				}
				bt := p.TermOf(base)
				if p.mayAlias(bt, isPooled, 0) {
					return // a store into the recycled object itself
				}
				if vt := p.TermOf(st.Val); p.mayAlias(vt, isPooled, 0) {
					fail(in.Pos(), "stores "+vt.String()+" into "+p.TermOf(st.Addr).String())
				}
			case *ssa.Send:
				if vt := p.TermOf(st.X); p.mayAlias(vt, isPooled, 0) {
					fail(in.Pos(), "sends "+vt.String()+" on a channel")
				}
			case *ssa.MapUpdate:
				if _, local := st.Map.(*ssa.MakeMap); local {
					return
				}
				if vt := p.TermOf(st.Value); p.mayAlias(vt, isPooled, 0) && !p.mayAlias(p.TermOf(st.Map), isPooled, 0) {
					fail(in.Pos(), "stores "+vt.String()+" into a map")
				}
			}
		})
	}
	_, hasPool := p.lookupStd("sync", "Pool")
	c.Control("sync.Pool is part of the analysed program", hasPool)
	if bad == 0 {
		c.Ok(rule, "no-recycled-memory-escapes", 0, fmt.Sprintf("%d functions analysed, %d of them recycle an object through a sync.Pool; none lets its memory escape", n, pools))
	}
}

func (p *Program) lookupStd(pkg, name string) (types.Object, bool) {
	sp := p.SSAPkg[pkg]
	if sp == nil || sp.Pkg == nil {
		return nil, false
	}
	o := sp.Pkg.Scope().Lookup(name)
	return o, o != nil
}

// ---- the FSM's applied-state record is confined to the FSM goroutine ---------------------------------
//
// RaftNode.state is replaced by applyAdd / loadState without any lock: that is sound only because
// every access happens on raft's FSM goroutine (Apply, Restore, Snapshot) or in the constructor
// before raft starts. An access from a request path (a query, Add, a handler) races with Apply.
// Decided on the static call graph of the module: every function touching the field is reached
// only from the FSM interface methods of the node or from its constructors.
func fsmStateConfined(c *Ctx, rule string) {
	p := c.P
	node := p.NamedType(pkgConsensus, "RaftNode")
	if node == nil {
		fatalf("type consensus.RaftNode not found")
	}
	callers := map[*ssa.Function][]*ssa.Function{}
	for _, fn := range p.ModFuncs {
		if !p.Production(fn) {
			continue
		}
		fn := fn
		eachInstr(fn, func(in ssa.Instruction) {
			if cc := callCommon(in); cc != nil && cc.StaticCallee() != nil {
				callers[cc.StaticCallee()] = append(callers[cc.StaticCallee()], fn)
			}
			if mc, ok := in.(*ssa.MakeClosure); ok {
				if g, ok := mc.Fn.(*ssa.Function); ok {
					callers[g] = append(callers[g], fn)
					if m := boundTarget(g); m != nil {
						callers[m] = append(callers[m], fn)
					}
				}
			}
		})
	}
	allowed := func(f *ssa.Function) bool {
		if f.Signature.Recv() != nil && types.Identical(deref(f.Signature.Recv().Type()), node) {
			switch f.Name() {
			case "Apply", "Restore", "Snapshot":
				return true
			}
		}
		if f.Signature.Recv() == nil && f.Signature.Results().Len() > 0 && types.Identical(deref(f.Signature.Results().At(0).Type()), node) {
			return true // a constructor: raft is not running yet
		}
		return false
	}
	n := 0
	for _, fn := range p.ModFuncs {
		if !p.Production(fn) {
			continue
		}
		fn := fn
		var site ssa.Instruction
		eachInstr(fn, func(in ssa.Instruction) {
			if fa, ok := in.(*ssa.FieldAddr); ok && types.Identical(deref(fa.X.Type()), node) && structFieldName(node, fa.Field) == "state" {
				site = in
			}
		})
		if site == nil {
			continue
		}
		n++
		// entries from which fn is reached
		var bad []string
		seen := map[*ssa.Function]bool{}
		var up func(f *ssa.Function, depth int)
		up = func(f *ssa.Function, depth int) {
			if seen[f] || depth > 12 {
				return
			}
			seen[f] = true
			if allowed(f) {
				return
			}
			cs := callers[f]
			if f.Parent() != nil {
				cs = append(cs, f.Parent())
			}
			if len(cs) == 0 {
				bad = append(bad, funcName(f))
				return
			}
			// an exported method can also be entered from outside the static graph (interfaces)
			if f.Object() != nil && f.Object().Exported() && f.Signature.Recv() != nil {
				bad = append(bad, funcName(f))
			}
			for _, g := range cs {
				up(g, depth+1)
			}
		}
		up(fn, 0)
		sort.Strings(bad)
		c.Check(len(bad) == 0, rule, funcName(fn)+":fsm-state", site.Pos(), "touches RaftNode.state; reached only from the FSM methods and the constructors", "RaftNode.state is accessed in a function reachable from "+strings.Join(bad, ", ")+": the record is replaced by Apply/Restore on raft's FSM goroutine without a lock, so this access races with the apply path")
	}
	if n == 0 {
		c.Fail(rule, "fsm-state", 0, "no access to RaftNode.state found (the applied-state record is gone)")
	}
}

// ---- an answer is read to its end ---------------------------------------------------------------------
//
// The bytes handed to the JSON decoder of an answer are everything the server sent: the reader given
// to ReadAll in the client's request function (and in the agents' snapshot-store client) is the
// response body itself, not a length-limiting wrapper — a truncated answer does not decode, or
// decodes into something else than was encoded.
func answersReadInFull(c *Ctx, rule string, subjects []*ssa.Function) {
	p := c.P
	n := 0
	for _, fn := range subjects {
		for _, call := range p.RegionOf(fn, 2).Calls(func(k *ssa.CallCommon) bool {
			f := k.StaticCallee()
			return f != nil && f.Name() == "ReadAll" && f.Pkg != nil && (f.Pkg.Pkg.Path() == "io/ioutil" || f.Pkg.Pkg.Path() == "io")
		}) {
			n++
			arg := p.TermOf(callCommon(call.in).Args[0])
			limited := arg.Has(func(t *Term) bool {
				if t.Op == "call" && t.Fn != nil && t.Fn.Pkg != nil && t.Fn.Pkg.Pkg.Path() == "io" && t.Fn.Name() == "LimitReader" {
					return true
				}
				return t.Op == "alloc" && strings.Contains(t.Name, "io.LimitedReader")
			})
			body := arg.Has(func(t *Term) bool { return t.Op == "field" && t.Name == "Body" })
			c.Check(body && !limited, rule, funcName(fn)+":read-all", call.in.Pos(), "the answer's body is read to its end", "the answer is read from "+arg.String()+": not the whole response body (a length limit cuts long answers — a large bulk's snapshots, a long proof — which then fail to decode)")
		}
	}
	if n == 0 {
		c.Fail(rule, "read-all", 0, "no function of the client reads a response body")
	}
}

// ---- the transport's receive buffer is used only during the call that lends it -----------------------------
//
// memberlist lends NotifyMsg its receive buffer: "the byte slice may be modified after the call
// returns". The delegate must decode it before returning: the parameter must not be handed to a
// goroutine (captured by a closure started with `go`, or passed to a `go` call), stored or sent.
func borrowedBufferNotRetained(c *Ctx, rule string) {
	p := c.P
	fn := p.MustMethod("gossip", "agentDelegate", "NotifyMsg")
	if len(fn.Params) < 2 {
		c.Fail(rule, funcName(fn)+":borrowed-buffer", fn.Pos(), "NotifyMsg has no message parameter")
		return
	}
	msg := fn.Params[1]
	isMsg := func(v ssa.Value) bool {
		for i := 0; i < 6; i++ {
			switch x := v.(type) {
			case *ssa.Slice:
				v = x.X
				continue
			case *ssa.ChangeType:
				v = x.X
				continue
			case *ssa.UnOp:
				if al, ok := x.X.(*ssa.Alloc); ok {
					if whole, _ := p.storesTo(al); len(whole) == 1 && whole[0] == ssa.Value(msg) {
						return true
					}
				}
			case *ssa.Alloc:
				if whole, _ := p.storesTo(x); len(whole) == 1 && whole[0] == ssa.Value(msg) {
					return true
				}
			}
			break
		}
		return v == ssa.Value(msg)
	}
	var why []string
	eachInstr(fn, func(in ssa.Instruction) {
		switch x := in.(type) {
		case *ssa.Go:
			for _, a := range x.Call.Args {
				if isMsg(a) {
					why = append(why, "the buffer is passed to a goroutine at "+p.pos(in.Pos()))
				}
			}
			if mc, ok := x.Call.Value.(*ssa.MakeClosure); ok {
				for _, b := range mc.Bindings {
					if isMsg(b) {
						why = append(why, "the buffer is captured by a goroutine started at "+p.pos(in.Pos()))
					}
				}
			}
		case *ssa.Store:
			if _, local := x.Addr.(*ssa.Alloc); !local && isMsg(x.Val) {
				why = append(why, "the buffer is stored at "+p.pos(in.Pos()))
			}
		case *ssa.Send:
			if isMsg(x.X) {
				why = append(why, "the buffer is sent on a channel at "+p.pos(in.Pos()))
			}
		}
	})
	c.Check(len(why) == 0, rule, funcName(fn)+":borrowed-buffer", fn.Pos(), "the receive buffer is decoded before NotifyMsg returns (not handed to a goroutine, stored or sent)", strings.Join(why, "; ")+": memberlist reuses the buffer once NotifyMsg has returned, so what is decoded later is some other message (or garbage)")
}

// ---- a goroutine is handed a copy of lock-protected slices and maps, never the protected value ----------
//
// A method of a struct that carries a mutex starts a goroutine (the message bus's delivery, a
// sender) which runs after the method has released the lock. A slice or map loaded from a field of
// that struct and handed to the goroutine as it is shares its backing store with the writers
// (Unsubscribe compacts the subscriber list in place): the goroutine then skips or repeats entries.
// It must get a copy made under the lock (append to a fresh slice, copy, a new map).
func goroutinesGetCopies(c *Ctx, rule string, pkgs []string) {
	p := c.P
	want := map[string]bool{}
	for _, k := range pkgs {
		want[modPkg(k)] = true
	}
	hasMutex := func(t types.Type) bool {
		st, ok := deref(t).Underlying().(*types.Struct)
		if !ok {
			return false
		}
		for i := 0; i < st.NumFields(); i++ {
			ft := st.Field(i).Type()
			if namedIs(ft, "sync", "Mutex") || namedIs(ft, "sync", "RWMutex") {
				return true
			}
		}
		return false
	}
	n, bad := 0, 0
	for _, fn := range p.ModFuncs {
		if fn.Pkg == nil || !want[fn.Pkg.Pkg.Path()] || !p.Production(fn) {
			continue
		}
		root := outermost(fn)
		if root.Signature.Recv() == nil || !hasMutex(root.Signature.Recv().Type()) || len(root.Params) == 0 {
			continue
		}
		fn := fn
		eachInstr(fn, func(in ssa.Instruction) {
			g, ok := in.(*ssa.Go)
			if !ok {
				return
			}
			n++
			vals := append([]ssa.Value{}, g.Call.Args...)
			if mc, ok := g.Call.Value.(*ssa.MakeClosure); ok {
				vals = append(vals, mc.Bindings...)
			}
			for _, v := range vals {
				switch v.Type().Underlying().(type) {
				case *types.Slice, *types.Map:
				default:
					continue
				}
				t := p.TermOf(v).Strip()
				// a pure access path (field / index / slice / lookup) rooted at the receiver
				pure := true
				cur := t
				for cur != nil && pure {
					switch cur.Op {
					case "field", "index", "slice", "lookup":
						if len(cur.Args) == 0 {
							pure = false
						} else {
							cur = cur.Args[0].Strip()
						}
					case "param":
						if !(cur.Fn == root && cur.Idx == 0) {
							pure = false
						}
						cur = nil
					default:
						pure = false
					}
				}
				if pure {
					bad++
					c.Fail(rule, funcName(fn)+":goroutine-copy", in.Pos(), "the goroutine started here is handed "+t.String()+", a slice/map of the lock-protected receiver itself, not a copy: it runs after the lock is released and shares the backing store with writers that modify it in place")
				}
			}
		})
	}
	if bad == 0 {
		c.Ok(rule, "goroutines-get-copies", 0, fmt.Sprintf("%d goroutine start(s) in methods of lock-carrying structs; none is handed a protected slice or map as it is", n))
	}
}

// ---- rediscovery does not depend on what the client believes about the other endpoints ---------------
//
// When the primary is unknown or dead, callPrimary's way back is discover() (which also revives
// endpoints). Whether it runs may depend on the error Primary() gave, on the client's configuration
// and on the one-shot flags of the loop — not on the topology's current content: gating it on
// "some endpoint is still alive" removes the only way out of the state in which every endpoint
// has been marked dead, and writes fail for ever after an outage.
func rediscoveryUnconditional(c *Ctx, rule string) {
	p := c.P
	cp := p.MustMethod("client", "HTTPClient", "callPrimary")
	disc := p.MustMethod("client", "HTTPClient", "discover")
	rg := p.RegionOf(cp, 2)
	calls := rg.Calls(func(k *ssa.CallCommon) bool { return k.StaticCallee() == disc })
	if len(calls) == 0 {
		c.Fail(rule, funcName(cp)+":rediscovery", cp.Pos(), "callPrimary never rediscovers the topology")
		return
	}
	topo := p.NamedType("client", "topology")
	for _, call := range calls {
		var why []string
		for _, k := range p.withImplied(rg.Conds(call)) {
			k.Atom.Has(func(x *Term) bool {
				if x.Op == "call" && x.Fn != nil && x.Fn.Signature.Recv() != nil && topo != nil && types.Identical(deref(x.Fn.Signature.Recv().Type()), topo) && x.Fn.Name() != "Primary" {
					why = append(why, k.String())
				}
				return false
			})
		}
		c.Check(len(why) == 0, rule, funcName(cp)+":rediscovery", call.in.Pos(), "rediscovery depends only on Primary()'s error, the configuration and the one-shot flags", "rediscovery is attempted only under "+strings.Join(why, " ∧ ")+": once every endpoint is marked dead nothing revives or rediscovers them, and the client never converges on the leader again")
	}
}

// ---- finite order model over branch outcomes ------------------------------------------------------------
//
// condsHold: the branch outcomes that are comparisons between the given symbols (and integer
// constants) all hold under env; outcomes about anything else are taken as satisfiable.
func condsHold(p *Program, cs []Cond, symOf func(*Term) (string, bool), env map[string]int) bool {
	val := func(t *Term) (int, bool) {
		t = t.Strip()
		if s, ok := symOf(t); ok {
			v, has := env[s]
			return v, has
		}
		if t.Op == "const" {
			var n int
			if _, err := fmt.Sscanf(t.Name, "%d", &n); err == nil {
				return n, true
			}
		}
		if t.Op == "binop" && len(t.Args) == 2 && (t.Name == "+" || t.Name == "-") {
			if a, ok := symOf(t.Args[0].Strip()); ok && t.Args[1].Op == "const" {
				var n int
				if _, err := fmt.Sscanf(t.Args[1].Name, "%d", &n); err == nil {
					if t.Name == "+" {
						return env[a] + n, true
					}
					return env[a] - n, true
				}
			}
		}
		return 0, false
	}
	for _, k := range p.withImplied(cs) {
		if k.Atom == nil || (k.Atom.Op != "LT" && k.Atom.Op != "EQ") || len(k.Atom.Args) != 2 {
			continue
		}
		x, okx := val(k.Atom.Args[0])
		y, oky := val(k.Atom.Args[1])
		if !okx || !oky {
			continue
		}
		got := x < y
		if k.Atom.Op == "EQ" {
			got = x == y
		}
		if got != k.Pol {
			return false
		}
	}
	return true
}

// pathsThrough: the entry→exit paths of loop-free fn that execute `at`.
func (p *Program) pathsThrough(fn *ssa.Function, at ssa.Instruction) ([]*Path, bool) {
	paths, ok := p.EnumPaths(fn, 4000)
	if !ok {
		return nil, false
	}
	var out []*Path
	for _, pa := range paths {
		for _, b := range pa.Blocks {
			if b == at.Block() {
				out = append(out, pa)
				break
			}
		}
	}
	return out, true
}

// factsBefore: the branch outcomes of the path taken before reaching `at` (outcomes of branches after it say
// nothing about whether it is reached).
func (pa *Path) factsBefore(at ssa.Instruction) []Cond {
	var out []Cond
	i := 0
	for _, b := range pa.Blocks {
		if b == at.Block() {
			break
		}
		if blockIf(b) != nil {
			if c, isC := pa.resolve(blockIf(b).Cond).(*ssa.Const); isC {
				_ = c
				continue // constant-folded branch: EnumPaths recorded no fact for it
			}
			if i < len(pa.Facts) {
				out = append(out, pa.Facts[i])
			}
			i++
		}
	}
	return out
}

// ---- every consistency request inside the log's range reaches the prover -----------------------------------
//
// The incremental handler hands (Start, End) of a decoded request to QueryConsistency, which owns
// the range check. Whatever the handler tests about the two versions before that call must be
// satisfiable for every pair Start <= End (decided on all orderings of small integers): a guard
// that turns away a legitimate pair — (0,0), a monitor's first batch of one snapshot — leaves
// that pair without a proof.
func consistencyRequestsAdmitted(c *Ctx, rule string) {
	p := c.P
	var h *ssa.Function
	for _, rh := range registeredHandlers(p) {
		if rh.path == "/proofs/incremental" {
			h = rh.fn
		}
	}
	if h == nil {
		c.Fail(rule, "incremental-handler:admits", 0, "the /proofs/incremental handler is not registered")
		return
	}
	name := funcName(h) + ":admits"
	var call ssa.Instruction
	for _, in := range callsIn(h, func(k *ssa.CallCommon) bool { return k.IsInvoke() && k.Method.Name() == "QueryConsistency" }) {
		call = in
	}
	if call == nil {
		c.Fail(rule, name, h.Pos(), "the handler does not call QueryConsistency itself")
		return
	}
	cc := callCommon(call)
	sT, eT := p.TermOf(cc.Args[0]).Strip().String(), p.TermOf(cc.Args[1]).Strip().String()
	symOf := func(t *Term) (string, bool) {
		switch t.String() {
		case sT:
			return "S", true
		case eT:
			return "E", true
		}
		return "", false
	}
	paths, ok := p.pathsThrough(h, call)
	if !ok || len(paths) == 0 {
		c.Fail(rule, name, h.Pos(), "the handler is not loop-free (or never reaches QueryConsistency): admission is not decided")
		return
	}
	var missing []string
	for s := 0; s <= 2; s++ {
		for e := s; e <= 2; e++ {
			env := map[string]int{"S": s, "E": e}
			admitted := false
			for _, pa := range paths {
				if condsHold(p, pa.factsBefore(call), symOf, env) {
					admitted = true
					break
				}
			}
			if !admitted {
				missing = append(missing, fmt.Sprintf("(Start=%d, End=%d)", s, e))
			}
		}
	}
	c.Check(len(missing) == 0, rule, name, call.Pos(), fmt.Sprintf("%d path(s) to QueryConsistency; every pair Start<=End of the order model reaches it", len(paths)), "the handler turns away "+strings.Join(missing, ", ")+" before QueryConsistency is asked: a legitimate pair inside the log's range gets no consistency proof over HTTP")
}

// ---- a restarted node accepts its own snapshot -----------------------------------------------------------------
//
// On start-up raft hands the node its own latest snapshot (Restore with raft == nil). The snapshot
// records Balloon.Version() (the next version); the FSM state records the last applied version,
// so right after a snapshot state = snap-1, and later state >= snap-1. A refusal built in Restore
// itself (an error constructed there, not the failure of a step) must be infeasible on every such
// ordering, or the node cannot be reopened on its own data.
func restoreAcceptsOwnSnapshot(c *Ctx, rule string) {
	p := c.P
	restore := p.MustMethod(pkgConsensus, "RaftNode", "Restore")
	name := funcName(restore) + ":own-snapshot"
	paths, ok := p.EnumPaths(restore, 4000)
	if !ok {
		c.Ok(rule, name, restore.Pos(), "Restore is not loop-free: refusals are not enumerated (no verdict)")
		return
	}
	symOf := func(t *Term) (string, bool) {
		if t.Op != "field" || t.Name != "BalloonVersion" || len(t.Args) == 0 {
			return "", false
		}
		base := t.Args[0].Strip()
		if base.IsField("state", isParam(restore, 0)) {
			return "state", true
		}
		if n, ok := namedOf(deref(typeOfTerm(base))); ok && n.Obj().Name() == "fsmSnapshot" {
			return "snap", true
		}
		return "", false
	}
	var why []string
	seen := map[string]bool{}
	nRef := 0
	for _, pa := range paths {
		if pa.Ret == nil || len(pa.Ret.Results) == 0 {
			continue
		}
		rv := pa.resolveDeep(RetVal(pa.Ret, len(pa.Ret.Results)-1))
		call, isCall := rv.(*ssa.Call)
		if !isCall || call.Call.StaticCallee() == nil || call.Call.StaticCallee().Pkg == nil {
			continue
		}
		if pk := call.Call.StaticCallee().Pkg.Pkg.Path(); pk != "fmt" && pk != "errors" {
			continue
		}
		nRef++
		for snap := 0; snap <= 3; snap++ {
			for st := 0; st <= 3; st++ {
				if st+1 < snap {
					continue
				}
				if condsHold(p, pa.Facts, symOf, map[string]int{"state": st, "snap": snap}) && mentionsBoth(p, pa.Facts, symOf) {
					d := fmt.Sprintf("with applied version %d and a snapshot recording next version %d Restore refuses (%s)", st, snap, p.pos(call.Pos()))
					if !seen[p.pos(call.Pos())] {
						seen[p.pos(call.Pos())] = true
						why = append(why, d)
					}
				}
			}
		}
	}
	c.Check(len(why) == 0, rule, name, restore.Pos(), fmt.Sprintf("%d refusal(s) constructed in Restore; none is feasible for a node reading its own snapshot (state >= snap-1)", nRef), strings.Join(why, "; ")+": the snapshot stores the next version, the FSM state the last applied one — a node stopped right after a snapshot cannot be reopened")
}

func mentionsBoth(p *Program, cs []Cond, symOf func(*Term) (string, bool)) bool {
	got := map[string]bool{}
	for _, k := range cs {
		if k.Atom == nil {
			continue
		}
		k.Atom.Has(func(x *Term) bool {
			if s, ok := symOf(x.Strip()); ok {
				got[s] = true
			}
			return false
		})
	}
	return got["state"] && got["snap"]
}
