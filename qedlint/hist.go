package main

import (
	"fmt"
	"go/types"
	"sort"
	"strings"

	"golang.org/x/tools/go/ssa"
)

// variadicElems recovers the elements of a variadic argument slice built at
// the call site (`new [n]T; t[i] = x_i; slice`). ok=false if not of that shape.
func variadicElems(v ssa.Value) ([]ssa.Value, bool) {
	if c, ok := v.(*ssa.Const); ok && c.Value == nil {
		return nil, true
	}
	sl, ok := v.(*ssa.Slice)
	if !ok || sl.Low != nil || sl.High != nil {
		return nil, false
	}
	al, ok := sl.X.(*ssa.Alloc)
	if !ok {
		return nil, false
	}
	arr, ok := deref(al.Type()).Underlying().(*types.Array)
	if !ok {
		return nil, false
	}
	elems := make([]ssa.Value, arr.Len())
	for _, r := range *al.Referrers() {
		ia, ok := r.(*ssa.IndexAddr)
		if !ok {
			continue
		}
		k, ok := ia.Index.(*ssa.Const)
		if !ok {
			return nil, false
		}
		i := int(k.Int64())
		for _, u := range *ia.Referrers() {
			if st, ok := u.(*ssa.Store); ok && st.Addr == ia {
				if i < 0 || i >= len(elems) || elems[i] != nil {
					return nil, false
				}
				elems[i] = st.Val
			}
		}
	}
	for _, e := range elems {
		if e == nil {
			return nil, false
		}
	}
	return elems, true
}

// ---- history tree model (roles resolved structurally) ----------------------

type histModel struct {
	p          *Program
	pkg        *ssa.Package
	opIface    types.Type              // the traversal node interface (`operation`)
	visitorIfc *types.Interface        // opVisitor
	kinds      map[*types.Named]string // LEAF INNER PARTIAL GET WRAP
	collect    *types.Named            // the wrapper whose visit records into the audit path
	visitors   []*types.Named          // production implementations of the visitor interface
}

func buildHistModel(c *Ctx) *histModel {
	p := c.P
	sp := p.SSAPkg[modPkg(pkgHistory)]
	if sp == nil {
		fatalf("package %s not loaded", pkgHistory)
	}
	m := &histModel{p: p, pkg: sp, kinds: map[*types.Named]string{}}
	hiV := p.MustMethod(pkgHistory, "MembershipProof", "Verify")
	// the node interface = result type of the traversal constructor used by Verify
	eachInstr(hiV, func(in ssa.Instruction) {
		cc := callCommon(in)
		if cc == nil || m.opIface != nil {
			return
		}
		f := cc.StaticCallee()
		if f == nil || f.Pkg != sp || f.Signature.Results().Len() != 1 {
			return
		}
		if _, ok := f.Signature.Results().At(0).Type().Underlying().(*types.Interface); ok {
			m.opIface = f.Signature.Results().At(0).Type()
		}
	})
	if m.opIface == nil {
		fatalf("history: traversal node interface not resolved from MembershipProof.Verify")
	}
	opI := m.opIface.Underlying().(*types.Interface)
	// classify implementations structurally
	scope := sp.Pkg.Scope()
	for _, name := range scope.Names() {
		tn, ok := scope.Lookup(name).(*types.TypeName)
		if !ok {
			continue
		}
		named, ok := tn.Type().(*types.Named)
		if !ok {
			continue
		}
		st, ok := named.Underlying().(*types.Struct)
		if !ok {
			continue
		}
		if !types.Implements(named, opI) && !types.Implements(types.NewPointer(named), opI) {
			continue
		}
		nOp, nBytes, nOther, embedded := 0, 0, 0, false
		for i := 0; i < st.NumFields(); i++ {
			f := st.Field(i)
			switch {
			case types.Identical(f.Type(), m.opIface):
				nOp++
				if f.Embedded() {
					embedded = true
				}
			case isByteSlice(f.Type()):
				nBytes++
			default:
				nOther++
			}
		}
		switch {
		case embedded && nOp == 1 && nOther == 0:
			m.kinds[named] = "WRAP"
		case nOp == 2:
			m.kinds[named] = "INNER"
		case nOp == 1:
			m.kinds[named] = "PARTIAL"
		case nOp == 0 && nBytes == 1:
			m.kinds[named] = "LEAF"
		case nOp == 0 && nBytes == 0:
			m.kinds[named] = "GET"
		}
	}
	count := map[string]int{}
	for _, k := range m.kinds {
		count[k]++
	}
	if count["LEAF"] != 1 || count["INNER"] != 1 || count["PARTIAL"] != 1 || count["GET"] != 1 || count["WRAP"] < 1 {
		fatalf("history: node kinds not resolved structurally: %v", count)
	}
	// visitor interface: parameter type of the node interface's single-parameter method returning a digest
	for i := 0; i < opI.NumMethods(); i++ {
		sig := opI.Method(i).Type().(*types.Signature)
		if sig.Params().Len() == 1 {
			if vi, ok := sig.Params().At(0).Type().Underlying().(*types.Interface); ok {
				m.visitorIfc = vi
			}
		}
	}
	if m.visitorIfc == nil {
		fatalf("history: visitor interface not resolved")
	}
	// production visitors: the concrete types handed to Accept by the tree's
	// entry points and by the proof verifiers (debug printers are not among them)
	vseen := map[*types.Named]bool{}
	var entries []*ssa.Function
	for _, mn := range []string{"Add", "AddBulk", "ProveMembership", "ProveConsistency"} {
		entries = append(entries, p.MustMethod(pkgHistory, "HistoryTree", mn))
	}
	entries = append(entries, hiV, p.MustMethod(pkgHistory, "IncrementalProof", "Verify"))
	for _, e := range entries {
		eachInstr(e, func(in ssa.Instruction) {
			cc := callCommon(in)
			if cc == nil || !cc.IsInvoke() || len(cc.Args) != 1 || !types.Identical(cc.Value.Type(), m.opIface) {
				return
			}
			if mi, ok := cc.Args[0].(*ssa.MakeInterface); ok {
				if n, ok := deref(mi.X.Type()).(*types.Named); ok && !vseen[n] && types.Implements(types.NewPointer(n), m.visitorIfc) {
					vseen[n] = true
					m.visitors = append(m.visitors, n)
				}
			}
		})
	}
	if len(m.visitors) == 0 {
		fatalf("history: no visitor type flows into Accept from the tree entry points")
	}
	sort.Slice(m.visitors, func(i, j int) bool { return m.visitors[i].Obj().Name() < m.visitors[j].Obj().Name() })
	// the collecting wrapper: visited by a method that updates a map (the audit path)
	for _, vt := range m.visitors {
		ms := p.SSA.MethodSets.MethodSet(types.NewPointer(vt))
		for i := 0; i < ms.Len(); i++ {
			fn := p.SSA.MethodValue(ms.At(i))
			if fn == nil || fn.Synthetic != "" || fn.Signature.Params().Len() != 1 {
				continue
			}
			pt, ok := fn.Signature.Params().At(0).Type().(*types.Named)
			if !ok || m.kinds[pt] != "WRAP" {
				continue
			}
			hasUpdate := false
			eachInstr(fn, func(in ssa.Instruction) {
				if _, ok := in.(*ssa.MapUpdate); ok {
					hasUpdate = true
				}
			})
			if hasUpdate {
				if m.collect != nil && m.collect != pt {
					fatalf("history: more than one collecting wrapper (%s, %s)", m.collect, pt)
				}
				m.collect = pt
			}
		}
	}
	if m.collect == nil {
		fatalf("history: no wrapper node is recorded into an audit path by any visitor")
	}
	return m
}

func isByteSlice(t types.Type) bool {
	s, ok := t.Underlying().(*types.Slice)
	if !ok {
		return false
	}
	b, ok := s.Elem().Underlying().(*types.Basic)
	return ok && b.Kind() == types.Uint8
}

// kindOfCtor: the node kind a constructor function builds (by result type).
func (m *histModel) kindOfCtor(fn *ssa.Function) (string, *types.Named) {
	if fn == nil || fn.Pkg != m.pkg || fn.Signature.Results().Len() != 1 {
		return "", nil
	}
	n, ok := deref(fn.Signature.Results().At(0).Type()).(*types.Named)
	if !ok {
		return "", nil
	}
	return m.kinds[n], n
}

// travInfo: the recursive traversal a pruneTo* function starts. It is either a closure of the
// constructor (position is its only parameter) or a package-level recursive function that the
// constructor calls once (position is the one parameter that changes in the recursion; the
// others are passed through unchanged and stand for the constructor's own values).
type travInfo struct {
	fn     *ssa.Function
	posIdx int
	pass   map[int]*Term // traversal parameter -> its value in the constructor's vocabulary
}

func (m *histModel) traversal(fn *ssa.Function) *ssa.Function {
	if ti := m.traversalInfo(fn); ti != nil {
		return ti.fn
	}
	return nil
}

func (m *histModel) traversalInfo(fn *ssa.Function) *travInfo {
	if fn == nil {
		return nil
	}
	var found *ssa.Function
	for _, a := range Anons(fn) {
		if a.Parent() == nil {
			continue // a named recursive function adopted by Anons: the package-level form below describes it (pass-through parameters)
		}
		if a.Signature.Results().Len() == 1 && types.Identical(a.Signature.Results().At(0).Type(), m.opIface) {
			if found != nil {
				return nil
			}
			found = a
		}
	}
	if found != nil {
		return &travInfo{fn: found, posIdx: 0}
	}
	// package-level form
	var site *ssa.CallCommon
	n := 0
	eachInstr(fn, func(in ssa.Instruction) {
		cc := callCommon(in)
		if cc == nil {
			return
		}
		f := cc.StaticCallee()
		if f == nil || f == fn || f.Pkg != m.pkg || f.Signature.Recv() != nil || f.Signature.Results().Len() != 1 || len(f.Blocks) == 0 {
			return
		}
		if !types.Identical(f.Signature.Results().At(0).Type(), m.opIface) || len(selfCalls(f)) == 0 {
			return
		}
		n++
		site = cc
	})
	if n != 1 {
		return nil
	}
	f := site.StaticCallee()
	ti := &travInfo{fn: f, posIdx: -1, pass: map[int]*Term{}}
	for i := range f.Params {
		same := true
		for _, rc := range selfCalls(f) {
			if i >= len(rc.Args) || rc.Args[i] != ssa.Value(f.Params[i]) {
				same = false
			}
		}
		if same {
			ti.pass[i] = m.p.TermOf(site.Args[i])
		} else if ti.posIdx < 0 && (namedIs(f.Params[i].Type(), pkgHistory, "position") || namedIs(f.Params[i].Type(), pkgHyper, "position")) {
			ti.posIdx = i
		}
		// other parameters that change in the recursion (a target list, a flag) stay symbolic, as
		// the extra parameters of the closure form do
	}
	if ti.posIdx < 0 {
		return nil
	}
	return ti
}

func selfCalls(f *ssa.Function) []*ssa.CallCommon {
	var out []*ssa.CallCommon
	eachInstr(f, func(in ssa.Instruction) {
		if cc := callCommon(in); cc != nil && cc.StaticCallee() == f {
			out = append(out, cc)
		}
	})
	return out
}

type sibSide struct {
	parent    *ssa.Function
	closure   *ssa.Function
	posIdx    int
	pass      map[int]*Term  // closure parameter passed through the recursion -> term over the parent
	sym       map[int]string // parent parameter index -> symbol
	getIsRead bool           // verifier side: a cache read is an audit-path read = COLLECT(GET(x)) of the prover
	eraseAll  bool           // erase every wrapper incl. collect (hash-shape comparison)
	keepWraps bool           // keep non-collect wrappers as FROZEN(...)
	nodeMerge bool           // LEAF and GET both render as NODE (declared erasure)
}

func (m *histModel) hook(s sibSide) normHook {
	return func(t *Term, rec func(*Term) string) (string, bool) {
		switch t.Op {
		case "param":
			if t.Fn == s.closure {
				if t.Idx == s.posIdx {
					return "pos", true
				}
				if pt, ok := s.pass[t.Idx]; ok {
					return rec(pt), true
				}
				return fmt.Sprintf("arg%d", t.Idx), true
			}
			if t.Fn == s.parent {
				if sy, ok := s.sym[t.Idx]; ok {
					return sy, true
				}
				return fmt.Sprintf("outer%d", t.Idx), true
			}
		case "call", "dyncall":
			args := t.Args
			if t.Op == "dyncall" {
				args = args[1:]
			}
			if t.Fn == s.closure && t.Fn != nil {
				var xs []string
				for i, a := range args {
					if _, passed := s.pass[i]; passed {
						continue
					}
					xs = append(xs, rec(a))
				}
				return "REC(" + strings.Join(xs, ",") + ")", true
			}
			kind, named := m.kindOfCtor(t.Fn)
			if kind == "" || len(args) == 0 {
				// a same-package helper that only composes node constructors (e.g. a `frozen(x)` wrapper)
				if t.Fn != nil && t.Fn.Pkg == m.pkg && t.Op == "call" && len(t.Fn.Blocks) > 0 && t.Fn.Signature.Results().Len() == 1 &&
					types.Identical(t.Fn.Signature.Results().At(0).Type(), m.opIface) {
					if ex := m.p.X1(t); ex != t && ex.Op != "phi" {
						return rec(ex), true
					}
				}
				return "", false
			}
			switch kind {
			case "WRAP":
				if named == m.collect {
					if s.eraseAll || s.nodeMerge {
						return rec(args[0]), true
					}
					return "COLLECT(" + rec(args[0]) + ")", true
				}
				if s.keepWraps {
					return "FROZEN(" + rec(args[0]) + ")", true
				}
				return rec(args[0]), true
			case "LEAF":
				if s.nodeMerge {
					return "NODE(" + rec(args[0]) + ")", true
				}
				return "LEAF(" + rec(args[0]) + ")", true
			case "GET":
				if s.nodeMerge {
					return "NODE(" + rec(args[0]) + ")", true
				}
				if s.getIsRead && !s.eraseAll {
					return "COLLECT(GET(" + rec(args[0]) + "))", true
				}
				return "GET(" + rec(args[0]) + ")", true
			case "INNER", "PARTIAL":
				var xs []string
				for _, a := range args {
					xs = append(xs, rec(a))
				}
				return kind + "(" + strings.Join(xs, ",") + ")", true
			}
		}
		return "", false
	}
}

// compareTraversals: decision-table equivalence of two traversal
// constructors (their recursive closures and their top-level set-up).
func (m *histModel) compareTraversals(c *Ctx, rule, label string, a, b sibSide) {
	p := c.P
	if a.closure == nil || b.closure == nil {
		c.Fail(rule, label, a.parent.Pos(), "traversal closure not found in one of the siblings")
		return
	}
	ta, ok1 := p.DecisionTable(a.closure, m.hook(a), nil)
	tb, ok2 := p.DecisionTable(b.closure, m.hook(b), nil)
	if !ok1 || !ok2 {
		c.Fail(rule, label, a.parent.Pos(), "a traversal closure is not loop-free; decision table cannot be built")
		return
	}
	diffs := compareTables(ta, tb)
	// top-level: both must start the recursion equivalently
	pa, ok3 := p.DecisionTable(a.parent, m.hook(a), nil)
	pb, ok4 := p.DecisionTable(b.parent, m.hook(b), nil)
	if ok3 && ok4 {
		diffs = append(diffs, compareTables(pa, pb)...)
	} else {
		diffs = append(diffs, "top-level set-up of a traversal is not loop-free")
	}
	if len(diffs) > 0 {
		for _, d := range diffs {
			c.Fail(rule, label, a.closure.Pos(), d)
		}
		return
	}
	c.Ok(rule, label, a.closure.Pos(), fmt.Sprintf("%d×%d rows agree", len(ta.Rows), len(tb.Rows)))
}
