package main

import (
	"fmt"
	"go/types"
	"strings"

	"golang.org/x/tools/go/ssa"
)

func init() {
	register("C18", propMeta{
		Explanation: "Decides the structural conditions of bounded, once-only, never-self-addressed gossip: (R1) in Agent.Send the message is encoded and sent only under TTL > 0 (strictly: a negative TTL must not travel), the TTL is decremented exactly once, unconditionally, before the message is encoded; " +
			"(R2) tasks are created and the batch republished only on the not-yet-processed edge of wasProcessed, and wasProcessed records the digest it looked up on every path on which it answers 'not processed' with a cache present; (R3) the exclusion list handed to the topology contains the agent itself and the source, exclusion is applied before selection and compares peers by name (the agent's own entry in the topology is a different object than Agent.Self); " +
			"(R4) the topology map and its peer lists are accessed only under the topology mutex; (R5) a peer list obtained by map lookup is nil-tested before use.",
		Added:       "Also (R2) the cache option installs a cache on every path and each message is decoded into its own batch; (R6) every gossip lock is released on every exit. Third round: (R4) peer lists are read under the topology lock and changed by membership notifications only; (R2) goroutines started in a loop own their loop variables.",
		Assumptions: []string{"memberlist delivers join/leave events from its own goroutines"},
		Declined:    "termination of dissemination as a network-level statement; consistency under all interleavings.",
	}, runC18)
}

func runC18(c *Ctx) {
	p := c.P
	c.Rule("R1", "TTL: send only when TTL>0, one unconditional decrement before encoding", 1)
	c.Rule("R2", "at-most-once: tasks/republication only when not processed; digest recorded", 3)
	c.Rule("R3", "no self-routing: self and source excluded, by name, before selection", 3)
	c.Rule("R4", "topology map accessed under the topology mutex", 1)
	c.Rule("R5", "peer lists from map lookups are nil-tested", 1)
	// ---- R1
	send := p.MustMethod("gossip", "Agent", "Send")
	{
		var why []string
		isTTL := func(t *Term) bool { return t.IsField("TTL", isParam(send, 1)) }
		isZero := func(t *Term) bool { return t.Op == "const" && t.Name == "0" }
		encs := callsIn(send, func(k *ssa.CallCommon) bool { return k.StaticCallee() != nil && k.StaticCallee().Name() == "Encode" })
		sends := callsIn(send, func(k *ssa.CallCommon) bool {
			return k.StaticCallee() != nil && strings.HasPrefix(k.StaticCallee().Name(), "Send") && k.StaticCallee().Pkg != nil && strings.Contains(k.StaticCallee().Pkg.Pkg.Path(), "memberlist")
		})
		if len(encs) != 1 || len(sends) == 0 {
			why = append(why, fmt.Sprintf("%d Encode calls, %d transport sends", len(encs), len(sends)))
		} else {
			cs := p.CondsAt(encs[0].Block())
			pos := impliesLT(cs, isZero, isTTL) || hasCond(cs, func(k Cond) bool {
				// !(TTL < 1)
				return !k.Pol && k.Atom.Op == "LT" && isTTL(k.Atom.Args[0]) && k.Atom.Args[1].Name == "1"
			})
			if !pos {
				why = append(why, "the message is encoded and sent without a dominating test TTL > 0 (conditions: "+strings.Join(condStrings(cs), " ∧ ")+"): a message whose TTL is exhausted (or negative) travels on and is decremented forever")
			}
			var decs []*ssa.Store
			eachInstr(send, func(in ssa.Instruction) {
				if st, ok := in.(*ssa.Store); ok {
					if fa, ok := st.Addr.(*ssa.FieldAddr); ok && structFieldName(deref(fa.X.Type()), fa.Field) == "TTL" && p.TermOf(fa.X).IsParam(send, 1) {
						decs = append(decs, st)
					}
				}
			})
			if len(decs) != 1 {
				why = append(why, fmt.Sprintf("%d assignments to msg.TTL", len(decs)))
			} else {
				v := p.TermOf(decs[0].Val)
				if !(v.Op == "binop" && v.Name == "-" && isTTL(v.Args[0]) && v.Args[1].Name == "1") {
					why = append(why, "TTL is set to "+v.String()+", expected TTL-1")
				}
				if !instrBefore(decs[0], encs[0]) {
					why = append(why, "the decrement does not precede the encoding on every path (the old TTL travels)")
				}
				for _, s := range sends {
					if !instrBefore(encs[0], s) {
						why = append(why, "a transport send is not preceded by the encoding of the decremented message")
					}
					wire := p.TermOf(callCommon(s).Args[len(callCommon(s).Args)-1])
					if !wire.Has(func(x *Term) bool { return x.V == encs[0].(ssa.Value) }) {
						why = append(why, "the bytes sent are not the encoding made after the decrement")
					}
				}
			}
		}
		c.Check(len(why) == 0, "R1", funcName(send), send.Pos(), "TTL>0 ⇒ TTL--, encode, send", strings.Join(why, "; "))
	}
	// ---- R2
	wp := p.MustMethod("gossip", "BatchProcessor", "wasProcessed")
	sub := p.MustMethod("gossip", "BatchProcessor", "Subscribe")
	{
		// the function that consults wasProcessed: the goroutine's closure, or a named method the goroutine
		// (or its per-message helper) runs
		var loop *ssa.Function
		for _, a := range append(Anons(sub), p.FuncsWithGo(sub, 3)...) {
			if a != sub && len(callsIn(a, func(k *ssa.CallCommon) bool { return k.StaticCallee() == wp })) > 0 {
				loop = a
			}
		}
		if loop == nil {
			c.Fail("R2", funcName(sub), sub.Pos(), "the processing loop does not consult wasProcessed")
		} else {
			rgL := p.RegionOf(loop, 2) // the task loop / the republication may sit in helpers of the processor
			notProcessed := func(ri regionInstr) bool {
				return hasCond(rgL.Conds(ri), func(k Cond) bool { return !k.Pol && k.Atom.IsCallTo(wp) })
			}
			n := 0
			bad := 0
			rgL.Instrs(func(site regionSite, in ssa.Instruction) {
				cc := callCommon(in)
				if cc == nil {
					return
				}
				isAdd := cc.IsInvoke() && cc.Method.Name() == "Add" && namedIs(cc.Value.Type(), "gossip", "TasksManager")
				isPub := cc.StaticCallee() != nil && cc.StaticCallee().Name() == "Publish"
				if !isAdd && !isPub {
					return
				}
				n++
				if !notProcessed(regionInstr{site, in}) {
					bad++
					what := "a task is created"
					if isPub {
						what = "the batch is republished"
					}
					c.Fail("R2", funcName(loop)+":effects", in.Pos(), what+" without the dominating test !wasProcessed(batch): a batch arriving again (from another peer) is processed again")
				}
			})
			if n < 2 {
				c.Fail("R2", funcName(loop)+":effects", loop.Pos(), "task creation and republication not found in the processing loop")
			} else if bad == 0 {
				c.Ok("R2", funcName(loop)+":effects", loop.Pos(), fmt.Sprintf("%d effect site(s), all on the not-processed edge", n))
			}
			// wasProcessed is asked about the decoded batch
			for _, call := range callsIn(loop, func(k *ssa.CallCommon) bool { return k.StaticCallee() == wp }) {
				var a *Term
				for _, av := range callCommon(call).Args {
					if namedIs(av.Type(), "protocol", "BatchSnapshots") {
						a = p.TermOf(av)
					}
				}
				if a == nil {
					a = p.TermOf(callCommon(call).Args[len(callCommon(call).Args)-1])
				}
				okA := a.Op == "alloc" || a.Op == "struct"
				c.Check(okA, "R2", funcName(loop)+":asked-about", call.Pos(), "wasProcessed(the decoded batch)", "wasProcessed is asked about "+a.String())
			}
		}
		// recording: every `return false` reached with a cache present and no encode error has stored the digest it looked up
		var get, set ssa.Instruction
		eachInstr(wp, func(in ssa.Instruction) {
			cc := callCommon(in)
			if cc == nil || !cc.IsInvoke() {
				return
			}
			switch cc.Method.Name() {
			case "Get":
				get = in
			case "Set":
				set = in
			}
		})
		var why []string
		if get == nil || set == nil {
			why = append(why, "wasProcessed does not both look the digest up and record it: the batch is not remembered at the moment it is first seen, so a redelivery (or a failure later in the loop) processes it again")
		} else {
			kg, ks := p.TermOf(callCommon(get).Args[0]), p.TermOf(callCommon(set).Args[0])
			if kg.String() != ks.String() {
				why = append(why, "looked up "+kg.String()+" but recorded "+ks.String())
			}
			isSet := func(in ssa.Instruction) bool { return in == set }
			// from the lookup, any `return false` must pass the Set
			leaks := false
			for _, b := range wp.Blocks {
				ret, ok := b.Instrs[len(b.Instrs)-1].(*ssa.Return)
				if !ok || b == wp.Recover {
					continue
				}
				if k, isC := RetVal(ret, 0).(*ssa.Const); isC && k.Value.String() == "false" {
					if reachesWithout(get, func(in ssa.Instruction) bool { return in == ssa.Instruction(ret) }, isSet, nil) {
						leaks = true
					}
				}
			}
			if leaks {
				why = append(why, "a 'not processed' answer can be given after the lookup without recording the digest")
			}
		}
		c.Check(len(why) == 0, "R2", funcName(wp), wp.Pos(), "lookup and recording of the same digest before answering 'not processed'", strings.Join(why, "; "))
	}
	cacheOptionAlwaysSets(c, "R2")
	batchPerMessage(c, "R2")
	// ---- R3
	// the routing decision is part of Send, whether it lives in a helper (route) or inline: described
	// in Send's own vocabulary (source of the message = msg.From, the agent = a.Self)
	route := p.MustMethod("gossip", "Agent", "Send")
	sendRg := p.RegionOf(route, 2)
	each := p.MustMethod("gossip", "Topology", "Each")
	{
		var why []string
		calls := sendRg.Calls(func(k *ssa.CallCommon) bool { return k.StaticCallee() == each })
		if len(calls) != 1 {
			why = append(why, "Send does not select its destinations with Topology.Each")
		} else {
			ex, ok := callCommon(calls[0].in).Args[2].(*ssa.Alloc)
			hasSelf, hasSrc := false, false
			if ok {
				_, bf := p.storesTo(ex)
				for _, v := range bf["L"] {
					t := sendRg.Term(calls[0].site, v)
					anyElem := func(x *Term, pred func(*Term) bool) bool {
						if x.Op != "list" {
							return false
						}
						for _, e := range x.Args {
							if pred(e) {
								return true
							}
						}
						return false
					}
					if t.Has(func(x *Term) bool {
						return anyElem(x, func(e *Term) bool { return e.IsField("Self", isParam(route, 0)) })
					}) {
						hasSelf = true
					}
					if t.Has(func(x *Term) bool {
						return anyElem(x, func(e *Term) bool { return e.IsField("From", isParam(route, 1)) })
					}) {
						hasSrc = true
					}
				}
			}
			if !hasSelf {
				why = append(why, "the exclusion list does not contain the agent itself")
			}
			if !hasSrc {
				why = append(why, "the exclusion list does not contain the source of the message")
			}
		}
		c.Check(len(why) == 0, "R3", funcName(route), route.Pos(), "Each(n, {source, self})", strings.Join(why, "; "))
		// Each: Take(Shuffle(Exclude(list, l)), n)
		okE := false
		var got string
		er := p.RegionOf(each, 3)
		for _, ri := range er.Calls(func(cc *ssa.CallCommon) bool { return cc.StaticCallee() != nil && cc.StaticCallee().Name() == "Append" }) {
			t := er.Term(ri.site, callCommon(ri.in).Args[1])
			got = t.String()
			okE = t.Op == "call" && t.Fn != nil && t.Fn.Name() == "Take" && t.Args[1].IsParam(each, 1) && t.Args[0].Has(func(x *Term) bool {
				return x.Op == "call" && x.Fn != nil && x.Fn.Name() == "Exclude" && x.Args[1].IsParam(each, 2)
			})
		}
		c.Check(okE, "R3", funcName(each), each.Pos(), "per role: Take(n) of the list after Exclude(l)", "Topology.Each appends "+got+", expected Exclude(l) applied before Take(n)")
		// Exclude compares by name
		excl := p.MustMethod("gossip", "PeerList", "Exclude")
		byName := false
		for _, a := range Anons(excl) {
			eachInstr(a, func(in ssa.Instruction) {
				if bo, ok := in.(*ssa.BinOp); ok {
					x, y := p.TermOf(bo.X), p.TermOf(bo.Y)
					if x.IsField("Name", nil) && y.IsField("Name", nil) && x.String() != y.String() {
						byName = true
					}
				}
			})
		}
		c.Check(byName, "R3", funcName(excl), excl.Pos(), "peers excluded by name", "PeerList.Exclude no longer compares peers by name: the agent's own topology entry (created by the join notification) is a different object than Agent.Self and would not be excluded")
	}
	// ---- R4
	checkGuards(c, "R4", []guardSpec{{"gossip", "Topology", "m", "gossip.Topology.Mutex", false, "the agent's view of the network: written by join/leave notifications from memberlist's goroutines, read by every send"}})
	// every lock of the gossip layer is released on every exit (a leaked topology lock stalls join/leave
	// notifications and every send)
	c.Rule("R6", "gossip locks released on every exit", 5)
	checkUnlocks(c, "R6", []string{"gossip"})
	peerListsUnderTopologyLock(c, "R4")
	topologyChangedByNotificationsOnly(c, "R4")
	loopGoroutinesOwnTheirVariables(c, "R2", []string{"gossip"})
	// ---- R5
	{
		n, bad := 0, 0
		sp := p.SSAPkg[modPkg("gossip")]
		for _, fn := range p.ModFuncs {
			if fn.Pkg != sp || !p.Production(fn) || fn.Signature.Recv() == nil || !namedIs(fn.Signature.Recv().Type(), "gossip", "Topology") {
				continue
			}
			fn := fn
			eachInstr(fn, func(in ssa.Instruction) {
				lk, ok := in.(*ssa.Lookup)
				if !ok || lk.CommaOk {
					return
				}
				if _, isMap := lk.X.Type().Underlying().(*types.Map); !isMap {
					return
				}
				if !namedIs(lk.Type(), "gossip", "PeerList") {
					return
				}
				lt := p.TermOf(lk)
				for _, r := range *lk.Referrers() {
					cc := callCommon(r)
					if cc == nil || len(cc.Args) == 0 || cc.Args[0] != ssa.Value(lk) {
						continue
					}
					n++
					cs := p.CondsAt(r.Block())
					guarded := hasCond(cs, func(k Cond) bool {
						return !k.Pol && k.Atom.Op == "EQ" && (k.Atom.Args[0].Name == "nil" && k.Atom.Args[1].String() == lt.String() || k.Atom.Args[1].Name == "nil" && k.Atom.Args[0].String() == lt.String())
					})
					if !guarded {
						// or: on every path to this lookup the same entry was found present (`_, ok := m[k]`, ok
						// edge) or has just been set (`m[k] = NewPeerList()`)
						mt, kt := p.TermOf(lk.X).String(), p.TermOf(lk.Index).String()
						sameEntry := func(m, k ssa.Value) bool { return p.TermOf(m).String() == mt && p.TermOf(k).String() == kt }
						isSet := func(i2 ssa.Instruction) bool {
							mu, ok := i2.(*ssa.MapUpdate)
							return ok && sameEntry(mu.Map, mu.Key) && !isNilConst(mu.Value)
						}
						presentEdge := func(b *ssa.BasicBlock) int {
							ifi := blockIf(b)
							if ifi == nil {
								return -1
							}
							cd := p.condOf(ifi.Cond, true)
							ex, ok := cd.Atom.V.(*ssa.Extract)
							if !ok || ex.Index != 1 {
								return -1
							}
							l2, ok := ex.Tuple.(*ssa.Lookup)
							if !ok || !l2.CommaOk || !sameEntry(l2.X, l2.Index) {
								return -1
							}
							if cd.Pol {
								return 0
							}
							return 1
						}
						entry := fn.Blocks[0].Instrs[0]
						target := func(i2 ssa.Instruction) bool { return i2 == ssa.Instruction(lk) }
						if !target(entry) && !isSet(entry) && !reachesWithout(entry, target, isSet, presentEdge) {
							guarded = true
						}
					}
					if !guarded {
						bad++
						c.Fail("R5", funcName(fn)+":nil-list", r.Pos(), "the peer list looked up for a role is used without a nil test: a leave event for a role never seen panics the agent")
					}
				}
			})
		}
		if bad == 0 {
			c.Ok("R5", "Topology:lookups", 0, fmt.Sprintf("%d use(s) of looked-up peer lists, all nil-tested", n))
		}
	}
}

func isNilConst(v ssa.Value) bool {
	k, ok := v.(*ssa.Const)
	return ok && k.Value == nil
}
