package main

import (
	"fmt"
)

func init() {
	register("C09", propMeta{
		Explanation: "Decides the state-transfer plumbing: (R1) after a successful LoadSnapshot, Restore reloads the FSM state, refreshes the balloon version and rebuilds the hyper batch cache on every successful path (the set of in-memory structures initialised from the store by the constructors equals the set refreshed by Restore); " +
			"(R2) errors on the transfer path are neither discarded nor swallowed, and a failed stream is not reported as a clean end; (R3) the leader's batch validator refuses gaps, skips what the follower already has and accepts the rest — decided on every ordering of (previous, new, last applied) by a finite order model — and advances on acceptance; " +
			"(R4) the writer attaches {previous,new} version metadata to each batch where the validator reads it; (R5) the follower's request carries its own last applied version and sequence numbers.",
		Added:       "Also (R5) the transfer request is described in Restore's region and reports n.state.BalloonVersion; (R6) transferred batches go through the write-ahead log; the load succeeds only on io.EOF (R2). Third round: (R7) the transfer is always requested, always streamed from the store, and the per-batch callback's refusal ends it. Fifth round: every error edge of the store's transfer returns the error it tested.",
		Assumptions: []string{"RocksDB WAL iterator returns batches in sequence order"},
		Declined:    "convergence for all down/up/compaction schedules, WAL iterator semantics, new-node join as a whole.",
	}, runC09)
}

func runC09(c *Ctx) {
	c.Rule("R1", "Restore refreshes everything derived from the store after loading a transfer", 5)
	c.Rule("R2", "transfer-path error discipline", 6)
	c.Rule("R3", "gap refusal: validator decided by finite order model; wiring of the store transfer", 2)
	c.Rule("R4", "version metadata attached by the writer", 1)
	c.Rule("R5", "follower request parameters", 1)
	fsmRestore(c, "R1")
	recoveryErrors(c, "R2")
	c.Rule("R6", "transferred batches are written through the write-ahead log (durable, and transferable again)", 1)
	walNeverDisabled(c, "R6")
	c.Rule("R7", "the transfer is always requested, always streamed from the store, and the per-batch callback's refusal ends it", 3)
	restoreAlwaysTransfers(c, "R7")
	transferCallbackErrorPropagates(c, "R7")
	fsmValidate(c, "R3")
	p := c.P
	// the writer by role, exactly as the apply rules resolve it
	apply, applyAdd := fsmApplyGuard(newCtx(p, c.Prop, c.Tier), "R4")
	if applyAdd != nil {
		sub := newCtx(p, c.Prop, c.Tier)
		fsmApplyAdd(sub, "R4", applyAdd)
		for _, in := range sub.Instances {
			if in.Construct == funcName(applyAdd)+":metadata" {
				c.Instances = append(c.Instances, in)
			}
		}
	} else {
		c.Fail("R4", "applyAdd", apply.Pos(), "writer of the replicated batch not found")
	}
	transferRequest(c, "R5")
}

// transferRequest: what the follower tells the leader when it asks for a state transfer.
func transferRequest(c *Ctx, rule string) {
	p := c.P
	// R5: the request is built somewhere below Restore (in the fetching helper or inline); described in
	// Restore's own vocabulary: the follower reports the version of its persisted FSM state
	restore := p.MustMethod(pkgConsensus, "RaftNode", "Restore")
	rrg := p.RegionOf(restore, 3)
	reqs := rrg.Built(pkgConsensus, "FetchSnapshotRequest")
	ok := false
	why := "no FetchSnapshotRequest is built on the restore path"
	pos := restore.Pos()
	if len(reqs) == 1 {
		bf := reqs[0].Fields
		pos = reqs[0].Alloc.Pos()
		get := func(f string) *Term {
			if len(bf[f]) == 1 {
				return bf[f][0]
			}
			return mk("unknown", f, nil)
		}
		la, st, en := get("LastAppliedVersion"), get("StartSeqNum"), get("EndSeqNum")
		okLA := la.IsField("BalloonVersion", func(b *Term) bool { return b.IsField("state", isParam(restore, 0)) })
		okEn := en.IsField("LastSeqNum", nil)
		okSt := st.Op == "invoke" && st.Name == "LastWALSequenceNumber"
		ok = okLA && okEn && okSt
		why = fmt.Sprintf("LastAppliedVersion←%s StartSeqNum←%s EndSeqNum←%s", la, st, en)
	} else if len(reqs) > 1 {
		why = fmt.Sprintf("%d requests built on the restore path", len(reqs))
	}
	c.Check(ok, rule, funcName(restore)+":transfer-request", pos, "request = {n.state.BalloonVersion, local WAL sequence number, snapshot's last sequence number}", "state-transfer request built as "+why+"; the leader's filter interprets LastAppliedVersion as the last applied version (n.state.BalloonVersion), any other quantity (e.g. the number of events) makes it skip or resend a batch")
}
