package main

import (
	"fmt"
	"go/types"

	"golang.org/x/tools/go/ssa"
)

// hyperStepCtor: fn is a constructor of an interpreter step — a function of
// package hyper returning *operation whose composite stores a closure.
func hyperOperationType(p *Program) *types.Named {
	// by role: element type of the stack returned by the traversal used by QueryProof.Verify
	hyV := p.MustMethod(pkgHyper, "QueryProof", "Verify")
	var op *types.Named
	p.RegionOf(hyV, 2).Instrs(func(_ regionSite, in ssa.Instruction) {
		cc := callCommon(in)
		if cc == nil || op != nil {
			return
		}
		f := cc.StaticCallee()
		if f == nil || f.Pkg == nil || f.Pkg.Pkg.Path() != modPkg(pkgHyper) || f.Signature.Recv() != nil || f.Signature.Results().Len() != 1 {
			return
		}
		rt := deref(f.Signature.Results().At(0).Type())
		if sl, ok := rt.Underlying().(*types.Slice); ok {
			if n, ok := deref(sl.Elem()).(*types.Named); ok {
				op = n
			}
		}
	})
	if op == nil {
		fatalf("hyper: interpreter step type not resolved from QueryProof.Verify")
	}
	return op
}

func isHasherInvoke(cc *ssa.CallCommon, names ...string) bool {
	if cc == nil || !cc.IsInvoke() || !namedIs(cc.Value.Type(), "crypto/hashing", "Hasher") {
		return false
	}
	for _, n := range names {
		if cc.Method.Name() == n {
			return true
		}
	}
	return false
}

// hyperSteps: every hash computed in package hyper is computed by a step
// closure created by a step constructor, salted with that step's position.
func hyperSteps(c *Ctx, rule string) {
	p := c.P
	sp := p.SSAPkg[modPkg(pkgHyper)]
	opT := hyperOperationType(p)
	ctor := p.MustFunc(pkgHyper, "NewHyperTreeWithLogger")
	nLeaf, nInner := 0, 0
	for _, fn := range p.ModFuncs {
		if fn.Pkg != sp || p.isTestScaffold(fn) {
			continue
		}
		fn := fn
		eachInstr(fn, func(in ssa.Instruction) {
			cc := callCommon(in)
			if !isHasherInvoke(cc, "Salted", "Do") {
				return
			}
			par := fn.Parent()
			inStep := par != nil && par.Signature.Results().Len() == 1 && deref(par.Signature.Results().At(0).Type()) == types.Type(opT)
			label := funcName(fn)
			if !inStep {
				root := fn
				for root.Parent() != nil {
					root = root.Parent()
				}
				if root == ctor && cc.Method.Name() == "Do" {
					return // default-hash table (C04.R4)
				}
				c.Fail(rule, label+":hash-outside-step", in.Pos(), "a digest is computed outside the interpreter step constructors (and outside the default-hash table)")
				return
			}
			if cc.Method.Name() != "Salted" {
				c.Fail(rule, label+":unsalted", in.Pos(), "an interpreter step hashes without the position salt (Hasher.Do)")
				return
			}
			salt := p.Inline(p.TermOf(cc.Args[0]), 3)
			okSalt := salt.Has(func(t *Term) bool { return t.IsField("serialized", func(b *Term) bool { return b.IsParam(par, 0) }) }) ||
				salt.Has(func(t *Term) bool {
					return t.Op == "call" && t.Fn != nil && t.Fn.Name() == "Bytes" && len(t.Args) == 1 && t.Args[0].IsParam(par, 0)
				})
			elems, ok := variadicElems(cc.Args[1])
			if !ok {
				c.Fail(rule, label, in.Pos(), "data operands of Salted are not an explicit argument list")
				return
			}
			switch len(elems) {
			case 1:
				nLeaf++
				v := p.TermOf(elems[0])
				c.Check(okSalt && v.IsParam(par, 1), rule, label+":leaf-step", in.Pos(), "H(value ‖ pos)", "leaf step hashes "+v.String()+" salted with "+salt.String()+"; expected the step's value parameter salted with the step's position")
			case 2:
				nInner++
				a, b := p.TermOf(elems[0]), p.TermOf(elems[1])
				// both are results of interpreting a popped step, left popped first
				ia, ib := interpCall(elems[0]), interpCall(elems[1])
				order := ia != nil && ib != nil && ia != ib && instrBefore(ia, ib)
				c.Check(okSalt && order, rule, label+":inner-step", in.Pos(), "H(left ‖ right ‖ pos), left interpreted first", fmt.Sprintf("inner step hashes (%s, %s) salted with %s; expected (first popped, second popped) salted with the step's position", a, b, salt))
			default:
				c.Fail(rule, label, in.Pos(), fmt.Sprintf("a step hashes %d operands; the construction has 1 (leaf) or 2 (inner)", len(elems)))
			}
		})
	}
	if nLeaf == 0 || nInner == 0 {
		c.Fail(rule, "hyper:step-constructors", 0, fmt.Sprintf("leaf-hash steps: %d, inner-hash steps: %d — a step kind is gone", nLeaf, nInner))
	}
	// default table counted as an instance
	nDo := 0
	eachInstrDeep(ctor, func(_ *ssa.Function, in ssa.Instruction) {
		if isHasherInvoke(callCommon(in), "Do") {
			nDo++
		}
	})
	c.Check(nDo >= 2, rule, funcName(ctor)+":default-hashes", ctor.Pos(), "default-hash table built in the tree constructor", "the tree constructor no longer builds the default-hash table with Hasher.Do")
}

// interpCall: v is result #0 of a dynamic call (the popped step's interpreter).
func interpCall(v ssa.Value) *ssa.Call {
	for {
		if ct, ok := v.(*ssa.ChangeType); ok {
			v = ct.X
			continue
		}
		break
	}
	if ex, ok := v.(*ssa.Extract); ok && ex.Index == 0 {
		if call, ok := ex.Tuple.(*ssa.Call); ok && call.Call.StaticCallee() == nil && !call.Call.IsInvoke() {
			return call
		}
	}
	return nil
}

// instrBefore: a is executed before b on every path reaching b.
func instrBefore(a, b ssa.Instruction) bool {
	if a.Block() == b.Block() {
		for _, in := range a.Block().Instrs {
			if in == a {
				return true
			}
			if in == b {
				return false
			}
		}
	}
	return a.Block().Dominates(b.Block())
}

// hyperAuditKeys: collectHash writes AuditPath[pos.StringId()], getFromPath
// reads AuditPath.Get(pos) which looks pos.StringId() up.
func hyperAuditKeys(c *Ctx, rule string) {
	p := c.P
	sp := p.SSAPkg[modPkg(pkgHyper)]
	isAP := func(t types.Type) bool { return namedIs(t, pkgHyper, "AuditPath") }
	isStringIdOf := func(t *Term, isPos func(*Term) bool) bool {
		t = p.Inline(t, 0)
		return t.Op == "call" && t.Fn != nil && t.Fn.Signature.Recv() != nil && t.Fn.Signature.Results().Len() == 1 &&
			types.Identical(t.Fn.Signature.Results().At(0).Type(), types.Typ[types.String]) && len(t.Args) == 1 && isPos(t.Args[0])
	}
	var writeFn, readFn *ssa.Function
	nW, nR := 0, 0
	for _, fn := range p.ModFuncs {
		if fn.Pkg != sp || p.isTestScaffold(fn) {
			continue
		}
		fn := fn
		eachInstr(fn, func(in ssa.Instruction) {
			switch x := in.(type) {
			case *ssa.MapUpdate:
				if !isAP(x.Map.Type()) {
					return
				}
				nW++
				par := fn.Parent()
				key := p.TermOf(x.Key)
				ok := par != nil && isStringIdOf(key, func(t *Term) bool { return t.IsParam(par, 0) })
				if ok {
					writeFn = key.Fn
				}
				val := p.TermOf(x.Value)
				okVal := interpCall(x.Value) != nil
				c.Check(ok && okVal, rule, funcName(fn)+":collect-key", in.Pos(), "AuditPath[id of the step's position] = digest just interpreted", "audit path entry keyed by "+key.String()+" with value "+val.String()+"; expected the step's own position id ↦ the digest of the popped step")
			case *ssa.Lookup:
				if !isAP(x.X.Type()) {
					return
				}
				nR++
				key := p.TermOf(x.Index)
				ok := isStringIdOf(key, func(t *Term) bool { return t.IsParam(fn, 1) })
				if ok {
					readFn = key.Fn
				}
				c.Check(ok, rule, funcName(fn)+":read-key", in.Pos(), "lookup by the id of the requested position", "audit path looked up by "+key.String()+"; expected the id of the position parameter")
			}
		})
	}
	if nW == 0 || nR == 0 {
		c.Fail(rule, "hyper:audit-path-access", 0, fmt.Sprintf("audit path writes: %d, reads: %d", nW, nR))
		return
	}
	c.Check(writeFn != nil && writeFn == readFn, rule, "hyper:same-key-function", 0, "writer and reader derive the key with the same function", "the collecting step and AuditPath.Get derive their keys with different functions")
	// the verifier's path-read step passes its own position
	get := p.Method(pkgHyper, "AuditPath", "Get")
	n := 0
	for _, fn := range p.ModFuncs {
		if fn.Pkg != sp || p.isTestScaffold(fn) || fn.Parent() == nil {
			continue
		}
		fn := fn
		eachInstr(fn, func(in ssa.Instruction) {
			cc := callCommon(in)
			if cc == nil || get == nil || cc.StaticCallee() != get {
				return
			}
			n++
			arg := p.TermOf(cc.Args[1])
			c.Check(arg.IsParam(fn.Parent(), 0), rule, funcName(fn)+":path-read", in.Pos(), "reads the audit path at the step's own position", "reads the audit path at "+arg.String()+", expected the step's own position")
		})
	}
	if n == 0 {
		c.Fail(rule, "hyper:path-read", 0, "no interpreter step reads the audit path")
	}
}
