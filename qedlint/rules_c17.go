package main

import (
	"fmt"
	"go/token"
	"go/types"
	"strings"

	"golang.org/x/tools/go/ssa"
)

func init() {
	register("C17", propMeta{
		Explanation: "Decides the hand-off and batching mechanics between the FSM proposer and the gossip sender: (R1) the only sender on the snapshots channel is the loop of RaftNode.AddBulk, which sends once per element of the FSM response, unconditionally, a pointer to a per-iteration copy (no aliasing between elements); " +
			"(R2) batcher conservation and bound: the flush-if-full test on len(batch) vs BatchSize precedes the append of the received snapshot and its full edge replaces the batch before the append; every publish carries the encoding of the current batch and is followed by a fresh batch before the next receive; the timer publishes only a non-empty batch; the received snapshot is appended on every path; " +
			"(R3) the signature is computed over the whole snapshot value and paired with that same snapshot, through no state shared between batchers; (R4) the batch is local to its goroutine; (R5) Sign uses the private key and the message, Verify the public key, message and signature in that order.",
		Added:       "Also (R2) the message bus hands every published message over with a blocking send; (R3) the snapshot type has no formatter method; (R5) the signer constructor succeeds only after its test verification. Third round: (R5) Verify's result depends on the message it was given. Fifth round: encoded batches never alias a recycled buffer; delivery goroutines get copies of lock-protected subscriber lists.",
		Assumptions: []string{"ed25519", "Go channels deliver each value once"},
		Declined:    "no loss/duplication for all arrival timings as a statement over schedules; that any modified field or signature byte stops verification (cryptography).",
	}, runC17)
}

// falseOnlyOnError: g returns one bool, and every `return false` of g lies on an error edge (err != nil).
func falseOnlyOnError(p *Program, g *ssa.Function) bool {
	if len(g.Blocks) == 0 || g.Signature.Results().Len() != 1 || !isBool(g.Signature.Results().At(0).Type()) {
		return false
	}
	sawFalse := false
	for _, b := range g.Blocks {
		ret, ok := b.Instrs[len(b.Instrs)-1].(*ssa.Return)
		if !ok || b == g.Recover {
			continue
		}
		k, isC := RetVal(ret, 0).(*ssa.Const)
		if !isC || k.Value == nil {
			return false
		}
		if k.Value.String() == "true" {
			continue
		}
		sawFalse = true
		if !hasCond(p.CondsAt(b), func(c Cond) bool {
			return !c.Pol && c.Atom.Op == "EQ" && len(c.Atom.Args) == 2 && (isErrorTerm(c.Atom.Args[0]) || isErrorTerm(c.Atom.Args[1]))
		}) {
			return false
		}
	}
	return sawFalse
}

// reachesWithout: starting after `from`, can `target` be reached without executing `blocker`?
func reachesWithout(from ssa.Instruction, target, blocker func(ssa.Instruction) bool, skipErr func(b *ssa.BasicBlock) int) bool {
	type item struct {
		b *ssa.BasicBlock
		i int
	}
	b0 := from.Block()
	start := 0
	for i, in := range b0.Instrs {
		if in == from {
			start = i + 1
		}
	}
	seen := map[*ssa.BasicBlock]bool{}
	work := []item{{b0, start}}
	for len(work) > 0 {
		it := work[len(work)-1]
		work = work[:len(work)-1]
		blocked := false
		for _, in := range it.b.Instrs[it.i:] {
			if blocker(in) {
				blocked = true
				break
			}
			if target(in) {
				return true
			}
		}
		if blocked {
			continue
		}
		skip := -1
		if skipErr != nil {
			skip = skipErr(it.b)
		}
		for k, s := range it.b.Succs {
			if k == skip || seen[s] {
				continue
			}
			seen[s] = true
			work = append(work, item{s, 0})
		}
	}
	return false
}

func runC17(c *Ctx) {
	c.Rule("R7", "deliveries that outlive the lock work on copies: a goroutine is never handed a lock-protected slice or map of its struct as it is", 1)
	goroutinesGetCopies(c, "R7", []string{"gossip", "server"})
	c.Rule("R6", "memory of an object recycled through a sync.Pool never leaves its Get/Put window (returned, stored outside the function, sent)", 1)
	poolEscapes(c, "R6", []string{"server", "protocol", "gossip", "consensus"})
	p := c.P
	c.Rule("R1", "one unconditional send per FSM snapshot, each a distinct copy; single sender", 2)
	c.Rule("R2", "batcher: flush test before append, fresh batch after every publish, non-empty timer flush, snapshot always appended", 5)
	c.Rule("R3", "signature over the whole snapshot, paired with it, no shared scratch state", 2)
	c.Rule("R4", "batch is goroutine-local", 1)
	c.Rule("R5", "key use in Sign / Verify", 2)
	// ---- R1
	isSnapChan := func(t types.Type) bool {
		ch, ok := t.Underlying().(*types.Chan)
		return ok && namedIs(ch.Elem(), "protocol", "Snapshot")
	}
	ab := p.MustMethod(pkgConsensus, "RaftNode", "AddBulk")
	nSend := 0
	abRg := p.RegionOf(ab, 2) // the emission loop may be a helper of the node, used by AddBulk alone
	for _, fn := range p.ModFuncs {
		if !p.Production(fn) {
			continue
		}
		fn := fn
		eachInstr(fn, func(in ssa.Instruction) {
			s, ok := in.(*ssa.Send)
			if !ok || !isSnapChan(s.Chan.Type()) {
				return
			}
			nSend++
			site := abRg.SiteOf(fn)
			if fn != ab {
				callers := 0
				for _, g := range p.ModFuncs {
					callers += len(callsIn(g, func(k *ssa.CallCommon) bool { return k.StaticCallee() == fn }))
				}
				loopedCall := false
				for _, ci := range site.chain {
					if inCycle(ci.Block()) {
						loopedCall = true
					}
				}
				if len(abRg.sites[fn]) != 1 || callers != 1 || loopedCall || fn.Parent() != nil {
					c.Fail("R1", funcName(fn)+":send", in.Pos(), "a second producer writes to the snapshots channel: snapshots can be emitted twice")
					return
				}
			}
			var why []string
			if !inCycle(s.Block()) {
				why = append(why, "the send is not inside the loop over the FSM's snapshots")
			}
			al, isAl := s.X.(*ssa.Alloc)
			if !isAl || !inCycle(al.Block()) {
				why = append(why, "the pointer sent is not to a copy made in the same iteration ("+p.TermOf(s.X).String()+"): all elements of a bulk alias one variable and earlier snapshots are lost / repeated")
			} else {
				whole, _ := p.storesTo(al)
				okSrc := len(whole) == 1
				if okSrc {
					t := abRg.Term(site, whole[0])
					okSrc = t.Op == "index" && strings.Contains(t.Args[1].String(), "µ") && t.Args[0].Has(isRaftResponse)
				}
				if !okSrc {
					why = append(why, "the copy sent is not element i of the FSM response")
				}
			}
			for _, k := range abRg.Conds(regionInstr{site, in}) {
				if k.Atom.Op == "LT" && strings.Contains(k.Atom.String(), "µ") {
					continue
				}
				if k.Atom.Op == "EQ" && (isErrorTerm(k.Atom.Args[0]) || isErrorTerm(k.Atom.Args[1])) {
					continue
				}
				if k.Atom.Op == "EQ" && k.Atom.Has(func(x *Term) bool { return x.Op == "builtin" && x.Name == "len" }) {
					continue // the empty-bulk guard
				}
				why = append(why, "the send happens only under "+k.String())
			}
			c.Check(len(why) == 0, "R1", funcName(fn)+":send", in.Pos(), "one send per element of the FSM response, each its own copy", strings.Join(why, "; "))
		})
	}
	if nSend == 0 {
		c.Fail("R1", "snapshots-channel", ab.Pos(), "nothing is sent on the snapshots channel")
	}
	add := p.MustMethod(pkgConsensus, "RaftNode", "Add")
	delegates := len(callsIn(add, func(k *ssa.CallCommon) bool {
		return k.StaticCallee() != nil && pureForwardTarget(k.StaticCallee()) == ab
	})) == 1
	c.Check(delegates, "R1", funcName(add), add.Pos(), "Add delegates to AddBulk (and does not send itself)", "RaftNode.Add no longer delegates to AddBulk")
	// the published batch reaches the gossip layer: the bus hands every message to its subscribers
	blockingDelivery(c, "R2", p.MustMethod("gossip", "MessageBus", "Publish"), "a published message")
	// ---- R2
	bt := p.MustMethod("server", "Sender", "batcher")
	c17Batcher(c, bt)
	// ---- R3
	ds := p.MustMethod("server", "Sender", "doSign")
	{
		var why []string
		// the signing site by role: whatever function holds the Signer.Sign call (a helper, a plain function
		// with explicit dependencies, or the batcher itself). The snapshot is "what is rendered for signing";
		// the pairing is checked on the SignedSnapshot built from it, wherever in that function it is built.
		hasSenderRecv := len(ds.Params) > 0 && namedIs(ds.Params[0].Type(), "server", "Sender")
		calls := callsIn(ds, func(k *ssa.CallCommon) bool { return k.IsInvoke() && k.Method.Name() == "Sign" })
		if len(calls) != 1 {
			why = append(why, fmt.Sprintf("%d Sign calls", len(calls)))
		} else {
			msg := p.TermOf(callCommon(calls[0]).Args[0])
			// the snapshot value: the single *protocol.Snapshot-typed term rendered as a whole
			var snap *Term
			msg.HasLocal(func(x *Term) bool {
				if x.Op == "list" && len(x.Args) == 1 && x.Args[0].V != nil && namedIs(x.Args[0].V.Type(), "protocol", "Snapshot") {
					snap = x.Args[0]
				}
				return false
			})
			whole := snap != nil && msg.Op == "call" && msg.Fn != nil && strings.HasPrefix(msg.Fn.Name(), "Sprint")
			if snap != nil && !whole {
				whole = !msg.Has(func(x *Term) bool { return x.Op == "field" && x.Args[0].String() == snap.String() })
			}
			if !whole {
				why = append(why, "the signed bytes are "+msg.String()+", not a rendering of the whole snapshot")
			}
			if hasSenderRecv && msg.Has(func(x *Term) bool { return x.Op == "field" && x.Args[0].IsParam(ds, 0) && x.Name != "signer" }) {
				why = append(why, "the signed bytes pass through a field of the Sender ("+msg.String()+"): the batchers run concurrently on copies that share it")
			}
			// pairing
			ok := false
			eachInstr(ds, func(in ssa.Instruction) {
				al, isAl := in.(*ssa.Alloc)
				if !isAl || !namedIs(deref(al.Type()), "protocol", "SignedSnapshot") || snap == nil {
					return
				}
				_, bf := p.storesTo(al)
				if len(bf["Snapshot"]) == 1 && len(bf["Signature"]) == 1 {
					if p.TermOf(bf["Snapshot"][0]).String() == snap.String() && p.TermOf(bf["Signature"][0]).Has(func(x *Term) bool { return x.V == calls[0].(ssa.Value) }) {
						ok = true
					}
				}
			})
			if !ok {
				why = append(why, "the result does not pair the signature with the snapshot it was computed from")
			}
		}
		c.Check(len(why) == 0, "R3", funcName(ds), ds.Pos(), "Sign(render(snapshot)) paired with the same snapshot", strings.Join(why, "; "))
		snapshotHasNoFormatter(c, "R3")
		signerSelfCheck(c, "R5")
		verifyLooksAtTheMessage(c, "R5")
		// buffers must not be shared: the constructor stores no scratch buffers
		ctor := p.MustFunc("server", "NewSenderWithLogger")
		shared := ""
		if al := retAlloc(p, ctor); al != nil {
			_, bf := p.storesTo(al)
			for f, vs := range bf {
				for _, v := range vs {
					if namedIs(deref(v.Type()), "bytes", "Buffer") {
						shared = f
					}
				}
			}
		}
		c.Check(shared == "", "R3", funcName(ctor)+":no-shared-scratch", ctor.Pos(), "no scratch buffer shared between the batchers", "the Sender carries a *bytes.Buffer ("+shared+") that every batcher goroutine shares through its copy of the struct")
	}
	// ---- R4
	{
		captured := false
		for _, a := range Anons(bt) {
			for _, fv := range a.FreeVars {
				if namedIs(deref(deref(fv.Type())), "protocol", "BatchSnapshots") {
					captured = true
				}
			}
		}
		c.Check(!captured, "R4", funcName(bt)+":batch", bt.Pos(), "the batch is a local of the batcher goroutine", "the batch under construction is captured by a closure: another goroutine can touch it")
	}
	// ---- R5
	sg := p.MustMethod("crypto/sign", "Ed25519Signer", "Sign")
	vf := p.MustMethod("crypto/sign", "Ed25519Signer", "Verify")
	okS, okV := false, false
	for _, rt := range p.ReturnTerms(sg) {
		t := p.XLocal(rt[0], sg)
		okS = t.Op == "call" && t.Fn != nil && t.Fn.Name() == "Sign" && t.Args[0].IsField("privateKey", isParam(sg, 0)) && t.Args[1].IsParam(sg, 1)
	}
	for _, rt := range p.ReturnTerms(vf) {
		t := p.XLocal(rt[0], vf)
		okV = t.Op == "call" && t.Fn != nil && t.Fn.Name() == "Verify" && t.Args[0].IsField("publicKey", isParam(vf, 0)) && t.Args[1].IsParam(vf, 1) && t.Args[2].IsParam(vf, 2)
	}
	c.Check(okS, "R5", funcName(sg), sg.Pos(), "ed25519.Sign(privateKey, message)", "Sign does not return ed25519.Sign(s.privateKey, message)")
	c.Check(okV, "R5", funcName(vf), vf.Pos(), "ed25519.Verify(publicKey, message, sig)", "Verify does not return ed25519.Verify(s.publicKey, message, sig)")
}

func c17Batcher(c *Ctx, bt *ssa.Function) {
	p := c.P
	name := funcName(bt)
	isNewBatch := func(in ssa.Instruction) bool {
		cc := callCommon(in)
		if cc == nil {
			return false
		}
		f := cc.StaticCallee()
		return f != nil && f.Signature.Results().Len() == 1 && namedIs(f.Signature.Results().At(0).Type(), "protocol", "BatchSnapshots") || f != nil && false
	}
	isPublish := func(in ssa.Instruction) bool {
		cc := callCommon(in)
		return cc != nil && cc.StaticCallee() != nil && cc.StaticCallee().Name() == "Publish"
	}
	// publishing may be delegated to a helper of the sender (encode + publish): a call to a helper
	// that publishes on every non-error path counts as the publish at that point of the loop
	rg := p.RegionOf(bt, 2)
	isPublishHere := isPublish
	isPublish = rg.deepHit(isPublishHere, mustOpts{skipErrEdges: true}, map[*ssa.Function]int{}, 0)
	isSelect := func(in ssa.Instruction) bool { _, ok := in.(*ssa.Select); return ok }
	errSkip := func(b *ssa.BasicBlock) int {
		ifi := blockIf(b)
		if ifi == nil {
			return -1
		}
		if k := p.errEdge(ifi); k >= 0 {
			return k
		}
		// the boolean verdict of a helper of the package that says "false" only on its own error edges
		// (`if !s.publishBatch(batch) { continue }`): the false outcome is an error edge of the caller
		v, neg := ifi.Cond, false
		for {
			u, ok := v.(*ssa.UnOp)
			if !ok || u.Op != token.NOT {
				break
			}
			v, neg = u.X, !neg
		}
		call, ok := v.(*ssa.Call)
		if !ok || call.Call.StaticCallee() == nil || call.Call.StaticCallee().Pkg != bt.Pkg || !falseOnlyOnError(p, call.Call.StaticCallee()) {
			return -1
		}
		if neg {
			return 0
		}
		return 1
	}
	// the append of the received snapshot
	var app ssa.Instruction
	eachInstr(bt, func(in ssa.Instruction) {
		cc := callCommon(in)
		if cc == nil {
			return
		}
		if b, ok := cc.Value.(*ssa.Builtin); ok && b.Name() == "append" {
			t := p.TermOf(cc.Args[0])
			// what is appended, with structs built on the spot described by their content (the signed
			// snapshot may be assembled inline from the received snapshot)
			e := p.materialise(p.TermOf(cc.Args[1]), bt, 0)
			if t.IsField("Snapshots", nil) && e.Has(func(x *Term) bool { return x.Op == "select" }) {
				app = in
			}
		}
	})
	if app == nil {
		c.Fail("R2", name+":append", bt.Pos(), "the received snapshot is never appended to the batch")
		return
	}
	// (a) flush test precedes the append and its full edge replaces the batch first
	var test *ssa.If
	fullEdge := -1
	for _, b := range bt.Blocks {
		ifi := blockIf(b)
		if ifi == nil {
			continue
		}
		cd := p.condOf(ifi.Cond, true)
		a := cd.Atom
		isLen := func(t *Term) bool { return t.Op == "builtin" && t.Name == "len" && t.Args[0].IsField("Snapshots", nil) }
		isSize := func(t *Term) bool { return t.IsField("BatchSize", nil) }
		if len(a.Args) != 2 || !(isLen(a.Args[0]) && isSize(a.Args[1]) || isLen(a.Args[1]) && isSize(a.Args[0])) {
			continue
		}
		test = ifi
		// which edge means "full" (len >= size)?
		switch {
		case a.Op == "EQ":
			fullEdge = 0
			if !cd.Pol {
				fullEdge = 1
			}
		case a.Op == "LT" && isLen(a.Args[0]): // len < size
			fullEdge = 1
			if !cd.Pol {
				fullEdge = 0
			}
		case a.Op == "LT" && isSize(a.Args[0]): // size < len: "over-full" — flushing only then lets the batch exceed the bound
			fullEdge = -2
		}
	}
	var why []string
	if test == nil {
		why = append(why, "no test of len(batch) against BatchSize")
	} else if fullEdge == -2 {
		why = append(why, "the batch is flushed only when it already exceeds BatchSize")
	} else {
		if !test.Block().Dominates(app.Block()) || test.Block() == app.Block() {
			why = append(why, "the flush-if-full test does not precede the append of the received snapshot: a batch is published only after it has grown beyond BatchSize")
		} else {
			full := test.Block().Succs[fullEdge]
			if reachesWithout(full.Instrs[0], func(in ssa.Instruction) bool { return in == app }, isNewBatch, errSkip) && !isNewBatch(full.Instrs[0]) {
				why = append(why, "on the full edge the snapshot is appended to the old batch (no fresh batch first)")
			}
			if !(isPublish(full.Instrs[0]) || !reachesWithout(full.Instrs[0], func(in ssa.Instruction) bool { return in == app }, isPublish, errSkip)) {
				why = append(why, "on the full edge the batch is replaced without being published")
			}
		}
	}
	c.Check(len(why) == 0, "R2", name+":bound", app.Pos(), "flush-if-full (len vs BatchSize) before append; full ⇒ publish, fresh batch, then append", strings.Join(why, "; "))
	// (b) the received snapshot is appended on every non-error path from the receive to the next select
	var sel ssa.Instruction
	eachInstr(bt, func(in ssa.Instruction) {
		if isSelect(in) {
			sel = in
		}
	})
	// the select's cases by what they wait for, not by position
	recvCase, timerCase := "-1", "-1"
	if ss, ok := sel.(*ssa.Select); ok {
		for i, st := range ss.States {
			ct := p.TermOf(st.Chan)
			switch {
			case ct.Has(func(x *Term) bool {
				return x.Op == "call" && x.Fn != nil && x.Fn.Pkg != nil && x.Fn.Pkg.Pkg.Path() == "time"
			}):
				timerCase = fmt.Sprint(i)
			case st.Dir == types.RecvOnly && ct.IsParam(bt, len(bt.Params)-1):
				recvCase = fmt.Sprint(i)
			}
		}
	}
	if sel != nil {
		// first block of the receive branch: the one dominated by EQ(k, select#0), k the case receiving from the snapshots channel
		var recvEntry *ssa.BasicBlock
		for _, b := range bt.Blocks {
			cs := p.CondsAt(b)
			if hasCond(cs, func(k Cond) bool {
				return k.Pol && k.Atom.Op == "EQ" && k.Atom.Has(func(x *Term) bool { return x.Op == "select" }) && (k.Atom.Args[0].Name == recvCase || k.Atom.Args[1].Name == recvCase)
			}) && (recvEntry == nil || b.Dominates(recvEntry)) {
				recvEntry = b
			}
		}
		lost := recvEntry == nil || reachesWithout(recvEntry.Instrs[0], isSelect, func(in ssa.Instruction) bool { return in == app }, errSkip)
		c.Check(!lost, "R2", name+":conservation", app.Pos(), "every received snapshot is appended before the next receive", "a received snapshot can be dropped: a path leads from the receive back to the select without appending it")
	}
	// (c) every publish is followed by a fresh batch before the next receive, and carries the encoding of the current batch
	n := 0
	for _, ri := range rg.CallsAllSites(func(k *ssa.CallCommon) bool { return k.StaticCallee() != nil && k.StaticCallee().Name() == "Publish" }) {
		if _, isDefer := ri.in.(*ssa.Defer); isDefer {
			continue
		}
		in := rg.Anchor(ri)
		n++
		var resent bool
		if in == ri.in {
			resent = reachesWithout(in, isSelect, isNewBatch, nil)
		} else {
			// the helper's failure edge is the path on which nothing was published
			resent = reachesWithout(in, isSelect, isNewBatch, errSkip)
		}
		msg := rg.lift(ri.site, p.ContentTerm(callCommon(ri.in).Args[1]))
		okPayload := msg.Has(func(x *Term) bool {
			return x.Op == "fieldval" && x.Name == "Payload" && x.Args[0].Has(func(y *Term) bool { return y.Op == "call" && y.Fn != nil && y.Fn.Name() == "Encode" })
		})
		okTTL := msg.Has(func(x *Term) bool { return x.Op == "fieldval" && x.Name == "TTL" && x.Args[0].IsField("TTL", nil) })
		c.Check(!resent && okPayload && okTTL, "R2", fmt.Sprintf("%s:publish#%d", name, n), in.Pos(), "publishes Encode(batch) with the configured TTL, then starts a fresh batch",
			fmt.Sprintf("after this publish the same batch can be published again (no fresh batch before the next receive)=%v; payload is the batch encoding=%v; TTL from configuration=%v", resent, okPayload, okTTL))
		// timer flush only when non-empty
		cs := rg.Conds(ri)
		if hasCond(cs, func(k Cond) bool {
			return k.Atom.Op == "EQ" && k.Atom.Has(func(x *Term) bool { return x.Op == "select" }) && (k.Atom.Args[0].Name == timerCase || k.Atom.Args[1].Name == timerCase) && k.Pol
		}) {
			nonEmpty := hasCond(cs, func(k Cond) bool {
				return k.Pol && k.Atom.Op == "LT" && k.Atom.Args[0].Name == "0" && k.Atom.Args[1].Op == "builtin" && k.Atom.Args[1].Name == "len" ||
					!k.Pol && k.Atom.Op == "EQ" && k.Atom.Has(func(x *Term) bool { return x.Op == "builtin" && x.Name == "len" }) && (k.Atom.Args[0].Name == "0" || k.Atom.Args[1].Name == "0")
			})
			c.Check(nonEmpty, "R2", name+":timer-flush", in.Pos(), "timer publishes only a non-empty batch", "the timer branch publishes without testing that the batch is non-empty")
		}
	}
	if n < 2 {
		c.Fail("R2", name+":publish", bt.Pos(), fmt.Sprintf("%d publish sites (full batch and timer expected)", n))
	}
}
