package main

import (
	"go/token"
	"go/types"
	"sort"
	"strings"

	"golang.org/x/tools/go/ssa"
)

type domInfo struct{}

// Cond is a canonical branch outcome: Atom holds (Pol=true) or does not.
// Canonical atoms: LT(x,y) for x<y; EQ(x,y) with sorted operands; any other
// boolean term as itself.
type Cond struct {
	Atom   *Term
	Pol    bool
	V      ssa.Value
	Branch bool // direction in which V was taken (Pol = polarity of Atom after canonicalisation)
	// Expanded: a positive call to a helper whose own acceptance conditions were merged into the same set
	Expanded bool
}

func (c Cond) String() string {
	if c.Pol {
		return c.Atom.String()
	}
	return "!" + c.Atom.String()
}

// AtomOf canonicalises a boolean SSA value.
func (p *Program) AtomOf(v ssa.Value) (atom *Term, pol bool) {
	pol = true
	for {
		if u, ok := v.(*ssa.UnOp); ok && u.Op == token.NOT {
			pol = !pol
			v = u.X
			continue
		}
		break
	}
	if b, ok := v.(*ssa.BinOp); ok {
		x, y := p.TermOf(b.X), p.TermOf(b.Y)
		lt := func(a, c *Term) *Term { return &Term{Op: "LT", V: v, Args: []*Term{a, c}} }
		switch b.Op {
		case token.LSS:
			return lt(x, y), pol
		case token.GEQ:
			return lt(x, y), !pol
		case token.GTR:
			return lt(y, x), pol
		case token.LEQ:
			return lt(y, x), !pol
		case token.EQL, token.NEQ:
			if x.String() > y.String() {
				x, y = y, x
			}
			t := &Term{Op: "EQ", V: v, Args: []*Term{x, y}}
			if b.Op == token.NEQ {
				return t, !pol
			}
			return t, pol
		}
	}
	return p.TermOf(v), pol
}

func (p *Program) condOf(v ssa.Value, pol bool) Cond {
	a, q := p.AtomOf(v)
	if !pol {
		q = !q
	}
	return Cond{Atom: a, Pol: q, V: v, Branch: pol}
}

func blockIf(b *ssa.BasicBlock) *ssa.If {
	if len(b.Instrs) == 0 {
		return nil
	}
	i, _ := b.Instrs[len(b.Instrs)-1].(*ssa.If)
	return i
}

// CondsAt: branch outcomes that hold on every path from entry to block b
// (engine E-DOM): conditions of dominating If blocks one of whose
// out-edges dominates b.
func (p *Program) CondsAt(b *ssa.BasicBlock) []Cond {
	var out []Cond
	for d := b; d != nil; d = d.Idom() {
		id := d.Idom()
		if id == nil {
			break
		}
		_ = id
	}
	// walk every strict dominator d of b (and check edges d->s)
	for d := b.Idom(); d != nil; d = d.Idom() {
		ifi := blockIf(d)
		if ifi == nil || d.Succs[0] == d.Succs[1] {
			continue
		}
		for k := 0; k < 2; k++ {
			s := d.Succs[k]
			if edgeDominates(d, s, b) {
				out = append(out, p.condOf(ifi.Cond, k == 0))
			}
		}
	}
	return p.withImplied(out)
}

// withImplied: a condition that is the outcome of a boolean helper of the module (`if expired(m)`)
// also tells what the helper tested. The helper's own tests, with its parameters replaced by the
// call's arguments, are appended (the original outcome stays): for a helper with a single return
// statement the returned expression's atom; for a helper returning constants, the branch outcomes
// that hold at its only return of that truth value.
func (p *Program) withImplied(cs []Cond) []Cond {
	out := cs
	for i := 0; i < len(out) && len(out) < 64; i++ {
		out = append(out, p.impliedBy(out[i])...)
	}
	return out
}

func (p *Program) impliedBy(k Cond) []Cond {
	a := k.Atom
	// a boolean kept in a variable: `ok := a && b` is phi[false, b]; ok == true means the edge that
	// carries b was taken with b true (and everything that held there); dually for `a || b`
	if ph, isPhi := k.V.(*ssa.Phi); isPhi && a != nil && isBool(ph.Type()) {
		return p.impliedByBoolPhi(ph, k.Pol)
	}
	if a != nil && a.V != nil {
		if ph, isPhi := a.V.(*ssa.Phi); isPhi && isBool(ph.Type()) && a.Op == "phi" {
			return p.impliedByBoolPhi(ph, k.Pol)
		}
	}
	if a == nil || a.Op != "call" || a.Fn == nil {
		return nil
	}
	g := a.Fn
	if len(g.Blocks) == 0 || g.Pkg == nil || !p.inModule(g.Pkg.Pkg.Path()) || g.Signature.Results().Len() != 1 || !isBool(g.Signature.Results().At(0).Type()) {
		return nil
	}
	if impliedBusy[g] {
		return nil
	}
	impliedBusy[g] = true
	defer delete(impliedBusy, g)
	var rets []*ssa.Return
	for _, b := range g.Blocks {
		if len(b.Instrs) == 0 || b == g.Recover {
			continue
		}
		if r, ok := b.Instrs[len(b.Instrs)-1].(*ssa.Return); ok {
			rets = append(rets, r)
		}
	}
	sub := func(c Cond, flip bool) Cond {
		pol := c.Pol
		if flip {
			pol = !pol
		}
		return Cond{Atom: c.Atom.Subst(g, a.Args), Pol: pol, V: c.V, Branch: c.Branch}
	}
	if len(rets) == 1 {
		v := RetVal(rets[0], 0)
		if _, isConst := v.(*ssa.Const); isConst {
			return nil
		}
		if ph, isPhi := v.(*ssa.Phi); isPhi {
			// `return a && b` / `a || b`: what the wanted outcome implies inside the helper, in the caller's terms
			var out []Cond
			if isBool(ph.Type()) {
				for _, c := range p.impliedByBoolPhi(ph, k.Pol) {
					out = append(out, sub(c, false))
				}
			}
			return out
		}
		c := p.condOf(v, true)
		return []Cond{sub(c, !k.Pol)}
	}
	// constant returns: the unique return yielding k.Pol
	var match *ssa.Return
	for _, r := range rets {
		cst, ok := RetVal(r, 0).(*ssa.Const)
		if !ok || cst.Value == nil {
			return nil
		}
		if (cst.Value.String() == "true") == k.Pol {
			if match != nil {
				return nil
			}
			match = r
		}
	}
	if match == nil {
		return nil
	}
	var out []Cond
	for _, c := range p.CondsAt(match.Block()) {
		out = append(out, sub(c, false))
	}
	return out
}

var impliedBusy = map[*ssa.Function]bool{}

func (p *Program) impliedByBoolPhi(ph *ssa.Phi, want bool) []Cond {
	idx := -1
	for i, e := range ph.Edges {
		if c, isC := e.(*ssa.Const); isC && c.Value != nil {
			if (c.Value.String() == "true") == want {
				return nil // the wanted value can also come from a constant edge: nothing follows
			}
			continue
		}
		if idx >= 0 {
			return nil
		}
		idx = i
	}
	if idx < 0 {
		return nil
	}
	pred := ph.Block().Preds[idx]
	c := p.condOf(ph.Edges[idx], true)
	if !want {
		c.Pol = !c.Pol
	}
	out := []Cond{c}
	out = append(out, p.CondsAtEdge(pred, ph.Block())...)
	return out
}

// edgeDominates: every path to b passes the edge d->s.
func edgeDominates(d, s, b *ssa.BasicBlock) bool {
	if !s.Dominates(b) {
		return false
	}
	// all other predecessors of s must be dominated by s (back edges)
	for _, q := range s.Preds {
		if q == d {
			continue
		}
		if !s.Dominates(q) {
			return false
		}
	}
	return true
}

// CondsAtEdge: outcomes holding when control flows pred->b.
func (p *Program) CondsAtEdge(pred, b *ssa.BasicBlock) []Cond {
	out := p.CondsAt(pred)
	if ifi := blockIf(pred); ifi != nil && pred.Succs[0] != pred.Succs[1] {
		if pred.Succs[0] == b {
			out = append(out, p.withImplied([]Cond{p.condOf(ifi.Cond, true)})...)
		} else if pred.Succs[1] == b {
			out = append(out, p.withImplied([]Cond{p.condOf(ifi.Cond, false)})...)
		}
	}
	return out
}

// CondsAtInstr: outcomes holding at an instruction.
func (p *Program) CondsAtInstr(in ssa.Instruction) []Cond {
	return p.CondsAt(in.Block())
}

func hasCond(cs []Cond, pred func(Cond) bool) bool {
	for _, c := range cs {
		if pred(c) {
			return true
		}
	}
	return false
}

func condStrings(cs []Cond) []string {
	var out []string
	for _, c := range cs {
		out = append(out, c.String())
	}
	sort.Strings(out)
	return out
}

// impliesLE: the conditions imply x <= y, where x and y are recognised by predicates.
func impliesLE(cs []Cond, isX, isY func(*Term) bool) bool {
	for _, c := range cs {
		a := c.Atom
		switch a.Op {
		case "LT":
			// !(y<x)  => x<=y ;  x<y => x<=y
			if !c.Pol && isY(a.Args[0]) && isX(a.Args[1]) {
				return true
			}
			if c.Pol && isX(a.Args[0]) && isY(a.Args[1]) {
				return true
			}
		case "EQ":
			if c.Pol && (isX(a.Args[0]) && isY(a.Args[1]) || isY(a.Args[0]) && isX(a.Args[1])) {
				return true
			}
		}
	}
	return false
}

// impliesLT: the conditions imply x < y.
func impliesLT(cs []Cond, isX, isY func(*Term) bool) bool {
	for _, c := range cs {
		a := c.Atom
		if a.Op == "LT" {
			if c.Pol && isX(a.Args[0]) && isY(a.Args[1]) {
				return true
			}
		}
	}
	return false
}

// ---- path enumeration (E-ACC) ------------------------------------------

// Path is one entry->return path of a loop-free function.
type Path struct {
	Blocks []*ssa.BasicBlock
	Facts  []Cond
	Ret    *ssa.Return
	pred   map[*ssa.BasicBlock]*ssa.BasicBlock
	Panics bool
}

// resolve looks through phis along this path.
func (pa *Path) resolve(v ssa.Value) ssa.Value {
	for i := 0; i < 50; i++ {
		ph, ok := v.(*ssa.Phi)
		if !ok {
			return v
		}
		pb := pa.pred[ph.Block()]
		if pb == nil {
			return v
		}
		found := false
		for k, q := range ph.Block().Preds {
			if q == pb {
				v = ph.Edges[k]
				found = true
				break
			}
		}
		if !found {
			return v
		}
	}
	return v
}

func hasLoop(fn *ssa.Function) bool {
	for _, b := range fn.Blocks {
		for _, s := range b.Succs {
			if s.Dominates(b) {
				return true
			}
		}
	}
	return false
}

// EnumPaths enumerates all entry->exit paths of a loop-free function
// (returns nil,false if the function has a cycle or too many paths).
func (p *Program) EnumPaths(fn *ssa.Function, limit int) ([]*Path, bool) {
	if len(fn.Blocks) == 0 || hasLoop(fn) {
		return nil, false
	}
	var out []*Path
	ok := true
	var blocks []*ssa.BasicBlock
	var facts []Cond
	pred := map[*ssa.BasicBlock]*ssa.BasicBlock{}
	var rec func(b *ssa.BasicBlock)
	rec = func(b *ssa.BasicBlock) {
		if !ok {
			return
		}
		blocks = append(blocks, b)
		defer func() { blocks = blocks[:len(blocks)-1] }()
		last := b.Instrs[len(b.Instrs)-1]
		snapshot := func(ret *ssa.Return, panics bool) {
			pa := &Path{Ret: ret, Panics: panics, pred: map[*ssa.BasicBlock]*ssa.BasicBlock{}}
			pa.Blocks = append(pa.Blocks, blocks...)
			pa.Facts = append(pa.Facts, facts...)
			for k, v := range pred {
				pa.pred[k] = v
			}
			out = append(out, pa)
			if len(out) > limit {
				ok = false
			}
		}
		switch t := last.(type) {
		case *ssa.Return:
			snapshot(t, false)
		case *ssa.Panic:
			snapshot(nil, true)
		case *ssa.If:
			for k := 0; k < 2; k++ {
				s := b.Succs[k]
				// resolve the condition along this path (phi-of-bool from && / ||)
				facts = append(facts, Cond{})
				pa := &Path{pred: pred}
				cv := pa.resolve(t.Cond)
				if c, isC := cv.(*ssa.Const); isC {
					// constant condition on this path: only the matching edge is feasible
					facts = facts[:len(facts)-1]
					val := c.Value != nil && c.Value.String() == "true"
					if val != (k == 0) {
						continue
					}
					old, had := pred[s]
					pred[s] = b
					rec(s)
					if had {
						pred[s] = old
					} else {
						delete(pred, s)
					}
					continue
				}
				facts[len(facts)-1] = p.condOf(cv, k == 0)
				old, had := pred[s]
				pred[s] = b
				rec(s)
				if had {
					pred[s] = old
				} else {
					delete(pred, s)
				}
				facts = facts[:len(facts)-1]
			}
		default:
			for _, s := range b.Succs {
				old, had := pred[s]
				pred[s] = b
				rec(s)
				if had {
					pred[s] = old
				} else {
					delete(pred, s)
				}
			}
		}
	}
	rec(fn.Blocks[0])
	return out, ok
}

// BoolResult evaluates the idx-th result on the path: "true", "false", or
// "maybe" together with the extra facts under which it is true.
func (p *Program) BoolResult(pa *Path, idx int) (string, []Cond) {
	if pa.Ret == nil || idx >= len(pa.Ret.Results) {
		return "false", nil
	}
	v := pa.resolve(pa.Ret.Results[idx])
	pol := true
	for {
		if u, ok := v.(*ssa.UnOp); ok && u.Op == token.NOT {
			pol = !pol
			v = pa.resolve(u.X)
			continue
		}
		break
	}
	if c, ok := v.(*ssa.Const); ok {
		val := c.Value != nil && c.Value.String() == "true"
		if val == pol {
			return "true", nil
		}
		return "false", nil
	}
	return "maybe", []Cond{p.condOf(v, pol)}
}

// ---- must-pass-through (E-MUST) ----------------------------------------

type mustOpts struct {
	start        ssa.Instruction // start after this instruction (nil: function entry)
	skipErrEdges bool            // do not follow the true edge of `err != nil`
	// errReturnsCount: with skipErrEdges, a return of a freshly built / sentinel error is still an exit
	// that counts (resource pairing: a handle must be released before such a return too)
	errReturnsCount bool
	stopAt          func(ssa.Instruction) bool
	panicIsExit     bool                                      // treat panic blocks as exits too (default: only returns)
	skipEdge        func(b *ssa.BasicBlock, succIdx int) bool // do not follow these edges
}

// isErrNonNil reports, for an If, which successor index is the "error" edge
// (value of type error compared != nil), or -1.
func (p *Program) errEdge(ifi *ssa.If) int {
	b, ok := ifi.Cond.(*ssa.BinOp)
	if !ok {
		return -1
	}
	isNil := func(v ssa.Value) bool {
		c, ok := v.(*ssa.Const)
		return ok && c.Value == nil
	}
	var x ssa.Value
	if isNil(b.Y) {
		x = b.X
	} else if isNil(b.X) {
		x = b.Y
	} else {
		return -1
	}
	if !isErrorType(x.Type()) {
		return -1
	}
	switch b.Op {
	case token.NEQ:
		return 0
	case token.EQL:
		return 1
	}
	return -1
}

// definitelyError: v is an error value that cannot be nil — constructed on the spot (fmt.Errorf,
// errors.New, a wrap of another error), a concrete value boxed into the interface, or a package-level
// sentinel. Returning it is an error exit just like the true edge of `err != nil`.
func definitelyError(v ssa.Value) bool {
	if v == nil || !isErrorType(v.Type()) {
		return false
	}
	switch x := v.(type) {
	case *ssa.Call:
		f := x.Call.StaticCallee()
		if f == nil || f.Pkg == nil {
			return false
		}
		switch f.Pkg.Pkg.Path() {
		case "fmt":
			return f.Name() == "Errorf"
		case "errors":
			return f.Name() == "New"
		}
		return false
	case *ssa.MakeInterface:
		return true
	case *ssa.UnOp:
		_, isGlobal := x.X.(*ssa.Global)
		return isGlobal && x.Op == token.MUL
	}
	return false
}

func isErrorType(t types.Type) bool {
	return t != nil && types.Identical(t, types.Universe.Lookup("error").Type())
}

// EscapesWithout finds an exit (return) reachable from the start without
// executing an instruction for which hit returns true. Returns the offending
// exit instruction, or nil if every path passes through a hit.
func (p *Program) EscapesWithout(fn *ssa.Function, hit func(ssa.Instruction) bool, o mustOpts) ssa.Instruction {
	if len(fn.Blocks) == 0 {
		return nil
	}
	type item struct {
		b *ssa.BasicBlock
		i int
	}
	seen := map[*ssa.BasicBlock]bool{}
	var work []item
	if o.start != nil {
		b := o.start.Block()
		for i, in := range b.Instrs {
			if in == o.start {
				work = append(work, item{b, i + 1})
			}
		}
	} else {
		work = append(work, item{fn.Blocks[0], 0})
		seen[fn.Blocks[0]] = true
	}
	for len(work) > 0 {
		it := work[len(work)-1]
		work = work[:len(work)-1]
		b := it.b
		stopped := false
		for i := it.i; i < len(b.Instrs); i++ {
			in := b.Instrs[i]
			if hit(in) {
				stopped = true
				break
			}
			if o.stopAt != nil && o.stopAt(in) {
				stopped = true
				break
			}
			switch t := in.(type) {
			case *ssa.Return:
				if o.skipErrEdges && !o.errReturnsCount && len(t.Results) > 0 && definitelyError(RetVal(t, len(t.Results)-1)) {
					stopped = true // an error exit: the return of an error constructed on the spot or of a sentinel
					break
				}
				return t
			case *ssa.Panic:
				if o.panicIsExit {
					return t
				}
				stopped = true
			}
			if stopped {
				break
			}
		}
		if stopped {
			continue
		}
		skip := -1
		if o.skipErrEdges {
			if ifi := blockIf(b); ifi != nil {
				skip = p.errEdge(ifi)
			}
		}
		for k, s := range b.Succs {
			if k == skip {
				continue
			}
			if o.skipEdge != nil && o.skipEdge(b, k) {
				continue
			}
			if !seen[s] {
				seen[s] = true
				work = append(work, item{s, 0})
			}
		}
	}
	return nil
}

// ---- call helpers -------------------------------------------------------

// callCommon returns the CallCommon of call-like instructions (call, go, defer).
func callCommon(in ssa.Instruction) *ssa.CallCommon {
	switch c := in.(type) {
	case *ssa.Call:
		return &c.Call
	case *ssa.Go:
		return &c.Call
	case *ssa.Defer:
		return &c.Call
	}
	return nil
}

// calleeName gives "pkg.Func", "(pkg.T).M" / "(*pkg.T).M" or "iface:pkg.I.M".
func calleeName(c *ssa.CallCommon) string {
	if c == nil {
		return ""
	}
	if c.IsInvoke() {
		recv := c.Value.Type()
		return "iface:" + typeStr(recv) + "." + c.Method.Name()
	}
	if fn := c.StaticCallee(); fn != nil {
		return funcName(fn)
	}
	if b, ok := c.Value.(*ssa.Builtin); ok {
		return "builtin:" + b.Name()
	}
	return ""
}

// isCallToMethod: call (static or invoke) of a method named `name` whose
// receiver's named type is pkgPath.typeName (pointer or value), or an
// interface of that name.
func isCallToMethod(c *ssa.CallCommon, pkgPath, typeName, name string) bool {
	if c == nil {
		return false
	}
	var recv types.Type
	if c.IsInvoke() {
		if c.Method.Name() != name {
			return false
		}
		recv = c.Value.Type()
	} else {
		fn := c.StaticCallee()
		if fn == nil || fn.Name() != name || fn.Signature.Recv() == nil {
			return false
		}
		recv = fn.Signature.Recv().Type()
	}
	return namedIs(recv, pkgPath, typeName)
}

func namedIs(t types.Type, pkgPath, typeName string) bool {
	if t == nil {
		return false
	}
	t = deref(t)
	n, ok := t.(*types.Named)
	if !ok {
		return false
	}
	if canonTypeName(n) != typeName {
		return false
	}
	if n.Obj().Pkg() == nil {
		return pkgPath == ""
	}
	pp := n.Obj().Pkg().Path()
	return pp == pkgPath || pp == modPkg(pkgPath)
}

// isCallToFunc: static call of package-level function pkgPath.name.
func isCallToFunc(c *ssa.CallCommon, pkgPath, name string) bool {
	if c == nil {
		return false
	}
	fn := c.StaticCallee()
	if fn == nil || fn.Signature.Recv() != nil || fn.Name() != name {
		return false
	}
	obj := fn.Object()
	if obj == nil || obj.Pkg() == nil {
		return false
	}
	return obj.Pkg().Path() == pkgPath || obj.Pkg().Path() == modPkg(pkgPath)
}

// eachInstr visits every instruction of fn (not nested closures).
func eachInstr(fn *ssa.Function, f func(ssa.Instruction)) {
	for _, b := range fn.Blocks {
		for _, in := range b.Instrs {
			f(in)
		}
	}
}

// eachInstrDeep visits fn and all closures nested in it.
func eachInstrDeep(fn *ssa.Function, f func(*ssa.Function, ssa.Instruction)) {
	eachInstr(fn, func(in ssa.Instruction) { f(fn, in) })
	for _, a := range Anons(fn) {
		a := a
		eachInstr(a, func(in ssa.Instruction) { f(a, in) })
	}
}

// callsIn returns the call-like instructions in fn whose callee satisfies pred.
func callsIn(fn *ssa.Function, pred func(*ssa.CallCommon) bool) []ssa.Instruction {
	var out []ssa.Instruction
	eachInstr(fn, func(in ssa.Instruction) {
		if c := callCommon(in); c != nil && pred(c) {
			out = append(out, in)
		}
	})
	return out
}

func lowerFirst(s string) string { return strings.ToLower(s[:1]) + s[1:] }

// ---- acceptance conditions (E-ACC) --------------------------------------

// lastStoreOnPath finds the value most recently stored to the local cell on
// this path before instruction `before` (named results kept in memory
// because a deferred closure captures them).
func (pa *Path) lastStoreOnPath(cell ssa.Value, before ssa.Instruction) ssa.Value {
	started := false
	for bi := len(pa.Blocks) - 1; bi >= 0; bi-- {
		b := pa.Blocks[bi]
		for i := len(b.Instrs) - 1; i >= 0; i-- {
			in := b.Instrs[i]
			if !started {
				if in == before {
					started = true
				}
				continue
			}
			if st, ok := in.(*ssa.Store); ok && st.Addr == cell {
				return st.Val
			}
		}
		if !started && before.Block() != b {
			continue
		}
	}
	return nil
}

// resolveDeep looks through phis and loads of local cells along the path.
func (pa *Path) resolveDeep(v ssa.Value) ssa.Value {
	for i := 0; i < 50; i++ {
		v = pa.resolve(v)
		if u, ok := v.(*ssa.UnOp); ok && u.Op == token.MUL {
			if al, ok := u.X.(*ssa.Alloc); ok {
				if s := pa.lastStoreOnPath(al, u); s != nil {
					v = s
					continue
				}
			}
		}
		return v
	}
	return v
}

// AcceptPaths: for every path on which result #idx may be true, the set of
// branch outcomes that hold on it (plus the returned value itself when it is
// not a constant). Calls to functions for which expand returns true are
// replaced by their own acceptance conditions (bounded depth), so extracting
// a helper does not hide conjuncts. ok=false: not loop-free / too many paths.
func (p *Program) AcceptPaths(fn *ssa.Function, idx int, expand func(*ssa.Function) bool, depth int) ([][]Cond, bool) {
	paths, ok := p.EnumPaths(fn, 4000)
	if !ok {
		return nil, false
	}
	var out [][]Cond
	for _, pa := range paths {
		if pa.Ret == nil || idx >= len(pa.Ret.Results) {
			continue
		}
		v := pa.resolveDeep(pa.Ret.Results[idx])
		pol := true
		for {
			if u, ok := v.(*ssa.UnOp); ok && u.Op == token.NOT {
				pol = !pol
				v = pa.resolveDeep(u.X)
				continue
			}
			break
		}
		conds := append([]Cond{}, pa.Facts...)
		if c, ok := v.(*ssa.Const); ok {
			val := c.Value != nil && c.Value.String() == "true"
			if val != pol {
				continue // rejecting path
			}
		} else {
			conds = append(conds, p.condOf(v, pol))
		}
		alts := [][]Cond{conds}
		if depth > 0 && expand != nil {
			for ci, c := range conds {
				if !c.Pol || c.Atom.Op != "call" || c.Atom.Fn == nil || !expand(c.Atom.Fn) || c.Atom.Fn == fn {
					continue
				}
				sub, ok2 := p.AcceptPaths(c.Atom.Fn, 0, expand, depth-1)
				if !ok2 {
					continue
				}
				var na [][]Cond
				for _, a := range alts {
					for _, s := range sub {
						merged := append([]Cond{}, a...)
						if ci < len(merged) {
							merged[ci].Expanded = true
						}
						for _, sc := range s {
							merged = append(merged, Cond{Atom: sc.Atom.Subst(c.Atom.Fn, c.Atom.Args), Pol: sc.Pol, V: sc.V})
						}
						na = append(na, merged)
					}
				}
				_ = ci
				alts = na
			}
		}
		out = append(out, alts...)
	}
	return out, true
}

// instrReaches: some CFG path leads from a to b (a executed before b on that path).
func instrReaches(a, b ssa.Instruction) bool {
	if a.Block() == b.Block() {
		ia, ib := -1, -1
		for i, in := range a.Block().Instrs {
			if in == a {
				ia = i
			}
			if in == b {
				ib = i
			}
		}
		if ia < ib {
			return true
		}
	}
	seen := map[*ssa.BasicBlock]bool{}
	work := append([]*ssa.BasicBlock{}, a.Block().Succs...)
	for len(work) > 0 {
		x := work[len(work)-1]
		work = work[:len(work)-1]
		if seen[x] {
			continue
		}
		seen[x] = true
		if x == b.Block() {
			return true
		}
		work = append(work, x.Succs...)
	}
	return false
}
