package main

import (
	"fmt"
	"go/types"
	"strings"

	"golang.org/x/tools/go/ssa"
)

func init() {
	register("C12", propMeta{
		Explanation: "Decides that the client-side verification path cannot be aborted by a hostile answer: (R1) each of the three proof verifiers (history membership, history incremental, hyper query) installs, before anything else, a deferred recover() that turns any panic below it into a rejection (named result set to false only); " +
			"(R2) audit-path keys are parsed under a token-count guard; (R3) answers decoded from JSON are nil-tested before they are dereferenced or handed to converters that dereference them, decode errors are not discarded, and a decoded snapshot pointer is checked before it is returned; " +
			"(R4) the verifier traversals terminate: their base case is an order test on the node height decided by a finite order model (an equality test would recurse forever on a forged path length), every recursive call descends to Left/Right of the current position; (R5) the balloon verifier consults the history verifier only under ActualVersion<=QueryVersion and non-nil parts.",
		Added:       "Also (R1) the recover handler does not panic again; (R5) each pointer-typed part of the proof has its own dominating nil test; (R6) the client's request loops make progress on every way round. Third round: (R2) every character index of token parsing is guarded by a length test; (R3) the padding length of a key comes from the hasher in use. Fifth round: the nil test of a decoded answer is required also when decoding goes through a helper.",
		Assumptions: []string{"Go's recover() catches run-time panics (index out of range, nil map) as well as explicit ones; stack exhaustion is not recoverable, hence R4"},
		Declined:    "memory bounds on attacker-sized bodies; totality of the agents against malformed gossip (not a server answer).",
	}, runC12)
}

func runC12(c *Ctx) {
	c.Rule("R1", "recover boundary in every proof verifier", 3)
	c.Rule("R2", "audit-path key parsing guarded by the token count", 1)
	c.Rule("R3", "decoded answers nil-tested before use; decode errors checked", 5)
	c.Rule("R4", "verifier traversals terminate (order-test base case, structural descent)", 4)
	c.Rule("R5", "history verifier reached only under the version guard with non-nil parts", 1)
	p := c.P
	for _, e := range []*ssa.Function{p.MustMethod(pkgHistory, "MembershipProof", "Verify"), p.MustMethod(pkgHistory, "IncrementalProof", "Verify"), p.MustMethod(pkgHyper, "QueryProof", "Verify")} {
		recoverBoundary(c, "R1", e)
	}
	parseGuards(c, "R2")
	tokenCharsGuarded(c, "R2")
	paddingLengthFromHasher(c, "R3")
	decodedAnswers(c, "R3")
	verifierTermination(c, "R4")
	dv := p.MustMethod(pkgBalloon, "MembershipProof", "DigestVerify")
	c02R1(newSub(c, "R5"), dv, p.MustMethod(pkgHyper, "QueryProof", "Verify"), p.MustMethod(pkgHistory, "MembershipProof", "Verify"))
	nilPartsGuarded(c, "R5", dv)
	// the request loops the verifying client runs (callAny, discovery, retrier) make progress on every
	// way round: a verifier that never returns is not total (shared with C20)
	c.Rule("R6", "client request loops behind the verifier make progress on every way round", 3)
	sub := newCtx(p, c.Prop, c.Tier)
	runC20(sub)
	for _, in := range sub.Instances {
		if in.Rule == c.Prop+".R4" {
			in.Rule = c.Prop + ".R6"
			c.Instances = append(c.Instances, in)
		}
	}
}

// nilPartsGuarded: a proof rebuilt from an answer may lack a part; every use of a pointer-typed part of
// the proof as a receiver must be dominated by its own nil test (a joint `a == nil && b == nil` test
// says nothing about either).
func nilPartsGuarded(c *Ctx, rule string, fn *ssa.Function) {
	p := c.P
	n := 0
	// the verifier and the same-package helpers it delegates to, described in the verifier's vocabulary
	r := p.RegionOf(fn, 2)
	r.Instrs(func(site regionSite, in ssa.Instruction) {
		cc := callCommon(in)
		if cc == nil || cc.StaticCallee() == nil || len(cc.Args) == 0 || cc.StaticCallee().Signature.Recv() == nil {
			return
		}
		// receiver = *(p.Part) or p.Part, with Part a pointer-typed field of the proof
		recv := cc.Args[0]
		if u, ok := recv.(*ssa.UnOp); ok {
			if _, isPtr := u.X.Type().Underlying().(*types.Pointer); isPtr {
				if _, isLoad := u.X.(*ssa.UnOp); isLoad {
					recv = u.X
				}
			}
		}
		t := r.Term(site, recv)
		if !(t.Strip().Op == "field" && t.Strip().Args[0].IsParam(fn, 0)) {
			return
		}
		if _, isPtr := recv.Type().Underlying().(*types.Pointer); !isPtr {
			return
		}
		n++
		ts := t.String()
		cs := r.Conds(regionInstr{site, in})
		guarded := hasCond(cs, func(k Cond) bool {
			return !k.Pol && k.Atom.Op == "EQ" && (k.Atom.Args[0].Name == "nil" && k.Atom.Args[1].String() == ts || k.Atom.Args[1].Name == "nil" && k.Atom.Args[0].String() == ts)
		})
		c.Check(guarded, rule, funcName(fn)+":nil-part:"+t.Strip().Name, in.Pos(), "part tested against nil before it is used", "the "+t.Strip().Name+" part of the proof is used as a receiver without its own dominating nil test: an answer lacking that part aborts the verifier (conds: "+strings.Join(condStrings(cs), " ∧ ")+")")
	})
	if n == 0 {
		c.Fail(rule, funcName(fn)+":nil-part", fn.Pos(), "the verifier uses no pointer-typed part of the proof")
	}
}

// newSub lets a rule of another property report under this property's rule id.
func newSub(c *Ctx, rule string) *Ctx {
	return &Ctx{P: c.P, Prop: c.Prop, Tier: c.Tier, floors: c.floors, ruleDoc: c.ruleDoc, info: c.info, alias: rule, parent: c}
}

func recoverBoundary(c *Ctx, rule string, fn *ssa.Function) {
	p := c.P
	name := funcName(fn)
	// a Defer in the entry block of a closure that calls recover() and may only store false into the bool result
	ok := false
	var why string
	if len(fn.Blocks) > 0 {
		for _, in := range fn.Blocks[0].Instrs {
			d, isD := in.(*ssa.Defer)
			if !isD {
				// anything that can panic before the boundary is installed?
				if cc := callCommon(in); cc != nil {
					if _, isB := cc.Value.(*ssa.Builtin); !isB {
						break // a call precedes the defer: boundary not first
					}
				}
				continue
			}
			var cl *ssa.Function
			if mc, isMC := d.Call.Value.(*ssa.MakeClosure); isMC {
				cl = mc.Fn.(*ssa.Function)
			} else if sf := d.Call.StaticCallee(); sf != nil && len(sf.Blocks) > 0 && sf.Pkg != nil && p.inModule(sf.Pkg.Pkg.Path()) {
				// a named deferred function: it must be handed the address of the verifier's boolean result
				for _, a := range d.Call.Args {
					if al, isA := a.(*ssa.Alloc); isA && isBool(deref(al.Type())) && returnsCell(fn, al) {
						cl = sf
					}
				}
			}
			if cl == nil {
				continue
			}
			callsRecover := false
			setsFalse := false
			rethrows := false
			eachInstr(cl, func(i2 ssa.Instruction) {
				if _, isP := i2.(*ssa.Panic); isP {
					rethrows = true
				}
				if cc := callCommon(i2); cc != nil {
					if b, isB := cc.Value.(*ssa.Builtin); isB && b.Name() == "recover" {
						callsRecover = true
					}
				}
				if st, isS := i2.(*ssa.Store); isS {
					if k, isC := st.Val.(*ssa.Const); isC && k.Value != nil && k.Value.String() == "false" {
						setsFalse = true
					}
				}
			})
			if callsRecover && setsFalse && !rethrows {
				ok = true
			}
			if callsRecover && rethrows {
				why = "the deferred recover handler panics again for some recovered values: those aborts (e.g. run-time errors on a malformed digest or path) escape the verifier"
			}
		}
	}
	if !ok && why == "" {
		// list what can abort below
		var sites []string
		for _, f := range p.reachableFrom(fn) {
			eachInstr(f, func(in ssa.Instruction) {
				if _, isP := in.(*ssa.Panic); isP && len(sites) < 4 {
					sites = append(sites, p.pos(in.Pos()))
				}
			})
		}
		why = "the verifier has no deferred recover() installed first that turns a panic into a rejection; explicit panics reachable from it: " + strings.Join(sites, ", ") + " (plus every run-time panic on a missing or malformed audit-path entry)"
	}
	checkDeferredOnlyReject(c, rule, fn)
	c.Check(ok, rule, name, fn.Pos(), "deferred recover() ⇒ result=false installed before any call", why)
}

func parseGuards(c *Ctx, rule string) {
	p := c.P
	fn := p.MustFunc(pkgHistory, "ParseAuditPath")
	n, bad := 0, 0
	rg := p.RegionOf(fn, 2) // the key parsing may be a helper of the package
	rg.Instrs(func(site regionSite, in ssa.Instruction) {
		ia, ok := in.(*ssa.IndexAddr)
		if !ok {
			return
		}
		t := rg.Term(site, ia.X)
		if !(t.Op == "call" && t.Fn != nil && t.Fn.Name() == "Split") {
			return
		}
		idx := rg.Term(site, ia.Index)
		if idx.Op == "const" && idx.Name == "0" {
			return // Split never returns an empty slice
		}
		n++
		cs := rg.Conds(regionInstr{site, in})
		guarded := hasCond(cs, func(k Cond) bool {
			return k.Atom.Has(func(x *Term) bool { return x.Op == "builtin" && x.Name == "len" && x.Args[0].String() == t.String() })
		})
		if !guarded {
			bad++
			c.Fail(rule, funcName(fn)+":token", in.Pos(), "token "+idx.String()+" of a split audit-path key is used without checking how many tokens there are: a key without the separator panics the client")
		}
	})
	if n == 0 {
		c.Fail(rule, funcName(fn), fn.Pos(), "no token beyond the first is read from the split key")
	} else if bad == 0 {
		c.Ok(rule, funcName(fn), fn.Pos(), fmt.Sprintf("%d token use(s) under a length guard", n))
	}
}

// jsonDecodeTarget: the index of the argument cc decodes JSON into — json.Unmarshal's second argument,
// or the argument a module helper hands on to json.Unmarshal (depth levels of helpers); -1 otherwise.
func jsonDecodeTarget(p *Program, cc *ssa.CallCommon, depth int) int {
	if isCallToFunc(cc, "encoding/json", "Unmarshal") {
		return 1
	}
	g := cc.StaticCallee()
	if depth <= 0 || g == nil || g.Pkg == nil || !p.inModule(g.Pkg.Pkg.Path()) || len(g.Blocks) == 0 {
		return -1
	}
	out := -1
	eachInstr(g, func(in ssa.Instruction) {
		c2 := callCommon(in)
		if c2 == nil {
			return
		}
		k := jsonDecodeTarget(p, c2, depth-1)
		if k < 0 || k >= len(c2.Args) {
			return
		}
		if par, ok := c2.Args[k].(*ssa.Parameter); ok && par.Parent() == g {
			out = paramIndex(par)
		}
	})
	return out
}

func decodedAnswers(c *Ctx, rule string) {
	p := c.P
	sp := p.SSAPkg[modPkg("client")]
	n := 0
	for _, fn := range p.ModFuncs {
		if fn.Pkg != sp || !p.Production(fn) {
			continue
		}
		fn := fn
		eachInstr(fn, func(in ssa.Instruction) {
			call, ok := in.(*ssa.Call)
			if !ok {
				return
			}
			tgtIdx := jsonDecodeTarget(p, &call.Call, 2)
			if tgtIdx < 0 {
				return
			}
			n++
			label := funcName(fn) + ":decode"
			// (a) the error is looked at
			used := false
			for _, r := range *call.Referrers() {
				switch r.(type) {
				case *ssa.BinOp, *ssa.Store, *ssa.Return, *ssa.Phi:
					used = true
				}
			}
			if !used {
				c.Fail(rule, label, in.Pos(), "the error of json.Unmarshal is discarded: a body that is not the expected JSON leaves the answer nil or half-filled and it is used regardless")
				return
			}
			// (a') a failed decode ends the call with an error: no success return is reachable from the failure edge
			for _, b := range fn.Blocks {
				ifi := blockIf(b)
				if ifi == nil || p.errEdge(ifi) < 0 {
					continue
				}
				cond := ifi.Cond.(*ssa.BinOp)
				et := p.TermOf(cond.X)
				if et.Op == "const" {
					et = p.TermOf(cond.Y)
				}
				if !et.Has(func(t *Term) bool { return t.V == ssa.Value(call) }) {
					continue
				}
				eb := b.Succs[p.errEdge(ifi)]
				seen := map[*ssa.BasicBlock]bool{eb: true}
				work := []*ssa.BasicBlock{eb}
				for len(work) > 0 {
					x := work[len(work)-1]
					work = work[:len(work)-1]
					if ret, isR := x.Instrs[len(x.Instrs)-1].(*ssa.Return); isR && len(ret.Results) > 0 {
						if k, isC := RetVal(ret, len(ret.Results)-1).(*ssa.Const); isC && k.Value == nil && isErrorType(ret.Results[len(ret.Results)-1].Type()) {
							c.Fail(rule, label+":failure-survived", ret.Pos(), "after a failed json.Unmarshal the function can still return success: the half-decoded answer is used")
							return
						}
					}
					for _, s := range x.Succs {
						if !seen[s] {
							seen[s] = true
							work = append(work, s)
						}
					}
				}
			}
			// (b) the target: &local
			tgt := call.Call.Args[tgtIdx]
			if mi, ok := tgt.(*ssa.MakeInterface); ok {
				tgt = mi.X
			}
			al, ok := tgt.(*ssa.Alloc)
			if !ok {
				c.Ok(rule, label, in.Pos(), "decoded into a caller-supplied value")
				return
			}
			elem := deref(al.Type())
			bad := 0
			checkPtrUses := func(ptrLoad ssa.Value, what string) {
				pt := p.TermOf(ptrLoad)
				for _, r := range *ptrLoad.Referrers() {
					risky := false
					switch u := r.(type) {
					case *ssa.FieldAddr, *ssa.UnOp:
						risky = true
					case *ssa.Call:
						if f := u.Call.StaticCallee(); f != nil && f.Pkg != nil && p.inModule(f.Pkg.Pkg.Path()) {
							risky = true
						}
					case *ssa.Return:
						// returning a possibly-nil answer with a nil error
						if len(u.Results) >= 2 {
							if k, isC := RetVal(u, len(u.Results)-1).(*ssa.Const); isC && k.Value == nil {
								risky = true
							}
						}
					}
					if !risky {
						continue
					}
					cs := p.CondsAt(r.Block())
					guarded := hasCond(cs, func(k Cond) bool {
						return !k.Pol && k.Atom.Op == "EQ" && (k.Atom.Args[0].Name == "nil" && k.Atom.Args[1].String() == pt.String() || k.Atom.Args[1].Name == "nil" && k.Atom.Args[0].String() == pt.String())
					})
					if !guarded {
						bad++
						c.Fail(rule, label+":"+what, r.Pos(), "the decoded "+what+" is used without a nil test: a server answering `null` (or omitting the field) makes the client dereference nil")
					}
				}
			}
			if _, isPtr := elem.Underlying().(*types.Pointer); isPtr {
				for _, r := range *al.Referrers() {
					if u, ok := r.(*ssa.UnOp); ok && instrReachesOrSame(in, u) {
						checkPtrUses(u, "answer")
					}
				}
			} else if st, isStruct := elem.Underlying().(*types.Struct); isStruct {
				for _, r := range *al.Referrers() {
					fa, ok := r.(*ssa.FieldAddr)
					if !ok {
						continue
					}
					if _, isPtr := st.Field(fa.Field).Type().Underlying().(*types.Pointer); !isPtr {
						continue
					}
					for _, r2 := range *fa.Referrers() {
						if u, ok := r2.(*ssa.UnOp); ok {
							checkPtrUses(u, "field "+st.Field(fa.Field).Name())
						}
					}
				}
			}
			if bad == 0 {
				c.Ok(rule, label, in.Pos(), "decode error checked; decoded pointers nil-tested before use")
			}
		})
	}
	if n < 4 {
		c.Fail(rule, "client:decodes", 0, fmt.Sprintf("only %d JSON decodes of server answers found in the client", n))
	}
}

func instrReachesOrSame(a, b ssa.Instruction) bool { return a == b || instrReaches(a, b) }

func verifierTermination(c *Ctx, rule string) {
	p := c.P
	// hyper verifier traversal: base case decided by order model on (pos.Height, auditPathHeight)
	hyV := p.MustMethod(pkgHyper, "QueryProof", "Verify")
	var pr *ssa.Function
	for _, f := range staticCalleesReturning(p, hyV, pkgHyper, "operationsStack") {
		pr = f
	}
	if pr == nil {
		c.Fail(rule, "hyper:verify-traversal", hyV.Pos(), "traversal constructor not found")
	} else {
		var cl *ssa.Function
		for _, a := range Anons(pr) {
			if a.Signature.Params().Len() == 2 {
				cl = a
			}
		}
		if cl == nil {
			c.Fail(rule, "hyper:verify-traversal", pr.Pos(), "recursive closure not found")
		} else {
			posI := 0
			for i, par := range cl.Params {
				if namedIs(par.Type(), pkgHyper, "position") {
					posI = i
					break
				}
			}
			hook := func(t *Term, rec func(*Term) string) (string, bool) {
				if t.IsField("Height", func(b *Term) bool { return b.IsParam(cl, posI) }) {
					return "H", true
				}
				if t.IsParam(pr, 2) {
					return "A", true
				}
				if t.Op == "LT" && t.Has(func(x *Term) bool { return x.Op == "call" && x.Fn != nil && x.Fn.Name() == "Compare" }) {
					return "goLeft", true
				}
				return "", false
			}
			isRec := func(in ssa.Instruction) bool {
				cc := callCommon(in)
				if cc == nil || cc.IsInvoke() {
					return false
				}
				if cc.StaticCallee() != nil {
					return cc.StaticCallee() == cl
				}
				clt := p.TermOf(cc.Value).Resolve("closure")
				return clt != nil && clt.Fn == cl
			}
			tb, ok := p.DecisionTable(cl, hook, isRec)
			if !ok {
				c.Fail(rule, "hyper:verify-traversal", cl.Pos(), "verifier traversal is not loop-free")
			} else {
				classify := func(r dtRow) string {
					if len(r.Effects) > 0 {
						return "recurse"
					}
					return "stop"
				}
				diffs := checkOrderModel(tb, []string{"H", "A", "goLeft"}, 2, classify, func(env map[string]int) string {
					if env["goLeft"] > 1 {
						return ""
					}
					if env["H"] <= env["A"] {
						return "stop"
					}
					return "recurse"
				})
				for _, d := range diffs {
					c.Fail(rule, "hyper:verify-traversal", cl.Pos(), "base case of the verifier traversal: "+d+" (H = node height, A = height implied by the audit-path length, attacker controlled): the recursion must stop as soon as H <= A or a forged path length makes it run past height 0 forever")
				}
				// structural descent
				desc := true
				eachInstr(cl, func(in ssa.Instruction) {
					if !isRec(in) {
						return
					}
					a := p.TermOf(callCommon(in).Args[posI])
					if !(a.Op == "call" && a.Fn != nil && (a.Fn.Name() == "Left" || a.Fn.Name() == "Right") && a.Args[0].IsParam(cl, posI)) {
						desc = false
					}
				})
				if len(diffs) == 0 {
					c.Check(desc, rule, "hyper:verify-traversal", cl.Pos(), "stops exactly when H <= A; recursion only on Left/Right of the current node", "a recursive call of the verifier traversal does not descend to Left()/Right() of the current position")
				}
			}
		}
	}
	// history verifier traversals: IsLeaf (or empty targets) base case first, recursion on Left/Right only
	r := buildHistRoles(c)
	for _, tv := range []*ssa.Function{r.verify, r.incStart, r.incEnd} {
		if tv == nil {
			c.Fail(rule, "history:verify-traversal", 0, "a history verifier traversal is missing")
			continue
		}
		ti := r.m.traversalInfo(tv)
		cl := ti.fn
		okAll := true
		nRec := 0
		eachInstr(cl, func(in ssa.Instruction) {
			cc := callCommon(in)
			if cc == nil || cc.IsInvoke() {
				return
			}
			if cc.StaticCallee() != cl {
				if cc.StaticCallee() != nil {
					return
				}
				clt := p.TermOf(cc.Value).Resolve("closure")
				if clt == nil || clt.Fn != cl {
					return
				}
			}
			nRec++
			a := p.TermOf(cc.Args[ti.posIdx])
			desc := a.Op == "call" && a.Fn != nil && (a.Fn.Name() == "Left" || a.Fn.Name() == "Right") && a.Args[0].IsParam(cl, ti.posIdx)
			cs := p.CondsAt(in.Block())
			base := hasCond(cs, func(k Cond) bool {
				return !k.Pol && k.Atom.Op == "call" && k.Atom.Fn != nil && k.Atom.Fn.Name() == "IsLeaf" && k.Atom.Args[0].IsParam(cl, ti.posIdx)
			})
			if !desc || !base {
				okAll = false
			}
		})
		c.Check(okAll && nRec > 0, rule, "history:"+tv.Name(), cl.Pos(), fmt.Sprintf("%d recursive call(s), each on Left/Right of the current node under !IsLeaf", nRec), "a recursive call of "+tv.Name()+" is not a descent to Left()/Right() of the current position guarded by the leaf test: the recursion may not terminate")
	}
}

// returnsCell: some return of fn yields the content of the local cell (a named result kept in memory).
func returnsCell(fn *ssa.Function, cell *ssa.Alloc) bool {
	for _, b := range fn.Blocks {
		if len(b.Instrs) == 0 {
			continue
		}
		if r, ok := b.Instrs[len(b.Instrs)-1].(*ssa.Return); ok {
			for _, v := range r.Results {
				if u, isU := v.(*ssa.UnOp); isU && u.X == ssa.Value(cell) {
					return true
				}
			}
		}
	}
	return false
}
