package main

import (
	"fmt"
	"go/types"
	"strings"

	"golang.org/x/tools/go/ssa"
)

// roles of the history package resolved through its exported entry points
type histRoles struct {
	m                                  *histModel
	verify, incStart, incEnd           *ssa.Function // verifier traversals
	find, findConsistent, checkConsist *ssa.Function // prover traversals
	insert                             *ssa.Function
	proveMembership, proveConsistency  *ssa.Function
	add, addBulk                       *ssa.Function
	memVerify, incVerify               *ssa.Function
}

func (m *histModel) traversalCallees(p *Program, fn *ssa.Function) []*ssa.Function {
	seen := map[*ssa.Function]bool{}
	var out []*ssa.Function
	eachInstr(fn, func(in ssa.Instruction) {
		cc := callCommon(in)
		if cc == nil {
			return
		}
		f := cc.StaticCallee()
		if f == nil || seen[f] || f.Pkg != m.pkg || f.Signature.Recv() != nil || f.Signature.Results().Len() != 1 {
			return
		}
		if types.Identical(f.Signature.Results().At(0).Type(), m.opIface) && m.traversal(f) != nil {
			seen[f] = true
			out = append(out, f)
		}
	})
	return out
}

func buildHistRoles(c *Ctx) *histRoles {
	p := c.P
	m := buildHistModel(c)
	r := &histRoles{m: m}
	r.memVerify = p.MustMethod(pkgHistory, "MembershipProof", "Verify")
	r.incVerify = p.MustMethod(pkgHistory, "IncrementalProof", "Verify")
	r.proveMembership = p.MustMethod(pkgHistory, "HistoryTree", "ProveMembership")
	r.proveConsistency = p.MustMethod(pkgHistory, "HistoryTree", "ProveConsistency")
	r.add = p.MustMethod(pkgHistory, "HistoryTree", "Add")
	r.addBulk = p.MustMethod(pkgHistory, "HistoryTree", "AddBulk")
	byParams := func(fs []*ssa.Function, n int) *ssa.Function {
		var found *ssa.Function
		for _, f := range fs {
			if f.Signature.Params().Len() == n {
				if found != nil {
					return nil
				}
				found = f
			}
		}
		return found
	}
	r.verify = byParams(m.traversalCallees(p, r.memVerify), 3)
	inc := m.traversalCallees(p, r.incVerify)
	r.incStart, r.incEnd = byParams(inc, 1), byParams(inc, 2)
	pm := m.traversalCallees(p, r.proveMembership)
	r.find, r.findConsistent = byParams(pm, 1), byParams(pm, 2)
	r.checkConsist = byParams(m.traversalCallees(p, r.proveConsistency), 2)
	r.insert = byParams(m.traversalCallees(p, r.add), 2)
	return r
}

func (r *histRoles) side(parent *ssa.Function, sym map[int]string) sibSide {
	s := sibSide{parent: parent, sym: sym}
	if ti := r.m.traversalInfo(parent); ti != nil {
		s.closure, s.posIdx, s.pass = ti.fn, ti.posIdx, ti.pass
	}
	return s
}

func missing(c *Ctx, rule, label string, fns ...*ssa.Function) bool {
	for _, f := range fns {
		if f == nil {
			c.Fail(rule, label, 0, "a traversal constructor of this sibling pair is no longer called from its entry point (prover/verifier entry does not build its pruned tree through a dedicated traversal)")
			return true
		}
	}
	return false
}

// R: membership prover (fast path) ≅ membership verifier under index:=version
func histSibMembership(c *Ctx, rule string, r *histRoles) {
	if missing(c, rule, "find≅verify", r.find, r.verify) {
		return
	}
	a := r.side(r.find, map[int]string{0: "V"})
	b := r.side(r.verify, map[int]string{0: "V", 1: "V"})
	b.getIsRead = true
	r.m.compareTraversals(c, rule, "find≅verify[index:=version]", a, b)
	// the fast path may only be taken when index == version
	p := c.P
	pm := r.proveMembership
	for _, in := range callsIn(pm, func(cc *ssa.CallCommon) bool { return cc.StaticCallee() == r.find }) {
		cs := p.CondsAt(in.Block())
		ok := hasCond(cs, func(k Cond) bool {
			return k.Pol && k.Atom.Op == "EQ" && (k.Atom.Args[0].IsParam(pm, 1) && k.Atom.Args[1].IsParam(pm, 2) || k.Atom.Args[0].IsParam(pm, 2) && k.Atom.Args[1].IsParam(pm, 1))
		})
		arg := p.TermOf(callCommon(in).Args[0])
		ok = ok && (arg.IsParam(pm, 1) || arg.IsParam(pm, 2))
		c.Check(ok, rule, funcName(pm)+":fast-path-guard", in.Pos(), "fast-path traversal only on the index==version edge", "the single-target traversal "+r.find.Name()+" is used without the dominating test index == version (conds: "+strings.Join(condStrings(cs), " ∧ ")+")")
	}
	// the general path gets (index, version) in that order
	if r.findConsistent != nil {
		for _, in := range callsIn(pm, func(cc *ssa.CallCommon) bool { return cc.StaticCallee() == r.findConsistent }) {
			a0, a1 := p.TermOf(callCommon(in).Args[0]), p.TermOf(callCommon(in).Args[1])
			c.Check(a0.IsParam(pm, 1) && a1.IsParam(pm, 2), rule, funcName(pm)+":general-path-args", in.Pos(), "(index, version) in order", fmt.Sprintf("general traversal called with (%s, %s), expected (index, version)", a0, a1))
		}
	} else {
		c.Fail(rule, funcName(pm)+":general-path-args", pm.Pos(), "ProveMembership no longer has a two-target traversal for index != version")
	}
}

// R: consistency prover ≅ incremental-end verifier; incremental-start verifier ≅ single-target prover
func histSibConsistency(c *Ctx, rule string, r *histRoles) {
	if !missing(c, rule, "checkConsistency≅verifyIncrementalEnd", r.checkConsist, r.incEnd) {
		a := r.side(r.checkConsist, map[int]string{0: "S", 1: "E"})
		b := r.side(r.incEnd, map[int]string{0: "S", 1: "E"})
		b.getIsRead = true
		r.m.compareTraversals(c, rule, "checkConsistency≅verifyIncrementalEnd", a, b)
	}
	if !missing(c, rule, "verifyIncrementalStart≅find", r.incStart, r.find) {
		a := r.side(r.incStart, map[int]string{0: "V"})
		b := r.side(r.find, map[int]string{0: "V"})
		a.nodeMerge, b.nodeMerge = true, true
		r.m.compareTraversals(c, rule, "verifyIncrementalStart≅find[leaf↦node]", a, b)
	}
}

// R: insertion computes the same hash shape the prover/verifier recompute
func histInsertShape(c *Ctx, rule string, r *histRoles) {
	if missing(c, rule, "insert≅find[wrappers erased]", r.insert, r.find) {
		return
	}
	a := r.side(r.insert, map[int]string{0: "V"})
	b := r.side(r.find, map[int]string{0: "V"})
	a.eraseAll, b.eraseAll = true, true
	r.m.compareTraversals(c, rule, "insert≅find[wrappers erased]", a, b)
}

// R: freeze rule — a node is persisted/cached exactly when its last descendant is <= version; partial nodes never
func histFreeze(c *Ctx, rule string, r *histRoles) {
	p := c.P
	if missing(c, rule, "insert:freeze", r.insert) {
		return
	}
	s := r.side(r.insert, map[int]string{0: "V"})
	s.keepWraps = true
	tb, ok := p.DecisionTable(s.closure, r.m.hook(s), nil)
	if !ok {
		c.Fail(rule, "insert:freeze", s.closure.Pos(), "insert traversal is not loop-free")
		return
	}
	frozenAtom := ""
	bad := 0
	nInner := 0
	for _, row := range tb.Rows {
		res := row.Result
		switch {
		case strings.HasPrefix(res, "FROZEN(FROZEN(LEAF("), strings.HasPrefix(res, "FROZEN(LEAF("):
			// leaves are always persisted
		case strings.HasPrefix(res, "LEAF("):
			bad++
			c.Fail(rule, "insert:freeze", s.closure.Pos(), "leaf hash is not persisted under {"+factString(row.Facts)+"}")
		case strings.Contains(res, "FROZEN(PARTIAL(") || strings.HasPrefix(res, "FROZEN(FROZEN(PARTIAL("):
			bad++
			c.Fail(rule, "insert:freeze", s.closure.Pos(), "a partial (not yet complete) node is persisted/cached under {"+factString(row.Facts)+"}: its hash will change with later insertions")
		case strings.HasPrefix(res, "FROZEN(") && strings.Contains(res, "INNER("):
			nInner++
			// must be under !LT(V, LastDescendant(pos).Index)
			okFact := false
			for k, v := range row.Facts {
				if !v && strings.HasPrefix(k, "LT(V,") && strings.Contains(k, "LastDescendant") {
					okFact = true
					frozenAtom = k
				}
			}
			if !okFact {
				bad++
				c.Fail(rule, "insert:freeze", s.closure.Pos(), "an inner node is persisted without the dominating test lastDescendant.Index <= version; facts {"+factString(row.Facts)+"}")
			}
		case strings.HasPrefix(res, "INNER("):
			nInner++
			okFact := false
			for k, v := range row.Facts {
				if v && strings.HasPrefix(k, "LT(V,") && strings.Contains(k, "LastDescendant") {
					okFact = true
				}
			}
			if !okFact {
				bad++
				c.Fail(rule, "insert:freeze", s.closure.Pos(), "a complete inner node is left unpersisted although nothing shows its last descendant is beyond version; facts {"+factString(row.Facts)+"}")
			}
		}
	}
	if nInner < 2 {
		bad++
		c.Fail(rule, "insert:freeze", s.closure.Pos(), "insert traversal no longer distinguishes frozen from unfrozen inner nodes")
	}
	if bad == 0 {
		c.Ok(rule, "insert:freeze", s.closure.Pos(), "inner nodes persisted exactly under !"+frozenAtom+"; partial never; leaves always")
	}
}

// R: hash formulas of the three visitors
func histFormulas(c *Ctx, rule string, r *histRoles) {
	p := c.P
	m := r.m
	for _, vt := range m.visitors {
		ms := p.SSA.MethodSets.MethodSet(types.NewPointer(vt))
		seen := map[string]bool{}
		for i := 0; i < ms.Len(); i++ {
			fn := p.SSA.MethodValue(ms.At(i))
			if fn == nil || fn.Synthetic != "" || fn.Signature.Params().Len() != 1 {
				continue
			}
			pt, ok := fn.Signature.Params().At(0).Type().(*types.Named)
			if !ok {
				continue
			}
			kind := m.kinds[pt]
			if kind != "LEAF" && kind != "INNER" && kind != "PARTIAL" {
				continue
			}
			seen[kind] = true
			label := vt.Obj().Name() + ":" + kind
			msg := checkHistFormula(p, m, fn, pt, kind)
			c.Check(msg == "", rule, label, fn.Pos(), "H(data… ‖ position) with the expected operands", msg)
		}
		for _, k := range []string{"LEAF", "INNER", "PARTIAL"} {
			if !seen[k] {
				c.Fail(rule, vt.Obj().Name()+":"+k, 0, "visitor has no hashing method for this node kind")
			}
		}
	}
}

// checkHistFormula: every return of the visit method is hasher.Salted(op.Position().Bytes(), <operands>)
func checkHistFormula(p *Program, m *histModel, fn *ssa.Function, pt *types.Named, kind string) string {
	rets := 0
	var msg string
	st := pt.Underlying().(*types.Struct)
	var opFields []string
	var byteField string
	for i := 0; i < st.NumFields(); i++ {
		if types.Identical(st.Field(i).Type(), m.opIface) {
			opFields = append(opFields, st.Field(i).Name())
		} else if isByteSlice(st.Field(i).Type()) {
			byteField = st.Field(i).Name()
		}
	}
	isOp := func(t *Term) bool { return t.IsParam(fn, 1) }
	for _, b := range fn.Blocks {
		ret, ok := b.Instrs[len(b.Instrs)-1].(*ssa.Return)
		if !ok {
			continue
		}
		rets++
		call, ok := ret.Results[0].(*ssa.Call)
		if !ok {
			if ct, ok2 := ret.Results[0].(*ssa.ChangeType); ok2 {
				call, ok = ct.X.(*ssa.Call)
			}
		}
		if !ok || !call.Call.IsInvoke() || call.Call.Method.Name() != "Salted" || !namedIs(call.Call.Value.Type(), "crypto/hashing", "Hasher") {
			return "returned digest is not the direct result of Hasher.Salted: " + p.TermOf(ret.Results[0]).String()
		}
		hasherT := p.TermOf(call.Call.Value)
		if !hasherT.Has(func(t *Term) bool { return t.IsParam(fn, 0) }) {
			return "hasher is not the visitor's own: " + hasherT.String()
		}
		salt := p.Inline(p.TermOf(call.Call.Args[0]), 3)
		// salt derives from the node's position serialisation and from nothing else of the node
		if !salt.Has(func(t *Term) bool { return isArrayField(t) }) || !salt.Has(isOp) {
			return "salt is not the serialised position of the visited node: " + salt.String()
		}
		elems, ok := variadicElems(call.Call.Args[1])
		if !ok {
			return "data operands of Salted are not an explicit argument list"
		}
		want := 1
		if kind == "INNER" {
			want = 2
		}
		if len(elems) != want {
			return fmt.Sprintf("%d data operand(s) hashed, the construction has %d for a %s node", len(elems), want, kind)
		}
		for i, e := range elems {
			t := p.TermOf(e)
			if kind == "LEAF" {
				if !t.IsField(byteField, isOp) {
					return "leaf payload hashed is " + t.String() + ", expected the node's value"
				}
				continue
			}
			// child digest: result of Accept on the i-th child with this visitor
			okc := t.Op == "invoke" && t.Name == "Accept" && len(t.Args) == 2 && t.Args[0].IsField(opFields[i], isOp) && t.Args[1].IsParam(fn, 0)
			if !okc {
				return fmt.Sprintf("data operand #%d is %s, expected the digest of child %s computed by this visitor", i, t.String(), opFields[i])
			}
		}
	}
	if rets == 0 {
		return "no return"
	}
	return msg
}

func isArrayField(t *Term) bool {
	if t.Op != "field" || t.V == nil {
		return false
	}
	ty := t.V.Type()
	if pt, ok := ty.Underlying().(*types.Pointer); ok {
		ty = pt.Elem()
	}
	_, ok := ty.Underlying().(*types.Array)
	return ok
}

// R: audit-path key agreement — the key under which the prover records a
// digest and the key under which the verifier looks it up are both the
// serialised position of the node.
func histAuditKeys(c *Ctx, rule string, r *histRoles) {
	p := c.P
	m := r.m
	nW, nR := 0, 0
	for _, vt := range m.visitors {
		ms := p.SSA.MethodSets.MethodSet(types.NewPointer(vt))
		for i := 0; i < ms.Len(); i++ {
			fn := p.SSA.MethodValue(ms.At(i))
			if fn == nil || fn.Synthetic != "" || fn.Signature.Params().Len() != 1 {
				continue
			}
			pt, ok := fn.Signature.Params().At(0).Type().(*types.Named)
			if !ok {
				continue
			}
			isOp := func(t *Term) bool { return t.IsParam(fn, 1) }
			switch {
			case pt == m.collect:
				eachInstr(fn, func(in ssa.Instruction) {
					mu, ok := in.(*ssa.MapUpdate)
					if !ok {
						return
					}
					nW++
					key := p.Inline(p.TermOf(mu.Key), 3)
					val := p.TermOf(mu.Value)
					okKey := key.Has(isArrayField) && key.Has(isOp)
					okVal := val.Op == "invoke" && val.Name == "Accept" && val.Args[0].Has(isOp)
					c.Check(okKey && okVal, rule, vt.Obj().Name()+":collect-key", in.Pos(), "audit path[serialised position of node] = digest of node", "collected entry is keyed by "+key.String()+" with value "+val.String()+"; expected the node's serialised position ↦ the node's own digest")
				})
			case m.kinds[pt] == "GET":
				// the read: cache.Get(key) with key = serialised position
				eachInstr(fn, func(in ssa.Instruction) {
					cc := callCommon(in)
					if cc == nil || !cc.IsInvoke() || cc.Method.Name() != "Get" {
						return
					}
					nR++
					key := p.Inline(p.TermOf(cc.Args[0]), 3)
					c.Check(key.Has(isArrayField) && key.Has(isOp), rule, vt.Obj().Name()+":read-key", in.Pos(), "lookup keyed by the node's serialised position", "lookup keyed by "+key.String()+", expected the node's serialised position")
				})
			}
		}
	}
	if nW == 0 {
		c.Fail(rule, "collect-key", 0, "no visitor records collected digests into an audit path")
	}
	// AuditPath.Get: the fixed-size key is filled from the parameter
	if get := p.Method(pkgHistory, "AuditPath", "Get"); get != nil {
		okCopy, okLookup := false, false
		eachInstr(get, func(in ssa.Instruction) {
			if cc := callCommon(in); cc != nil {
				if b, ok := cc.Value.(*ssa.Builtin); ok && b.Name() == "copy" && p.TermOf(cc.Args[1]).IsParam(get, 1) {
					okCopy = true
				}
			}
			if lk, ok := in.(*ssa.Lookup); ok && p.TermOf(lk.X).IsParam(get, 0) {
				okLookup = true
			}
		})
		c.Check(okCopy && okLookup, rule, "AuditPath.Get", get.Pos(), "fixed key copied from the position bytes, then looked up in the path", "AuditPath.Get no longer looks the copied position bytes up in the receiver map")
	} else {
		c.Fail(rule, "AuditPath.Get", 0, "history.AuditPath has no Get method")
	}
	_ = nR
}

// R: audit-path wire codec — Serialize renders (BE64 of key[:8], BE16 of key[8:])
// with one separator; ParseAuditPath splits on the same separator and rebuilds
// key[:8] from token 0 at full 64-bit width and key[8:] from token 1.
func histAuditCodec(c *Ctx, rule string) {
	p := c.P
	ser := p.MustMethod(pkgHistory, "AuditPath", "Serialize")
	par := p.MustFunc(pkgHistory, "ParseAuditPath")
	isConst := func(t *Term, vals ...string) bool {
		if t.Op != "const" {
			return false
		}
		for _, v := range vals {
			if t.Name == v {
				return true
			}
		}
		return false
	}
	utilCall := func(t *Term, name string) bool {
		return t.Op == "call" && t.Fn != nil && t.Fn.Name() == name && t.Fn.Pkg != nil && t.Fn.Pkg.Pkg.Path() == modPkg("util")
	}
	// --- writer
	format, sep := "", ""
	okW := false
	serRg := p.RegionOf(ser, 2) // the key rendering may live in a helper of the package
	serRg.Instrs(func(site regionSite, in ssa.Instruction) {
		cc := callCommon(in)
		if cc == nil || !isCallToFunc(cc, "fmt", "Sprintf") {
			return
		}
		t := serRg.Term(site, in.(ssa.Value))
		if len(t.Args) != 2 || t.Args[0].Op != "const" || t.Args[1].Op != "list" || len(t.Args[1].Args) != 2 {
			return
		}
		format = strings.Trim(t.Args[0].Name, `"`)
		a, b := t.Args[1].Args[0], t.Args[1].Args[1]
		okA := utilCall(a, "BytesAsUint64") && a.Args[0].Op == "slice" && isConst(a.Args[0].Args[1], "_", "0") && isConst(a.Args[0].Args[2], "8")
		okB := utilCall(b, "BytesAsUint16") && b.Args[0].Op == "slice" && isConst(b.Args[0].Args[1], "8") && isConst(b.Args[0].Args[2], "_", "10")
		if okA && okB && strings.HasPrefix(format, "%d") && strings.HasSuffix(format, "%d") && len(format) > 4 {
			sep = format[2 : len(format)-2]
			okW = true
		}
	})
	c.Check(okW, rule, funcName(ser)+":writer", ser.Pos(), fmt.Sprintf("key rendered as %q of (BE64 key[:8], BE16 key[8:])", format), "AuditPath.Serialize no longer renders its keys as <uint64 of key[:8]><sep><uint16 of key[8:]> (format "+format+")")
	// --- reader
	type cp struct {
		lo, hi string
		src    *Term
		pos    ssa.Instruction
	}
	var cps []cp
	parRg := p.RegionOf(par, 2)
	parRg.Instrs(func(site regionSite, in ssa.Instruction) {
		cc := callCommon(in)
		if cc == nil {
			return
		}
		if b, ok := cc.Value.(*ssa.Builtin); !ok || b.Name() != "copy" {
			return
		}
		dst, src := parRg.Term(site, cc.Args[0]), parRg.Term(site, cc.Args[1])
		if dst.Op == "slice" && dst.Args[1].Op == "const" && dst.Args[2].Op == "const" {
			cps = append(cps, cp{dst.Args[1].Name, dst.Args[2].Name, src, in})
		}
	})
	parseOf := func(t *Term, tokenIdx string, minBits int) string {
		// t = parse(strings.Split(k, sep)[tokenIdx])#0
		var why string
		found := t.Has(func(x *Term) bool {
			if x.Op != "call" || x.Fn == nil || x.Fn.Pkg == nil || x.Fn.Pkg.Pkg.Path() != "strconv" {
				return false
			}
			tok := x.Args[0]
			if tok.Op != "index" || !isConst(tok.Args[1], tokenIdx) || !(tok.Args[0].Op == "call" && tok.Args[0].Fn != nil && tok.Args[0].Fn.Name() == "Split" && len(tok.Args[0].Args) == 2 && isConst(tok.Args[0].Args[1], `"`+sep+`"`)) {
				why = "token is " + tok.String()
				return false
			}
			switch x.Fn.Name() {
			case "Atoi":
				return true
			case "ParseInt", "ParseUint":
				if len(x.Args) == 3 && x.Args[2].Op == "const" {
					if x.Args[2].Name == "0" {
						return true
					}
					var n int
					fmt.Sscanf(x.Args[2].Name, "%d", &n)
					if n >= minBits {
						return true
					}
					why = fmt.Sprintf("parsed with bit size %d < %d", n, minBits)
				}
			}
			return false
		})
		if found {
			return ""
		}
		if why == "" {
			why = "not parsed from token " + tokenIdx + " of the key split on " + sep
		}
		return why
	}
	var okIdx, okH bool
	var whyIdx, whyH string = "no copy into key[:8]", "no copy into key[8:]"
	for _, k := range cps {
		if (k.lo == "_" || k.lo == "0") && k.hi == "8" {
			if utilCall(k.src, "Uint64AsBytes") {
				whyIdx = parseOf(k.src, "0", 64)
				okIdx = whyIdx == ""
			} else {
				whyIdx = "key[:8] ← " + k.src.String()
			}
		}
		if k.lo == "8" && (k.hi == "_" || k.hi == "10") {
			if utilCall(k.src, "Uint16AsBytes") {
				whyH = parseOf(k.src, "1", 16)
				okH = whyH == ""
			} else {
				whyH = "key[8:] ← " + k.src.String()
			}
		}
	}
	c.Check(okIdx, rule, funcName(par)+":index", par.Pos(), "key[:8] ← BE64(parse64(token 0))", "index part of the audit-path key: "+whyIdx)
	c.Check(okH, rule, funcName(par)+":height", par.Pos(), "key[8:] ← BE16(parse(token 1))", "height part of the audit-path key: "+whyH)
}

// R: collect discipline of the provers — a node hash that the prover reads from its cache and
// does not recompute is part of what the verifier needs, so it must be recorded in the audit
// path (wrapped by the collecting node) unless the traversal is already inside a subtree that
// was recorded as a whole (the traversal's boolean flag). A bare cache read outside such a
// subtree yields a proof the verifier cannot complete.
func histCollectDiscipline(c *Ctx, rule string, r *histRoles) {
	p := c.P
	for _, k := range []struct {
		name string
		fn   *ssa.Function
		sym  map[int]string
	}{
		{"find", r.find, map[int]string{0: "V"}},
		{"findConsistent", r.findConsistent, map[int]string{0: "I", 1: "V"}},
		{"checkConsistency", r.checkConsist, map[int]string{0: "S", 1: "E"}},
	} {
		label := "prover:" + k.name + ":collect"
		if k.fn == nil {
			c.Fail(rule, label, 0, "prover traversal not found")
			continue
		}
		s := r.side(k.fn, k.sym)
		if s.closure == nil {
			c.Fail(rule, label, k.fn.Pos(), "traversal closure not found")
			continue
		}
		tb, ok := p.DecisionTable(s.closure, r.m.hook(s), nil)
		if !ok {
			c.Fail(rule, label, s.closure.Pos(), "prover traversal is not loop-free")
			continue
		}
		// boolean parameters of the traversal ("already inside a recorded subtree")
		flags := map[string]bool{}
		for i, par := range s.closure.Params {
			if isBool(par.Type()) {
				flags[fmt.Sprintf("arg%d", i)] = true
			}
		}
		bad := 0
		nGet := 0
		for _, row := range tb.Rows {
			res := row.Result
			bare := false
			for i := 0; i+4 <= len(res); i++ {
				if res[i:i+4] == "GET(" && !(i >= 8 && res[i-8:i] == "COLLECT(") {
					bare = true
				}
			}
			if strings.Contains(res, "GET(") {
				nGet++
			}
			if !bare {
				continue
			}
			inside := false
			for f := range flags {
				if v, has := row.Facts[f]; has && v {
					inside = true
				}
			}
			if !inside {
				bad++
				c.Fail(rule, label, s.closure.Pos(), "under {"+factString(row.Facts)+"} the prover reads a cached hash ("+res+") without recording it in the audit path and outside an already recorded subtree: the verifier will miss that node")
			}
		}
		if nGet == 0 {
			bad++
			c.Fail(rule, label, s.closure.Pos(), "the prover traversal reads no cached hash at all")
		}
		if bad == 0 {
			c.Ok(rule, label, s.closure.Pos(), fmt.Sprintf("%d row(s) read the cache, each recorded or inside a recorded subtree", nGet))
		}
	}
}
