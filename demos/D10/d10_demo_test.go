package consensus

import (
	"fmt"
	"os"
	"testing"
	"time"

	"github.com/stretchr/testify/require"
)

// A node whose store already holds applied entries (e.g. restored from a backup) but whose raft
// log is new: the first proposals get raft indexes below the persisted applied index, the FSM
// refuses them ({err, nil}) and RaftNode.AddBulk must report that refusal, not panic.
func TestD10RefusedEntryIsReportedNotPanicked(t *testing.T) {
	node, clean, err := newSeed(t.Name(), 1)
	require.NoError(t, err)
	require.Truef(t, retryTrue(50, 200*time.Millisecond, node.IsLeader), "not leader")
	for i := 0; i < 6; i++ {
		_, err := node.AddBulk([][]byte{[]byte(fmt.Sprintf("event %d", i))})
		require.NoError(t, err)
	}
	require.NoError(t, node.Close(true))
	clean(false)
	// new raft log, same store
	require.NoError(t, os.RemoveAll(fmt.Sprintf("/var/tmp/cluster-test/node_%s_1/raft", t.Name())))

	node, clean, err = newSeed(t.Name(), 1)
	require.NoError(t, err)
	defer func() {
		_ = node.Close(true)
		clean(true)
	}()
	require.Truef(t, retryTrue(50, 200*time.Millisecond, node.IsLeader), "not leader")

	var panicked interface{}
	var addErr error
	func() {
		defer func() { panicked = recover() }()
		_, addErr = node.AddBulk([][]byte{[]byte("after restore")})
	}()
	require.Nilf(t, panicked, "AddBulk panicked on an entry the FSM refused: %v", panicked)
	require.Error(t, addErr, "the refusal of the FSM must reach the caller as an error")
}
